//@unit chrom_pipe
//@serves C01 C02 C07 C08 C09
//@backend verus
// bbiwrite::write_chroms_with_zooms / write_chroms_without_zooms: the writer task of the single-pass writers.
// It receives one message per chromosome (set up by `setup_chrom`, unit chrom_ids), redirects the chromosome's
// staged data to the real file and every zoom level's staged data to THAT level's writer, waits for the
// chromosome's write tasks and collects section lists and the maximum uncompressed block size.
//   C01/C02/C09: the file gets every chromosome's staged bytes, in message order, nothing else; section_iter lists
//     the chromosomes' section receivers in the same order (unit sec_offsets rebases offsets in that order).
//   C07/C08: level r's writer receives exactly the level-r staged bytes of every chromosome, in chromosome order,
//     and zoom.0 the level-r section lists -- keyed by RESOLUTION, never by position.
//   C09: max_uncompressed_buf_size is the maximum over ALL data and zoom write results.
//   An Err of any write task is returned; the loop ends when the mailbox is closed and empty.
// Rule R1: `async`/`.await` are stripped; the body is verified as running to completion.  Concurrency, blocking and
// wake-ups are NOT modelled (see NOTES.md).
use vstd::prelude::*;
verus! {

// =====================================================================================
// shims (R11): assumed contracts
// =====================================================================================
#[verifier::external_body]
pub struct IoErr { _p: u8 }
/// anything that accumulates bytes: BufWriter<W> (the output file), TempFileBufferWriter<File> (a level's writer)
pub trait HasBytes: Sized {
    spec fn bytes(&self) -> Seq<u8>;
}
/// BufWriter<W>
#[verifier::external_body]
pub struct OutFile { _p: u8 }
impl HasBytes for OutFile { uninterp spec fn bytes(&self) -> Seq<u8>; }
/// TempFileBufferWriter<File>: the producer half of a zoom level's own staging file
#[verifier::external_body]
pub struct ZoomWriter { _p: u8 }
impl HasBytes for ZoomWriter { uninterp spec fn bytes(&self) -> Seq<u8>; }
/// TempFileBuffer<File>: the consumer half of a zoom level's staging file (only carried along here)
#[verifier::external_body]
pub struct LevelBuf { _p: u8 }

/// tokio JoinHandle<Result<(usize, usize), ProcessDataError>> of one `write_data` task (unit sec_offsets:
/// (number of sections, max uncompressed block size) or the first error).  `cid()`: which channel it serves.
#[verifier::external_body]
pub struct WriteHandle { _p: u8 }
impl WriteHandle {
    pub uninterp spec fn cid(&self) -> int;
    pub uninterp spec fn result(&self) -> Result<(usize, usize), ProcessDataError>;
    /// `handle.await.unwrap()`: the task's result; a PANICKED task makes `.unwrap()` panic (JoinError) -- not modelled
    #[verifier::external_body]
    pub fn unwrap(self) -> (r: Result<(usize, usize), ProcessDataError>) ensures r == self.result() { unimplemented!() }
}
/// crossbeam Receiver<Section> / its IntoIter: opaque; `iter_of(rx)` is the iterator over rx
#[verifier::external_body]
pub struct SecRecv { _p: u8 }
#[verifier::external_body]
pub struct SecIter { _p: u8 }
pub uninterp spec fn iter_of(rx: SecRecv) -> SecIter;
impl SecRecv {
    #[verifier::external_body]
    pub fn into_iter(self) -> (r: SecIter) ensures r == iter_of(self) { unimplemented!() }
}

/// TempFileBuffer<R>, consumer half, per unit tfb.  Ghost: `staged()` = everything the producer (the write_data
/// task of channel `cid()`) has written when it finishes; `dest()` = the destination handed over by `switch`.
///  * switch            = tfb `switch/pre_invariant_and_switch_called_at_most_once` (requires: not switched yet),
///                        `switch/destination_handed_over_untouched`
///  * await_real_file   = tfb `await_real_file/pre_published_invariant_and_switched` (requires: switched AND the
///                        producer has published its final state, i.e. the write task has finished -- tfb verifies
///                        the method for exactly that situation, the waiting itself is R13 and not modelled),
///                        `await_real_file/destination_holds_d0_then_all_written_bytes_once_in_order`
///    `done` is the ghost set of channels whose write task this function has already joined.
#[verifier::external_body]
#[verifier::reject_recursive_types(R)]
pub struct StageBuf<R> { _p: core::marker::PhantomData<R> }
impl<R: HasBytes> StageBuf<R> {
    pub uninterp spec fn cid(&self) -> int;
    pub uninterp spec fn staged(&self) -> Seq<u8>;
    pub uninterp spec fn dest(&self) -> Option<R>;
    #[verifier::external_body]
    pub fn switch(&mut self, new_file: R)
        requires
            [[L: tfb/switch_called_at_most_once]]
            old(self).dest() is None,
        ensures
            final(self).dest() == Some(new_file), final(self).staged() == old(self).staged(), final(self).cid() == old(self).cid(),
    { unimplemented!() }
    #[verifier::external_body]
    pub fn await_real_file(self, Ghost(done): Ghost<Set<int>>) -> (d: R)
        requires
            [[L: tfb/await_real_file_needs_a_switched_buffer]]
            self.dest() is Some,
            [[L: tfb/await_real_file_only_after_the_write_task_has_finished]]
            done.contains(self.cid()),
        ensures
            d.bytes() == self.dest().unwrap().bytes() + self.staged(),
    { unimplemented!() }
}

/// futures mpsc UnboundedReceiver<M>: ASSUMED = a finite queue of messages delivered in send order; `None` when
/// the sender is dropped and the queue is empty.
#[verifier::external_body]
#[verifier::reject_recursive_types(M)]
pub struct Mailbox<M> { _p: core::marker::PhantomData<M> }
impl<M> Mailbox<M> {
    pub uninterp spec fn queue(&self) -> Seq<M>;
    #[verifier::external_body]
    pub fn next(&mut self) -> (r: Option<M>)
        ensures
            old(self).queue().len() == 0 ==> r.is_none() && final(self).queue() == old(self).queue(),
            old(self).queue().len() > 0 ==> r == Some(old(self).queue()[0]) && final(self).queue() == old(self).queue().drop_first(),
    { unimplemented!() }
    // plausible foreign call, nothing promised
    #[verifier::external_body]
    pub fn try_next(&mut self) -> Option<M> { unimplemented!() }
}

/// `Option::replace` (no vstd specification)
pub assume_specification<T>[ Option::<T>::replace ](o: &mut Option<T>, v: T) -> (r: Option<T>)
    ensures *final(o) == Some(v), r == *old(o);
/// `X.unwrap()` on the two Options the code unwraps: verified helpers whose precondition carries a label
fn level_present<T>(o: Option<T>) -> (r: T)
    requires
        [[L: unwrap/there_is_a_level_for_the_resolution]]
        o is Some,
    ensures o == Some(r),
{ o.unwrap() }
fn slot_filled<T>(o: Option<T>) -> (r: T)
    requires
        [[L: unwrap/the_level_writer_is_in_its_slot]]
        o is Some,
    ensures o == Some(r),
{ o.unwrap() }

// =====================================================================================
// the repository's types
// =====================================================================================
//@extract enum bigtools/src/bbi/bbiwrite.rs ProcessDataError
//@rule R8
//@sub /[ \t]*#\[error\([^\n]*\)\]\n/ => "" min=0
//@sub /#\[from\] io::Error/ => IoErr min=0
//@end
//@extract struct bigtools/src/bbi/bbiwrite.rs TempZoomInfo
//@rule R8
//@sub /tokio::task::JoinHandle<Result<\(usize, usize\), ProcessDataError>>/ => WriteHandle
//@sub /TempFileBuffer<TempFileBufferWriter<File>>/ => StageBuf<ZoomWriter>
//@sub /crossbeam_channel::Receiver<Section>/ => SecRecv
//@end
//@extract type bigtools/src/bbi/bbiwrite.rs ZoomValue
//@rule R8
//@sub /crossbeam_channel::IntoIter<Section>/ => SecIter
//@sub /TempFileBuffer<File>/ => LevelBuf
//@sub /TempFileBufferWriter<File>/ => ZoomWriter
//@end
//@extract type bigtools/src/bbi/bbiwrite.rs Data
//@sub /type Data<W>/ => pub type Data
//@sub /tokio::task::JoinHandle<Result<\(usize, usize\), ProcessDataError>>/ => WriteHandle
//@sub /TempFileBuffer<BufWriter<W>>/ => StageBuf<OutFile>
//@sub /crossbeam_channel::Receiver<Section>/ => SecRecv
//@end
//@extract type bigtools/src/bbi/bbiwrite.rs DataWithoutzooms
//@sub /type DataWithoutzooms<W>/ => pub type DataWithoutzooms
//@sub /tokio::task::JoinHandle<Result<\(usize, usize\), ProcessDataError>>/ => WriteHandle
//@sub /TempFileBuffer<BufWriter<W>>/ => StageBuf<OutFile>
//@sub /crossbeam_channel::Receiver<Section>/ => SecRecv
//@end

/// BTreeMap<u32, ZoomValue> seen through `view(): Map<u32, ZoomValue>`.  ASSUMED: get_mut(k) hands out the entry
/// stored under k (None if absent); only that entry can change through it; the key set never changes.
#[verifier::external_body]
pub struct ZMap { _p: u8 }
impl ZMap {
    pub uninterp spec fn view(&self) -> Map<u32, ZoomValue>;
    #[verifier::external_body]
    pub fn get_mut(&mut self, k: &u32) -> (r: Option<&mut ZoomValue>)
        ensures
            r.is_some() == old(self)@.dom().contains(*k),
            r.is_some() ==> *r.unwrap() == old(self)@[*k] && final(self)@ == old(self)@.insert(*k, *final(r.unwrap())),
            r.is_none() ==> final(self)@ == old(self)@,
    { unimplemented!() }
    // plausible foreign calls: accepted, nothing promised
    #[verifier::external_body]
    pub fn first_key_value(&self) -> Option<(&u32, &ZoomValue)> { unimplemented!() }
    #[verifier::external_body]
    pub fn last_key_value(&self) -> Option<(&u32, &ZoomValue)> { unimplemented!() }
    #[verifier::external_body]
    pub fn contains_key(&self, k: &u32) -> bool { unimplemented!() }
    #[verifier::external_body]
    pub fn len(&self) -> usize { unimplemented!() }
}

// =====================================================================================
// specification vocabulary
// =====================================================================================
pub open spec fn imax(a: int, b: int) -> int { if a >= b { a } else { b } }
/// position of resolution r among the zoom infos of one chromosome
pub open spec fn zidx(zs: Seq<TempZoomInfo>, r: u32) -> int {
    choose|j: int| 0 <= j < zs.len() && zs[j].resolution == r
}
pub open spec fn zdistinct(zs: Seq<TempZoomInfo>) -> bool {
    forall|a: int, b: int| 0 <= a < b < zs.len() ==> zs[a].resolution != zs[b].resolution
}
/// What `setup_chrom` + the zoom size list (unit chrom_ids) establish for every message, relative to the key set
/// of the zoom map: fresh (unswitched) buffers that belong to the write task next to them, and the zoom infos
/// carry EXACTLY the map's resolutions, each once.
pub open spec fn zinfo_pre(z: TempZoomInfo, dom: Set<u32>) -> bool {
    dom.contains(z.resolution) && z.data.dest() is None && z.data.cid() == z.data_write_future.cid()
}
pub open spec fn zooms_pre(zs: Seq<TempZoomInfo>, dom: Set<u32>) -> bool {
    &&& forall|j: int| 0 <= j < zs.len() ==> zinfo_pre(#[trigger] zs[j], dom)
    &&& zdistinct(zs)
    &&& forall|r: u32| dom.contains(r) ==> 0 <= zidx(zs, r) < zs.len() && zs[zidx(zs, r)].resolution == r
}
pub open spec fn msg_pre(m: Data, dom: Set<u32>) -> bool {
    m.1.dest() is None && m.1.cid() == m.2.cid() && zooms_pre(m.3@, dom)
}
pub open spec fn msg0_pre(m: DataWithoutzooms) -> bool { m.1.dest() is None && m.1.cid() == m.2.cid() }

/// results of the write tasks of one chromosome
pub open spec fn zok(zs: Seq<TempZoomInfo>, n: int) -> bool { forall|j: int| 0 <= j < n ==> (#[trigger] zs[j]).data_write_future.result() is Ok }
pub open spec fn zmax(zs: Seq<TempZoomInfo>, n: int) -> int
    decreases n
{ if n <= 0 { 0 } else { imax(zmax(zs, n - 1), zs[n - 1].data_write_future.result()->Ok_0.1 as int) } }
pub open spec fn msg_ok(m: Data) -> bool { m.2.result() is Ok && zok(m.3@, m.3@.len() as int) }
pub open spec fn msg_max(m: Data) -> int { imax(m.2.result()->Ok_0.1 as int, zmax(m.3@, m.3@.len() as int)) }
pub open spec fn all_ok(q: Seq<Data>, n: int) -> bool { forall|k: int| 0 <= k < n ==> msg_ok(#[trigger] q[k]) }
/// maximum over ALL data and zoom write results of the first n chromosomes
pub open spec fn maxall(q: Seq<Data>, n: int) -> int
    decreases n
{ if n <= 0 { 0 } else { imax(maxall(q, n - 1), msg_max(q[n - 1])) } }
/// concatenation of the chromosomes' staged data bytes, in message order
pub open spec fn cat_data(q: Seq<Data>, n: int) -> Seq<u8>
    decreases n
{ if n <= 0 { Seq::empty() } else { cat_data(q, n - 1) + q[n - 1].1.staged() } }
/// level r: concatenation of the chromosomes' level-r staged bytes / list of the level-r section iterators
pub open spec fn zinfo(m: Data, r: u32) -> TempZoomInfo { m.3@[zidx(m.3@, r)] }
pub open spec fn cat_zoom(q: Seq<Data>, n: int, r: u32) -> Seq<u8>
    decreases n
{ if n <= 0 { Seq::empty() } else { cat_zoom(q, n - 1, r) + zinfo(q[n - 1], r).data.staged() } }
pub open spec fn zsecs(q: Seq<Data>, n: int, r: u32) -> Seq<SecIter>
    decreases n
{ if n <= 0 { Seq::empty() } else { zsecs(q, n - 1, r).push(iter_of(zinfo(q[n - 1], r).sections)) } }
/// level r of the map after n chromosomes, relative to the map at entry
pub open spec fn level_after(now: ZoomValue, at_entry: ZoomValue, q: Seq<Data>, n: int, r: u32) -> bool {
    &&& now.1 == at_entry.1
    &&& now.0@ == at_entry.0@ + zsecs(q, n, r)
    &&& now.2 matches Some(w) && w.bytes() == at_entry.2.unwrap().bytes() + cat_zoom(q, n, r)
}
pub proof fn lemma_zidx(zs: Seq<TempZoomInfo>, j: int)
    requires zdistinct(zs), 0 <= j < zs.len(),
    ensures zidx(zs, zs[j].resolution) == j,
{
    let k = zidx(zs, zs[j].resolution);
    assert(0 <= k < zs.len() && zs[k].resolution == zs[j].resolution);
    if k < j { assert(zs[k].resolution != zs[j].resolution); }
    if j < k { assert(zs[j].resolution != zs[k].resolution); }
}
/// the same, without zooms
pub open spec fn all_ok0(q: Seq<DataWithoutzooms>, n: int) -> bool { forall|k: int| 0 <= k < n ==> (#[trigger] q[k]).2.result() is Ok }
pub open spec fn maxall0(q: Seq<DataWithoutzooms>, n: int) -> int
    decreases n
{ if n <= 0 { 0 } else { imax(maxall0(q, n - 1), q[n - 1].2.result()->Ok_0.1 as int) } }
pub open spec fn cat_data0(q: Seq<DataWithoutzooms>, n: int) -> Seq<u8>
    decreases n
{ if n <= 0 { Seq::empty() } else { cat_data0(q, n - 1) + q[n - 1].1.staged() } }

// =====================================================================================
// make_zoom (closure of write_vals): the initial entry of a level in the zoom map
// =====================================================================================
/// TempFileBuffer::<File>::new(inmemory): ASSUMED (tfb `fresh_pair`): a fresh consumer/producer pair, nothing written yet
#[verifier::external_body]
pub fn level_file_new(inmemory: bool) -> (r: (LevelBuf, ZoomWriter))
    ensures r.1.bytes().len() == 0,
{ unimplemented!() }
/// only `inmemory` is read
pub struct Opts { pub inmemory: bool }

//@extract closure bigtools/src/bbi/bbiwrite.rs write_vals make_zoom
//@rule R16
//@header fn make_zoom(size: u32, options: &Opts) -> (u32, ZoomValue)
//@sub /\(TempFileBuffer<File>, TempFileBufferWriter<File>\)/ => (LevelBuf, ZoomWriter) min=0
//@sub /TempFileBuffer::new\(/ => level_file_new( min=0
//@ret r
//@sig
    ensures
        [[L: make_zoom/entry_is_keyed_by_the_size]]
        r.0 == size,
        [[L: make_zoom/level_starts_with_no_section_lists_and_an_empty_writer_in_its_slot]]
        r.1.0@.len() == 0, r.1.2 matches Some(w) && w.bytes().len() == 0,
//@end

// =====================================================================================
// write_chroms_without_zooms
// =====================================================================================
#[verifier::loop_isolation(false)]
//@extract fn bigtools/src/bbi/bbiwrite.rs write_chroms_without_zooms
//@rule R16
//@rule R1
//@sub /<W: Write \+ Seek \+ Send \+ 'static>/ => "" min=1
//@sub /BufWriter<W>/ => OutFile min=2
//@sub /futures_mpsc::UnboundedReceiver<DataWithoutzooms<W>>/ => Mailbox<DataWithoutzooms> min=1
//@sub /crossbeam_channel::IntoIter<Section>/ => SecIter min=1
//@sub /let mut max_uncompressed_buf_size = 0;/ => let mut max_uncompressed_buf_size: usize = 0; min=0
//@sub /\.await_real_file\(\)/ => .await_real_file(Ghost(done__)) min=0
//@ret r
//@sig
    requires
        [[L: nz/pre_every_message_is_a_fresh_channel_set]]
        forall|k: int| 0 <= k < receiver.queue().len() ==> msg0_pre(#[trigger] receiver.queue()[k]),
    ensures
        [[L: nz/ok_iff_every_write_task_ok]]
        r is Ok <==> all_ok0(receiver.queue(), receiver.queue().len() as int),
        [[L: nz/file_gets_every_chromosomes_staged_bytes_in_message_order]]
        r matches Ok(t) ==> t.0.bytes() == file.bytes() + cat_data0(receiver.queue(), receiver.queue().len() as int),
        [[L: nz/one_section_list_per_chromosome_in_message_order]]
        r matches Ok(t) ==> t.2@.len() == receiver.queue().len()
            && forall|k: int| 0 <= k < receiver.queue().len() ==> t.2@[k] == iter_of(receiver.queue()[k].0),
        [[L: nz/advertised_buffer_is_the_maximum_over_all_write_results]]
        r matches Ok(t) ==> t.1 as int == maxall0(receiver.queue(), receiver.queue().len() as int),
//@open
    let ghost q = receiver.queue();
    let ghost n = q.len() as int;
    let ghost f0 = file.bytes();
    let ghost mut i: int = 0;
    let ghost mut done__: Set<int> = Set::empty();
//@loop 1
        invariant
            [[L: nz/loop/progress]]
            0 <= i <= n, receiver.queue() == q.subrange(i, n),
            [[L: nz/loop/chromosomes_so_far]]
            all_ok0(q, i),
            file.bytes() == f0 + cat_data0(q, i),
            section_iter@.len() == i,
            forall|k: int| 0 <= k < i ==> section_iter@[k] == iter_of(q[k].0),
            max_uncompressed_buf_size as int == maxall0(q, i),
        decreases
            [[L: nz/loop/termination]]
            n - i,
//@at /receiver\.next\(\)/ after
        proof {
            if i < n {
                assert(q.subrange(i, n)[0] == q[i]);
                assert(q.subrange(i, n).drop_first() =~= q.subrange(i + 1, n));
            }
        }
//@at /data_write_future\.unwrap\(\)/ before
        let ghost h__ = data_write_future.cid();
//@at /data_write_future\.unwrap\(\)/ after
        proof { done__ = done__.insert(h__); }
//@loopend 1
        proof {
            i = i + 1;
            [[L: nz/loop/step/file_got_this_chromosomes_staged_bytes]]
            assert(file.bytes() =~= f0 + cat_data0(q, i));
        }
//@end

// =====================================================================================
// write_chroms_with_zooms
// =====================================================================================
// Structural substitutions (see NOTES.md): the let-else is kept; the two destructuring `for` loops over
// `zooms.iter_mut()` / `zooms.into_iter()` become an index loop over `&mut zooms[j]` and a front-to-back draining
// loop, each with the code's own pattern spliced in verbatim.
#[verifier::loop_isolation(false)]
//@extract fn bigtools/src/bbi/bbiwrite.rs write_chroms_with_zooms
//@rule R16
//@rule R1
//@sub /<W: Write \+ Seek \+ Send \+ 'static>/ => "" min=1
//@sub /BufWriter<W>/ => OutFile min=2
//@sub /BTreeMap<u32, ZoomValue>/ => ZMap min=2
//@sub /futures_mpsc::UnboundedReceiver<Data<W>>/ => Mailbox<Data> min=1
//@sub /crossbeam_channel::IntoIter<Section>/ => SecIter min=1
//@sub /let mut max_uncompressed_buf_size = 0;/ => let mut max_uncompressed_buf_size: usize = 0; min=0
//@sub /for (TempZoomInfo \{[^{}]*\})\s+in zooms\.iter_mut\(\)\s*\{/ => for j__ in 0..zooms.len() { let \1 = &mut zooms[j__]; min=0
//@sub /for (TempZoomInfo \{[^{}]*\})\s+in zooms\.into_iter\(\)\s*\{/ => let mut src__ = zooms; while src__.len() > 0 { let \1 = src__.remove(0); min=0
//@sub /(zooms_map\.get_mut\([^()]*\))\.unwrap\(\)/ => level_present(\1) min=0
//@sub /(zoom\.2\.take\(\))\.unwrap\(\)/ => slot_filled(\1) min=0
//@sub /\.await_real_file\(\)/ => .await_real_file(Ghost(done__)) min=0
//@ret r
//@sig
    requires
        [[L: pre_every_message_carries_exactly_the_maps_resolutions_with_fresh_buffers]]
        forall|k: int| 0 <= k < receiver.queue().len() ==> msg_pre(#[trigger] receiver.queue()[k], zooms_map@.dom()),
        [[L: pre_every_level_writer_is_in_its_slot]]
        forall|x: u32| zooms_map@.dom().contains(x) ==> (#[trigger] zooms_map@[x]).2 is Some,
    ensures
        [[L: ok_iff_every_write_task_ok]]
        r is Ok <==> all_ok(receiver.queue(), receiver.queue().len() as int),
        [[L: file_gets_every_chromosomes_staged_bytes_in_message_order]]
        r matches Ok(t) ==> t.0.bytes() == file.bytes() + cat_data(receiver.queue(), receiver.queue().len() as int),
        [[L: one_section_list_per_chromosome_in_message_order]]
        r matches Ok(t) ==> t.2@.len() == receiver.queue().len()
            && forall|k: int| 0 <= k < receiver.queue().len() ==> t.2@[k] == iter_of(receiver.queue()[k].0),
        [[L: advertised_buffer_is_the_maximum_over_all_data_and_zoom_write_results]]
        r matches Ok(t) ==> t.1 as int == maxall(receiver.queue(), receiver.queue().len() as int),
        [[L: same_levels_in_the_map]]
        r matches Ok(t) ==> t.3@.dom() == zooms_map@.dom(),
        [[L: every_level_gets_exactly_its_own_bytes_and_section_lists_of_every_chromosome_in_order]]
        r matches Ok(t) ==> forall|x: u32| zooms_map@.dom().contains(x) ==>
            level_after(#[trigger] t.3@[x], zooms_map@[x], receiver.queue(), receiver.queue().len() as int, x),
//@open
    let ghost q = receiver.queue();
    let ghost n = q.len() as int;
    let ghost f0 = file.bytes();
    let ghost zm0 = zooms_map@;
    let ghost dom = zooms_map@.dom();
    let ghost mut i: int = 0;
    let ghost mut done__: Set<int> = Set::empty();
    let ghost mut zm1 = zooms_map@;
    let ghost mut zs: Seq<TempZoomInfo> = Seq::empty();
    let ghost mut zl: Seq<TempZoomInfo> = Seq::empty();
    let ghost mut mx0: int = 0;
    let ghost mut jj: int = 0;
//@loop 1
        invariant
            [[L: loop/progress]]
            0 <= i <= n, receiver.queue() == q.subrange(i, n),
            [[L: loop/chromosomes_so_far]]
            all_ok(q, i),
            file.bytes() == f0 + cat_data(q, i),
            section_iter@.len() == i,
            forall|k: int| 0 <= k < i ==> section_iter@[k] == iter_of(q[k].0),
            max_uncompressed_buf_size as int == maxall(q, i),
            [[L: loop/every_level_after_the_chromosomes_so_far]]
            zooms_map@.dom() == dom,
            forall|x: u32| dom.contains(x) ==> level_after(#[trigger] zooms_map@[x], zm0[x], q, i, x),
        decreases
            [[L: loop/termination]]
            n - i,
//@at /receiver\.next\(\)/ after
        proof {
            if i < n {
                assert(q.subrange(i, n)[0] == q[i]);
                assert(q.subrange(i, n).drop_first() =~= q.subrange(i + 1, n));
                zm1 = zooms_map@;
                zs = q[i].3@;
                mx0 = max_uncompressed_buf_size as int;
                assert(msg_pre(q[i], dom));
            }
        }
//@loop 2
            invariant
                [[L: switch_loop/zoom_infos_keep_everything_but_their_destination]]
                zooms@.len() == zs.len(),
                forall|a: int| 0 <= a < zs.len() ==> (#[trigger] zooms@[a]).resolution == zs[a].resolution
                    && zooms@[a].data_write_future == zs[a].data_write_future && zooms@[a].sections == zs[a].sections
                    && zooms@[a].data.staged() == zs[a].data.staged() && zooms@[a].data.cid() == zs[a].data.cid(),
                [[L: switch_loop/level_of_each_resolution_so_far_got_that_levels_writer]]
                forall|a: int| 0 <= a < j__ ==> (#[trigger] zooms@[a]).data.dest() == zm1[zs[a].resolution].2,
                forall|a: int| j__ <= a < zs.len() ==> (#[trigger] zooms@[a]).data.dest() is None,
                [[L: switch_loop/only_the_writer_slots_of_those_levels_are_emptied]]
                zooms_map@.dom() == dom,
                forall|x: u32| dom.contains(x) ==> (#[trigger] zooms_map@[x]).0 == zm1[x].0 && zooms_map@[x].1 == zm1[x].1
                    && zooms_map@[x].2 == (if zidx(zs, x) < j__ { None::<ZoomWriter> } else { zm1[x].2 }),
//@at /let zoom = / nth=1 before
            proof { lemma_zidx(zs, j__ as int); }
            let ghost zmb = zooms_map@;
//@loopend 2
            proof {
                [[L: switch_loop/step/levels_stay_the_same]]
                assert(zooms_map@.dom() =~= dom);
                [[L: switch_loop/step/only_the_writer_slot_of_this_resolution_is_emptied]]
                assert forall|x: u32| dom.contains(x) implies (#[trigger] zooms_map@[x]).0 == zm1[x].0 && zooms_map@[x].1 == zm1[x].1
                    && zooms_map@[x].2 == (if zidx(zs, x) < j__ + 1 { None::<ZoomWriter> } else { zm1[x].2 }) by {
                    if x != zs[j__ as int].resolution {
                        assert(zooms_map@[x] == zmb[x]);
                        assert(zidx(zs, x) != j__);
                    }
                }
            }
//@at /data_write_future\.unwrap\(\)/ before
        let ghost h__ = data_write_future.cid();
//@at /data_write_future\.unwrap\(\)/ after
        proof { done__ = done__.insert(h__); }
//@at /let mut src__ = zooms;/ before
        proof {
            zl = zooms@;
            jj = 0;
            [[L: loop/step/file_got_this_chromosomes_staged_bytes]]
            assert(file.bytes() =~= f0 + cat_data(q, i + 1));
        }
//@loop 3
            invariant
                [[L: join_loop/zoom_infos_consumed_front_to_back]]
                0 <= jj <= zs.len(), src__@ == zl.subrange(jj, zs.len() as int),
                [[L: join_loop/every_write_result_so_far_folded_into_the_maximum]]
                zok(zs, jj),
                max_uncompressed_buf_size as int == imax(imax(mx0, q[i].2.result()->Ok_0.1 as int), zmax(zs, jj)),
                [[L: join_loop/each_level_so_far_got_its_own_bytes_and_section_list_and_its_writer_back]]
                zooms_map@.dom() == dom,
                forall|x: u32| dom.contains(x) ==> (#[trigger] zooms_map@[x]).1 == zm1[x].1
                    && (if zidx(zs, x) < jj {
                            zooms_map@[x].0@ == zm1[x].0@.push(iter_of(zs[zidx(zs, x)].sections))
                            && (zooms_map@[x].2 matches Some(w) && w.bytes() == zm1[x].2.unwrap().bytes() + zs[zidx(zs, x)].data.staged())
                        } else {
                            zooms_map@[x].0 == zm1[x].0 && zooms_map@[x].2 is None
                        }),
            decreases
                [[L: join_loop/termination]]
                src__@.len(),
//@at /let zoom = / nth=2 before
            proof {
                assert(zl.subrange(jj, zs.len() as int)[0] == zl[jj]);
                assert(zl.subrange(jj, zs.len() as int).remove(0) =~= zl.subrange(jj + 1, zs.len() as int));
                lemma_zidx(zs, jj);
            }
            let ghost zmb = zooms_map@;
//@at /data_write_(?:data|future)\.unwrap\(\)/ nth=2 after
            proof { done__ = done__.insert(zl[jj].data_write_future.cid()); }
//@loopend 3
            proof {
                [[L: join_loop/step/levels_stay_the_same]]
                assert(zooms_map@.dom() =~= dom);
                [[L: join_loop/step/this_level_got_its_own_bytes_and_section_list_and_its_writer_back_the_others_are_untouched]]
                assert forall|x: u32| dom.contains(x) implies (#[trigger] zooms_map@[x]).1 == zm1[x].1
                    && (if zidx(zs, x) < jj + 1 {
                            zooms_map@[x].0@ == zm1[x].0@.push(iter_of(zs[zidx(zs, x)].sections))
                            && (zooms_map@[x].2 matches Some(w) && w.bytes() == zm1[x].2.unwrap().bytes() + zs[zidx(zs, x)].data.staged())
                        } else {
                            zooms_map@[x].0 == zm1[x].0 && zooms_map@[x].2 is None
                        }) by {
                    if x != zs[jj].resolution {
                        assert(zooms_map@[x] == zmb[x]);
                        assert(zidx(zs, x) != jj);
                    }
                }
                jj = jj + 1;
            }
//@loopend 1
        proof {
            [[L: loop/step/every_level_after_this_chromosome]]
            assert forall|x: u32| dom.contains(x) implies level_after(#[trigger] zooms_map@[x], zm0[x], q, i + 1, x) by {
                assert(level_after(zm1[x], zm0[x], q, i, x));
                assert(zinfo(q[i], x) == zs[zidx(zs, x)]);
                assert(zooms_map@[x].0@ =~= zm0[x].0@ + zsecs(q, i + 1, x));
                assert(zm0[x].2.unwrap().bytes() + cat_zoom(q, i + 1, x) =~= zm1[x].2.unwrap().bytes() + zs[zidx(zs, x)].data.staged());
            }
            i = i + 1;
        }
//@end

} // verus!
fn main() {}
