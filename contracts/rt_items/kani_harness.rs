// Kani harnesses for unit rt_items: the two on-disk R-tree item decoders in
// bigtools/src/bbi/bbiread.rs
//   <CirTreeLeafItemIterator as Iterator>::next      (32-byte leaf items)
//   <CirTreeNonLeafItemsIterator as Iterator>::next   (24-byte non-leaf items)
// Included as `#[cfg(kani)] mod verif_kani_rt_items` at the end of bbiread.rs in the scratch
// copy: a child module can build the private structs field by field and call the REAL `next`.
//
// Plain `#[kani::proof]` harnesses.  `next` is loop-free; the only bound is the size of the
// buffer the iterator is built over (2 items; `count <= 2`, `i` unconstrained), see NOTES.md.
// The expected field values are written with shifts and adds over the raw bytes — NOT with
// from_be_bytes/from_le_bytes — so the decoder is checked against an independent statement of
// the two byte orders.

use byteordered::Endianness;

include!("spec.rs");

// L: leaf_next — None iff i >= count; otherwise the six fields are the big-/little-endian
// decode of bytes[32*i ..] at offsets 0,4,8,12,16,24 and self.i advances by exactly one;
// count, endianness and bytes are left unchanged.
#[kani::proof]
fn rt_items_leaf_next() {
    let raw: [u8; 64] = kani::any();
    let big: bool = kani::any();
    let count: usize = kani::any();
    let i: usize = kani::any();
    // struct invariant established by the only constructor cir_tree_leaf_items:
    // bytes.len() == 32 * count.  The buffer here holds 2 items.
    kani::assume(count <= 2);
    kani::cover!(true, "reach_leaf_next");
    let mut it = super::CirTreeLeafItemIterator {
        endianness: if big { Endianness::Big } else { Endianness::Little },
        i,
        count,
        bytes: raw.to_vec(),
    };
    let got = it.next();
    assert!(got.is_none() == (i >= count), "leaf_next/None iff i >= count");
    assert!(it.count == count, "leaf_next/count unchanged");
    assert!(it.bytes.len() == 64, "leaf_next/bytes length unchanged");
    assert!((it.endianness == Endianness::Big) == big, "leaf_next/endianness unchanged");
    match got {
        None => {
            assert!(it.i == i, "leaf_next/i unchanged at the end");
        }
        Some(n) => {
            assert!(it.i == i + 1, "leaf_next/i advances by one");
            let o = 32 * i;
            assert!(n.start_chrom_ix == d32(big, &raw, o), "leaf_next/start_chrom_ix = u32 at +0");
            assert!(n.start_base == d32(big, &raw, o + 4), "leaf_next/start_base = u32 at +4");
            assert!(n.end_chrom_ix == d32(big, &raw, o + 8), "leaf_next/end_chrom_ix = u32 at +8");
            assert!(n.end_base == d32(big, &raw, o + 12), "leaf_next/end_base = u32 at +12");
            assert!(n.data_offset == d64(big, &raw, o + 16), "leaf_next/data_offset = u64 at +16");
            assert!(n.data_size == d64(big, &raw, o + 24), "leaf_next/data_size = u64 at +24");
        }
    }
}

// L: nonleaf_next — same for the 24-byte non-leaf item: five fields at offsets 0,4,8,12,16.
#[kani::proof]
fn rt_items_nonleaf_next() {
    let raw: [u8; 48] = kani::any();
    let big: bool = kani::any();
    let count: usize = kani::any();
    let i: usize = kani::any();
    // struct invariant needed by next(): bytes.len() >= 24 * count (the constructor
    // cir_tree_non_leaf_items allocates 32 * count, see NOTES.md / D8).  Buffer holds 2 items.
    kani::assume(count <= 2);
    kani::cover!(true, "reach_nonleaf_next");
    let mut it = super::CirTreeNonLeafItemsIterator {
        endianness: if big { Endianness::Big } else { Endianness::Little },
        i,
        count,
        bytes: raw.to_vec(),
    };
    let got = it.next();
    assert!(got.is_none() == (i >= count), "nonleaf_next/None iff i >= count");
    assert!(it.count == count, "nonleaf_next/count unchanged");
    assert!(it.bytes.len() == 48, "nonleaf_next/bytes length unchanged");
    assert!((it.endianness == Endianness::Big) == big, "nonleaf_next/endianness unchanged");
    match got {
        None => {
            assert!(it.i == i, "nonleaf_next/i unchanged at the end");
        }
        Some(n) => {
            assert!(it.i == i + 1, "nonleaf_next/i advances by one");
            let o = 24 * i;
            assert!(n.start_chrom_ix == d32(big, &raw, o), "nonleaf_next/start_chrom_ix = u32 at +0");
            assert!(n.start_base == d32(big, &raw, o + 4), "nonleaf_next/start_base = u32 at +4");
            assert!(n.end_chrom_ix == d32(big, &raw, o + 8), "nonleaf_next/end_chrom_ix = u32 at +8");
            assert!(n.end_base == d32(big, &raw, o + 12), "nonleaf_next/end_base = u32 at +12");
            assert!(n.node_offset == d64(big, &raw, o + 16), "nonleaf_next/node_offset = u64 at +16");
        }
    }
}
