// bbiread.rs: `read_cir_tree_header` and the two provided methods of `trait internal::BBIReadInternal`,
// `full_data_cir_tree` and `zoom_cir_tree`: locate an R-tree (seek to the index offset, validate the 48-byte
// cirTree header's magic in the file's byte order, answer `CirTreeIndex(kind, index_offset + 48)`) and CACHE the
// validated position in the reader's `BBIFileInfo` (`header.full_index_tree_offset` resp. THAT zoom header's
// `index_tree_offset`).
// C03/C04/C05/C07/C08/C10 "The answer is the same ... after any sequence of earlier queries": the caches must
// never redirect a later query.  The answer of either method is a function of the file alone (the header field
// `full_index_offset` / the FIRST zoom header of the requested level, the 48 bytes stored there, the byte
// order) - whatever the caches hold; a lookup writes only ITS OWN cache slot and only the value
// `index_offset + 48`, and only after the header validated.
// C10 "either byte order": the magic is decoded in the byte order of the file header.
// This unit puts under contract exactly the two functions that unit query_glue ASSUMES (its shims
// `BigWigRead::full_data_cir_tree` / `zoom_cir_tree`).
use vstd::prelude::*;
verus! {
// ---- shared byte-level prelude ---------------------------------------------
// Format vocabulary written from the published BBI layout (Kent et al. 2010),
// as arithmetic on byte values - not as calls to from_le_bytes/to_le_bytes.
/// k-th base-256 digit of x (opaque: the div/mod arithmetic is only unfolded inside the codec lemmas)
#[verifier::opaque]
pub open spec fn byte_of(x: int, k: int) -> u8 {
    if k == 0 { (x % 256) as u8 } else if k == 1 { (x / 256 % 256) as u8 } else if k == 2 { (x / 65536 % 256) as u8 }
    else if k == 3 { (x / 16777216 % 256) as u8 } else if k == 4 { (x / 4294967296 % 256) as u8 }
    else if k == 5 { (x / 1099511627776 % 256) as u8 } else if k == 6 { (x / 281474976710656 % 256) as u8 }
    else { (x / 72057594037927936 % 256) as u8 }
}
pub open spec fn le16(x: u16) -> Seq<u8> { seq![byte_of(x as int, 0), byte_of(x as int, 1)] }
pub open spec fn le32(x: u32) -> Seq<u8> { seq![byte_of(x as int, 0), byte_of(x as int, 1), byte_of(x as int, 2), byte_of(x as int, 3)] }
pub open spec fn le64(x: u64) -> Seq<u8> {
    seq![byte_of(x as int, 0), byte_of(x as int, 1), byte_of(x as int, 2), byte_of(x as int, 3),
         byte_of(x as int, 4), byte_of(x as int, 5), byte_of(x as int, 6), byte_of(x as int, 7)]
}
pub open spec fn be16(x: u16) -> Seq<u8> { seq![byte_of(x as int, 1), byte_of(x as int, 0)] }
pub open spec fn be32(x: u32) -> Seq<u8> { seq![byte_of(x as int, 3), byte_of(x as int, 2), byte_of(x as int, 1), byte_of(x as int, 0)] }
pub open spec fn be64(x: u64) -> Seq<u8> {
    seq![byte_of(x as int, 7), byte_of(x as int, 6), byte_of(x as int, 5), byte_of(x as int, 4),
         byte_of(x as int, 3), byte_of(x as int, 2), byte_of(x as int, 1), byte_of(x as int, 0)]
}
// decode: value of the little-/big-endian integer stored at s[i..]
pub open spec fn dle16(s: Seq<u8>, i: int) -> int { s[i] as int + 256 * (s[i + 1] as int) }
pub open spec fn dle32(s: Seq<u8>, i: int) -> int {
    s[i] as int + 256 * (s[i + 1] as int) + 65536 * (s[i + 2] as int) + 16777216 * (s[i + 3] as int)
}
pub open spec fn dle64(s: Seq<u8>, i: int) -> int { dle32(s, i) + 4294967296 * dle32(s, i + 4) }
pub open spec fn dbe16(s: Seq<u8>, i: int) -> int { 256 * (s[i] as int) + s[i + 1] as int }
pub open spec fn dbe32(s: Seq<u8>, i: int) -> int {
    16777216 * (s[i] as int) + 65536 * (s[i + 1] as int) + 256 * (s[i + 2] as int) + s[i + 3] as int
}
pub open spec fn dbe64(s: Seq<u8>, i: int) -> int { 4294967296 * dbe32(s, i) + dbe32(s, i + 4) }
/// integer at s[i..] in byte order `big`
pub open spec fn d16(big: bool, s: Seq<u8>, i: int) -> int { if big { dbe16(s, i) } else { dle16(s, i) } }
pub open spec fn d32(big: bool, s: Seq<u8>, i: int) -> int { if big { dbe32(s, i) } else { dle32(s, i) } }
pub open spec fn d64(big: bool, s: Seq<u8>, i: int) -> int { if big { dbe64(s, i) } else { dle64(s, i) } }
pub open spec fn e16(big: bool, x: u16) -> Seq<u8> { if big { be16(x) } else { le16(x) } }
pub open spec fn e32(big: bool, x: u32) -> Seq<u8> { if big { be32(x) } else { le32(x) } }
pub open spec fn e64(big: bool, x: u64) -> Seq<u8> { if big { be64(x) } else { le64(x) } }

// Floats on disk: IEEE bit patterns.  `to_bits`/`from_bits` are uninterpreted; the only
// assumed fact is that they are inverse (true of Rust's f32::to_bits/from_bits bit-for-bit).
pub uninterp spec fn f32_bits(x: f32) -> u32;
pub uninterp spec fn f32_of_bits(b: u32) -> f32;
pub uninterp spec fn f64_bits(x: f64) -> u64;
pub uninterp spec fn f64_of_bits(b: u64) -> f64;
pub broadcast axiom fn ax_f32_bits_inv(x: f32) ensures #[trigger] f32_of_bits(f32_bits(x)) == x;
pub broadcast axiom fn ax_f64_bits_inv(x: f64) ensures #[trigger] f64_of_bits(f64_bits(x)) == x;

#[verifier::external_body]
#[derive(Debug)]
pub struct IoError { _p: u8 }

#[verifier::external_body]
pub fn vpanic() -> !
    requires false
{ panic!() }

// ---- Sink: append-only in-memory writer (`Vec<u8>` used through byteorder::WriteBytesExt / io::Write).
// Assumed contracts: NativeEndian == LittleEndian (x86-64 / aarch64 targets); writes to a Vec never
// fail, the io::Result plumbing is kept so that `?` in the code typechecks.
pub struct Sink { pub bytes: Vec<u8> }
impl Sink {
    pub open spec fn view(&self) -> Seq<u8> { self.bytes@ }
    #[verifier::external_body]
    pub fn with_capacity(n: usize) -> (r: Sink) ensures r@.len() == 0 { Sink { bytes: Vec::with_capacity(n) } }
    pub fn len(&self) -> (r: usize) ensures r == self@.len() { self.bytes.len() }
    #[verifier::external_body]
    pub fn put_u8(&mut self, v: u8) -> (r: Result<(), IoError>)
        ensures r.is_ok(), final(self)@ == old(self)@.push(v) { unimplemented!() }
    #[verifier::external_body]
    pub fn put_u16(&mut self, v: u16) -> (r: Result<(), IoError>)
        ensures r.is_ok(), final(self)@ == old(self)@ + le16(v) { unimplemented!() }
    #[verifier::external_body]
    pub fn put_u32(&mut self, v: u32) -> (r: Result<(), IoError>)
        ensures r.is_ok(), final(self)@ == old(self)@ + le32(v) { unimplemented!() }
    #[verifier::external_body]
    pub fn put_u64(&mut self, v: u64) -> (r: Result<(), IoError>)
        ensures r.is_ok(), final(self)@ == old(self)@ + le64(v) { unimplemented!() }
    #[verifier::external_body]
    pub fn put_f32(&mut self, v: f32) -> (r: Result<(), IoError>)
        ensures r.is_ok(), final(self)@ == old(self)@ + le32(f32_bits(v)) { unimplemented!() }
    #[verifier::external_body]
    pub fn put_f64(&mut self, v: f64) -> (r: Result<(), IoError>)
        ensures r.is_ok(), final(self)@ == old(self)@ + le64(f64_bits(v)) { unimplemented!() }
    #[verifier::external_body]
    pub fn put_bytes(&mut self, b: &[u8]) -> (r: Result<(), IoError>)
        ensures r.is_ok(), final(self)@ == old(self)@ + b@ { unimplemented!() }
}

// ---- FSink: seekable destination (`BufWriter<W: Write + Seek>`).  Ghost image `data()` and
// position `pos()`.  A put at `pos` overwrites/extends the image; any operation may fail, in
// which case nothing is promised about the image (callers must propagate the error).
#[verifier::external_body]
pub struct FSink { _p: u8 }
pub open spec fn splice(d: Seq<u8>, at: int, b: Seq<u8>) -> Seq<u8>
    recommends 0 <= at <= d.len()
{
    if at + b.len() >= d.len() { d.subrange(0, at) + b } else { d.subrange(0, at) + b + d.subrange(at + b.len(), d.len() as int) }
}
impl FSink {
    pub uninterp spec fn data(&self) -> Seq<u8>;
    pub uninterp spec fn pos(&self) -> int;
    pub open spec fn wf(&self) -> bool { 0 <= self.pos() <= self.data().len() }
    #[verifier::external_body]
    pub fn tell(&mut self) -> (r: Result<u64, IoError>)
        requires old(self).wf(), old(self).pos() <= u64::MAX
        ensures final(self).data() == old(self).data(), final(self).pos() == old(self).pos(), r.is_ok() ==> r.unwrap() == old(self).pos()
    { unimplemented!() }
    #[verifier::external_body]
    pub fn seek_start(&mut self, p: u64) -> (r: Result<u64, IoError>)
        requires old(self).wf(), p <= old(self).data().len()
        ensures final(self).data() == old(self).data(), r.is_ok() ==> (final(self).pos() == p && r.unwrap() == p), final(self).wf()
    { unimplemented!() }
    #[verifier::external_body]
    pub fn seek_end0(&mut self) -> (r: Result<u64, IoError>)
        requires old(self).wf()
        ensures final(self).data() == old(self).data(), r.is_ok() ==> (final(self).pos() == old(self).data().len() && r.unwrap() == old(self).data().len()), final(self).wf()
    { unimplemented!() }
    #[verifier::external_body]
    pub fn put(&mut self, b: &[u8]) -> (r: Result<(), IoError>)
        requires old(self).wf()
        ensures r.is_ok() ==> (final(self).data() == splice(old(self).data(), old(self).pos(), b@) && final(self).pos() == old(self).pos() + b@.len()), final(self).wf()
    { unimplemented!() }
    #[verifier::external_body]
    pub fn put_u8(&mut self, v: u8) -> (r: Result<(), IoError>)
        requires old(self).wf()
        ensures r.is_ok() ==> (final(self).data() == splice(old(self).data(), old(self).pos(), seq![v]) && final(self).pos() == old(self).pos() + 1), final(self).wf()
    { unimplemented!() }
    #[verifier::external_body]
    pub fn put_u16(&mut self, v: u16) -> (r: Result<(), IoError>)
        requires old(self).wf()
        ensures r.is_ok() ==> (final(self).data() == splice(old(self).data(), old(self).pos(), le16(v)) && final(self).pos() == old(self).pos() + 2), final(self).wf()
    { unimplemented!() }
    #[verifier::external_body]
    pub fn put_u32(&mut self, v: u32) -> (r: Result<(), IoError>)
        requires old(self).wf()
        ensures r.is_ok() ==> (final(self).data() == splice(old(self).data(), old(self).pos(), le32(v)) && final(self).pos() == old(self).pos() + 4), final(self).wf()
    { unimplemented!() }
    #[verifier::external_body]
    pub fn put_u64(&mut self, v: u64) -> (r: Result<(), IoError>)
        requires old(self).wf()
        ensures r.is_ok() ==> (final(self).data() == splice(old(self).data(), old(self).pos(), le64(v)) && final(self).pos() == old(self).pos() + 8), final(self).wf()
    { unimplemented!() }
    #[verifier::external_body]
    pub fn put_f64(&mut self, v: f64) -> (r: Result<(), IoError>)
        requires old(self).wf()
        ensures r.is_ok() ==> (final(self).data() == splice(old(self).data(), old(self).pos(), le64(f64_bits(v))) && final(self).pos() == old(self).pos() + 8), final(self).wf()
    { unimplemented!() }
}

// ---- Cur: consuming reader over a byte buffer (`bytes::BytesMut` used through `bytes::Buf`).
// `rem()` = bytes not yet consumed.  The `requires` are the real panics of the `bytes` crate
// (reading past the end / split_to past the end).
#[verifier::external_body]
pub struct Cur { _p: u8 }
impl Cur {
    pub uninterp spec fn rem(&self) -> Seq<u8>;
    #[verifier::external_body]
    pub fn from_vec(v: &Vec<u8>) -> (r: Cur) ensures r.rem() == v@ { unimplemented!() }
    #[verifier::external_body]
    pub fn len(&self) -> (r: usize) ensures r == self.rem().len() { unimplemented!() }
    #[verifier::external_body]
    pub fn split_to(&mut self, n: usize) -> (r: Cur)
        requires n <= old(self).rem().len()
        ensures r.rem() == old(self).rem().subrange(0, n as int), final(self).rem() == old(self).rem().subrange(n as int, old(self).rem().len() as int)
    { unimplemented!() }
    #[verifier::external_body]
    pub fn advance(&mut self, n: usize)
        requires n <= old(self).rem().len()
        ensures final(self).rem() == old(self).rem().subrange(n as int, old(self).rem().len() as int)
    { unimplemented!() }
    #[verifier::external_body]
    pub fn get_u8(&mut self) -> (r: u8)
        requires old(self).rem().len() >= 1
        ensures r == old(self).rem()[0], final(self).rem() == old(self).rem().subrange(1, old(self).rem().len() as int)
    { unimplemented!() }
    #[verifier::external_body]
    pub fn get_u16(&mut self) -> (r: u16)
        requires old(self).rem().len() >= 2
        ensures r == dbe16(old(self).rem(), 0), final(self).rem() == old(self).rem().subrange(2, old(self).rem().len() as int)
    { unimplemented!() }
    #[verifier::external_body]
    pub fn get_u16_le(&mut self) -> (r: u16)
        requires old(self).rem().len() >= 2
        ensures r == dle16(old(self).rem(), 0), final(self).rem() == old(self).rem().subrange(2, old(self).rem().len() as int)
    { unimplemented!() }
    #[verifier::external_body]
    pub fn get_u32(&mut self) -> (r: u32)
        requires old(self).rem().len() >= 4
        ensures r == dbe32(old(self).rem(), 0), final(self).rem() == old(self).rem().subrange(4, old(self).rem().len() as int)
    { unimplemented!() }
    #[verifier::external_body]
    pub fn get_u32_le(&mut self) -> (r: u32)
        requires old(self).rem().len() >= 4
        ensures r == dle32(old(self).rem(), 0), final(self).rem() == old(self).rem().subrange(4, old(self).rem().len() as int)
    { unimplemented!() }
    #[verifier::external_body]
    pub fn get_u64(&mut self) -> (r: u64)
        requires old(self).rem().len() >= 8
        ensures r == dbe64(old(self).rem(), 0), final(self).rem() == old(self).rem().subrange(8, old(self).rem().len() as int)
    { unimplemented!() }
    #[verifier::external_body]
    pub fn get_u64_le(&mut self) -> (r: u64)
        requires old(self).rem().len() >= 8
        ensures r == dle64(old(self).rem(), 0), final(self).rem() == old(self).rem().subrange(8, old(self).rem().len() as int)
    { unimplemented!() }
    #[verifier::external_body]
    pub fn get_f32(&mut self) -> (r: f32)
        requires old(self).rem().len() >= 4
        ensures r == f32_of_bits(dbe32(old(self).rem(), 0) as u32), final(self).rem() == old(self).rem().subrange(4, old(self).rem().len() as int)
    { unimplemented!() }
    #[verifier::external_body]
    pub fn get_f32_le(&mut self) -> (r: f32)
        requires old(self).rem().len() >= 4
        ensures r == f32_of_bits(dle32(old(self).rem(), 0) as u32), final(self).rem() == old(self).rem().subrange(4, old(self).rem().len() as int)
    { unimplemented!() }
}
// `uN::from_{le,be}_bytes([..])` (rule R4) with arithmetic contracts
#[verifier::external_body]
pub fn u32_from_le(b: [u8; 4]) -> (r: u32) ensures r == dle32(b@, 0) { u32::from_le_bytes(b) }
#[verifier::external_body]
pub fn u32_from_be(b: [u8; 4]) -> (r: u32) ensures r == dbe32(b@, 0) { u32::from_be_bytes(b) }
#[verifier::external_body]
pub fn u64_from_le(b: [u8; 8]) -> (r: u64) ensures r == dle64(b@, 0) { u64::from_le_bytes(b) }
#[verifier::external_body]
pub fn u64_from_be(b: [u8; 8]) -> (r: u64) ensures r == dbe64(b@, 0) { u64::from_be_bytes(b) }
#[verifier::external_body]
pub fn f32_from_le(b: [u8; 4]) -> (r: f32) ensures r == f32_of_bits(dle32(b@, 0) as u32) { f32::from_le_bytes(b) }
#[verifier::external_body]
pub fn f32_from_be(b: [u8; 4]) -> (r: f32) ensures r == f32_of_bits(dbe32(b@, 0) as u32) { f32::from_be_bytes(b) }

// std stand-ins that only matter for CHANGED code (0 hits on /repo): they let an edit that swallows an error reach
// the verifier.  Contracts are those of std.
pub assume_specification<T, E>[Result::<T, E>::unwrap_or](x: Result<T, E>, d: T) -> (v: T)
    ensures x matches Ok(y) ==> v == y, x is Err ==> v == d;
pub assume_specification<T: Default, E>[Result::<T, E>::unwrap_or_default](x: Result<T, E>) -> (v: T)
    ensures x matches Ok(y) ==> v == y;

/// shim for byteordered::Endianness (external crate, a plain 2-variant enum)
#[derive(Clone, Copy)]
pub enum Endianness { Big, Little }
pub open spec fn is_big(e: Endianness) -> bool { e is Big }
/// shim for itertools::Either (external crate, a plain 2-variant enum)
pub enum Either<L, R> { Left(L), Right(R) }

pub const CIR_TREE_MAGIC: u32 = 0x2468_ACE0;
#[derive(Copy, Clone)]
pub enum BBIFile {
    BigWig,
    BigBed,
}
#[derive(Copy, Clone)]
pub struct ZoomHeader {
    pub reduction_level: u32,
    pub data_offset: u64,
    pub index_offset: u64,
    pub index_tree_offset: Option<u64>,
}
#[derive(Copy, Clone)]
pub struct BBIHeader {
    pub endianness: Endianness,
    pub version: u16,
    pub field_count: u16,
    pub defined_field_count: u16,

    pub zoom_levels: u16,
    pub chromosome_tree_offset: u64,
    pub full_data_offset: u64,
    pub full_index_offset: u64,
    pub full_index_tree_offset: Option<u64>,
    pub auto_sql_offset: u64,
    pub total_summary_offset: u64,
    pub uncompress_buf_size: u32,
}
// R11: `name: String` -> `name: Vec<u8>` (never inspected here)
pub struct ChromInfo {
    pub name: Vec<u8>,
    pub length: u32,
    pub id: u32,
}
pub struct BBIFileInfo {
    pub filetype: BBIFile,
    pub header: BBIHeader,
    pub zoom_headers: Vec<ZoomHeader>,
    pub chrom_info: Vec<ChromInfo>,
}
pub enum CirTreeIndexType {
    FullData,
    Zoom(u32),
}
pub struct CirTreeIndex(pub CirTreeIndexType, pub u64);
pub struct UnknownMagic;
// the two error enums live in `mod internal`; io::Error -> opaque IoError
    pub enum FullDataCirTreeError {
        UnknownMagic,
        IoError(IoError),
    }
    pub enum ZoomDataCirTreeError {
        UnknownMagic,
        ReductionLevelNotFound,
        IoError(IoError),
    }

// ---------------- reader shim: `R: Read + Seek` behind `BBIFileRead::raw_reader()` ----------------
// Ghost file content, OS position and an environment flag (the next operations may fail for reasons outside the
// program iff !env_ok).  ASSUMED contract of std: `seek(Start(p))` moves to p (seeking past the end is allowed)
// or fails only because of the environment; `read_exact` into a zeroed n-byte buffer fails iff fewer than n
// bytes remain or the environment fails, and on success yields exactly the next n bytes.  A file is at most
// u64::MAX bytes long (`Seek` reports positions as u64).
#[verifier::external_body]
pub struct VRead { _p: u8 }
impl VRead {
    pub uninterp spec fn content(&self) -> Seq<u8>;
    pub uninterp spec fn pos(&self) -> int;
    pub uninterp spec fn env_ok(&self) -> bool;
    /// `.seek(SeekFrom::Start(p))`
    #[verifier::external_body]
    pub fn seek_start(&mut self, p: u64) -> (r: Result<u64, IoError>)
        ensures final(self).content() == old(self).content(), final(self).env_ok() == old(self).env_ok(),
            old(self).env_ok() ==> r is Ok, r is Ok ==> final(self).pos() == p && r->Ok_0 == p,
    { unimplemented!() }
    /// `let mut b = BytesMut::zeroed(n); file.read_exact(&mut b)` as one step
    #[verifier::external_body]
    pub fn read_cur(&mut self, n: usize) -> (r: Result<Cur, IoError>)
        ensures final(self).content() == old(self).content(), final(self).env_ok() == old(self).env_ok(),
            old(self).content().len() <= u64::MAX,
            (old(self).env_ok() && 0 <= old(self).pos() && old(self).pos() + n <= old(self).content().len()) ==> r is Ok,
            r is Ok ==> 0 <= old(self).pos() && old(self).pos() + n <= old(self).content().len()
                && final(self).pos() == old(self).pos() + n
                && r->Ok_0.rem() == old(self).content().subrange(old(self).pos(), old(self).pos() + n),
    { unimplemented!() }
    // stand-ins that only matter for CHANGED code (0 hits on /repo): no postcondition beyond "the file is not
    // written", so an edit that starts using them is judged by the contracts below
    #[verifier::external_body]
    pub fn seek_cur(&mut self, d: i64) -> (r: Result<u64, IoError>)
        ensures final(self).content() == old(self).content(), final(self).env_ok() == old(self).env_ok(),
    { unimplemented!() }
    #[verifier::external_body]
    pub fn stream_position(&mut self) -> (r: Result<u64, IoError>)
        ensures final(self).content() == old(self).content(), final(self).env_ok() == old(self).env_ok(),
    { unimplemented!() }
}

// ---------------- format vocabulary ----------------
/// a cirTree header is stored completely inside the file at `at` and starts with the cirTree magic in byte
/// order `big` (published layout: magic u32 at +0; the header is 48 bytes)
pub open spec fn tree_hdr_ok(big: bool, c: Seq<u8>, at: int) -> bool {
    &&& 0 <= at && at + 48 <= c.len()
    &&& d32(big, c, at) == CIR_TREE_MAGIC
}
/// 48 bytes are stored at `at` but they do not start with the magic
pub open spec fn tree_hdr_bad_magic(big: bool, c: Seq<u8>, at: int) -> bool {
    &&& 0 <= at && at + 48 <= c.len()
    &&& d32(big, c, at) != CIR_TREE_MAGIC
}

pub fn read_cir_tree_header(
    endianness: Endianness,
    file: &mut VRead,
) -> (r: Result<(), Either<UnknownMagic, IoError>>)
    ensures
        
        final(file).content() == old(file).content() && final(file).env_ok() == old(file).env_ok(),
        
        r is Ok ==> tree_hdr_ok(is_big(endianness), old(file).content(), old(file).pos()),
        
        old(file).env_ok() && tree_hdr_ok(is_big(endianness), old(file).content(), old(file).pos()) ==> r is Ok,
        
        old(file).env_ok() && tree_hdr_bad_magic(is_big(endianness), old(file).content(), old(file).pos())
            ==> r matches Err(Either::Left(_)),
        
        r matches Err(Either::Left(_)) ==> tree_hdr_bad_magic(is_big(endianness), old(file).content(), old(file).pos()),
        
        r matches Err(Either::Right(_)) ==> !old(file).env_ok() || old(file).pos() < 0
            || old(file).pos() + 48 > old(file).content().len(),
        
        (r is Ok || r matches Err(Either::Left(_))) ==> final(file).pos() == old(file).pos() + 48,
        
        (r is Ok || r matches Err(Either::Left(_))) ==> old(file).pos() + 48 <= u64::MAX,
{
    let mut header_data = match file.read_cur(48) { Ok(v__) => v__, Err(e) => return Err(Either::Right(e)) };


    proof {
        
        assert(header_data.rem() == old(file).content().subrange(old(file).pos(), old(file).pos() + 48));
        assert(d32(is_big(endianness), header_data.rem(), 0) == d32(is_big(endianness), old(file).content(), old(file).pos()));
    }
    match endianness {
        Endianness::Big => {
            let magic = header_data.get_u32();
            if magic != CIR_TREE_MAGIC {
                return Err(Either::Left(UnknownMagic));
            }

            let _blocksize = header_data.get_u32();
            let _item_count = header_data.get_u64();
            let _start_chrom_idx = header_data.get_u32();
            let _start_base = header_data.get_u32();
            let _end_chrom_idx = header_data.get_u32();
            let _end_base = header_data.get_u32();
            let _end_file_offset = header_data.get_u64();
            let _item_per_slot = header_data.get_u32();
            let _reserved = header_data.get_u32();
        }
        Endianness::Little => {
            let magic = header_data.get_u32_le();
            if magic != CIR_TREE_MAGIC {
                return Err(Either::Left(UnknownMagic));
            }

            let _blocksize = header_data.get_u32_le();
            let _item_count = header_data.get_u64_le();
            let _start_chrom_idx = header_data.get_u32_le();
            let _start_base = header_data.get_u32_le();
            let _end_chrom_idx = header_data.get_u32_le();
            let _end_base = header_data.get_u32_le();
            let _end_file_offset = header_data.get_u64_le();
            let _item_per_slot = header_data.get_u32_le();
            let _reserved = header_data.get_u32_le();
        }
    };
    Ok(())
}

// ---------------- the cache slots ----------------
/// index of the FIRST zoom header, from position i on, whose reduction level is l
pub open spec fn first_level_from(v: Seq<ZoomHeader>, l: u32, i: int) -> Option<int>
    decreases v.len() - i
{
    if i < 0 || i >= v.len() { None } else if v[i].reduction_level == l { Some(i) } else { first_level_from(v, l, i + 1) }
}
pub open spec fn first_level(v: Seq<ZoomHeader>, l: u32) -> Option<int> { first_level_from(v, l, 0) }
pub proof fn lemma_first_level_from(v: Seq<ZoomHeader>, l: u32, i: int)
    requires 0 <= i,
    ensures first_level_from(v, l, i) matches Some(k) ==> i <= k < v.len() && v[k].reduction_level == l
        && forall|j: int| i <= j < k ==> (#[trigger] v[j]).reduction_level != l,
        first_level_from(v, l, i) is None ==> forall|j: int| i <= j < v.len() ==> (#[trigger] v[j]).reduction_level != l,
    decreases v.len() - i
{
    if i < v.len() && v[i].reduction_level != l { lemma_first_level_from(v, l, i + 1); }
}
/// index of the LAST zoom header before position n whose reduction level is l
pub open spec fn last_level_before(v: Seq<ZoomHeader>, l: u32, n: int) -> Option<int>
    decreases n
{
    if n <= 0 || n > v.len() { None } else if v[n - 1].reduction_level == l { Some(n - 1) } else { last_level_before(v, l, n - 1) }
}

/// cache coherence: a cached tree position is the position right behind the 48-byte header of ITS OWN index
/// (exact integer arithmetic: no wrap-around)
pub open spec fn offsets_ok(info: BBIFileInfo) -> bool {
    &&& info.header.full_index_tree_offset matches Some(x) ==> x == info.header.full_index_offset + 48
    &&& forall|i: int| 0 <= i < info.zoom_headers@.len() ==>
            ((#[trigger] info.zoom_headers@[i]).index_tree_offset matches Some(x) ==> x == info.zoom_headers@[i].index_offset + 48)
}
/// no tree position is cached: the state `read_info` hands out (unit info: `header_fields_at_published_offsets`
/// builds the header with `full_index_tree_offset: None`, `zoom_directory_follows_header` / `zh_at` every zoom
/// header with `index_tree_offset: None`)
pub open spec fn no_caches(info: BBIFileInfo) -> bool {
    &&& info.header.full_index_tree_offset is None
    &&& forall|i: int| 0 <= i < info.zoom_headers@.len() ==> (#[trigger] info.zoom_headers@[i]).index_tree_offset is None
}
pub proof fn lemma_fresh_info_is_coherent(info: BBIFileInfo)
    requires no_caches(info),
    ensures
        
        offsets_ok(info),
{}
/// `b` is `a` except possibly for the full-data cache slot
pub open spec fn same_but_full_slot(a: BBIFileInfo, b: BBIFileInfo) -> bool {
    &&& b.filetype == a.filetype && b.chrom_info == a.chrom_info && b.zoom_headers == a.zoom_headers
    &&& b.header == BBIHeader { full_index_tree_offset: b.header.full_index_tree_offset, ..a.header }
}
/// `b` is `a` except possibly for the cache slot of zoom header i
pub open spec fn same_but_zoom_slot(a: BBIFileInfo, b: BBIFileInfo, i: int) -> bool {
    &&& b.filetype == a.filetype && b.chrom_info == a.chrom_info && b.header == a.header
    &&& b.zoom_headers@.len() == a.zoom_headers@.len()
    &&& forall|j: int| 0 <= j < a.zoom_headers@.len() && j != i ==> #[trigger] b.zoom_headers@[j] == a.zoom_headers@[j]
    &&& 0 <= i < a.zoom_headers@.len() ==>
            b.zoom_headers@[i] == ZoomHeader { index_tree_offset: b.zoom_headers@[i].index_tree_offset, ..a.zoom_headers@[i] }
}

// ---------------- verified stand-ins for `info.zoom_headers.iter_mut().find(|h| ..)` ----------------
/// `&mut v[i]` (Verus has no IndexMut on Vec): hands out element i; the vector afterwards is the old one with
/// element i replaced by whatever the borrower left there
#[verifier::external_body]
pub fn zoom_header_mut(v: &mut Vec<ZoomHeader>, i: usize) -> (r: &mut ZoomHeader)
    requires i < old(v)@.len(),
    ensures *r == old(v)@[i as int], final(v)@ == old(v)@.update(i as int, *final(r)),
{ &mut v[i] }
/// position of the first header with that level (what `Iterator::find` visits first)
pub fn zoom_find_first(v: &Vec<ZoomHeader>, reduction_level: u32) -> (r: Option<usize>)
    ensures
        r matches Some(i) ==> first_level(v@, reduction_level) == Some(i as int) && i < v@.len(),
        r is None ==> first_level(v@, reduction_level) is None,
{
    let mut i: usize = 0;
    while i < v.len()
        invariant i <= v.len(), first_level(v@, reduction_level) == first_level_from(v@, reduction_level, i as int),
        decreases v.len() - i,
    {
        if v[i].reduction_level == reduction_level { return Some(i); }
        i = i + 1;
    }
    None
}
/// position of the LAST header with that level (0 hits on /repo: `.rev().find(..)` / `.rfind(..)` of an edit)
pub fn zoom_find_last(v: &Vec<ZoomHeader>, reduction_level: u32) -> (r: Option<usize>)
    ensures
        r matches Some(i) ==> last_level_before(v@, reduction_level, v@.len() as int) == Some(i as int) && i < v@.len(),
        r is None ==> last_level_before(v@, reduction_level, v@.len() as int) is None,
{
    let mut i: usize = v.len();
    while i > 0
        invariant i <= v.len(),
            last_level_before(v@, reduction_level, v@.len() as int) == last_level_before(v@, reduction_level, i as int),
        decreases i,
    {
        if v[i - 1].reduction_level == reduction_level { return Some(i - 1); }
        i = i - 1;
    }
    None
}
/// `V.iter_mut().find(|h| h.reduction_level == reduction_level)`: the FIRST header with that level, mutably
pub fn zoom_find_mut(v: &mut Vec<ZoomHeader>, reduction_level: u32) -> (r: Option<&mut ZoomHeader>)
    ensures
        first_level(old(v)@, reduction_level) is None ==> r is None && final(v)@ == old(v)@,
        first_level(old(v)@, reduction_level) matches Some(i) ==> (r matches Some(h) && 0 <= i < old(v)@.len()
            && *h == old(v)@[i] && final(v)@ == old(v)@.update(i, *final(h))),
{
    match zoom_find_first(v, reduction_level) {
        Some(i) => Some(zoom_header_mut(v, i)),
        None => None,
    }
}
/// `V.iter_mut().rev().find(..)` / `V.iter_mut().rfind(..)`: the LAST header with that level, mutably
pub fn zoom_rfind_mut(v: &mut Vec<ZoomHeader>, reduction_level: u32) -> (r: Option<&mut ZoomHeader>)
    ensures
        last_level_before(old(v)@, reduction_level, old(v)@.len() as int) is None ==> r is None && final(v)@ == old(v)@,
        last_level_before(old(v)@, reduction_level, old(v)@.len() as int) matches Some(i) ==> (r matches Some(h) && 0 <= i < old(v)@.len()
            && *h == old(v)@[i] && final(v)@ == old(v)@.update(i, *final(h))),
{
    match zoom_find_last(v, reduction_level) {
        Some(i) => Some(zoom_header_mut(v, i)),
        None => None,
    }
}
/// any OTHER `V.iter_mut()[.rev()].find(|h| <some predicate>)` (0 hits on /repo: an edit that changes the
/// predicate): SOME element is handed out or none - which one is not promised, so the edit is judged by the contract
#[verifier::external_body]
pub fn zoom_find_mut_any(v: &mut Vec<ZoomHeader>, reduction_level: u32) -> (r: Option<&mut ZoomHeader>)
    ensures
        r is None ==> final(v)@ == old(v)@,
        r matches Some(h) ==> exists|i: int| 0 <= i < old(v)@.len() && *h == old(v)@[i] && final(v)@ == old(v)@.update(i, *final(h)),
{ unimplemented!() }

// ---------------- the reader: `Self: BBIReadInternal` with `Self::Read = VRead` ----------------
/// stands for `BigWigRead<R>` / `BigBedRead<R>` as seen through `trait BBIReadInternal`: `reader_and_info()`
/// hands out exactly these two fields (bigwigread.rs / bigbedread.rs: `(&mut self.read, &mut self.info)`)
pub struct VBbi { pub read: VRead, pub info: BBIFileInfo }

impl VBbi {
pub fn full_data_cir_tree(&mut self) -> (r: Result<CirTreeIndex, FullDataCirTreeError>)
    requires
        
        old(self).info.header.full_index_tree_offset is Some ==> old(self).info.header.full_index_offset + 48 <= u64::MAX,
    ensures
        
        r matches Ok(t) ==> t.0 is FullData && t.1 == old(self).info.header.full_index_offset + 48,
        
        final(self).read.content() == old(self).read.content() && final(self).read.env_ok() == old(self).read.env_ok(),
        
        old(self).info.header.full_index_tree_offset is None && r is Ok ==>
            tree_hdr_ok(is_big(old(self).info.header.endianness), old(self).read.content(), old(self).info.header.full_index_offset as int),
        
        old(self).info.header.full_index_tree_offset is None && old(self).read.env_ok()
            && tree_hdr_ok(is_big(old(self).info.header.endianness), old(self).read.content(), old(self).info.header.full_index_offset as int)
            ==> r is Ok,
        
        old(self).info.header.full_index_tree_offset is None && r is Ok ==>
            final(self).read.pos() == old(self).info.header.full_index_offset + 48,
        
        old(self).info.header.full_index_tree_offset is Some ==> r is Ok && final(self).read == old(self).read,
        
        old(self).info.header.full_index_tree_offset is None && old(self).read.env_ok()
            && tree_hdr_bad_magic(is_big(old(self).info.header.endianness), old(self).read.content(), old(self).info.header.full_index_offset as int)
            ==> r matches Err(FullDataCirTreeError::UnknownMagic),
        
        r matches Err(FullDataCirTreeError::UnknownMagic) ==> old(self).info.header.full_index_tree_offset is None
            && tree_hdr_bad_magic(is_big(old(self).info.header.endianness), old(self).read.content(), old(self).info.header.full_index_offset as int),
        
        r matches Err(FullDataCirTreeError::IoError(_)) ==> old(self).info.header.full_index_tree_offset is None
            && (!old(self).read.env_ok() || old(self).info.header.full_index_offset + 48 > old(self).read.content().len()),
        
        old(self).info.header.full_index_tree_offset is None && r is Ok ==>
            final(self).info.header.full_index_tree_offset == Some((old(self).info.header.full_index_offset + 48) as u64),
        
        old(self).info.header.full_index_tree_offset is Some ==>
            final(self).info.header.full_index_tree_offset == old(self).info.header.full_index_tree_offset,
        
        same_but_full_slot(old(self).info, final(self).info),
        
        r is Err ==> final(self).info.header.full_index_tree_offset == old(self).info.header.full_index_tree_offset,
        
        offsets_ok(old(self).info) ==> offsets_ok(final(self).info),
{
            let reader = &mut self.read; let info = &mut self.info;
            let index_offset = info.header.full_index_offset;
            if info.header.full_index_tree_offset.is_none() {
                let endianness = info.header.endianness;

                match reader
                    .seek_start(index_offset) { Ok(v__) => v__, Err(e) => return Err(FullDataCirTreeError::IoError(e)) };

                match read_cir_tree_header(endianness, reader) { Ok(v__) => v__, Err(e) => return Err(match e {
                    Either::Left(_) => FullDataCirTreeError::UnknownMagic,
                    Either::Right(e) => FullDataCirTreeError::IoError(e),
                }) };

                info.header.full_index_tree_offset = Some(index_offset + 48);
            }
            Ok(CirTreeIndex(CirTreeIndexType::FullData, index_offset + 48))
        }

pub fn zoom_cir_tree(
            &mut self,
            reduction_level: u32,
        ) -> (r: Result<CirTreeIndex, ZoomDataCirTreeError>)
    requires
        
        first_level(old(self).info.zoom_headers@, reduction_level) matches Some(i) ==>
            (old(self).info.zoom_headers@[i].index_tree_offset is Some ==> old(self).info.zoom_headers@[i].index_offset + 48 <= u64::MAX),
    ensures
        
        first_level(old(self).info.zoom_headers@, reduction_level) is None ==>
            (r matches Err(ZoomDataCirTreeError::ReductionLevelNotFound)) && final(self).read == old(self).read
            && final(self).info.zoom_headers@ == old(self).info.zoom_headers@,
        
        r matches Err(ZoomDataCirTreeError::ReductionLevelNotFound) ==> first_level(old(self).info.zoom_headers@, reduction_level) is None,
        
        r matches Ok(t) ==> (first_level(old(self).info.zoom_headers@, reduction_level) matches Some(i)
            && t.0 == CirTreeIndexType::Zoom(reduction_level) && t.1 == old(self).info.zoom_headers@[i].index_offset + 48),
        
        final(self).read.content() == old(self).read.content() && final(self).read.env_ok() == old(self).read.env_ok(),
        
        first_level(old(self).info.zoom_headers@, reduction_level) matches Some(i) ==>
            (old(self).info.zoom_headers@[i].index_tree_offset is None && r is Ok ==>
                tree_hdr_ok(is_big(old(self).info.header.endianness), old(self).read.content(), old(self).info.zoom_headers@[i].index_offset as int)),
        
        first_level(old(self).info.zoom_headers@, reduction_level) matches Some(i) ==>
            (old(self).info.zoom_headers@[i].index_tree_offset is None && old(self).read.env_ok()
                && tree_hdr_ok(is_big(old(self).info.header.endianness), old(self).read.content(), old(self).info.zoom_headers@[i].index_offset as int)
                ==> r is Ok),
        
        first_level(old(self).info.zoom_headers@, reduction_level) matches Some(i) ==>
            (old(self).info.zoom_headers@[i].index_tree_offset is None && r is Ok ==>
                final(self).read.pos() == old(self).info.zoom_headers@[i].index_offset + 48),
        
        first_level(old(self).info.zoom_headers@, reduction_level) matches Some(i) ==>
            (old(self).info.zoom_headers@[i].index_tree_offset is Some ==> r is Ok && final(self).read == old(self).read),
        
        first_level(old(self).info.zoom_headers@, reduction_level) matches Some(i) ==>
            (old(self).info.zoom_headers@[i].index_tree_offset is None && old(self).read.env_ok()
                && tree_hdr_bad_magic(is_big(old(self).info.header.endianness), old(self).read.content(), old(self).info.zoom_headers@[i].index_offset as int)
                ==> r matches Err(ZoomDataCirTreeError::UnknownMagic)),
        
        r matches Err(ZoomDataCirTreeError::UnknownMagic) ==> (first_level(old(self).info.zoom_headers@, reduction_level) matches Some(i)
            && old(self).info.zoom_headers@[i].index_tree_offset is None
            && tree_hdr_bad_magic(is_big(old(self).info.header.endianness), old(self).read.content(), old(self).info.zoom_headers@[i].index_offset as int)),
        
        r matches Err(ZoomDataCirTreeError::IoError(_)) ==> (first_level(old(self).info.zoom_headers@, reduction_level) matches Some(i)
            && old(self).info.zoom_headers@[i].index_tree_offset is None
            && (!old(self).read.env_ok() || old(self).info.zoom_headers@[i].index_offset + 48 > old(self).read.content().len())),
        
        first_level(old(self).info.zoom_headers@, reduction_level) matches Some(i) ==>
            (old(self).info.zoom_headers@[i].index_tree_offset is None && r is Ok ==>
                final(self).info.zoom_headers@[i].index_tree_offset == Some((old(self).info.zoom_headers@[i].index_offset + 48) as u64)),
        
        first_level(old(self).info.zoom_headers@, reduction_level) matches Some(i) ==>
            (old(self).info.zoom_headers@[i].index_tree_offset is Some ==> final(self).info.zoom_headers@ == old(self).info.zoom_headers@),
        
        first_level(old(self).info.zoom_headers@, reduction_level) matches Some(i) ==> same_but_zoom_slot(old(self).info, final(self).info, i),
        
        final(self).info.header == old(self).info.header && final(self).info.filetype == old(self).info.filetype
            && final(self).info.chrom_info == old(self).info.chrom_info,
        
        r is Err ==> final(self).info.zoom_headers@ == old(self).info.zoom_headers@,
        
        offsets_ok(old(self).info) ==> offsets_ok(final(self).info),
{
        proof { lemma_first_level_from(self.info.zoom_headers@, reduction_level, 0); }

            let reader = &mut self.read; let info = &mut self.info;
            let zoom_header = match zoom_find_mut(&mut info.zoom_headers, reduction_level)
            {
                Some(h) => h,
                None => {
                    return Err(ZoomDataCirTreeError::ReductionLevelNotFound);
                }
            };

            if zoom_header.index_tree_offset.is_none() {
                let endianness = info.header.endianness;

                match reader
                    .seek_start(zoom_header.index_offset) { Ok(v__) => v__, Err(e) => return Err(ZoomDataCirTreeError::IoError(e)) };

                match read_cir_tree_header(endianness, reader) { Ok(v__) => v__, Err(e) => return Err(match e {
                    Either::Left(_) => ZoomDataCirTreeError::UnknownMagic,
                    Either::Right(e) => ZoomDataCirTreeError::IoError(e),
                }) };

                zoom_header.index_tree_offset = Some(zoom_header.index_offset + 48);
            }

            Ok(CirTreeIndex(
                CirTreeIndexType::Zoom(reduction_level),
                zoom_header.index_offset + 48,
            ))
        }
}

// ---------------- "after any sequence of earlier queries" ----------------
// The drivers below call the two extracted methods above (nothing is re-implemented) with a symbolic history.
/// one tree lookup
pub enum Lookup { Full, Zoom(u32) }
/// its outcome
pub enum Answer { Tree(CirTreeIndex), UnknownMagic, LevelNotFound, Io }

/// what the FILE says about the tree at `at` (no cache involved)
pub open spec fn tree_answer(big: bool, c: Seq<u8>, kind: CirTreeIndexType, at: u64) -> Answer {
    if tree_hdr_ok(big, c, at as int) { Answer::Tree(CirTreeIndex(kind, (at + 48) as u64)) }
    else if tree_hdr_bad_magic(big, c, at as int) { Answer::UnknownMagic }
    else { Answer::Io }
}
/// what the file says about lookup q: a function of the header fields read from the file (`full_index_offset`,
/// the zoom directory's levels and `index_offset`s, the byte order) and of the file content - NOT of the caches
pub open spec fn file_answer(info: BBIFileInfo, c: Seq<u8>, q: Lookup) -> Answer {
    match q {
        Lookup::Full => tree_answer(is_big(info.header.endianness), c, CirTreeIndexType::FullData, info.header.full_index_offset),
        Lookup::Zoom(l) => match first_level(info.zoom_headers@, l) {
            None => Answer::LevelNotFound,
            Some(i) => tree_answer(is_big(info.header.endianness), c, CirTreeIndexType::Zoom(l), info.zoom_headers@[i].index_offset),
        },
    }
}
/// a and b describe the same file: they differ at most in the cache slots
pub open spec fn same_file(a: BBIFileInfo, b: BBIFileInfo) -> bool {
    &&& b.header == BBIHeader { full_index_tree_offset: b.header.full_index_tree_offset, ..a.header }
    &&& b.zoom_headers@.len() == a.zoom_headers@.len()
    &&& forall|j: int| 0 <= j < a.zoom_headers@.len() ==>
            #[trigger] b.zoom_headers@[j] == ZoomHeader { index_tree_offset: b.zoom_headers@[j].index_tree_offset, ..a.zoom_headers@[j] }
}
/// the invariant of a reader over file content c: coherent AND every cached position was validated
pub open spec fn caches_valid(info: BBIFileInfo, c: Seq<u8>) -> bool {
    &&& offsets_ok(info)
    &&& info.header.full_index_tree_offset is Some ==> tree_hdr_ok(is_big(info.header.endianness), c, info.header.full_index_offset as int)
    &&& forall|i: int| 0 <= i < info.zoom_headers@.len() ==>
            ((#[trigger] info.zoom_headers@[i]).index_tree_offset is Some ==>
                tree_hdr_ok(is_big(info.header.endianness), c, info.zoom_headers@[i].index_offset as int))
}
pub proof fn lemma_first_level_same_file(a: Seq<ZoomHeader>, b: Seq<ZoomHeader>, l: u32, i: int)
    requires a.len() == b.len(), forall|j: int| 0 <= j < a.len() ==> (#[trigger] a[j]).reduction_level == b[j].reduction_level,
    ensures first_level_from(a, l, i) == first_level_from(b, l, i),
    decreases a.len() - i
{
    if 0 <= i < a.len() { assert(a[i].reduction_level == b[i].reduction_level); lemma_first_level_same_file(a, b, l, i + 1); }
}
pub proof fn lemma_file_answer_ignores_the_caches(a: BBIFileInfo, b: BBIFileInfo, c: Seq<u8>, q: Lookup)
    requires same_file(a, b),
    ensures
        
        file_answer(a, c, q) == file_answer(b, c, q),
{
    assert forall|j: int| 0 <= j < a.zoom_headers@.len() implies (#[trigger] a.zoom_headers@[j]).reduction_level == b.zoom_headers@[j].reduction_level by {
        assert(b.zoom_headers@[j].reduction_level == a.zoom_headers@[j].reduction_level);
    }
    if let Lookup::Zoom(l) = q {
        lemma_first_level_same_file(a.zoom_headers@, b.zoom_headers@, l, 0);
        lemma_first_level_from(a.zoom_headers@, l, 0);
        if let Some(i) = first_level(a.zoom_headers@, l) { assert(b.zoom_headers@[i].index_offset == a.zoom_headers@[i].index_offset); }
    }
}

/// one lookup through the extracted methods
fn lookup(b: &mut VBbi, q: &Lookup) -> (a: Answer)
    requires
        caches_valid(old(b).info, old(b).read.content()),
    ensures
        
        caches_valid(final(b).info, final(b).read.content()) && same_file(old(b).info, final(b).info)
            && final(b).read.content() == old(b).read.content() && final(b).read.env_ok() == old(b).read.env_ok(),
        
        a is Tree ==> a == file_answer(old(b).info, old(b).read.content(), *q),
        
        old(b).read.env_ok() ==> a == file_answer(old(b).info, old(b).read.content(), *q),
{
    proof {
        if let Lookup::Zoom(l) = *q { lemma_first_level_from(b.info.zoom_headers@, l, 0); }
    }
    match q {
        Lookup::Full => match b.full_data_cir_tree() {
            Ok(t) => Answer::Tree(t),
            Err(FullDataCirTreeError::UnknownMagic) => Answer::UnknownMagic,
            Err(FullDataCirTreeError::IoError(_)) => Answer::Io,
        },
        Lookup::Zoom(l) => match b.zoom_cir_tree(*l) {
            Ok(t) => Answer::Tree(t),
            Err(ZoomDataCirTreeError::UnknownMagic) => Answer::UnknownMagic,
            Err(ZoomDataCirTreeError::ReductionLevelNotFound) => Answer::LevelNotFound,
            Err(ZoomDataCirTreeError::IoError(_)) => Answer::Io,
        },
    }
}

/// run an arbitrary history of lookups on one reader; answers are discarded
fn replay(b: &mut VBbi, ops: &Vec<Lookup>)
    requires
        caches_valid(old(b).info, old(b).read.content()),
    ensures
        
        caches_valid(final(b).info, final(b).read.content()) && same_file(old(b).info, final(b).info)
            && final(b).read.content() == old(b).read.content() && final(b).read.env_ok() == old(b).read.env_ok(),
{
    let mut i: usize = 0;
    while i < ops.len()
        invariant
            
            caches_valid(b.info, b.read.content()) && same_file(old(b).info, b.info)
                && b.read.content() == old(b).read.content() && b.read.env_ok() == old(b).read.env_ok(),
        decreases
            
            ops.len() - i,
    {
        let _ = lookup(b, &ops[i]);
        i = i + 1;
    }
}

/// A reader as `read_info` leaves it (no caches), ANY history of lookups, then the lookup q: the answer equals
/// the answer a FRESH reader of the same file gives to q.
fn driver_last_lookup_equals_a_fresh_readers(c: VBbi, fresh: VBbi, ops: &Vec<Lookup>, q: &Lookup) -> (r: (Answer, Answer))
    requires
        no_caches(c.info), no_caches(fresh.info), same_file(c.info, fresh.info),
        c.read.content() == fresh.read.content(),
    ensures
        
        r.0 is Tree && r.1 is Tree ==> r.0 == r.1,
        
        c.read.env_ok() && fresh.read.env_ok() ==> r.0 == r.1,
{
    let mut c = c;
    let mut fresh = fresh;
    let ghost c0 = c.info;
    replay(&mut c, ops);
    proof {
        lemma_file_answer_ignores_the_caches(c0, c.info, c.read.content(), *q);
        lemma_file_answer_ignores_the_caches(c0, fresh.info, c.read.content(), *q);
    }
    let a = lookup(&mut c, q);
    let b = lookup(&mut fresh, q);
    (a, b)
}

} // verus!
fn main() {}

