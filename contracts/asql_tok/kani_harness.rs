// Kani harnesses for unit asql_tok: the autoSql tokenizer `mod parser` in bigtools/src/bed/autosql.rs
// (take_whitespace, peek_word_internal, peek_one, peek_quoted_string, take and the eat_* wrappers).
// Injected as `#[cfg(kani)] mod verif_kani_asql_tok` INSIDE `pub mod parse { mod parser { .. } }`
// (kani.toml: module_path) because `parser` is private to `parse`; the real methods are called.
//
// BOUNDED (kind = "bounded"): input strings of length <= MAXLEN over ALPHABET (spec.rs), every length,
// every content, and EVERY wf cursor state (0 <= pos <= end <= len), one method call per harness.
// That is the one-step inductive form of A1: from any wf state each method re-establishes wf and its
// clause, so by induction every call sequence from `Parser::of` (pos = end = 0) does.
// Unwinding assertions on: the tokenizer's loops exit within the bound for these inputs.

include!("spec.rs");

const MAXLEN: usize = 5;

fn one_call(m: Method) {
    let mut bytes = [b'a'; MAXLEN];
    let mut i = 0;
    while i < MAXLEN {
        let k: u8 = kani::any();
        kani::assume((k as usize) < ALPHABET.len());
        bytes[i] = ALPHABET[k as usize];
        i += 1;
    }
    let len: usize = kani::any();
    let pos: usize = kani::any();
    let end: usize = kani::any();
    kani::assume(len <= MAXLEN);
    kani::assume(wf(pos, end, len));
    kani::cover!(true, "reach_one_call");
    // ASCII only, so every index is a char boundary and the bytes are valid UTF-8
    let data: &str = unsafe { std::str::from_utf8_unchecked(&bytes[..len]) };
    let mut p = super::Parser { data, start_cursor: pos, end_cursor: end };
    let v = call_and_check(m, &mut p);
    assert!(!v[0], "A1/wf': pos' <= end' <= len");
    assert!(!v[1], "A1/pos' >= pos");
    assert!(!v[2], "A1/cursor-token relation");
    assert!(!v[3], "A1/emptiness clause");
    assert!(!v[4], "A1/end-of-input or whitespace clause");
    assert!(!v[5], "A1/eat: token is the tail of the consumed input");
    assert!(!v[6], "A1/one: exactly one character");
    assert!(!v[7], "A1/word token shape");
}

// `Parser::of`: pos = end = 0, wf for every string
#[kani::proof]
#[kani::unwind(8)]
fn asql_tok_of() {
    let mut bytes = [b'a'; MAXLEN];
    let mut i = 0;
    while i < MAXLEN {
        let k: u8 = kani::any();
        kani::assume((k as usize) < ALPHABET.len());
        bytes[i] = ALPHABET[k as usize];
        i += 1;
    }
    let len: usize = kani::any();
    kani::assume(len <= MAXLEN);
    kani::cover!(true, "reach_of");
    let data: &str = unsafe { std::str::from_utf8_unchecked(&bytes[..len]) };
    let p = super::Parser::of(data);
    assert!(p.start_cursor == 0 && p.end_cursor == 0 && p.data.len() == len, "A1/of: pos == end == 0, len == |data|");
}

macro_rules! asql_tok_harness {
    ($name:ident, $m:expr) => {
        #[kani::proof]
        #[kani::unwind(8)]
        fn $name() {
            one_call($m)
        }
    };
}
asql_tok_harness!(asql_tok_take, Method::Take);
asql_tok_harness!(asql_tok_peek_word, Method::PeekWord);
asql_tok_harness!(asql_tok_eat_word, Method::EatWord);
asql_tok_harness!(asql_tok_peek_one, Method::PeekOne);
asql_tok_harness!(asql_tok_eat_one, Method::EatOne);
asql_tok_harness!(asql_tok_peek_quoted, Method::PeekQuoted);
asql_tok_harness!(asql_tok_eat_quoted, Method::EatQuoted);
