// ---- value_iter: shims, specification vocabulary and lemmas (included by unit.rs.tpl) ----------
// Expects `Value` and `DATA_SIZE` (both extracted from /repo) in scope.

// ---------------- shims (assumed; listed in NOTES.md) ----------------
/// the generic error type `E` of the input streams (opaque)
#[verifier::external_body]
pub struct MergeError { _p: u8 }

/// R11 shim for the generic input stream `I: Iterator<Item = Result<Value, E>>`: ghost `rest()` = the
/// items it will still yield.  `next` yields the head and advances; when exhausted it yields None and
/// stays exhausted (a *fused* iterator: ValueIter calls `next` again in every later window).
#[verifier::external_body]
pub struct VIter { _p: u8 }
impl VIter {
    pub uninterp spec fn rest(&self) -> Seq<Result<Value, MergeError>>;
    #[verifier::external_body]
    pub fn next(&mut self) -> (r: Option<Result<Value, MergeError>>)
        ensures
            old(self).rest().len() == 0 ==> r is None && final(self).rest() == old(self).rest(),
            old(self).rest().len() > 0 ==> r == Some(old(self).rest()[0]) && final(self).rest() == old(self).rest().subrange(1, old(self).rest().len() as int),
    { unimplemented!() }
}

/// `v as f64` for an f32 (exact widening; uninterpreted here)
pub uninterp spec fn f64_of(x: f32) -> f64;
#[verifier::external_body]
pub fn f64_of_f32(x: f32) -> (r: f64) ensures r == f64_of(x) { x as f64 }
/// `x as f32` for an f64 (rounding; uninterpreted)
pub uninterp spec fn f32_of(x: f64) -> f32;
#[verifier::external_body]
pub fn f32_of_f64(x: f64) -> (r: f32) ensures r == f32_of(x) { x as f32 }
/// float `==` (uninterpreted but deterministic); `!=` is its negation (IEEE 754)
pub uninterp spec fn feq(a: f64, b: f64) -> bool;
#[verifier::external_body]
pub fn f64_eq(a: f64, b: f64) -> (r: bool) ensures r == feq(a, b) { a == b }
#[verifier::external_body]
pub fn f64_ne(a: f64, b: f64) -> (r: bool) ensures r == !feq(a, b) { a != b }

/// `&mut data[a..b]`: the slice expression panics unless a <= b <= len
pub fn slice_bounds(d: &Vec<f64>, a: usize, b: usize)
    requires a <= b <= d@.len(),
{ }
/// one element of `&mut data[a..b]` handed out by the slice iterator
#[verifier::external_body]
pub fn cell_mut(data: &mut Vec<f64>, i: usize) -> (r: &mut f64)
    requires i < old(data)@.len(),
    ensures *r == old(data)@[i as int], final(data)@ == old(data)@.update(i as int, *final(r)),
{ &mut data[i] }

// ---------------- vocabulary: the window ----------------
spec fn imax(a: int, b: int) -> int { if a >= b { a } else { b } }
spec fn imin(a: int, b: int) -> int { if a <= b { a } else { b } }
spec fn opt_seq(o: Option<Value>) -> Seq<Result<Value, MergeError>> {
    if o is Some { seq![Ok::<Value, MergeError>(o->Some_0)] } else { Seq::empty() }
}
/// what one section will still deliver: the parked value (if any), then the rest of its stream
spec fn pend(last: Option<Value>, it: VIter) -> Seq<Result<Value, MergeError>> { opt_seq(last) + it.rest() }

/// input assumption of C15 on one stream, relative to the window start `cs`: every value has
/// start <= end, values are sorted and disjoint, and nothing pending ends before the window starts.
/// (The last conjunct is the invariant maintained from window to window; at cs == 0 it is trivial.)
#[verifier::opaque]
spec fn sec_ok(p: Seq<Result<Value, MergeError>>, cs: int) -> bool {
    &&& forall|i: int| 0 <= i < p.len() && (#[trigger] p[i]) is Ok ==> p[i]->Ok_0.start <= p[i]->Ok_0.end
    &&& forall|i: int, j: int| 0 <= i < j < p.len() && (#[trigger] p[i]) is Ok && (#[trigger] p[j]) is Ok ==> p[i]->Ok_0.end <= p[j]->Ok_0.start
    &&& forall|i: int| 0 <= i < p.len() && (#[trigger] p[i]) is Ok ==> cs <= p[i]->Ok_0.end
}
/// k = where the section stops in this window: the first item that is an error or a value reaching
/// the window end `wend` (everything before it ends strictly inside the window and is used up)
spec fn is_stop(p: Seq<Result<Value, MergeError>>, k: int, wend: int) -> bool {
    &&& 0 <= k <= p.len()
    &&& forall|i: int| 0 <= i < k ==> (#[trigger] p[i]) is Ok && p[i]->Ok_0.end < wend
    &&& k < p.len() ==> (p[k] is Err || p[k]->Ok_0.end >= wend)
}
spec fn stop_is_err(p: Seq<Result<Value, MergeError>>, k: int) -> bool { k < p.len() && p[k] is Err }
/// the first n items as values
spec fn oks(p: Seq<Result<Value, MergeError>>, n: int) -> Seq<Value> { Seq::new(n as nat, |i: int| p[i]->Ok_0) }
/// number of values the section looks at in this window: those before the stop, and the stop value itself
spec fn n_taken(p: Seq<Result<Value, MergeError>>, k: int) -> int { if k < p.len() && p[k] is Ok { k + 1 } else { k } }
spec fn taken(p: Seq<Result<Value, MergeError>>, k: int) -> Seq<Value> { oks(p, n_taken(p, k)) }

spec fn covers(v: Value, b: int) -> bool { v.start <= b < v.end }
/// C15: a value is added once to exactly the window cells of its bases (cell c = base cs + c)
spec fn add_val(d: Seq<f64>, v: Value, cs: int) -> Seq<f64> {
    Seq::new(d.len(), |c: int| if covers(v, cs + c) { d[c].add_spec(f64_of(v.value)) } else { d[c] })
}
/// ... for a sequence of values, in the order they are taken
#[verifier::opaque]
spec fn add_vals(d: Seq<f64>, s: Seq<Value>, cs: int) -> Seq<f64>
    decreases s.len()
{
    if s.len() == 0 { d } else { add_val(add_vals(d, s.drop_last(), cs), s.last(), cs) }
}
/// the cells [a, b) each get one `+ x`
spec fn add_range(d: Seq<f64>, a: int, b: int, x: f64) -> Seq<f64> {
    Seq::new(d.len(), |c: int| if a <= c < b { d[c].add_spec(x) } else { d[c] })
}
/// largest in-window end touched: only values that start inside the window count
spec fn touch_end(m: int, v: Value, cs: int) -> int {
    if v.start < cs + DATA_SIZE as int { imax(m, imin(v.end - cs, DATA_SIZE as int)) } else { m }
}
#[verifier::opaque]
spec fn touch_ends(m: int, s: Seq<Value>, cs: int) -> int
    decreases s.len()
{
    if s.len() == 0 { m } else { touch_end(touch_ends(m, s.drop_last(), cs), s.last(), cs) }
}

// ---------------- lemmas (A) ----------------
/// the two folds, one step (the only place where they are unfolded)
proof fn lemma_fold_empty(d: Seq<f64>, m: int, cs: int)
    ensures add_vals(d, Seq::<Value>::empty(), cs) == d, touch_ends(m, Seq::<Value>::empty(), cs) == m,
{
    reveal_with_fuel(add_vals, 1); reveal_with_fuel(touch_ends, 1);
}
proof fn lemma_fold_push(d: Seq<f64>, m: int, s: Seq<Value>, v: Value, cs: int)
    ensures
        add_vals(d, s.push(v), cs) == add_val(add_vals(d, s, cs), v, cs),
        touch_ends(m, s.push(v), cs) == touch_end(touch_ends(m, s, cs), v, cs),
{
    reveal_with_fuel(add_vals, 1); reveal_with_fuel(touch_ends, 1);
    assert(s.push(v).drop_last() =~= s);
}
proof fn lemma_fold_step(d: Seq<f64>, m: int, p: Seq<Result<Value, MergeError>>, j: int, cs: int)
    requires 0 <= j < p.len(),
    ensures
        add_vals(d, oks(p, j + 1), cs) == add_val(add_vals(d, oks(p, j), cs), p[j]->Ok_0, cs),
        touch_ends(m, oks(p, j + 1), cs) == touch_end(touch_ends(m, oks(p, j), cs), p[j]->Ok_0, cs),
{
    lemma_oks_push(p, j);
    lemma_fold_push(d, m, oks(p, j), p[j]->Ok_0, cs);
}
/// what sec_ok gives for one item
proof fn lemma_sec_ok_item(p: Seq<Result<Value, MergeError>>, cs: int, j: int)
    requires sec_ok(p, cs), 0 <= j < p.len(), p[j] is Ok,
    ensures p[j]->Ok_0.start <= p[j]->Ok_0.end, cs <= p[j]->Ok_0.end,
{
    reveal(sec_ok);
}
/// the window-to-window invariant: what is still pending after the stop lies beyond the window end
proof fn lemma_sec_ok_suffix(p: Seq<Result<Value, MergeError>>, cs: int, k: int, wend: int)
    requires sec_ok(p, cs), is_stop(p, k, wend), !stop_is_err(p, k),
    ensures sec_ok(p.subrange(k, p.len() as int), wend),
{
    reveal(sec_ok);
    let s = p.subrange(k, p.len() as int);
    assert forall|i: int| 0 <= i < s.len() && (#[trigger] s[i]) is Ok implies wend <= s[i]->Ok_0.end && s[i]->Ok_0.start <= s[i]->Ok_0.end by {
        assert(s[i] == p[k + i]);
        assert(s[0] == p[k]);
        if i > 0 { assert(p[k]->Ok_0.end <= p[k + i]->Ok_0.start); }
    }
    assert forall|i: int, j: int| 0 <= i < j < s.len() && (#[trigger] s[i]) is Ok && (#[trigger] s[j]) is Ok implies s[i]->Ok_0.end <= s[j]->Ok_0.start by {
        assert(s[i] == p[k + i]); assert(s[j] == p[k + j]);
    }
}
proof fn lemma_oks_push(p: Seq<Result<Value, MergeError>>, j: int)
    requires 0 <= j < p.len(),
    ensures oks(p, j + 1) == oks(p, j).push(p[j]->Ok_0), oks(p, j + 1).drop_last() == oks(p, j), oks(p, j + 1).last() == p[j]->Ok_0,
{
    assert(oks(p, j + 1) =~= oks(p, j).push(p[j]->Ok_0));
    assert(oks(p, j + 1).drop_last() =~= oks(p, j));
}
/// the code's cell range [ds, de) is exactly the set of window cells whose base lies in the value
proof fn lemma_range_is_val(d: Seq<f64>, v: Value, cs: int, ds: int, de: int)
    requires
        d.len() == DATA_SIZE, cs <= v.end, v.start <= v.end,
        ds == imax(cs, v.start as int) - cs, ds < DATA_SIZE, de == imin(DATA_SIZE as int, v.end - cs),
    ensures add_range(d, ds, de, f64_of(v.value)) == add_val(d, v, cs),
{
    assert(add_range(d, ds, de, f64_of(v.value)) =~= add_val(d, v, cs));
}
proof fn lemma_no_cell(d: Seq<f64>, v: Value, cs: int)
    requires d.len() == DATA_SIZE, v.start >= cs + DATA_SIZE,
    ensures add_val(d, v, cs) == d,
{
    assert(add_val(d, v, cs) =~= d);
}

// ---------------- vocabulary: run-length encoding (B) ----------------
/// [a, b) is a maximal stretch of cells whose sum equals (float `==`) the sum of its first cell
spec fn run_ok(d: Seq<f64>, a: int, b: int, n: int) -> bool {
    &&& 0 <= a < b <= n
    &&& forall|j: int| a < j < b ==> feq(d[a], #[trigger] d[j])
    &&& b < n ==> !feq(d[a], d[b])
}
/// the runs tile [0, upto): first starts at 0, each starts where the previous ended, last ends at upto
spec fn runs_tile(runs: Seq<(int, int)>, upto: int) -> bool {
    &&& runs.len() == 0 ==> upto == 0
    &&& runs.len() > 0 ==> runs[0].0 == 0 && runs.last().1 == upto
    &&& forall|q: int| 0 <= q < runs.len() - 1 ==> (#[trigger] runs[q]).1 == runs[q + 1].0
    &&& forall|q: int| 0 <= q < runs.len() ==> (#[trigger] runs[q]).0 < runs[q].1
}
spec fn run_value(r: (int, int), d: Seq<f64>, cs: int) -> Value {
    Value { start: (cs + r.0) as u32, end: (cs + r.1) as u32, value: f32_of(d[r.0]) }
}
/// C15: a run whose sum is zero is absent; every other run appears once, in order, with the run's sum
#[verifier::opaque]
spec fn emit(runs: Seq<(int, int)>, d: Seq<f64>, cs: int) -> Seq<Value>
    decreases runs.len()
{
    if runs.len() == 0 { Seq::empty() }
    else {
        let o = emit(runs.drop_last(), d, cs);
        if !feq(d[runs.last().0], 0.0f64) { o.push(run_value(runs.last(), d, cs)) } else { o }
    }
}
/// sorted, pairwise disjoint, non-empty values inside [lo, hi)
spec fn sorted_in(o: Seq<Value>, lo: int, hi: int) -> bool {
    &&& forall|i: int| 0 <= i < o.len() ==> lo <= (#[trigger] o[i]).start < o[i].end <= hi
    &&& forall|i: int, j: int| 0 <= i < j < o.len() ==> (#[trigger] o[i]).end <= (#[trigger] o[j]).start
}
proof fn lemma_emit_empty(d: Seq<f64>, cs: int)
    ensures emit(Seq::<(int, int)>::empty(), d, cs) == Seq::<Value>::empty(),
{
    reveal_with_fuel(emit, 1);
}
/// closing the run r = [a, b) behind output that lies before cell a
proof fn lemma_emit_push(runs: Seq<(int, int)>, r: (int, int), d: Seq<f64>, cs: int, n: int)
    requires
        0 <= r.0 < r.1 <= n <= DATA_SIZE, 0 <= cs, cs + DATA_SIZE as int <= u32::MAX as int,
        sorted_in(emit(runs, d, cs), cs, cs + r.0),
    ensures
        emit(runs.push(r), d, cs) == (if !feq(d[r.0], 0.0f64) { emit(runs, d, cs).push(run_value(r, d, cs)) } else { emit(runs, d, cs) }),
        sorted_in(emit(runs.push(r), d, cs), cs, cs + r.1),
{
    reveal_with_fuel(emit, 1);
    assert(runs.push(r).drop_last() =~= runs);
    let o = emit(runs, d, cs);
    let o2 = emit(runs.push(r), d, cs);
    if !feq(d[r.0], 0.0f64) {
        let v = run_value(r, d, cs);
        assert forall|i: int| 0 <= i < o2.len() implies cs <= (#[trigger] o2[i]).start < o2[i].end <= cs + r.1 by {
            if i < o.len() { assert(o2[i] == o[i]); }
        }
        assert forall|i: int, j: int| 0 <= i < j < o2.len() implies (#[trigger] o2[i]).end <= (#[trigger] o2[j]).start by {
            assert(o2[i] == o[i]);
            if j < o.len() { assert(o2[j] == o[j]); }
        }
    }
}
proof fn lemma_tile_push(runs: Seq<(int, int)>, a: int, b: int)
    requires runs_tile(runs, a), 0 <= a < b,
    ensures runs_tile(runs.push((a, b)), b),
{
    let r2 = runs.push((a, b));
    assert forall|q: int| 0 <= q < r2.len() - 1 implies (#[trigger] r2[q]).1 == r2[q + 1].0 by {
        if q < runs.len() - 1 { assert(r2[q] == runs[q]); assert(r2[q + 1] == runs[q + 1]); }
        else { assert(r2[q] == runs[q]); assert(runs[q] == runs.last()); }
    }
    assert forall|q: int| 0 <= q < r2.len() implies (#[trigger] r2[q]).0 < r2[q].1 by {
        if q < runs.len() { assert(r2[q] == runs[q]); }
    }
    if runs.len() > 0 { assert(r2[0] == runs[0]); }
}

/// what closing run r does to the output: appended iff its sum is not zero
spec fn close_run(o: Seq<Value>, r: (int, int), d: Seq<f64>, cs: int) -> Seq<Value> {
    if !feq(d[r.0], 0.0f64) { o.push(run_value(r, d, cs)) } else { o }
}
/// the quantified part of the RLE loop invariant after `idx` cells (opaque to the loop body):
/// closed runs tile [0, s), are maximal, have been emitted; the open run [s, idx) has equal sums
#[verifier::opaque]
spec fn rle_deep(runs: Seq<(int, int)>, o: Seq<Value>, d: Seq<f64>, cs: int, n: int, s: int, idx: int) -> bool {
    &&& 0 <= idx <= n <= DATA_SIZE && d.len() == DATA_SIZE && 0 <= cs && cs + DATA_SIZE as int <= u32::MAX as int
    &&& idx == 0 ==> s == 0
    &&& idx > 0 ==> 0 <= s < idx
    &&& runs_tile(runs, s)
    &&& forall|q: int| 0 <= q < runs.len() ==> run_ok(d, (#[trigger] runs[q]).0, runs[q].1, n)
    &&& o == emit(runs, d, cs)
    &&& sorted_in(o, cs, cs + s)
    &&& forall|j: int| s < j < idx ==> feq(d[s], #[trigger] d[j])
}
proof fn lemma_rle_init(d: Seq<f64>, cs: int, n: int)
    requires 0 <= n <= DATA_SIZE, d.len() == DATA_SIZE, 0 <= cs, cs + DATA_SIZE as int <= u32::MAX as int,
    ensures rle_deep(Seq::<(int, int)>::empty(), Seq::<Value>::empty(), d, cs, n, 0, 0),
{
    reveal(rle_deep);
    lemma_emit_empty(d, cs);
}
proof fn lemma_rle_first(runs: Seq<(int, int)>, o: Seq<Value>, d: Seq<f64>, cs: int, n: int)
    requires rle_deep(runs, o, d, cs, n, 0, 0), n > 0,
    ensures rle_deep(runs, o, d, cs, n, 0, 1),
{
    reveal(rle_deep);
}
proof fn lemma_rle_extend(runs: Seq<(int, int)>, o: Seq<Value>, d: Seq<f64>, cs: int, n: int, s: int, idx: int)
    requires rle_deep(runs, o, d, cs, n, s, idx), 0 < idx < n, feq(d[s], d[idx]),
    ensures rle_deep(runs, o, d, cs, n, s, idx + 1),
{
    reveal(rle_deep);
}
proof fn lemma_run_push(runs: Seq<(int, int)>, d: Seq<f64>, n: int, r: (int, int))
    requires forall|q: int| 0 <= q < runs.len() ==> run_ok(d, (#[trigger] runs[q]).0, runs[q].1, n), run_ok(d, r.0, r.1, n),
    ensures forall|q: int| 0 <= q < runs.push(r).len() ==> run_ok(d, (#[trigger] runs.push(r)[q]).0, runs.push(r)[q].1, n),
{
    assert forall|q: int| 0 <= q < runs.push(r).len() implies run_ok(d, (#[trigger] runs.push(r)[q]).0, runs.push(r)[q].1, n) by {
        if q < runs.len() { assert(runs.push(r)[q] == runs[q]); }
    }
}
proof fn lemma_rle_close(runs: Seq<(int, int)>, o: Seq<Value>, d: Seq<f64>, cs: int, n: int, s: int, idx: int)
    requires rle_deep(runs, o, d, cs, n, s, idx), 0 < idx < n, !feq(d[s], d[idx]),
    ensures rle_deep(runs.push((s, idx)), close_run(o, (s, idx), d, cs), d, cs, n, idx, idx + 1),
{
    reveal(rle_deep);
    lemma_emit_push(runs, (s, idx), d, cs, n);
    lemma_tile_push(runs, s, idx);
    lemma_run_push(runs, d, n, (s, idx));
}
/// after the loop: the open run [s, n) is closed by the final flush
proof fn lemma_rle_close_last(runs: Seq<(int, int)>, o: Seq<Value>, d: Seq<f64>, cs: int, n: int, s: int)
    requires rle_deep(runs, o, d, cs, n, s, n), n > 0,
    ensures
        runs_tile(runs.push((s, n)), n),
        forall|q: int| 0 <= q < runs.push((s, n)).len() ==> run_ok(d, (#[trigger] runs.push((s, n))[q]).0, runs.push((s, n))[q].1, n),
        close_run(o, (s, n), d, cs) == emit(runs.push((s, n)), d, cs),
        sorted_in(close_run(o, (s, n), d, cs), cs, cs + n),
{
    reveal(rle_deep);
    lemma_emit_push(runs, (s, n), d, cs, n);
    lemma_tile_push(runs, s, n);
    lemma_run_push(runs, d, n, (s, n));
}
proof fn lemma_rle_none(runs: Seq<(int, int)>, o: Seq<Value>, d: Seq<f64>, cs: int, n: int, s: int)
    requires rle_deep(runs, o, d, cs, n, s, n), n == 0,
    ensures
        runs_tile(runs, 0),
        forall|q: int| 0 <= q < runs.len() ==> run_ok(d, (#[trigger] runs[q]).0, runs[q].1, n),
        o == emit(runs, d, cs),
        sorted_in(o, cs, cs),
{
    reveal(rle_deep);
}
