//@unit asql_read
//@serves C19 C02 C10
//@backend verus
// bigbedread.rs `BigBedRead::autosql` and the three `open` functions (bigwigread.rs, bigbedread.rs, bbiread.rs).
//   C19/C02: "a schema supplied to the tool or the library is stored and returned verbatim": the reader returns exactly
//   the bytes stored at `auto_sql_offset` up to (not including) the terminating NUL -- the reader-side mirror of unit
//   write_pre (`bb/text_stored_verbatim_at_autosql_offset`, `bb/text_has_no_nul_and_one_nul_follows`); offset 0 = no
//   schema.  C10: a file is opened as what its magic says (bigWig / bigBed), never as the other kind.
// The prelude (types, VRead shim) is a copy of unit summary_io's prelude, taken mechanically by the maintainer's
// script at unit-creation time (same shims, same assumptions).
use vstd::prelude::*;
use vstd::std_specs::convert::FromSpec;
verus! {
//@include ../_shared/bytes.rs
//@include ../_shared/bytes_lemmas.rs

// std stand-ins that only matter for CHANGED code (0 hits on /repo): they let an edit that swallows an error reach
// the verifier.  Contracts are those of std.
pub assume_specification<T, E>[Result::<T, E>::unwrap_or](x: Result<T, E>, d: T) -> (v: T)
    ensures x matches Ok(y) ==> v == y, x is Err ==> v == d;
pub assume_specification<T: Default, E>[Result::<T, E>::unwrap_or_default](x: Result<T, E>) -> (v: T)
    ensures x matches Ok(y) ==> v == y;

/// shim for byteordered::Endianness (external crate, a plain 2-variant enum)
#[derive(Clone, Copy)]
pub enum Endianness { Big, Little }
pub open spec fn is_big(e: Endianness) -> bool { e is Big }

//@extract struct bigtools/src/bbi.rs Summary
//@rule R8
//@end
//@extract enum bigtools/src/bbi.rs BBIFile
//@rule R8
//@end
//@extract struct bigtools/src/bbi.rs ZoomHeader
//@rule R8
//@end
//@extract struct bigtools/src/bbi/bbiread.rs BBIHeader
//@rule R8
//@end
// R11: `name: String` -> `name: Vec<u8>` (never inspected here)
//@extract struct bigtools/src/bbi/bbiread.rs ChromInfo
//@rule R8
//@sub /#\[derive\(Clone\)\]\n/ => "" min=0
//@sub /name: String/ => name: Vec<u8> min=1
//@end
//@extract struct bigtools/src/bbi/bbiread.rs BBIFileInfo
//@rule R8
//@sub /#\[derive\(Clone\)\]\n/ => "" min=0
//@end
// thiserror derive: `#[error(..)]` display strings dropped, `#[from] io::Error` -> IoError, BedValueError opaque,
// String payloads -> Vec<u8>; the From impl that `#[from]` generates is written out below (it wraps, nothing else)
//@extract enum bigtools/src/bbi/bbiread.rs BBIReadError
//@rule R8
//@sub /[ \t]*#\[error\([^\n]*\)\]\n/ => "" min=5
//@sub /#\[from\] io::Error/ => IoError min=1
//@sub /#\[from\] BedValueError/ => BedValueError min=1
//@sub /String/ => Vec<u8> min=2
//@end
/// bed::bedparser::BedValueError (opaque; never constructed here)
#[verifier::external_body]
pub struct BedValueError { _p: u8 }
impl vstd::std_specs::convert::FromSpecImpl<IoError> for BBIReadError {
    open spec fn obeys_from_spec() -> bool { true }
    open spec fn from_spec(e: IoError) -> BBIReadError { BBIReadError::IoError(e) }
}
impl From<IoError> for BBIReadError {
    fn from(e: IoError) -> (r: BBIReadError) { BBIReadError::IoError(e) }
}

// ---------------- reader shims ----------------
// `R: Read + Seek` behind `BBIFileRead::raw_reader()`: ghost file content, OS position and an environment flag.
// ASSUMED contract of std (as in units rt_readnode / tree_offsets): `seek(Start(p))` moves to p or fails only
// because of the environment; reading exactly n bytes fails iff fewer than n bytes remain or the environment
// fails and otherwise yields the next n bytes.
#[verifier::external_body]
pub struct VRead { _p: u8 }
impl VRead {
    pub uninterp spec fn content(&self) -> Seq<u8>;
    pub uninterp spec fn pos(&self) -> int;
    pub uninterp spec fn env_ok(&self) -> bool;
    #[verifier::external_body]
    pub fn seek_start(&mut self, p: u64) -> (r: Result<u64, IoError>)
        ensures final(self).content() == old(self).content(), final(self).env_ok() == old(self).env_ok(),
            old(self).env_ok() ==> r is Ok, r is Ok ==> final(self).pos() == p && r->Ok_0 == p,
    { unimplemented!() }
    #[verifier::external_body]
    pub fn read_cur(&mut self, n: usize) -> (r: Result<Cur, IoError>)
        ensures final(self).content() == old(self).content(), final(self).env_ok() == old(self).env_ok(),
            (old(self).env_ok() && 0 <= old(self).pos() && old(self).pos() + n <= old(self).content().len()) ==> r is Ok,
            r is Ok ==> 0 <= old(self).pos() && old(self).pos() + n <= old(self).content().len()
                && final(self).pos() == old(self).pos() + n
                && r->Ok_0.rem() == old(self).content().subrange(old(self).pos(), old(self).pos() + n),
    { unimplemented!() }
    /// `byteorder::ReadBytesExt::read_u64::<BigEndian>()` / `::<LittleEndian>()` (ASSUMED: `read_exact` of 8
    /// bytes, then `u64::from_be_bytes` / `from_le_bytes`)
    pub fn read_u64_be(&mut self) -> (r: Result<u64, IoError>)
        ensures final(self).content() == old(self).content(), final(self).env_ok() == old(self).env_ok(),
            (old(self).env_ok() && 0 <= old(self).pos() && old(self).pos() + 8 <= old(self).content().len()) ==> r is Ok,
            r is Ok ==> 0 <= old(self).pos() && old(self).pos() + 8 <= old(self).content().len()
                && final(self).pos() == old(self).pos() + 8 && r->Ok_0 == dbe64(old(self).content(), old(self).pos()),
    {
        let mut c = self.read_cur(8)?;
        Ok(c.get_u64())
    }
    pub fn read_u64_le(&mut self) -> (r: Result<u64, IoError>)
        ensures final(self).content() == old(self).content(), final(self).env_ok() == old(self).env_ok(),
            (old(self).env_ok() && 0 <= old(self).pos() && old(self).pos() + 8 <= old(self).content().len()) ==> r is Ok,
            r is Ok ==> 0 <= old(self).pos() && old(self).pos() + 8 <= old(self).content().len()
                && final(self).pos() == old(self).pos() + 8 && r->Ok_0 == dle64(old(self).content(), old(self).pos()),
    {
        let mut c = self.read_cur(8)?;
        Ok(c.get_u64_le())
    }
}
/// `f64::from_bits`
#[verifier::external_body]
pub fn f64_from_bits(b: u64) -> (r: f64) ensures r == f64_of_bits(b) { f64::from_bits(b) }

/// `byteordered::ByteOrdered<&mut R, Endianness>` built by `ByteOrdered::runtime(reader, endianness)`.
/// ASSUMED contract of the `byteordered` crate: `read_u64()` / `read_f64()` read exactly 8 bytes from the inner
/// reader and decode them in the byte order given at construction (`f64` through its IEEE bit pattern), passing
/// I/O errors on; `seek` is the inner reader's.  Written out as verified code over `VRead`.
pub struct VOrd<'a> { pub inner: &'a mut VRead, pub e: Endianness }
impl<'a> VOrd<'a> {
    pub fn runtime(inner: &'a mut VRead, e: Endianness) -> (r: VOrd<'a>)
        ensures r.e == e, *r.inner == *old(inner), *final(r.inner) == *final(inner),
    { VOrd { inner, e } }
    pub fn seek_start(&mut self, p: u64) -> (r: Result<u64, IoError>)
        ensures final(self).e == old(self).e, *final(final(self).inner) == *final(old(self).inner),
            final(self).inner.content() == old(self).inner.content(), final(self).inner.env_ok() == old(self).inner.env_ok(),
            old(self).inner.env_ok() ==> r is Ok, r is Ok ==> final(self).inner.pos() == p && r->Ok_0 == p,
    { self.inner.seek_start(p) }
    pub fn read_u64(&mut self) -> (r: Result<u64, IoError>)
        ensures final(self).e == old(self).e, *final(final(self).inner) == *final(old(self).inner),
            final(self).inner.content() == old(self).inner.content(), final(self).inner.env_ok() == old(self).inner.env_ok(),
            (old(self).inner.env_ok() && 0 <= old(self).inner.pos() && old(self).inner.pos() + 8 <= old(self).inner.content().len()) ==> r is Ok,
            r is Ok ==> 0 <= old(self).inner.pos() && old(self).inner.pos() + 8 <= old(self).inner.content().len()
                && final(self).inner.pos() == old(self).inner.pos() + 8
                && r->Ok_0 == d64(is_big(old(self).e), old(self).inner.content(), old(self).inner.pos()),
    {
        match self.e {
            Endianness::Big => self.inner.read_u64_be(),
            Endianness::Little => self.inner.read_u64_le(),
        }
    }
    // stand-ins that only matter for CHANGED code (0 hits on /repo): nothing is promised about the value or the
    // position, so an edit that starts using them is judged by the contracts below
    #[verifier::external_body]
    pub fn read_u32(&mut self) -> (r: Result<u32, IoError>)
        ensures final(self).e == old(self).e, *final(final(self).inner) == *final(old(self).inner),
            final(self).inner.content() == old(self).inner.content(), final(self).inner.env_ok() == old(self).inner.env_ok(),
    { unimplemented!() }
    #[verifier::external_body]
    pub fn read_i64(&mut self) -> (r: Result<i64, IoError>)
        ensures final(self).e == old(self).e, *final(final(self).inner) == *final(old(self).inner),
            final(self).inner.content() == old(self).inner.content(), final(self).inner.env_ok() == old(self).inner.env_ok(),
    { unimplemented!() }
    #[verifier::external_body]
    pub fn read_f32(&mut self) -> (r: Result<f32, IoError>)
        ensures final(self).e == old(self).e, *final(final(self).inner) == *final(old(self).inner),
            final(self).inner.content() == old(self).inner.content(), final(self).inner.env_ok() == old(self).inner.env_ok(),
    { unimplemented!() }
    pub fn read_f64(&mut self) -> (r: Result<f64, IoError>)
        ensures final(self).e == old(self).e, *final(final(self).inner) == *final(old(self).inner),
            final(self).inner.content() == old(self).inner.content(), final(self).inner.env_ok() == old(self).inner.env_ok(),
            (old(self).inner.env_ok() && 0 <= old(self).inner.pos() && old(self).inner.pos() + 8 <= old(self).inner.content().len()) ==> r is Ok,
            r is Ok ==> 0 <= old(self).inner.pos() && old(self).inner.pos() + 8 <= old(self).inner.content().len()
                && final(self).inner.pos() == old(self).inner.pos() + 8
                && r->Ok_0 == f64_of_bits(d64(is_big(old(self).e), old(self).inner.content(), old(self).inner.pos()) as u64),
    {
        let b = self.read_u64()?;
        Ok(f64_from_bits(b))
    }
}

/// `String` as bytes (UTF-8-ness is an uninterpreted predicate of the bytes)
#[verifier::external_body]
pub struct Text { _p: u8 }
impl Text { pub uninterp spec fn bytes(&self) -> Seq<u8>; }
pub uninterp spec fn utf8_ok(b: Seq<u8>) -> bool;
pub struct Utf8Err {}
/// `String::from_utf8(buffer)` (ASSUMED std contract)
#[verifier::external_body]
pub fn string_from_utf8(b: Vec<u8>) -> (r: Result<Text, Utf8Err>)
    ensures r is Ok <==> utf8_ok(b@), r matches Ok(t) ==> t.bytes() == b@,
{ unimplemented!() }
#[verifier::external_body]
pub fn err_text(s: &str) -> (r: Vec<u8>) { unimplemented!() }
/// index of the first 0 byte at or after `from`, or the length when there is none
pub open spec fn nul_at(c: Seq<u8>, from: int) -> int
    decreases c.len() - from
{
    if from < 0 || from >= c.len() { c.len() as int } else if c[from] == 0u8 { from } else { nul_at(c, from + 1) }
}
impl VRead {
    /// `BufRead::read_until(0, &mut buf)` (ASSUMED std contract; BufReader buffering transparent): appends the bytes
    /// from the position through and INCLUDING the first 0 byte, or through end of file when there is none
    #[verifier::external_body]
    pub fn read_until_nul(&mut self, buf: &mut Vec<u8>) -> (r: Result<usize, IoError>)
        ensures final(self).content() == old(self).content(), final(self).env_ok() == old(self).env_ok(),
            (old(self).env_ok() && 0 <= old(self).pos() <= old(self).content().len()) ==> r is Ok,
            r is Ok ==> {
                let c = old(self).content(); let p = old(self).pos(); let z = nul_at(c, p);
                let e = if z < c.len() { z + 1 } else { c.len() as int };
                &&& 0 <= p <= c.len()
                &&& final(buf)@ == old(buf)@ + c.subrange(p, e)
                &&& final(self).pos() == e
                &&& r->Ok_0 == e - p
            },
    { unimplemented!() }
}
/// the slice `BufRead::fill_buf` hands out (owned here): SOME non-empty prefix of what remains (how much is the buffer's
/// business: 8 KiB in std's BufReader), empty exactly at end of file.  Not used by the code today: present so that an
/// edit that takes the schema "straight out of the read buffer" is judged.
#[verifier::external_body]
pub struct VBuf { _p: u8 }
impl VBuf {
    pub uninterp spec fn view(&self) -> Seq<u8>;
    #[verifier::external_body]
    pub fn len(&self) -> (r: usize) ensures r == self@.len() { unimplemented!() }
    /// `buf.iter().position(|&b| b == X)` (REAL contract of `Iterator::position` with that predicate): index of the
    /// first byte equal to X in the WINDOW, `None` when the window has none -- nothing about what lies behind it
    #[verifier::external_body]
    pub fn position_eq(&self, x: u8) -> (r: Option<usize>)
        ensures r matches Some(i) ==> i < self@.len() && self@[i as int] == x && forall|k: int| 0 <= k < i ==> self@[k] != x,
            r is None ==> forall|k: int| 0 <= k < self@.len() ==> self@[k] != x,
    { unimplemented!() }
    /// `buf[..n].to_vec()`
    #[verifier::external_body]
    pub fn prefix_to_vec(&self, n: usize) -> (r: Vec<u8>)
        requires n <= self@.len(),
        ensures r@ == self@.subrange(0, n as int),
    { unimplemented!() }
}
impl VRead {
    #[verifier::external_body]
    pub fn fill_buf(&mut self) -> (r: Result<VBuf, IoError>)
        ensures final(self).content() == old(self).content(), final(self).env_ok() == old(self).env_ok(), final(self).pos() == old(self).pos(),
            r matches Ok(b) ==> {
                &&& b@.len() <= isize::MAX
                &&& (0 <= old(self).pos() < old(self).content().len() ==> 0 < b@.len() <= old(self).content().len() - old(self).pos()
                        && b@ == old(self).content().subrange(old(self).pos(), old(self).pos() + b@.len()))
                &&& (old(self).pos() >= old(self).content().len() ==> b@.len() == 0)
            },
    { unimplemented!() }
    #[verifier::external_body]
    pub fn consume(&mut self, n: usize)
        ensures final(self).content() == old(self).content(), final(self).env_ok() == old(self).env_ok(), final(self).pos() == old(self).pos() + n,
    { unimplemented!() }
}
proof fn lemma_nul_at(c: Seq<u8>, from: int)
    requires 0 <= from <= c.len(),
    ensures from <= nul_at(c, from) <= c.len(),
        nul_at(c, from) < c.len() ==> c[nul_at(c, from)] == 0u8,
        forall|k: int| from <= k < nul_at(c, from) ==> c[k] != 0u8,
    decreases c.len() - from
{
    if from < c.len() && c[from] != 0u8 { lemma_nul_at(c, from + 1); }
}

//@extract struct bigtools/src/bbi/bigbedread.rs BigBedRead
//@rule R8
//@sub /BigBedRead<R>/ => BigBedRead min=1
//@sub /read: R,/ => read: VRead, min=1
//@end

impl BigBedRead {
//@extract method bigtools/src/bbi/bigbedread.rs autosql "^impl<R: BBIFileRead> BigBedRead<R>"
//@presub /\s+\.(?=[a-z_0-9])/ => . min=0
//@rule R15
//@rule R16
//@sub /Result<Option<String>, BBIReadError>/ => Result<Option<Text>, BBIReadError> min=1
//@sub /self\.reader\(\)\.raw_reader\(\)/ => &mut self.read min=1
//@sub /let mut reader = BufReader::new\(reader\);\n/ => "" min=0
//@sub /reader\.seek\(SeekFrom::Start\(([^;]*)\)\)\?;/ => reader.seek_start(\1)?; min=0
//@sub /reader\.read_until\(b'\\0', &mut (\w+)\)\?;/ => reader.read_until_nul(&mut \1)?; min=0
//@sub /(\w+)\.iter\(\)\.position\(\|(?:&(\w+)\| \2|(\w+)\| \*\3) == (b'(?:\\.|[^'\\])'|\d+(?:u8)?)\)/ => \1.position_eq(\4) min=0
//@sub /(\w+)\[\.\.([^\]]+)\]\.to_vec\(\)/ => \1.prefix_to_vec(\2) min=0
//@sub /String::from_utf8\(((?:[^()]|\((?:[^()]|\([^()]*\))*\))*)\)\s*\.map_err\(\|_\| (BBIReadError::InvalidFile)\("([^"]*)"\.to_owned\(\)\)\)\?/ => (match string_from_utf8(\1) { Ok(t__) => t__, Err(_) => return Err(\2(err_text("\3"))) }) min=0
//@ret r
//@sig
    requires
        [[L: autosql/pre_reader_at_any_position_in_a_finite_file]]
        old(self).read.content().len() <= u64::MAX,
    ensures
        [[L: autosql/file_and_info_unchanged]]
        final(self).read.content() == old(self).read.content() && final(self).info == old(self).info,
        [[L: autosql/offset_zero_means_no_schema]]
        old(self).info.header.auto_sql_offset == 0 ==> r == Ok::<Option<Text>, BBIReadError>(None),
        [[L: autosql/returns_the_bytes_from_the_offset_up_to_the_first_nul_verbatim]]
        (r matches Ok(Some(t)) ==> {
            let c = old(self).read.content(); let o = old(self).info.header.auto_sql_offset as int;
            &&& o != 0 && o <= c.len()
            &&& nul_at(c, o) < c.len() ==> t.bytes() == c.subrange(o, nul_at(c, o))
        }),
        [[L: autosql/a_stored_utf8_schema_is_returned]]
        ({
            let c = old(self).read.content(); let o = old(self).info.header.auto_sql_offset as int;
            (old(self).read.env_ok() && 0 < o <= c.len() && nul_at(c, o) < c.len() && utf8_ok(c.subrange(o, nul_at(c, o)))) ==> r matches Ok(Some(_))
        }),
//@at /let autosql = / before optional
        proof {
            let c = self.read.content(); let o = self.info.header.auto_sql_offset as int;
            // (a hint, guarded so that it states nothing about a `buffer` that is something else after an edit, e.g. one
            // fill_buf window: then the postconditions decide)
            if 0 <= o <= c.len() {
                lemma_nul_at(c, o);
                if nul_at(c, o) < c.len() && buffer@.len() == nul_at(c, o) - o { assert(buffer@ =~= c.subrange(o, nul_at(c, o))); } [[L: autosql/buffer_holds_the_text_without_its_terminating_nul]]
            }
        }
//@end
}

/// round trip with the writer (unit write_pre): text without NUL stored at [o, o+|t|) followed by one NUL
proof fn lemma_reader_returns_what_write_pre_stored(c: Seq<u8>, o: int, t: Seq<u8>)
    requires 0 <= o, o + t.len() < c.len(), c.subrange(o, o + t.len()) == t, c[o + t.len()] == 0u8,
        forall|k: int| 0 <= k < t.len() ==> t[k] != 0u8,
    ensures
        [[L: lemma/reader_returns_what_write_pre_stored]]
        nul_at(c, o) == o + t.len() && c.subrange(o, nul_at(c, o)) == t,
{
    lemma_nul_at(c, o);
    let z = nul_at(c, o);
    if z < o + t.len() { assert(c[z] == c.subrange(o, o + t.len())[z - o]); }
    if z > o + t.len() { assert(c[o + t.len()] != 0u8); }
}

// ================= opening a file: bigWig / bigBed by the magic, never the other kind =================
//@extract enum bigtools/src/bbi/bbiread.rs BBIFileReadInfoError
//@rule R8
//@sub /[ \t]*#\[error\([^\n]*\)\]\n/ => "" min=0
//@sub /#\[from\] io::Error/ => IoError min=1
//@end
//@extract enum bigtools/src/bbi/bigwigread.rs BigWigReadOpenError
//@rule R8
//@sub /[ \t]*#\[error\([^\n]*\)\]\n/ => "" min=0
//@sub /#\[derive\([^\)]*\)\]\n/ => "" min=0
//@sub /io::Error/ => IoError min=1
//@end
//@extract enum bigtools/src/bbi/bigbedread.rs BigBedReadOpenError
//@rule R8
//@sub /[ \t]*#\[error\([^\n]*\)\]\n/ => "" min=0
//@sub /#\[derive\([^\)]*\)\]\n/ => "" min=0
//@sub /#\[from\] io::Error/ => IoError min=1
//@end
/// what `read_info` makes of a file (units info + chrom_rd own its contract; here only: it reads, it does not write,
/// and its result is a function of the file content)
pub uninterp spec fn info_of(c: Seq<u8>) -> Option<BBIFileInfo>;
#[verifier::external_body]
pub fn read_info(file: &mut VRead) -> (r: Result<BBIFileInfo, BBIFileReadInfoError>)
    ensures final(file).content() == old(file).content(), final(file).env_ok() == old(file).env_ok(),
        r matches Ok(i) ==> info_of(old(file).content()) == Some(i),
        (old(file).env_ok() && info_of(old(file).content()) is Some) ==> r is Ok,
        (r matches Err(e) && e is UnknownMagic) ==> info_of(old(file).content()) is None,
{ unimplemented!() }

impl BigWigReadOpenError {
//@extract method bigtools/src/bbi/bigwigread.rs from "impl From<BBIFileReadInfoError> for BigWigReadOpenError"
//@rule R16
//@as bw_open_error_from
//@sub /fn from\(error: BBIFileReadInfoError\) -> Self/ => pub fn from_info_error(error: BBIFileReadInfoError) -> BigWigReadOpenError min=1
//@ret r
//@sig
    ensures
        [[L: unknown_magic_is_not_a_bigwig_io_errors_stay_io_errors]]
        (error is UnknownMagic ==> r is NotABigWig) && (error is InvalidChroms ==> r is InvalidChroms) && (error is IoError ==> r is IoError),
//@end
}
impl BigBedReadOpenError {
//@extract method bigtools/src/bbi/bigbedread.rs from "impl From<BBIFileReadInfoError> for BigBedReadOpenError"
//@rule R16
//@as bb_open_error_from
//@sub /fn from\(error: BBIFileReadInfoError\) -> Self/ => pub fn from_info_error(error: BBIFileReadInfoError) -> BigBedReadOpenError min=1
//@ret r
//@sig
    ensures
        [[L: unknown_magic_is_not_a_bigbed_io_errors_stay_io_errors]]
        (error is UnknownMagic ==> r is NotABigBed) && (error is InvalidChroms ==> r is InvalidChroms) && (error is IoError ==> r is IoError),
//@end
}

//@extract struct bigtools/src/bbi/bigwigread.rs BigWigRead
//@rule R8
//@sub /BigWigRead<R>/ => BigWigRead min=1
//@sub /read: R,/ => read: VRead, min=1
//@end
impl BigWigRead {
//@extract method bigtools/src/bbi/bigwigread.rs open "^impl<R> BigWigRead<R>\s+where\s+R: BBIFileRead"
//@rule R16
//@as bw_open
//@sub /\(mut read: R\) -> Result<Self, BigWigReadOpenError>/ => (mut read: VRead) -> Result<BigWigRead, BigWigReadOpenError> min=1
//@sub /read_info\(&mut read\)\?/ => (match read_info(&mut read) { Ok(i__) => i__, Err(e__) => return Err(BigWigReadOpenError::from_info_error(e__)) }) min=0
//@ret r
//@sig
    ensures
        [[L: opens_exactly_the_files_whose_magic_says_bigwig]]
        r matches Ok(b) ==> info_of(read.content()) == Some(b.info) && b.info.filetype is BigWig && b.read.content() == read.content(),
        [[L: a_bigbed_is_refused_as_not_a_bigwig]]
        (info_of(read.content()) is Some && info_of(read.content())->Some_0.filetype is BigBed) ==> (r is Err && (read.env_ok() ==> r->Err_0 is NotABigWig)),
        [[L: a_readable_bigwig_is_opened]]
        (read.env_ok() && info_of(read.content()) is Some && info_of(read.content())->Some_0.filetype is BigWig) ==> r is Ok,
//@end
}
impl BigBedRead {
//@extract method bigtools/src/bbi/bigbedread.rs open "^impl<R: BBIFileRead> BigBedRead<R>"
//@rule R16
//@as bb_open
//@sub /\(mut read: R\) -> Result<Self, BigBedReadOpenError>/ => (mut read: VRead) -> Result<BigBedRead, BigBedReadOpenError> min=1
//@sub /read_info\(&mut read\.raw_reader\(\)\)\?/ => (match read_info(&mut read) { Ok(i__) => i__, Err(e__) => return Err(BigBedReadOpenError::from_info_error(e__)) }) min=0
//@sub /read_info\(&mut read\)\?/ => (match read_info(&mut read) { Ok(i__) => i__, Err(e__) => return Err(BigBedReadOpenError::from_info_error(e__)) }) min=0
//@ret r
//@sig
    ensures
        [[L: opens_exactly_the_files_whose_magic_says_bigbed]]
        r matches Ok(b) ==> info_of(read.content()) == Some(b.info) && b.info.filetype is BigBed && b.read.content() == read.content(),
        [[L: a_bigwig_is_refused_as_not_a_bigbed]]
        (info_of(read.content()) is Some && info_of(read.content())->Some_0.filetype is BigWig) ==> (r is Err && (read.env_ok() ==> r->Err_0 is NotABigBed)),
        [[L: a_readable_bigbed_is_opened]]
        (read.env_ok() && info_of(read.content()) is Some && info_of(read.content())->Some_0.filetype is BigBed) ==> r is Ok,
//@end
}

} // verus!
fn main() {}
