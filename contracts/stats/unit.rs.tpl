//@unit stats
//@serves C17
//@backend verus
// Per-region bigWig statistics: utils::misc::stats_for_bed_item.
// The property (C17): for a BED region [start,end) the function reports region size, covered
// bases, sum, mean over the region, mean over covered bases, minimum and maximum exactly as
// defined from the stored values clipped to the region (= what the range query returns, C03),
// with NaN mean / extrema when nothing is covered.
use vstd::prelude::*;
use vstd::std_specs::ops::*;
use vstd::std_specs::convert::FromSpec;
verus! {
//@include ../_shared/floats.rs

//@extract struct bigtools/src/bbi.rs Value
//@rule R8
//@end
// `rest: String` is carried along untouched (the function never looks at it); the derive is
// dropped because Verus cannot derive Clone through String.
//@extract struct bigtools/src/bbi.rs BedEntry
//@rule R8
//@sub /#\[derive\(Clone\)\]\n/ => ""
//@end
//@extract struct bigtools/src/utils/misc.rs BigWigAverageOverBedEntry
//@rule R8
//@end

// ---------------- shims (assumed; listed in NOTES.md) ----------------
// f64 constants: Verus has no model of core::f64::{MAX,MIN,NAN}.  Each becomes a call to an
// external_body getter whose result is an *uninterpreted* spec constant, so the contract can
// pin "this is the NaN constant" / "the fold starts from f64::MAX", nothing numerical.
pub uninterp spec fn f64_max_c() -> f64;
pub uninterp spec fn f64_min_c() -> f64;
pub uninterp spec fn f64_nan_c() -> f64;
#[verifier::external_body]
fn f64_max() -> (r: f64) ensures r == f64_max_c() { f64::MAX }
#[verifier::external_body]
fn f64_min() -> (r: f64) ensures r == f64_min_c() { f64::MIN }
#[verifier::external_body]
fn f64_nan() -> (r: f64) ensures r == f64_nan_c() { f64::NAN }

// Error type of the reader: opaque.
#[verifier::external_body]
pub struct BBIReadError { _p: u8 }

// The reader.  `BigWigRead<R>` is replaced by an opaque type; the call chain
// `bigwig.get_interval(chrom, start, end)?.collect::<Result<Vec<_>, _>>()` is replaced by one
// call whose ASSUMED contract is the C03 range-query contract, restricted to what is needed:
// for a query with start <= end the returned values lie inside [start, end), are in ascending
// order and do not overlap.  (The real reader keeps stored values with `v.end > start &&
// v.start < end` and clips them with max/min; a stored zero-length value may come back with
// zero length, so positive length is NOT assumed.)  No `requires`: the real call has none.
// Ghost observers record the query and its answer so the contract below can refer to them.
#[verifier::external_body]
pub struct BigWigRead { _p: u8 }
impl BigWigRead {
    pub uninterp spec fn q_chrom(&self) -> Seq<char>;
    pub uninterp spec fn q_start(&self) -> u32;
    pub uninterp spec fn q_end(&self) -> u32;
    /// the last query failed (I/O error, unknown chromosome, bad block)
    pub uninterp spec fn failed(&self) -> bool;
    /// values returned by the last successful query
    pub uninterp spec fn answer(&self) -> Seq<Value>;
}
#[verifier::external_body]
fn get_interval_vec(bigwig: &mut BigWigRead, chrom: &str, start: u32, end: u32) -> (r: Result<Vec<Value>, BBIReadError>)
    ensures
        final(bigwig).q_chrom() == chrom@,
        final(bigwig).q_start() == start,
        final(bigwig).q_end() == end,
        final(bigwig).failed() == r.is_err(),
        r matches Ok(v) ==> final(bigwig).answer() == v@,
        r matches Ok(v) ==> (start <= end ==> clipped_ordered(v@, start, end)),
{ unimplemented!() }

// ---------------- specification vocabulary (written from the property) ----------------
/// C03 answer shape: inside [s, e), ascending, non-overlapping
pub open spec fn clipped_ordered(v: Seq<Value>, s: u32, e: u32) -> bool {
    &&& forall|i: int| 0 <= i < v.len() ==> s <= (#[trigger] v[i]).start && v[i].start <= v[i].end && v[i].end <= e
    &&& forall|i: int| 0 <= i < v.len() - 1 ==> (#[trigger] v[i]).end <= v[i + 1].start
}
/// covered bases: sum of the lengths
pub open spec fn tot(v: Seq<Value>) -> int
    decreases v.len()
{
    if v.len() == 0 { 0 } else { tot(v.drop_last()) + (v.last().end - v.last().start) }
}
pub open spec fn wt(x: Value) -> f64 { f64::from_spec((x.end - x.start) as u32) }
pub open spec fn fv(x: Value) -> f64 { f64::from_spec(x.value) }
/// sum: left fold of  acc + len * value  from 0.0 (float operators uninterpreted)
pub open spec fn fold_sum(v: Seq<Value>) -> f64
    decreases v.len()
{
    if v.len() == 0 { 0.0f64 } else { fold_sum(v.drop_last()).add_spec(wt(v.last()).mul_spec(fv(v.last()))) }
}
/// min / max: left folds of f64::min / f64::max from f64::MAX / f64::MIN
pub open spec fn fold_min(v: Seq<Value>) -> f64
    decreases v.len()
{
    if v.len() == 0 { f64_max_c() } else { fmin(fold_min(v.drop_last()), fv(v.last())) }
}
pub open spec fn fold_max(v: Seq<Value>) -> f64
    decreases v.len()
{
    if v.len() == 0 { f64_min_c() } else { fmax(fold_max(v.drop_last()), fv(v.last())) }
}

// ---------------- lemmas ----------------
proof fn lemma_clipped_prefix(v: Seq<Value>, s: u32, e: u32, k: int)
    requires clipped_ordered(v, s, e), 0 <= k <= v.len(),
    ensures clipped_ordered(v.take(k), s, e),
{
    let p = v.take(k);
    assert forall|i: int| 0 <= i < p.len() implies s <= (#[trigger] p[i]).start && p[i].start <= p[i].end && p[i].end <= e by {
        assert(p[i] == v[i]);
    }
    assert forall|i: int| 0 <= i < p.len() - 1 implies (#[trigger] p[i]).end <= p[i + 1].start by {
        assert(p[i] == v[i]); assert(p[i + 1] == v[i + 1]);
    }
}
/// inside [s,e) + ascending + non-overlapping  ==>  covered bases <= e - s  (so the u32 sum cannot overflow)
proof fn lemma_tot_bound(v: Seq<Value>, s: u32, e: u32)
    requires clipped_ordered(v, s, e), s <= e,
    ensures 0 <= tot(v), v.len() > 0 ==> tot(v) <= v.last().end - s, tot(v) <= e - s,
    decreases v.len(),
{
    if v.len() > 0 {
        lemma_clipped_prefix(v, s, e, v.len() - 1);
        assert(v.take(v.len() - 1) =~= v.drop_last());
        lemma_tot_bound(v.drop_last(), s, e);
        let l = v[v.len() - 1];
        if v.len() > 1 {
            assert(v.drop_last().last() == v[v.len() - 2]);
            assert(v[v.len() - 2].end <= v[v.len() - 2 + 1].start);
        }
    }
}
/// one more element: unfold the folds
proof fn lemma_step(v: Seq<Value>, k: int)
    requires 0 <= k < v.len(),
    ensures
        tot(v.take(k + 1)) == tot(v.take(k)) + (v[k].end - v[k].start),
        fold_sum(v.take(k + 1)) == fold_sum(v.take(k)).add_spec(wt(v[k]).mul_spec(fv(v[k]))),
        fold_min(v.take(k + 1)) == fmin(fold_min(v.take(k)), fv(v[k])),
        fold_max(v.take(k + 1)) == fmax(fold_max(v.take(k)), fv(v[k])),
{
    assert(v.take(k + 1).drop_last() =~= v.take(k));
    assert(v.take(k + 1).last() == v[k]);
}

//@extract fn bigtools/src/utils/misc.rs stats_for_bed_item
//@rule R16
//@rule R8
//@rule R7 min=1
//@rule R5 min=2
//@sub /<R: BBIFileRead>/ => ""
//@sub /BigWigRead<R>/ => BigWigRead
//@sub /bigwig\s*\.get_interval\(([^()]*)\)\?\s*\.collect::<Result<Vec<_>, _>>\(\)/ => get_interval_vec(bigwig, \1)
//@sub /Err\(e\) => return Err\(e\.into\(\)\)/ => Err(e) => return Err(e)
//@sub /f64::MAX\b/ => f64_max() min=0
//@sub /f64::MIN_POSITIVE\b/ => fconst_f64_min_positive() min=0
//@sub /f64::INFINITY\b/ => fconst_f64_infinity() min=0
//@sub /f64::NEG_INFINITY\b/ => fconst_f64_neg_infinity() min=0
//@sub /f64::EPSILON\b/ => fconst_f64_epsilon() min=0
//@sub /f64::MIN\b(?!_)/ => f64_min() min=0
//@sub /f64::NAN\b/ => f64_nan() min=0
//@ret r
//@sig
    requires
        [[L: pre]]
        // `let size = end - start` is an unchecked u32 subtraction: the region must not be inverted
        entry.start <= entry.end,
    ensures
        [[L: queries_the_region]]
        final(bigwig).q_chrom() == chrom@ && final(bigwig).q_start() == entry.start && final(bigwig).q_end() == entry.end,
        [[L: error_iff_reader_error]]
        r.is_err() <==> final(bigwig).failed(),
        [[L: size_is_region_length]]
        r matches Ok(out) ==> out.size == entry.end - entry.start,
        [[L: bases_is_sum_of_lengths]]
        r matches Ok(out) ==> out.bases == tot(final(bigwig).answer()),
        [[L: bases_at_most_size]]
        r matches Ok(out) ==> out.bases <= out.size,
        [[L: sum_is_weighted_fold]]
        r matches Ok(out) ==> out.sum == fold_sum(final(bigwig).answer()),
        [[L: mean0_is_sum_over_size]]
        r matches Ok(out) ==> out.mean0 == fold_sum(final(bigwig).answer()).div_spec(f64::from_spec(out.size)),
        [[L: nan_when_nothing_covered]]
        r matches Ok(out) ==> (tot(final(bigwig).answer()) == 0 ==> out.mean == f64_nan_c() && out.min == f64_nan_c() && out.max == f64_nan_c()),
        [[L: mean_is_sum_over_bases]]
        r matches Ok(out) ==> (tot(final(bigwig).answer()) != 0 ==> out.mean == fold_sum(final(bigwig).answer()).div_spec(f64::from_spec(out.bases))),
        [[L: min_is_fold_of_min]]
        r matches Ok(out) ==> (tot(final(bigwig).answer()) != 0 ==> out.min == fold_min(final(bigwig).answer())),
        [[L: max_is_fold_of_max]]
        r matches Ok(out) ==> (tot(final(bigwig).answer()) != 0 ==> out.max == fold_max(final(bigwig).answer())),
//@open
    proof { float_ax::float_det(); }
//@loop 1
        invariant
            [[L: loop/frame]]
            start <= end, clipped_ordered(interval@, start, end),
            [[L: loop/bases]]
            bases == tot(interval@.take(i__1 as int)),
            [[L: loop/sum]]
            sum == fold_sum(interval@.take(i__1 as int)),
            [[L: loop/min_max]]
            min == fold_min(interval@.take(i__1 as int)),
            max == fold_max(interval@.take(i__1 as int)),
//@at /^\s*let num_bases = / before
        proof {
            float_ax::float_det();
            lemma_step(interval@, i__1 as int);
            lemma_clipped_prefix(interval@, start, end, i__1 as int + 1);
            lemma_tot_bound(interval@.take(i__1 as int + 1), start, end); [[L: loop/bases_cannot_overflow]]
        }
//@at /^\s*let size = / before
    proof {
        assert(interval@.take(interval@.len() as int) =~= interval@);
        lemma_tot_bound(interval@, start, end);
    }
//@end

} // verus!
fn main() {}
