// bigBed coverage sweep: the closure `add_interval_to_summary` inside bigbedwrite::process_val
// (R10 lift).  The property (C06, bigBed half): the summary is taken over the per-base coverage
// depth of all entries, each covered base counted once however many entries overlap it.
// Ghost state: `ents` = entries already processed on this chromosome, `d0` = integer depth of
// every pending segment (the code stores it as f32).
use vstd::prelude::*;
use vstd::std_specs::ops::*;
use vstd::std_specs::convert::FromSpec;
verus! {
// ---- shared float prelude -------------------------------------------------
// Rust float operators are total; Verus models their results as uninterpreted
// functions (`add_spec`, `mul_spec`, `from_spec`, ...).  The axioms below say
// only (1) the operators have no precondition and (2) the exec operator returns
// the value of its spec function (determinism).  Nothing numerical is assumed.
mod float_ax {
use vstd::prelude::*;
use vstd::std_specs::ops::*;
use vstd::std_specs::convert::FromSpec;
pub broadcast axiom fn ax_f64_mul_total(a: f64, b: f64) ensures #[trigger] a.mul_req(b);
pub broadcast axiom fn ax_f64_add_total(a: f64, b: f64) ensures #[trigger] a.add_req(b);
pub broadcast axiom fn ax_f64_sub_total(a: f64, b: f64) ensures #[trigger] a.sub_req(b);
pub broadcast axiom fn ax_f64_div_total(a: f64, b: f64) ensures #[trigger] a.div_req(b);
pub broadcast axiom fn ax_f32_add_total(a: f32, b: f32) ensures #[trigger] a.add_req(b);
pub broadcast axiom fn ax_f32_sub_total(a: f32, b: f32) ensures #[trigger] a.sub_req(b);
pub broadcast group float_total { ax_f64_mul_total, ax_f64_add_total, ax_f64_sub_total, ax_f64_div_total, ax_f32_add_total, ax_f32_sub_total }
pub axiom fn float_det()
    ensures
        <f64 as AddSpec<f64>>::obeys_add_spec(), <f64 as MulSpec<f64>>::obeys_mul_spec(),
        <f64 as SubSpec<f64>>::obeys_sub_spec(), <f64 as DivSpec<f64>>::obeys_div_spec(),
        <f32 as AddSpec<f32>>::obeys_add_spec(), <f32 as SubSpec<f32>>::obeys_sub_spec(),
        <f64 as FromSpec<u32>>::obeys_from_spec(), <f64 as FromSpec<f32>>::obeys_from_spec();
}
broadcast use float_ax::float_total;
pub uninterp spec fn fmin(a: f64, b: f64) -> f64;
pub uninterp spec fn fmax(a: f64, b: f64) -> f64;
pub assume_specification [f64::min] (a: f64, b: f64) -> (r: f64) ensures r == fmin(a, b);
pub assume_specification [f64::max] (a: f64, b: f64) -> (r: f64) ensures r == fmax(a, b);
// float constants (rule R12c): Verus has no model of core::f64 associated consts; each is an
// uninterpreted spec constant, distinct names so that swapping two of them is visible.
pub uninterp spec fn spec_f64_max() -> f64;
pub uninterp spec fn spec_f64_min() -> f64;
pub uninterp spec fn spec_f64_min_positive() -> f64;
pub uninterp spec fn spec_f64_nan() -> f64;
pub uninterp spec fn spec_f64_infinity() -> f64;
pub uninterp spec fn spec_f64_neg_infinity() -> f64;
pub uninterp spec fn spec_f64_epsilon() -> f64;
#[verifier::external_body] pub fn fconst_f64_max() -> (r: f64) ensures r == spec_f64_max() { f64::MAX }
#[verifier::external_body] pub fn fconst_f64_min() -> (r: f64) ensures r == spec_f64_min() { f64::MIN }
#[verifier::external_body] pub fn fconst_f64_min_positive() -> (r: f64) ensures r == spec_f64_min_positive() { f64::MIN_POSITIVE }
#[verifier::external_body] pub fn fconst_f64_nan() -> (r: f64) ensures r == spec_f64_nan() { f64::NAN }
#[verifier::external_body] pub fn fconst_f64_infinity() -> (r: f64) ensures r == spec_f64_infinity() { f64::INFINITY }
#[verifier::external_body] pub fn fconst_f64_neg_infinity() -> (r: f64) ensures r == spec_f64_neg_infinity() { f64::NEG_INFINITY }
#[verifier::external_body] pub fn fconst_f64_epsilon() -> (r: f64) ensures r == spec_f64_epsilon() { f64::EPSILON }

#[derive(Copy, Clone)]
pub struct Summary {
    pub total_items: u64,
    pub bases_covered: u64,
    pub min_val: f64,
    pub max_val: f64,
    pub sum: f64,
    pub sum_squares: f64,
}
#[derive(Copy, Clone)]
pub struct Value {
    pub start: u32,
    pub end: u32,
    pub value: f32,
}
// ---- shared shim: index_list::IndexList<Value> ---------------------------------
// `VList` stands for `index_list::IndexList<Value>` (a doubly linked list stored in a Vec,
// addressed by `ListIndex` slot handles), `VIndex` for `index_list::ListIndex`.
// ASSUMED sequential contract, for exactly the methods bigbedwrite.rs uses.  The list is
// viewed as `Seq<Value>` in list order.  A handle is not a position: `has(i)` says that the
// handle `i` names a live element of *this* list state and `pos(i)` which position it has;
// both are functions of the list state.  Only what is true of the real list is assumed:
//   * a handle obtained from first_index/next_index names a live element iff it `is_some()`;
//   * get_mut does not change the structure (same handles, same positions), only the element
//     that is handed out can change;
//   * insert_after(i, v) puts v right behind i and keeps i valid at the same position;
//   * insert_first/insert_last/remove_first are the obvious sequence operations; nothing is
//     said about handles after them (the code never keeps a handle across them).
// Requires `Value { start: u32, end: u32, value: f32 }` to be in scope (extract it first).
#[verifier::external_body]
pub struct VList { _p: u8 }
#[verifier::external_body]
#[derive(Copy, Clone)]
pub struct VIndex { _p: usize }
impl VIndex {
    pub uninterp spec fn some(&self) -> bool;
    #[verifier::external_body]
    pub fn is_some(&self) -> (r: bool)
        ensures r == self.some(),
    { unimplemented!() }
}
impl VList {
    pub uninterp spec fn view(&self) -> Seq<Value>;
    /// handle i names a live element of this list state
    pub uninterp spec fn has(&self, i: VIndex) -> bool;
    /// ... at this position (meaningful when has(i))
    pub uninterp spec fn pos(&self, i: VIndex) -> int;
    /// same handles at the same positions
    pub open spec fn same_shape(&self, o: &VList) -> bool {
        &&& forall|j: VIndex| #![trigger self.has(j)] #![trigger o.has(j)] self.has(j) == o.has(j)
        &&& forall|j: VIndex| #![trigger self.pos(j)] #![trigger o.pos(j)] self.pos(j) == o.pos(j)
    }

    #[verifier::external_body]
    pub fn new() -> (r: VList)
        ensures r@.len() == 0,
    { unimplemented!() }

    #[verifier::external_body]
    pub fn first_index(&self) -> (r: VIndex)
        ensures
            r.some() == (self@.len() > 0),
            r.some() ==> self.has(r) && self.pos(r) == 0,
    { unimplemented!() }

    #[verifier::external_body]
    pub fn next_index(&self, i: VIndex) -> (r: VIndex)
        ensures
            self.has(i) ==> r.some() == (self.pos(i) + 1 < self@.len()),
            self.has(i) && r.some() ==> self.has(r) && self.pos(r) == self.pos(i) + 1,
    { unimplemented!() }

    #[verifier::external_body]
    pub fn get_mut(&mut self, i: VIndex) -> (r: Option<&mut Value>)
        ensures
            r.is_some() == old(self).has(i),
            old(self).has(i) ==> 0 <= old(self).pos(i) < old(self)@.len(),
            r.is_some() ==> *r.unwrap() == old(self)@[old(self).pos(i)]
                && final(self)@ == old(self)@.update(old(self).pos(i), *final(r.unwrap())),
            r.is_none() ==> final(self)@ == old(self)@,
            final(self).same_shape(old(self)),
    { unimplemented!() }

    #[verifier::external_body]
    pub fn insert_after(&mut self, i: VIndex, v: Value) -> (r: VIndex)
        requires
            old(self).has(i),
        ensures
            final(self)@ == old(self)@.insert(old(self).pos(i) + 1, v),
            final(self).has(i) && final(self).pos(i) == old(self).pos(i),
    { unimplemented!() }

    #[verifier::external_body]
    pub fn get_first(&self) -> (r: Option<&Value>)
        ensures
            r.is_some() == (self@.len() > 0),
            r.is_some() ==> *r.unwrap() == self@[0],
    { unimplemented!() }

    #[verifier::external_body]
    pub fn get_last(&self) -> (r: Option<&Value>)
        ensures
            r.is_some() == (self@.len() > 0),
            r.is_some() ==> *r.unwrap() == self@[self@.len() - 1],
    { unimplemented!() }

    #[verifier::external_body]
    pub fn insert_last(&mut self, v: Value) -> (r: VIndex)
        ensures
            final(self)@ == old(self)@.push(v),
    { unimplemented!() }

    #[verifier::external_body]
    pub fn insert_first(&mut self, v: Value) -> (r: VIndex)
        ensures
            final(self)@ == seq![v] + old(self)@,
    { unimplemented!() }

    #[verifier::external_body]
    pub fn remove_first(&mut self) -> (r: Option<Value>)
        ensures
            r.is_some() == (old(self)@.len() > 0),
            r.is_some() ==> r.unwrap() == old(self)@[0] && final(self)@ == old(self)@.subrange(1, old(self)@.len() as int),
            r.is_none() ==> final(self)@ == old(self)@,
    { unimplemented!() }
}
// ---- bigBed coverage sweep: specification vocabulary + lemmas (shared by bb_sweep, bb_zoom) ----
// Written from the property text (C06/C08): "the per-base coverage depth of all entries,
// counting each covered base once however many entries overlap it".
// Needs in scope: Value, floats.rs prelude.

/// depth stored as f32: `f32_of_nat(n)` is the float the code holds for integer depth n.
/// ASSUMED (true of IEEE-754 binary32 for n + 1 <= 2^24, where every integer is exact):
/// 1.0 is depth 1, adding 1.0 is the successor, subtracting 1.0 undoes it.
pub uninterp spec fn f32_of_nat(n: nat) -> f32;
pub axiom fn ax_depth_float(n: nat)
    requires
        n < 0x100_0000,
    ensures
        f32_of_nat(1) == 1.0f32,
        f32_of_nat(n).add_spec(1.0f32) == f32_of_nat(n + 1),
        f32_of_nat(n + 1).sub_spec(1.0f32) == f32_of_nat(n),
;

spec fn imax(a: int, b: int) -> int { if a >= b { a } else { b } }
spec fn imin(a: int, b: int) -> int { if a <= b { a } else { b } }

/// entry e = (start, end) covers base p
spec fn covers(e: (u32, u32), p: int) -> bool { e.0 <= p < e.1 }
/// number of entries covering base p
spec fn depth(ents: Seq<(u32, u32)>, p: int) -> nat
    decreases ents.len()
{
    if ents.len() == 0 { 0 } else { depth(ents.drop_last(), p) + (if covers(ents.last(), p) { 1nat } else { 0nat }) }
}
/// number of bases in [a, b) covered by at least one entry (each counted once)
spec fn cnt(ents: Seq<(u32, u32)>, a: int, b: int) -> int
    decreases b - a
{
    if b <= a { 0 } else { cnt(ents, a, b - 1) + (if depth(ents, b - 1) >= 1 { 1int } else { 0int }) }
}

/// every base of segment v has depth dv
spec fn seg_depth(v: Value, dv: nat, ents: Seq<(u32, u32)>) -> bool {
    forall|p: int| v.start <= p < v.end ==> #[trigger] depth(ents, p) == dv
}
/// ... has depth dv - 1 (segment already incremented for an entry not yet in ents)
spec fn seg_depth_plus(v: Value, dv: nat, ents: Seq<(u32, u32)>) -> bool {
    forall|p: int| v.start <= p < v.end ==> #[trigger] depth(ents, p) + 1 == dv
}
/// right end of the segment list (lo if empty)
spec fn hi_of(l: Seq<Value>, lo: int) -> int { if l.len() > 0 { l.last().end as int } else { lo } }

/// geometry of the pending segments: start <= end (zero-length segments do occur), contiguous,
/// beginning at lo; the f32 value is the float image of the ghost integer depth d[i], 1 <= d[i] <= n
spec fn shape_ok(l: Seq<Value>, d: Seq<nat>, lo: int, n: nat) -> bool {
    &&& d.len() == l.len()
    &&& forall|i: int| 0 <= i < l.len() ==> lo <= (#[trigger] l[i]).start <= l[i].end && l[i].start < u32::MAX
    &&& forall|i: int, j: int| 0 <= i && j == i + 1 && j < l.len() ==> (#[trigger] l[i]).end == (#[trigger] l[j]).start
    &&& (l.len() > 0 ==> l[0].start == lo)
    &&& forall|i: int| 0 <= i < l.len() ==> 1 <= #[trigger] d[i] <= n && l[i].value == f32_of_nat(d[i])
}
/// the sweep invariant: the pending segments describe the depth function exactly on [lo, oo)
spec fn segs_ok(l: Seq<Value>, d: Seq<nat>, lo: int, ents: Seq<(u32, u32)>) -> bool {
    &&& shape_ok(l, d, lo, ents.len())
    &&& forall|i: int| 0 <= i < l.len() ==> seg_depth(#[trigger] l[i], d[i], ents)
    &&& forall|p: int| p >= hi_of(l, lo) ==> #[trigger] depth(ents, p) == 0
}

/// during the increment loop for the new entry (s, e): segments before k are done
spec fn sweep_inv(l: Seq<Value>, d: Seq<nat>, k: int, s: u32, e: u32, ents: Seq<(u32, u32)>) -> bool {
    &&& shape_ok(l, d, s as int, ents.len() + 1)
    &&& 0 <= k <= l.len()
    &&& forall|i: int| 0 <= i < k ==> (#[trigger] l[i]).end <= e && seg_depth_plus(l[i], d[i], ents)
    &&& forall|i: int| k <= i < l.len() ==> seg_depth(#[trigger] l[i], d[i], ents) && d[i] <= ents.len()
    &&& forall|p: int| p >= hi_of(l, s as int) ==> #[trigger] depth(ents, p) == 0
}
/// ... and the rest lies right of the new entry
spec fn sweep_done(l: Seq<Value>, d: Seq<nat>, k: int, s: u32, e: u32, ents: Seq<(u32, u32)>) -> bool {
    &&& sweep_inv(l, d, k, s, e, ents)
    &&& forall|i: int| k <= i < l.len() ==> (#[trigger] l[i]).start >= e
}
/// after the increment loop: exact w.r.t. ents + (s, e) on the old span; beyond it only old knowledge
spec fn mid_ok(l: Seq<Value>, d: Seq<nat>, s: u32, e: u32, ents: Seq<(u32, u32)>) -> bool {
    &&& shape_ok(l, d, s as int, ents.len() + 1)
    &&& forall|i: int| 0 <= i < l.len() ==> seg_depth(#[trigger] l[i], d[i], ents.push((s, e)))
    &&& forall|p: int| p >= hi_of(l, s as int) ==> #[trigger] depth(ents, p) == 0
}

/// a flushed piece [s, e) of constant depth d
pub ghost struct Piece { pub s: int, pub e: int, pub d: nat }
spec fn piece_depth(pc: Piece, ents: Seq<(u32, u32)>) -> bool {
    forall|p: int| pc.s <= p < pc.e ==> #[trigger] depth(ents, p) == pc.d
}
/// pieces tile [a, b) left to right, each with its exact depth (zero-length pieces are possible)
spec fn pieces_ok(ps: Seq<Piece>, a: int, b: int, ents: Seq<(u32, u32)>) -> bool {
    &&& forall|k: int| 0 <= k < ps.len() ==> (#[trigger] ps[k]).s <= ps[k].e && ps[k].d >= 1 && piece_depth(ps[k], ents)
    &&& forall|k: int, j: int| 0 <= k && j == k + 1 && j < ps.len() ==> (#[trigger] ps[k]).e == (#[trigger] ps[j]).s
    &&& (ps.len() > 0 ==> ps[0].s == a && ps.last().e == b)
    &&& (ps.len() == 0 ==> a == b)
}

// ---------------- lemmas ----------------
proof fn lemma_depth_push(ents: Seq<(u32, u32)>, e: (u32, u32), p: int)
    ensures depth(ents.push(e), p) == depth(ents, p) + (if covers(e, p) { 1nat } else { 0nat }),
{
    assert(ents.push(e).drop_last() =~= ents);
}
proof fn lemma_cnt_bound(ents: Seq<(u32, u32)>, a: int, b: int)
    requires a <= b,
    ensures 0 <= cnt(ents, a, b) <= b - a,
    decreases b - a,
{
    if a < b { lemma_cnt_bound(ents, a, b - 1); }
}
/// all of [lo, lo2) covered: the count grows by its length
proof fn lemma_cnt_step(ents: Seq<(u32, u32)>, lo: int, lo2: int)
    requires lo <= lo2, forall|p: int| lo <= p < lo2 ==> #[trigger] depth(ents, p) >= 1,
    ensures cnt(ents, 0, lo2) == cnt(ents, 0, lo) + (if lo >= 0 { lo2 - lo } else if lo2 >= 0 { lo2 } else { 0 }),
    decreases lo2 - lo,
{
    if lo < lo2 {
        lemma_cnt_step(ents, lo, lo2 - 1);
        assert(depth(ents, lo2 - 1) >= 1);
    }
}
/// nothing covered in [lo, b): the count stays
proof fn lemma_cnt_zero_ext(ents: Seq<(u32, u32)>, lo: int, b: int)
    requires lo <= b, forall|p: int| lo <= p < b ==> #[trigger] depth(ents, p) == 0,
    ensures cnt(ents, 0, b) == cnt(ents, 0, lo),
    decreases b - lo,
{
    if lo < b {
        lemma_cnt_zero_ext(ents, lo, b - 1);
        assert(depth(ents, b - 1) == 0);
    }
}
/// a new entry starting at or after b does not change the count left of b
proof fn lemma_cnt_push_left(ents: Seq<(u32, u32)>, e: (u32, u32), a: int, b: int)
    requires b <= e.0,
    ensures cnt(ents.push(e), a, b) == cnt(ents, a, b),
    decreases b - a,
{
    if a < b {
        lemma_cnt_push_left(ents, e, a, b - 1);
        lemma_depth_push(ents, e, b - 1);
    }
}

/// increment loop, segment k ends inside the new entry: value + 1, move on
proof fn lemma_sweep_nosplit(l: Seq<Value>, d: Seq<nat>, k: int, s: u32, e: u32, ents: Seq<(u32, u32)>, nv: Value)
    requires
        sweep_inv(l, d, k, s, e, ents), k < l.len(), s <= e, ents.len() < 0xff_ffff,
        nv.start == l[k].start, nv.end == l[k].end, nv.value == l[k].value.add_spec(1.0f32),
        nv.end <= e,
    ensures
        sweep_inv(l.update(k, nv), d.update(k, d[k] + 1), k + 1, s, e, ents),
        hi_of(l.update(k, nv), s as int) == hi_of(l, s as int),
{
    let l2 = l.update(k, nv);
    let d2 = d.update(k, d[k] + 1);
    ax_depth_float(d[k]);
    assert(l[k].value == f32_of_nat(d[k]));
    assert forall|i: int| 0 <= i < l2.len() implies (s as int) <= (#[trigger] l2[i]).start <= l2[i].end && l2[i].start < u32::MAX by {
        if i != k { assert(l2[i] == l[i]); } else { let _ = l[k]; }
    }
    assert forall|i: int, j: int| 0 <= i && j == i + 1 && j < l2.len() implies (#[trigger] l2[i]).end == (#[trigger] l2[j]).start by {
        let _ = l[i]; let _ = l[i + 1];
    }
    assert forall|i: int| 0 <= i < l2.len() implies 1 <= #[trigger] d2[i] <= ents.len() + 1 && l2[i].value == f32_of_nat(d2[i]) by {
        let _ = d[i];
    }
    assert forall|i: int| 0 <= i < k + 1 implies (#[trigger] l2[i]).end <= e && seg_depth_plus(l2[i], d2[i], ents) by {
        if i < k { let _ = l[i]; } else { let _ = l[k]; assert(seg_depth(l[k], d[k], ents)); }
    }
    assert forall|i: int| k + 1 <= i < l2.len() implies seg_depth(#[trigger] l2[i], d2[i], ents) && d2[i] <= ents.len() by {
        let _ = l[i];
    }
}
/// increment loop, the new entry ends strictly inside segment k: split it, stop
proof fn lemma_sweep_split(l: Seq<Value>, d: Seq<nat>, k: int, s: u32, e: u32, ents: Seq<(u32, u32)>, nv: Value, tl: Value)
    requires
        sweep_inv(l, d, k, s, e, ents), k < l.len(), s <= e, ents.len() < 0xff_ffff,
        nv.start == l[k].start, nv.end == e, nv.value == l[k].value.add_spec(1.0f32),
        e < l[k].end,
        tl.start == e, tl.end == l[k].end, tl.value == nv.value.sub_spec(1.0f32),
    ensures
        sweep_done(l.update(k, nv).insert(k + 1, tl), d.update(k, d[k] + 1).insert(k + 1, d[k]), k + 1, s, e, ents),
        hi_of(l.update(k, nv).insert(k + 1, tl), s as int) == hi_of(l, s as int),
{
    let l1 = l.update(k, nv);
    let l2 = l1.insert(k + 1, tl);
    let d2 = d.update(k, d[k] + 1).insert(k + 1, d[k]);
    ax_depth_float(d[k]);
    let _ = l[k];
    assert(l[k].value == f32_of_nat(d[k]));
    // s_k <= e
    if k > 0 { let _ = l[k - 1]; assert(l[k - 1].end == l[k].start); } else { assert(l[0].start == s); }
    assert(l[k].start <= e);
    assert(l2.len() == l.len() + 1);
    assert forall|i: int| 0 <= i < l2.len() implies
        l2[i] == (if i < k { l[i] } else if i == k { nv } else if i == k + 1 { tl } else { l[i - 1] })
        && d2[i] == (if i < k { d[i] } else if i == k { (d[k] + 1) as nat } else if i == k + 1 { d[k] } else { d[i - 1] }) by {}
    assert forall|i: int| 0 <= i < l2.len() implies (s as int) <= (#[trigger] l2[i]).start <= l2[i].end && l2[i].start < u32::MAX by {
        if i < k { let _ = l[i]; } else if i > k + 1 { let _ = l[i - 1]; }
    }
    assert forall|i: int, j: int| 0 <= i && j == i + 1 && j < l2.len() implies (#[trigger] l2[i]).end == (#[trigger] l2[j]).start by {
        if i < k { let _ = l[i]; let _ = l[i + 1]; } else if i > k { let _ = l[i - 1]; let _ = l[i]; if i == k + 1 { assert(l[k].end == l[k + 1].start); } }
    }
    assert forall|i: int| 0 <= i < l2.len() implies 1 <= #[trigger] d2[i] <= ents.len() + 1 && l2[i].value == f32_of_nat(d2[i]) by {
        if i < k { let _ = d[i]; } else if i > k + 1 { let _ = d[i - 1]; } else { let _ = d[k]; }
    }
    assert forall|i: int| 0 <= i < k + 1 implies (#[trigger] l2[i]).end <= e && seg_depth_plus(l2[i], d2[i], ents) by {
        if i < k { let _ = l[i]; } else { assert(seg_depth(l[k], d[k], ents)); }
    }
    assert forall|i: int| k + 1 <= i < l2.len() implies seg_depth(#[trigger] l2[i], d2[i], ents) && d2[i] <= ents.len() && l2[i].start >= e by {
        if i == k + 1 { assert(seg_depth(l[k], d[k], ents)); let _ = d[k]; }
        else { let _ = l[i - 1]; let _ = l[k]; lemma_sorted(l, d, s as int, ents.len() + 1, k, i - 1); }
    }
    if k + 1 == l.len() { assert(l2.last() == tl); } else { assert(l2.last() == l[l.len() - 1]); }
}
/// contiguity + start <= end gives ordering
proof fn lemma_sorted(l: Seq<Value>, d: Seq<nat>, lo: int, n: nat, i: int, j: int)
    requires shape_ok(l, d, lo, n), 0 <= i < j < l.len(),
    ensures l[i].end <= l[j].start,
    decreases j - i,
{
    if i + 1 < j {
        lemma_sorted(l, d, lo, n, i, j - 1);
        let _ = l[j - 1];
        assert(l[j - 1].end == l[j].start);
    } else {
        let _ = l[i];
    }
}
/// after the increment loop every pending segment is exact for ents + (s, e)
proof fn lemma_sweep_finish(l: Seq<Value>, d: Seq<nat>, k: int, s: u32, e: u32, ents: Seq<(u32, u32)>)
    requires sweep_done(l, d, k, s, e, ents), s <= e,
    ensures mid_ok(l, d, s, e, ents),
{
    let ents2 = ents.push((s, e));
    assert forall|i: int| 0 <= i < l.len() implies seg_depth(#[trigger] l[i], d[i], ents2) by {
        assert forall|p: int| l[i].start <= p < l[i].end implies #[trigger] depth(ents2, p) == d[i] by {
            lemma_depth_push(ents, (s, e), p);
            if i < k { assert(seg_depth_plus(l[i], d[i], ents)); assert(depth(ents, p) + 1 == d[i]); }
            else { assert(seg_depth(l[i], d[i], ents)); assert(depth(ents, p) == d[i]); }
        }
    }
}
/// tail: the new entry reaches beyond the pending span (or nothing is pending): append [hi, e) at depth 1
proof fn lemma_tail_push(l: Seq<Value>, d: Seq<nat>, s: u32, e: u32, ents: Seq<(u32, u32)>, v: Value)
    requires
        mid_ok(l, d, s, e, ents), s <= e, s < u32::MAX,
        v.start == hi_of(l, s as int), v.end == e, v.value == 1.0f32,
        l.len() > 0 ==> v.start < e,
    ensures
        segs_ok(l.push(v), d.push(1), s as int, ents.push((s, e))),
{
    let ents2 = ents.push((s, e));
    let l2 = l.push(v);
    let d2 = d.push(1nat);
    ax_depth_float(0);
    assert forall|i: int| 0 <= i < l2.len() implies (s as int) <= (#[trigger] l2[i]).start <= l2[i].end && l2[i].start < u32::MAX by {
        if i < l.len() { assert(l2[i] == l[i]); } else { if l.len() > 0 { let _ = l[l.len() - 1]; } }
    }
    assert forall|i: int, j: int| 0 <= i && j == i + 1 && j < l2.len() implies (#[trigger] l2[i]).end == (#[trigger] l2[j]).start by {
        assert(l2[i] == l[i]);
        if i + 1 < l.len() { assert(l2[i + 1] == l[i + 1]); }
    }
    assert forall|i: int| 0 <= i < l2.len() implies 1 <= #[trigger] d2[i] <= ents2.len() && l2[i].value == f32_of_nat(d2[i]) by {
        if i < l.len() { assert(d2[i] == d[i]); assert(l2[i] == l[i]); }
    }
    assert forall|i: int| 0 <= i < l2.len() implies seg_depth(#[trigger] l2[i], d2[i], ents2) by {
        if i < l.len() { assert(l2[i] == l[i]); assert(d2[i] == d[i]); }
        else {
            assert forall|p: int| v.start <= p < v.end implies #[trigger] depth(ents2, p) == 1 by {
                lemma_depth_push(ents, (s, e), p);
                assert(depth(ents, p) == 0);
                if l.len() > 0 { let _ = l[l.len() - 1]; }
            }
        }
    }
    assert forall|p: int| p >= hi_of(l2, s as int) implies #[trigger] depth(ents2, p) == 0 by {
        lemma_depth_push(ents, (s, e), p);
        assert(l2.last() == v);
        if l.len() > 0 { let _ = l[l.len() - 1]; }
        assert(depth(ents, p) == 0);
    }
    if l.len() > 0 { assert(l2[0] == l[0]); }
}
/// tail: the pending span already reaches the new entry's end
proof fn lemma_tail_keep(l: Seq<Value>, d: Seq<nat>, s: u32, e: u32, ents: Seq<(u32, u32)>)
    requires mid_ok(l, d, s, e, ents), l.len() > 0, l.last().end >= e,
    ensures segs_ok(l, d, s as int, ents.push((s, e))),
{
    let ents2 = ents.push((s, e));
    assert forall|p: int| p >= hi_of(l, s as int) implies #[trigger] depth(ents2, p) == 0 by {
        lemma_depth_push(ents, (s, e), p);
        assert(depth(ents, p) == 0);
    }
}
/// flush: the first segment leaves completely
proof fn lemma_flush_whole(l: Seq<Value>, d: Seq<nat>, lo: int, ents: Seq<(u32, u32)>)
    requires segs_ok(l, d, lo, ents), l.len() > 0,
    ensures segs_ok(l.subrange(1, l.len() as int), d.subrange(1, d.len() as int), l[0].end as int, ents),
{
    let l2 = l.subrange(1, l.len() as int);
    let d2 = d.subrange(1, d.len() as int);
    let lo2 = l[0].end as int;
    let _ = l[0];
    assert forall|i: int| 0 <= i < l2.len() implies lo2 <= (#[trigger] l2[i]).start <= l2[i].end && l2[i].start < u32::MAX by {
        assert(l2[i] == l[i + 1]);
        if i > 0 { lemma_sorted(l, d, lo, ents.len(), 0, i + 1); } else { assert(l[0].end == l[1].start); }
    }
    assert forall|i: int, j: int| 0 <= i && j == i + 1 && j < l2.len() implies (#[trigger] l2[i]).end == (#[trigger] l2[j]).start by {
        assert(l2[i] == l[i + 1]); assert(l2[i + 1] == l[i + 2]);
    }
    assert forall|i: int| 0 <= i < l2.len() implies 1 <= #[trigger] d2[i] <= ents.len() && l2[i].value == f32_of_nat(d2[i]) by {
        assert(l2[i] == l[i + 1]); assert(d2[i] == d[i + 1]);
    }
    assert forall|i: int| 0 <= i < l2.len() implies seg_depth(#[trigger] l2[i], d2[i], ents) by {
        assert(l2[i] == l[i + 1]); assert(d2[i] == d[i + 1]);
    }
    if l2.len() > 0 { assert(l2[0] == l[1]); assert(l[0].end == l[1].start); assert(l2.last() == l.last()); }
}
/// flush: the first segment is cut at n, its right part stays
proof fn lemma_flush_part(l: Seq<Value>, d: Seq<nat>, lo: int, ents: Seq<(u32, u32)>, n: u32, r: Value)
    requires
        segs_ok(l, d, lo, ents), l.len() > 0, l[0].start < n < l[0].end,
        r.start == n, r.end == l[0].end, r.value == l[0].value,
    ensures
        segs_ok(seq![r] + l.subrange(1, l.len() as int), d, n as int, ents),
{
    let l2 = seq![r] + l.subrange(1, l.len() as int);
    let _ = l[0];
    assert(l2.len() == l.len());
    assert forall|i: int| 0 <= i < l2.len() implies l2[i] == (if i == 0 { r } else { l[i] }) by {}
    assert forall|i: int| 0 <= i < l2.len() implies (n as int) <= (#[trigger] l2[i]).start <= l2[i].end && l2[i].start < u32::MAX by {
        if i > 0 { lemma_sorted(l, d, lo, ents.len(), 0, i); let _ = l[i]; }
    }
    assert forall|i: int, j: int| 0 <= i && j == i + 1 && j < l2.len() implies (#[trigger] l2[i]).end == (#[trigger] l2[j]).start by {
        let _ = l[i]; let _ = l[i + 1];
    }
    assert forall|i: int| 0 <= i < l2.len() implies 1 <= #[trigger] d[i] <= ents.len() && l2[i].value == f32_of_nat(d[i]) by {
        let _ = l[i];
    }
    assert forall|i: int| 0 <= i < l2.len() implies seg_depth(#[trigger] l2[i], d[i], ents) by {
        let _ = l[i];
        assert(seg_depth(l[i], d[i], ents));
    }
    if l.len() == 1 { assert(l2.last() == r); } else { assert(l2.last() == l.last()); }
}
proof fn lemma_pieces_push(ps: Seq<Piece>, a: int, b: int, pc: Piece, ents: Seq<(u32, u32)>)
    requires pieces_ok(ps, a, b, ents), pc.s == b, pc.s <= pc.e, pc.d >= 1, piece_depth(pc, ents),
    ensures pieces_ok(ps.push(pc), a, pc.e, ents),
{
    let p2 = ps.push(pc);
    assert forall|k: int| 0 <= k < p2.len() implies (#[trigger] p2[k]).s <= p2[k].e && p2[k].d >= 1 && piece_depth(p2[k], ents) by {
        if k < ps.len() { assert(p2[k] == ps[k]); }
    }
    assert forall|k: int, j: int| 0 <= k && j == k + 1 && j < p2.len() implies (#[trigger] p2[k]).e == (#[trigger] p2[j]).s by {
        assert(p2[k] == ps[k]);
        if k + 1 < ps.len() { assert(p2[k + 1] == ps[k + 1]); }
    }
    if ps.len() > 0 { assert(p2[0] == ps[0]); }
}

// verified stand-ins for the `.map(|x| ..)` closures on Option<&Value> (R11 substitutions below)
fn last_end_of(l: &VList) -> (r: Option<u32>)
    ensures r.is_some() == (l@.len() > 0), r.is_some() ==> r.unwrap() == l@.last().end,
{ match l.get_last() { Some(o) => Some(o.end), None => None } }
fn first_starts_before(l: &VList, x: u32) -> (r: bool)
    ensures r == (l@.len() > 0 && l@[0].start < x),
{ match l.get_first() { Some(f) => f.start < x, None => false } }

// ---------------- what a flushed piece does to the summary (C06 "bases, min, max, sum, sum of squares") ----
spec fn sbases(s: Option<Summary>) -> int { match s { Some(x) => x.bases_covered as int, None => 0 } }
spec fn piece_val(pc: Piece) -> f64 { f64::from_spec(f32_of_nat(pc.d)) }
spec fn apply_piece(s: Option<Summary>, pc: Piece) -> Option<Summary> {
    let w = f64::from_spec((pc.e - pc.s) as u32);
    let x = piece_val(pc);
    match s {
        None => Some(Summary { total_items: 0, bases_covered: (pc.e - pc.s) as u64, min_val: x, max_val: x,
                               sum: w.mul_spec(x), sum_squares: w.mul_spec(x).mul_spec(x) }),
        Some(t) => Some(Summary { total_items: t.total_items, bases_covered: (t.bases_covered + (pc.e - pc.s)) as u64,
                               min_val: fmin(t.min_val, x), max_val: fmax(t.max_val, x),
                               sum: t.sum.add_spec(w.mul_spec(x)), sum_squares: t.sum_squares.add_spec(w.mul_spec(x).mul_spec(x)) }),
    }
}
spec fn fold_pieces(s: Option<Summary>, ps: Seq<Piece>) -> Option<Summary>
    decreases ps.len()
{
    if ps.len() == 0 { s } else { apply_piece(fold_pieces(s, ps.drop_last()), ps.last()) }
}
/// the bound up to which the pending coverage is final: the next entry's start, and after the LAST entry of the
/// chromosome everything (no base lies at or right of u32::MAX: ends are u32)
spec fn bound_of(next_start_opt: Option<u32>) -> u32 {
    if next_start_opt.is_some() { next_start_opt.unwrap() } else { u32::MAX }
}
/// where the flushed pieces end
spec fn flushed_to(ps: Seq<Piece>, a: int) -> int { if ps.len() > 0 { ps.last().e } else { a } }

fn add_interval_to_summary(overlap: &mut VList, summary: &mut Option<Summary>, item_start: u32, item_end: u32, next_start_opt: Option<u32>, Ghost(ents): Ghost<Seq<(u32, u32)>>, Ghost(d0): Ghost<Seq<nat>>) -> (out: Ghost<(Seq<nat>, Seq<Piece>)>)
    requires
        
        item_start <= item_end, item_start < u32::MAX,
        next_start_opt.is_some() ==> item_start <= next_start_opt.unwrap(),
        ents.len() < 0xff_ffff,
        segs_ok(old(overlap)@, d0, item_start as int, ents),
        sbases(*old(summary)) == cnt(ents, 0, item_start as int),
    ensures
        
        segs_ok(final(overlap)@, out@.0, bound_of(next_start_opt) as int, ents.push((item_start, item_end))),
        
        segs_ok(final(overlap)@, out@.0, flushed_to(out@.1, item_start as int), ents.push((item_start, item_end))),
        item_start <= flushed_to(out@.1, item_start as int) <= bound_of(next_start_opt),
        final(overlap)@.len() > 0 ==> flushed_to(out@.1, item_start as int) == bound_of(next_start_opt),
        
        pieces_ok(out@.1, item_start as int, flushed_to(out@.1, item_start as int), ents.push((item_start, item_end))),
        
        forall|q: int| 0 <= q < out@.1.len() ==> (#[trigger] out@.1[q]).s < out@.1[q].e,
        
        *final(summary) == fold_pieces(*old(summary), out@.1),
        
        sbases(*final(summary)) == cnt(ents.push((item_start, item_end)), 0, bound_of(next_start_opt) as int),
        
        final(overlap)@.len() > 0 ==> final(overlap)@.last().end == imax(hi_of(old(overlap)@, item_start as int), item_end as int),
        final(overlap)@.len() == 0 ==> imax(hi_of(old(overlap)@, item_start as int), item_end as int) <= bound_of(next_start_opt),
        
        next_start_opt.is_none() ==> final(overlap)@.len() == 0,
{
            let ghost ents2 = ents.push((item_start, item_end));
            let ghost hi0 = hi_of(overlap@, item_start as int);
            let ghost mut d = d0;
            let ghost mut k: int = 0;
            proof { float_ax::float_det(); }

            // If any overlaps exists, it must be starting at the current start (else it would have to be after the current entry)
            // If the overlap starts before, the entry wasn't correctly cut last iteration
            assert((overlap@.len() > 0 ==> overlap@[0].start == item_start));

            // For each item in `overlap` that overlaps the current
            // item, add `1` to the value.
            let mut index = overlap.first_index();
            while index.is_some() 
                invariant_except_break
                    
                    sweep_inv(overlap@, d, k, item_start, item_end, ents),
                    hi_of(overlap@, item_start as int) == hi0,
                    
                    index.some() ==> overlap.has(index) && overlap.pos(index) == k && k < overlap@.len(),
                    !index.some() ==> k == overlap@.len(),
                invariant
                    
                    item_start <= item_end, ents.len() < 0xff_ffff,
                    *summary == *old(summary),
                ensures
                    
                    sweep_done(overlap@, d, k, item_start, item_end, ents),
                    hi_of(overlap@, item_start as int) == hi0,
                decreases
                    
                    overlap@.len() - k,
{

                proof { float_ax::float_det(); }
                let ghost l_in = overlap@;
                match overlap.get_mut(index) {
                    None => break,
                    Some(o) => {
                        o.value = o.value + (1.0);
                        if item_end < o.end {
                            let value = o.value - 1.0;
                            let end = o.end;
                            o.end = item_end;
                            overlap.insert_after(
                                index,
                                Value {
                                    start: item_end,
                                    end,
                                    value,
                                },
                            );

                            proof { 
                                let nv = Value { start: l_in[k].start, end: item_end, value: l_in[k].value.add_spec(1.0f32) };
                                let tl = Value { start: item_end, end: l_in[k].end, value: nv.value.sub_spec(1.0f32) };
                                assert(overlap@ == l_in.update(k, nv).insert(k + 1, tl));
                                lemma_sweep_split(l_in, d, k, item_start, item_end, ents, nv, tl);
                                d = d.update(k, d[k] + 1).insert(k + 1, d[k]);
                                k = k + 1;
                            }
                            break;
                        }
                        index = overlap.next_index(index);

                        proof { 
                            let nv = Value { start: l_in[k].start, end: l_in[k].end, value: l_in[k].value.add_spec(1.0f32) };
                            assert(overlap@ == l_in.update(k, nv));
                            lemma_sweep_nosplit(l_in, d, k, item_start, item_end, ents, nv);
                            d = d.update(k, d[k] + 1);
                            k = k + 1;
                        }
                    }
                }
            }


            proof { 
                lemma_sweep_finish(overlap@, d, k, item_start, item_end, ents);
                if overlap@.len() > 0 { let _ = overlap@[overlap@.len() - 1]; }
            }
            let ghost l_mid = overlap@;
            assert((overlap@.len() > 0 ==> overlap@.last().end >= item_start));

            // If the current item extends past the last item (or if there are no
            // previous items), we must add the part that is not yet covered
            match last_end_of(overlap) {
                Some(last_end) => {
                    if last_end < item_end {
                        overlap.insert_last(Value {
                            start: last_end,
                            end: item_end,
                            value: 1.0,
                        });
                    }
                }
                None => {
                    overlap.insert_last(Value {
                        start: item_start,
                        end: item_end,
                        value: 1.0,
                    });
                }
            }


            proof { 
                if l_mid.len() > 0 && l_mid.last().end >= item_end {
                    lemma_tail_keep(l_mid, d, item_start, item_end, ents);
                } else {
                    let v = Value { start: hi_of(l_mid, item_start as int) as u32, end: item_end, value: 1.0f32 };
                    lemma_tail_push(l_mid, d, item_start, item_end, ents, v);
                    assert(overlap@ == l_mid.push(v));
                    d = d.push(1nat);
                }
                assert(segs_ok(overlap@, d, item_start as int, ents2));
                assert(hi_of(overlap@, item_start as int) == imax(hi0, item_end as int));
            }
            let ghost hi1 = imax(hi0, item_end as int);
            let next_start = next_start_opt.unwrap_or(u32::MAX);

            let ghost mut ps: Seq<Piece> = Seq::empty();
            let ghost mut lo: int = item_start as int;
            proof {
                lemma_cnt_push_left(ents, (item_start, item_end), 0, item_start as int);
            }

            while first_starts_before(overlap, next_start)
            
                invariant
                    
                    ents2 == ents.push((item_start, item_end)),
                    hi1 == imax(hi0, item_end as int),
                    
                    item_start <= lo <= next_start,
                    lo == flushed_to(ps, item_start as int),
                    
                    segs_ok(overlap@, d, lo, ents2),
                    hi_of(overlap@, lo) == hi1,
                    
                    pieces_ok(ps, item_start as int, lo, ents2),
                    
                    forall|q: int| 0 <= q < ps.len() ==> (#[trigger] ps[q]).s < ps[q].e,
                    
                    *summary == fold_pieces(*old(summary), ps),
                    
                    sbases(*summary) == cnt(ents2, 0, lo),
                decreases
                    
                    overlap@.len(),
                    (if overlap@.len() > 0 && overlap@[0].start < next_start { 1int } else { 0int }),
{

                proof { float_ax::float_det(); }
                let ghost l_in = overlap@;
                let ghost sum_in = *summary;
                let mut removed = overlap.remove_first().unwrap();
                let (len, val) = if removed.end <= next_start {
                    (removed.end - removed.start, f64::from(removed.value))
                } else {
                    let len = next_start - removed.start;
                    let val = f64::from(removed.value);
                    removed.start = next_start;
                    overlap.insert_first(removed);
                    (len, val)
                };

                let ghost d_first = d[0];
                let ghost lo2: int = if l_in[0].end <= next_start { l_in[0].end as int } else { next_start as int };
                let ghost pc = Piece { s: lo, e: lo2, d: d_first };
                proof { 
                    let _ = l_in[0];
                    assert(seg_depth(l_in[0], d[0], ents2));
                    if l_in[0].end <= next_start {
                        lemma_flush_whole(l_in, d, lo, ents2);
                        d = d.subrange(1, d.len() as int);
                    } else {
                        lemma_flush_part(l_in, d, lo, ents2, next_start, removed);
                    }
                    assert(piece_depth(pc, ents2));
                    lemma_cnt_step(ents2, lo, lo2);
                    lemma_cnt_bound(ents2, 0, lo);
                    assert(len == (pc.e - pc.s) as u32); 
                    assert(val == piece_val(pc)); 
                    lo = lo2;
                }

                // A piece that covers no base (a segment split exactly on its boundary, or a
                // zero-length entry) has no depth to report
                if len == 0 {
                    continue;
                }


                proof { 
                    lemma_pieces_push(ps, item_start as int, pc.s, pc, ents2);
                    assert(ps.push(pc).drop_last() =~= ps);
                    ps = ps.push(pc);
                }
                match summary {
                    None => {
                        *summary = Some(Summary {
                            total_items: 0,
                            bases_covered: u64::from(len),
                            min_val: val,
                            max_val: val,
                            sum: f64::from(len) * val,
                            sum_squares: f64::from(len) * val * val,
                        })
                    }
                    Some(summary) => {
                        summary.bases_covered = summary.bases_covered + (u64::from(len));
                        summary.min_val = summary.min_val.min(val);
                        summary.max_val = summary.max_val.max(val);
                        summary.sum = summary.sum + (f64::from(len) * val);
                        summary.sum_squares = summary.sum_squares + (f64::from(len) * val * val);
                    }
                }
            }
        
            proof { 
                if overlap@.len() > 0 { let _ = overlap@[0]; } else { lemma_cnt_zero_ext(ents2, lo, next_start as int); }
            }
            Ghost((d, ps))
}

} // verus!
fn main() {}

