//@unit write_pre
//@serves C09 C02
//@backend verus
// BigWigWrite::write_pre / BigBedWrite::write_pre (+ bbiwrite::write_blank_headers as verified callee):
// the placeholder area at the start of the file and the offsets that are later stored in the header.
// C09 "header fields, offsets and counts are mutually consistent": the returned offsets ARE the file
// positions of the total-summary slot (40 bytes), the data-count slot (8 bytes) and the first data byte;
// C02 "a supplied autoSql text is returned verbatim": the text is stored unchanged at autosql_offset,
// followed by exactly one NUL and containing none.
use vstd::prelude::*;
verus! {
//@include ../_shared/bytes.rs

//@extract const bigtools/src/bbi/bbiwrite.rs MAX_ZOOM_LEVELS
//@rule R8
//@end
// thiserror derive: `#[error(..)]` display strings dropped, `#[from] io::Error` -> IoError, message
// payload `String` -> `Msg`; the From impl that `#[from]` generates is written out below.
//@extract enum bigtools/src/bbi/bbiwrite.rs ProcessDataError
//@rule R8
//@sub /#\[error\([^\n]*\)\]\n/ => "" min=3
//@sub /#\[from\] io::Error/ => IoError min=1
//@sub /\(String\)/ => (Msg) min=2
//@end
pub struct Msg {}
impl vstd::std_specs::convert::FromSpecImpl<IoError> for ProcessDataError {
    open spec fn obeys_from_spec() -> bool { true }
    open spec fn from_spec(e: IoError) -> ProcessDataError { ProcessDataError::IoError(e) }
}
impl From<IoError> for ProcessDataError {
    fn from(e: IoError) -> (r: ProcessDataError) { ProcessDataError::IoError(e) }
}

// =====================================================================================
// shims: ASSUMED contracts (listed in NOTES.md)
// =====================================================================================
/// `String` holding an autoSql text: opaque, ghost byte content
#[verifier::external_body]
pub struct Text { _p: Vec<u8> }
impl Text {
    pub uninterp spec fn bytes(&self) -> Seq<u8>;
    /// `String::into_bytes`
    #[verifier::external_body]
    pub fn into_bytes(self) -> (r: Vec<u8>)
        ensures r@ == self.bytes(),
    { unimplemented!() }
    // String/str methods that the pinned code does not call: no postcondition (unknown result), so an edit
    // that starts using them is judged by the contract instead of being rejected by the front end
    #[verifier::external_body] pub fn trim(&self) -> (r: Text) { unimplemented!() }
    #[verifier::external_body] pub fn trim_end(&self) -> (r: Text) { unimplemented!() }
    #[verifier::external_body] pub fn trim_start(&self) -> (r: Text) { unimplemented!() }
    #[verifier::external_body] pub fn to_string(&self) -> (r: Text) { unimplemented!() }
    #[verifier::external_body] pub fn to_owned(&self) -> (r: Text) { unimplemented!() }
    #[verifier::external_body] pub fn to_lowercase(&self) -> (r: Text) { unimplemented!() }
    #[verifier::external_body] pub fn replace(&self, _a: &str, _b: &str) -> (r: Text) { unimplemented!() }
}
/// the bytes of `crate::bed::autosql::BED3`
pub uninterp spec fn bed3() -> Seq<u8>;
/// `autosql.unwrap_or_else(|| crate::bed::autosql::BED3.to_string())`
#[verifier::external_body]
pub fn text_or_bed3(t: Option<Text>) -> (r: Text)
    ensures r.bytes() == stored_text(t),
{ unimplemented!() }
pub open spec fn stored_text(t: Option<Text>) -> Seq<u8> {
    match t { Some(x) => x.bytes(), None => bed3() }
}
/// the predicate `!a.trim().is_empty()` on a text: uninterpreted, except for the one fact used: it is FALSE for the empty
/// text (`"".trim()` is `""`)
pub uninterp spec fn not_blank(t: Seq<u8>) -> bool;
/// `autosql.filter(|a| !a.trim().is_empty())`: Option::filter's real contract (None stays None; Some(x) is kept iff the
/// predicate holds for x, else None) over the named predicate
#[verifier::external_body]
pub fn filter_not_blank(t: Option<Text>) -> (r: Option<Text>)
    ensures
        t is None ==> r is None,
        t matches Some(x) ==> r == (if not_blank(x.bytes()) { Some(x) } else { None::<Text> }),
        t matches Some(x) ==> (x.bytes().len() == 0 ==> !not_blank(x.bytes())),
{ unimplemented!() }
/// `autosql.filter(|a| !a.is_empty())`: the same with the predicate "has at least one byte"
#[verifier::external_body]
pub fn filter_nonempty(t: Option<Text>) -> (r: Option<Text>)
    ensures
        t is None ==> r is None,
        t matches Some(x) ==> r == (if x.bytes().len() > 0 { Some(x) } else { None::<Text> }),
{ unimplemented!() }
/// what `parse_autosql` finds in the text: the field count of every declaration, in order (None: parse error).
/// Abstract here; the parser itself is units asql_loops / asql_tok.
pub uninterp spec fn decl_counts(t: Seq<u8>) -> Option<Seq<int>>;
/// the header's field count is that of the LAST declaration (helper `simple`/`object` declarations come first, the
/// table that describes the rows is last); None: parse error or no declaration at all
pub open spec fn parsed_field_count(t: Seq<u8>) -> Option<usize> {
    match decl_counts(t) {
        Some(c) => if c.len() > 0 && 0 <= c.last() <= usize::MAX { Some(c.last() as usize) } else { None },
        None => None,
    }
}
pub struct Decl { pub fields: Vec<u8> }
pub struct ParseErr {}
/// `parse_autosql(&autosql)` (ASSUMED contract: the declarations of the text, in order, each with its fields)
#[verifier::external_body]
pub fn parse_decls(t: &Text) -> (r: Result<Vec<Decl>, ParseErr>)
    ensures
        r is Ok <==> decl_counts(t.bytes()) is Some,
        r matches Ok(v) ==> v@.len() == decl_counts(t.bytes())->Some_0.len()
            && forall|i: int| 0 <= i < v@.len() ==> (#[trigger] v@[i]).fields@.len() == decl_counts(t.bytes())->Some_0[i],
{ unimplemented!() }
// the labelled block `'field_count: { .. break 'field_count X; .. }` of write_pre (Verus has no labelled blocks): hoisted
// MECHANICALLY into this function -- body = the block's text, `break 'field_count X` -> `return X`,
// `parse_autosql(&autosql)` -> `parse_decls(autosql)`; write_pre below calls it where the block stood.
//@extract method bigtools/src/bbi/bigbedwrite.rs write_pre "^impl<W: Write \+ Seek \+ Send \+ 'static> BigBedWrite<W>"
//@rule R16
//@presub /\A.*?\n([ \t]*)let field_count = 'field_count: \{(.*?)\n\1\};.*\Z/ => pub fn schema_field_count(autosql: &Text) -> Option<usize> {\2\n} min=1 count=1
//@presub /break 'field_count ([^;]*);/ => return \1; min=0
//@sub /parse_autosql\(&autosql\)/ => parse_decls(autosql) min=0
//@ret r
//@sig
    ensures
        [[L: bb/field_count_block/is_the_last_declarations_field_count]]
        r == parsed_field_count(autosql.bytes()),
//@end

pub open spec fn has_nul(s: Seq<u8>) -> bool { exists|i: int| 0 <= i < s.len() && #[trigger] s[i] == 0u8 }
/// `std::ffi::CString` / `NulError`
#[verifier::external_body]
pub struct CStr { _p: Vec<u8> }
pub struct NulErr {}
impl CStr {
    pub uninterp spec fn body(&self) -> Seq<u8>;
    /// `CString::new(Vec<u8>)`: Err iff the bytes contain a NUL; otherwise owns exactly those bytes
    #[verifier::external_body]
    pub fn new(v: Vec<u8>) -> (r: Result<CStr, NulErr>)
        ensures r is Err <==> has_nul(v@), r matches Ok(c) ==> c.body() == v@,
    { unimplemented!() }
    /// `CString::as_bytes`: the bytes without the trailing NUL
    #[verifier::external_body]
    pub fn as_bytes(&self) -> (r: &[u8])
        ensures r@ == self.body(),
    { unimplemented!() }
    /// `CString::as_bytes_with_nul`: the bytes followed by one NUL
    #[verifier::external_body]
    pub fn as_bytes_with_nul(&self) -> (r: &[u8])
        ensures r@ == self.body().push(0u8),
    { unimplemented!() }
}

// ---- format vocabulary ----
pub open spec fn zeros(n: int) -> Seq<u8> { Seq::new(n as nat, |i: int| 0u8) }
/// what write_pre leaves at the start of a bigWig: 64 + 240 header/zoom-directory placeholder bytes,
/// 40 bytes total-summary placeholder, 8 bytes data-count placeholder
pub open spec fn bw_pre() -> Seq<u8> { zeros(64) + zeros(240) + zeros(40) + le64(0u64) }
/// bigBed: the autoSql text and its NUL sit between the header area and the summary placeholder
pub open spec fn bb_pre(t: Seq<u8>) -> Seq<u8> { zeros(64) + zeros(240) + t.push(0u8) + zeros(40) + le64(0u64) }

pub proof fn lemma_le64_zero()
    ensures le64(0u64) == zeros(8),
{
    reveal(byte_of);
    assert(le64(0u64) =~= zeros(8));
}
/// what an independent decoder sees in `splice(d0, 0, bw_pre())`
pub proof fn lemma_bw_layout(d0: Seq<u8>)
    ensures ({
        let f = splice(d0, 0, bw_pre());
        &&& bw_pre().len() == 352
        &&& f.len() == (if d0.len() >= 352 { d0.len() as int } else { 352 })
        &&& forall|i: int| 0 <= i < 352 ==> #[trigger] f[i] == 0u8
        &&& forall|i: int| 352 <= i < d0.len() ==> #[trigger] f[i] == d0[i]
    }),
{
    lemma_le64_zero();
}
pub proof fn lemma_bb_layout(d0: Seq<u8>, t: Seq<u8>)
    ensures ({
        let f = splice(d0, 0, bb_pre(t));
        let n = t.len() as int;
        &&& bb_pre(t).len() == 353 + n
        &&& f.len() == (if d0.len() >= 353 + n { d0.len() as int } else { 353 + n })
        &&& forall|i: int| 0 <= i < 304 ==> #[trigger] f[i] == 0u8
        &&& f.subrange(304, 304 + n) == t
        &&& forall|i: int| 304 + n <= i < 353 + n ==> #[trigger] f[i] == 0u8
        &&& forall|i: int| 353 + n <= i < d0.len() ==> #[trigger] f[i] == d0[i]
    }),
{
    lemma_le64_zero();
    let f = splice(d0, 0, bb_pre(t));
    assert(f.subrange(304, 304 + t.len() as int) =~= t);
}

// ---- write_blank_headers (contract as in unit hdr; verified here again because write_pre calls it) ----
//@extract fn bigtools/src/bbi/bbiwrite.rs write_blank_headers
//@rule R16
//@rule R3 min=3
//@rule R8
//@sub /<W: Write \+ Seek \+ Send \+ 'static>\(\s*file: &mut BufWriter<W>(?=\s*[,)])/ => (file: &mut FSink min=1
//@sub /io::Result<\(\)>/ => Result<(), IoError> min=1
//@sub /\.put_bytes\(/ => .put( min=2
//@ret r
//@sig
    requires
        [[L: blank/pre_sink_wf]]
        old(file).wf(),
    ensures
        [[L: blank/image_is_old_with_304_zero_bytes_at_0]]
        r is Ok ==> final(file).data() == splice(old(file).data(), 0, zeros(64) + zeros(240)),
        [[L: blank/position_304]]
        r is Ok ==> final(file).pos() == 304,
        final(file).wf(),
//@open
    let ghost d0 = file.data();
//@at /Ok\(\(\)\)/ before
    proof {
        [[L: blank/two_zero_runs_of_64_and_240_bytes]]
        assert(file.data() =~= splice(d0, 0, zeros(64) + zeros(240)));
    }
//@end

pub struct BigWigWrite {}
impl BigWigWrite {
//@extract method bigtools/src/bbi/bigwigwrite.rs write_pre "^impl<W: Write \+ Seek \+ Send \+ 'static> BigWigWrite<W>"
//@rule R16
//@rule R3 min=2
//@rule R8
//@sub /\(\s*file: &mut BufWriter<W>/ => (file: &mut FSink min=1
//@sub /\.pos\(\)\?/ => .tell()? min=0
//@sub /\.put_bytes\(/ => .put( min=0
//@ret r
//@sig
    requires
        [[L: bw/pre_sink_wf]]
        old(file).wf(),
    ensures
        [[L: bw/offsets_are_304_344_352]]
        r matches Ok(o) ==> o.0 == 304 && o.1 == 344 && o.2 == 352,
        [[L: bw/image_is_old_with_352_placeholder_bytes_at_0]]
        r is Ok ==> final(file).data() == splice(old(file).data(), 0, bw_pre()),
        [[L: bw/first_352_bytes_zero_rest_unchanged]]
        r is Ok ==> final(file).data().len() == (if old(file).data().len() >= 352 { old(file).data().len() as int } else { 352 })
            && (forall|i: int| 0 <= i < 352 ==> #[trigger] final(file).data()[i] == 0u8)
            && (forall|i: int| 352 <= i < old(file).data().len() ==> #[trigger] final(file).data()[i] == old(file).data()[i]),
        [[L: bw/position_is_pre_data]]
        r matches Ok(o) ==> final(file).pos() == o.2,
        [[L: bw/fresh_file_is_exactly_the_placeholder]]
        r is Ok && old(file).data().len() == 0 ==> final(file).data() == bw_pre() && final(file).pos() == final(file).data().len(),
        final(file).wf(),
//@open
    let ghost d0 = file.data();
//@at /let full_data_offset = / before
        proof {
            [[L: bw/summary_placeholder_is_40_bytes_at_total_summary_offset]]
            assert(total_summary_offset == 304 && file.pos() == 344);
            assert(file.data() =~= splice(d0, 0, zeros(64) + zeros(240) + zeros(40)));
        }
//@at /let pre_data = / before
        proof {
            [[L: bw/count_placeholder_is_8_bytes_at_full_data_offset]]
            assert(full_data_offset == 344 && file.pos() == 352);
            assert(file.data() =~= splice(d0, 0, bw_pre()));
            lemma_bw_layout(d0);
        }
//@at /Ok\(\(/ before
        proof {
            if d0.len() == 0 { assert(splice(d0, 0, bw_pre()) =~= bw_pre()); }
        }
//@end
}

pub struct BigBedWrite {}
impl BigBedWrite {
//@extract method bigtools/src/bbi/bigbedwrite.rs write_pre "^impl<W: Write \+ Seek \+ Send \+ 'static> BigBedWrite<W>"
//@rule R16
//@rule R3 min=3
//@rule R8
//@presub /\n([ \t]*)let field_count = 'field_count: \{.*?\n\1\};/ => \n\1let field_count = schema_field_count(&autosql); min=1 count=1
//@presub /autosql\s*\.filter\(\|(\w+)\|\s*!\1\.trim\(\)\.is_empty\(\)\)(?=\s*\.unwrap_or_else\()/ => filter_not_blank(autosql) min=0 count=1
//@presub /autosql\s*\.filter\(\|(\w+)\|\s*!\1\.is_empty\(\)\)(?=\s*\.unwrap_or_else\()/ => filter_nonempty(autosql) min=0 count=1
//@presub /(autosql|filter_\w+\(autosql\))\s*\.unwrap_or_else\(\|\|\s*crate::bed::autosql::BED3\.to_string\(\)\)/ => text_or_bed3(\1) min=1 count=1
//@presub /CString::new\(autosql\.into_bytes\(\)\)\s*\.map_err\(\|_\|\s*\{?\s*ProcessDataError::InvalidInput\("Invalid autosql: null byte in string"\.to_owned\(\)\)\s*\}?\)\?;/ => match CStr::new(autosql.into_bytes()) { Ok(c) => c, Err(_) => return Err(ProcessDataError::InvalidInput(Msg {})) }; min=1 count=1
//@sub /file: &mut BufWriter<W>,/ => file: &mut FSink, min=1
//@sub /autosql: Option<String>,/ => autosql: Option<Text>, min=1
//@sub /\.pos\(\)\?/ => .tell()? min=0
//@sub /\.put_bytes\(/ => .put( min=0
//@ret r
//@sig
    requires
        [[L: bb/pre_sink_wf]]
        old(file).wf(),
        [[L: bb/pre_text_shorter_than_2_63]]
        stored_text(autosql).len() < 0x7fff_ffff_ffff_fe00,
    ensures
        [[L: bb/nul_in_text_is_rejected]]
        has_nul(stored_text(autosql)) ==> r is Err,
        [[L: bb/offsets_are_consecutive_from_304]]
        r matches Ok(o) ==> o.0 == 304 && o.1 == 304 + stored_text(autosql).len() + 1 && o.2 == o.1 + 40 && o.3 == o.2 + 8,
        [[L: bb/image_is_old_with_placeholder_and_text_at_0]]
        r is Ok ==> final(file).data() == splice(old(file).data(), 0, bb_pre(stored_text(autosql))),
        [[L: bb/text_stored_verbatim_at_autosql_offset]]
        r matches Ok(o) ==> final(file).data().subrange(o.0 as int, o.0 + stored_text(autosql).len()) == stored_text(autosql),
        [[L: bb/text_has_no_nul_and_one_nul_follows]]
        r matches Ok(o) ==> !has_nul(stored_text(autosql)) && final(file).data()[o.1 - 1] == 0u8,
        [[L: bb/header_area_and_placeholders_zero_rest_unchanged]]
        r matches Ok(o) ==> final(file).data().len() == (if old(file).data().len() >= o.3 { old(file).data().len() as int } else { o.3 as int })
            && (forall|i: int| 0 <= i < 304 ==> #[trigger] final(file).data()[i] == 0u8)
            && (forall|i: int| o.1 <= i < o.3 ==> #[trigger] final(file).data()[i] == 0u8)
            && (forall|i: int| o.3 <= i < old(file).data().len() ==> #[trigger] final(file).data()[i] == old(file).data()[i]),
        [[L: bb/position_is_pre_data]]
        r matches Ok(o) ==> final(file).pos() == o.3,
        [[L: bb/field_count_from_parsed_schema_default_3]]
        r matches Ok(o) ==> o.4 == (match parsed_field_count(stored_text(autosql)) { Some(n) => n as u16, None => 3u16 }),
        final(file).wf(),
//@open
    let ghost d0 = file.data();
//@at /= text_or_bed3\(/ after
        // `t` = the text the code goes on with (the local that shadows the parameter): the step assertions below say that
        // THIS text is laid out; the postconditions say that it must be the supplied one (`stored_text(autosql)`)
        let ghost t = autosql.bytes();
//@at /let total_summary_offset = / before
        proof {
            [[L: bb/text_then_one_nul_at_304]]
            assert(autosql_offset == 304 && file.pos() == 304 + t.len() + 1);
            assert(file.data() =~= splice(d0, 0, zeros(64) + zeros(240) + t.push(0u8)));
        }
//@at /let full_data_offset = / before
        proof {
            [[L: bb/summary_placeholder_is_40_bytes_at_total_summary_offset]]
            assert(total_summary_offset == 304 + t.len() + 1 && file.pos() == total_summary_offset + 40);
            assert(file.data() =~= splice(d0, 0, zeros(64) + zeros(240) + t.push(0u8) + zeros(40)));
        }
//@at /let pre_data = / before
        proof {
            [[L: bb/count_placeholder_is_8_bytes_at_full_data_offset]]
            assert(full_data_offset == total_summary_offset + 40 && file.pos() == full_data_offset + 8);
            assert(file.data() =~= splice(d0, 0, bb_pre(t)));
            lemma_bb_layout(d0, t);
        }
//@end
}

} // verus!
fn main() {}
