"""Minimal Rust source scanner used by the extractor.

It does not parse Rust.  It only needs to (a) blank out comments, string and
char literals so that structural characters can be matched, and (b) find the
text span of a named item (fn / struct / enum / const / type / impl) and of the
k-th loop or a named closure inside a function body.  Everything is cut from
the *original* text; the masked text is only used to find offsets.
"""
import re


class AnchorLost(Exception):
    """The named item / loop / closure is no longer where the contract expects it."""


def mask(src):
    """Return src with comments, string literals and char literals replaced by
    spaces (newlines kept), same length as src."""
    out = list(src)
    n = len(src)
    i = 0

    def blank(a, b):
        for k in range(a, b):
            if out[k] != '\n':
                out[k] = ' '

    while i < n:
        c = src[i]
        nxt = src[i + 1] if i + 1 < n else ''
        if c == '/' and nxt == '/':
            j = src.find('\n', i)
            if j < 0:
                j = n
            blank(i, j)
            i = j
        elif c == '/' and nxt == '*':
            depth = 1
            j = i + 2
            while j < n and depth > 0:
                if src.startswith('/*', j):
                    depth += 1
                    j += 2
                elif src.startswith('*/', j):
                    depth -= 1
                    j += 2
                else:
                    j += 1
            blank(i, j)
            i = j
        elif c == '"' or (c == 'b' and nxt == '"' and not _ident_before(src, i)):
            j = i + (2 if c == 'b' else 1)
            while j < n and src[j] != '"':
                if src[j] == '\\':
                    j += 1
                j += 1
            j = min(j + 1, n)
            blank(i + (1 if c == 'b' else 0) + 1, j - 1)
            i = j
        elif (c == 'r' and not _ident_before(src, i)
              and re.match(r'r#*"', src[i:i + 12])) or \
             (c == 'b' and nxt == 'r' and not _ident_before(src, i)
              and re.match(r'br#*"', src[i:i + 12])):
            m = re.match(r'b?r(#*)"', src[i:i + 12])
            hashes = m.group(1)
            endtok = '"' + hashes
            j = src.find(endtok, i + len(m.group(0)))
            j = n if j < 0 else j + len(endtok)
            blank(i + len(m.group(0)), j - len(endtok))
            i = j
        elif c == "'":
            m = re.match(r"'(\\x[0-9a-fA-F]{2}|\\u\{[0-9a-fA-F_]+\}|\\.|[^\\'\n])'", src[i:i + 14])
            if m:
                blank(i + 1, i + len(m.group(0)) - 1)
                i += len(m.group(0))
            else:
                i += 1  # lifetime
        else:
            i += 1
    return ''.join(out)


def _ident_before(src, i):
    return i > 0 and (src[i - 1].isalnum() or src[i - 1] == '_')


def match_close(masked, open_idx):
    """Index of the bracket matching masked[open_idx] ('{', '(' or '[')."""
    pairs = {'{': '}', '(': ')', '[': ']'}
    o = masked[open_idx]
    c = pairs[o]
    depth = 0
    for k in range(open_idx, len(masked)):
        ch = masked[k]
        if ch == o:
            depth += 1
        elif ch == c:
            depth -= 1
            if depth == 0:
                return k
    raise AnchorLost('unbalanced %s at offset %d' % (o, open_idx))


def _depth_at(masked, idx, lo=0):
    d = 0
    for k in range(lo, idx):
        if masked[k] == '{':
            d += 1
        elif masked[k] == '}':
            d -= 1
    return d


def _attr_start(src, masked, start):
    """Walk back from `start` over directly preceding attribute lines
    (#[...]) and doc comments; return new start (beginning of a line)."""
    line_start = src.rfind('\n', 0, start) + 1
    if src[line_start:start].strip():
        return start  # item does not begin its line
    cur = line_start
    while cur > 0:
        prev_start = src.rfind('\n', 0, cur - 1) + 1
        line = src[prev_start:cur - 1].strip()
        if line.startswith('#[') or line.startswith('///') or line.startswith('//!'):
            cur = prev_start
        elif line.endswith(']') and '#[' not in line:
            # possibly the tail of a multi-line attribute: look further up for '#['
            k = prev_start
            found = None
            for _ in range(12):
                if k <= 0:
                    break
                ps = src.rfind('\n', 0, k - 1) + 1
                l2 = src[ps:k - 1].strip()
                if l2.startswith('#['):
                    found = ps
                    break
                if not l2 or l2.endswith(';') or l2.endswith('}'):
                    break
                k = ps
            if found is None:
                break
            cur = found
        else:
            break
    return cur


_QUAL = r'(?:pub(?:\s*\([^)]*\))?\s+)?(?:default\s+)?(?:const\s+)?(?:async\s+)?(?:unsafe\s+)?(?:extern\s+"[^"]*"\s+)?'


def find_block(src, masked, header_re, lo=0, hi=None, depth=None):
    """Find first match of header_re (applied to masked text in [lo,hi)) whose
    brace depth relative to lo equals `depth` (if given).  Returns match."""
    hi = len(src) if hi is None else hi
    for m in re.finditer(header_re, masked[lo:hi]):
        s = lo + m.start()
        if depth is None or _depth_at(masked, s, lo) == depth:
            return m, s
    return None, None


def find_impl(src, masked, header_regex):
    """Span (open_brace, close_brace) of the first impl whose header (text
    between 'impl' and '{', whitespace-normalised) matches header_regex."""
    for want0 in (True, False):
        for m in re.finditer(r'\bimpl\b', masked):
            s = m.start()
            if want0 and _depth_at(masked, s) != 0:
                continue
            ob = masked.find('{', s)
            if ob < 0:
                continue
            header = ' '.join(src[s:ob].split())
            if re.search(header_regex, header):
                return ob, match_close(masked, ob)
    raise AnchorLost('impl matching /%s/ not found' % header_regex)


def find_fn(src, name, within=None, masked=None, nth=1):
    """Return (item_start, sig_end(open brace idx), body_close idx) of fn `name`.
    `within`: regex of an impl header to search in; otherwise top level (depth 0)
    or, failing that, any depth (nested fn)."""
    masked = masked if masked is not None else mask(src)
    lo, hi, want_depth = 0, len(src), 0
    if within:
        ob, cb = find_impl(src, masked, within)
        lo, hi, want_depth = ob + 1, cb, 0
    pat = r'(?<![A-Za-z0-9_])' + _QUAL + r'fn\s+' + re.escape(name) + r'\b'
    hits = []
    for m in re.finditer(pat, masked[lo:hi]):
        s = lo + m.start()
        if _depth_at(masked, s, lo) == want_depth:
            hits.append(s)
    if not hits and not within:
        for m in re.finditer(pat, masked):
            hits.append(m.start())
    if len(hits) < nth:
        raise AnchorLost('fn %s%s not found' % (name, (' in impl /%s/' % within) if within else ''))
    s = hits[nth - 1]
    # signature: up to the first '{' at paren/bracket/angle-free depth
    k = masked.index('(', s)
    k = match_close(masked, k) + 1
    # now find '{' or ';'
    while k < len(masked) and masked[k] not in '{;':
        if masked[k] in '([':
            k = match_close(masked, k)
        k += 1
    if k >= len(masked) or masked[k] == ';':
        raise AnchorLost('fn %s has no body' % name)
    ob = k
    cb = match_close(masked, ob)
    return _attr_start(src, masked, s), s, ob, cb



def find_macro(src, name, masked=None):
    """`macro_rules! NAME { .. }` (or `( .. );` / `[ .. ];`).  Returns (start_with_attrs, start, end_exclusive)."""
    masked = masked if masked is not None else mask(src)
    for m in re.finditer(r'(?<![A-Za-z0-9_])macro_rules!\s*' + re.escape(name) + r'\b', masked):
        k = m.end()
        while k < len(masked) and masked[k].isspace():
            k += 1
        if k < len(masked) and masked[k] in '{([':
            e = match_close(masked, k) + 1
            while e < len(masked) and masked[e] in ' \t':
                e += 1
            if e < len(masked) and masked[e] == ';':
                e += 1
            return _attr_start(src, masked, m.start()), m.start(), e
    raise AnchorLost('macro %s not found' % name)

def find_type_item(src, kind, name, masked=None):
    """struct / enum / const / type / static at depth 0.  Returns (start_with_attrs, start, end_exclusive)."""
    masked = masked if masked is not None else mask(src)
    pat = r'(?<![A-Za-z0-9_])(?:pub(?:\s*\([^)]*\))?\s+)?' + kind + r'\s+' + re.escape(name) + r'\b'
    hits0 = [m for m in re.finditer(pat, masked) if _depth_at(masked, m.start()) == 0]
    hits = hits0 or list(re.finditer(pat, masked))   # items nested in `mod x { .. }`: any depth
    for m in hits:
        s = m.start()
        k = m.end()
        if kind in ('const', 'type', 'static'):
            e = k
            while masked[e] != ';':
                if masked[e] in '({[':
                    e = match_close(masked, e)
                e += 1
            return _attr_start(src, masked, s), s, e + 1
        # skip generics
        while k < len(masked) and masked[k].isspace():
            k += 1
        if k < len(masked) and masked[k] == '<':
            d = 0
            while k < len(masked):
                if masked[k] == '<':
                    d += 1
                elif masked[k] == '>':
                    d -= 1
                    if d == 0:
                        k += 1
                        break
                k += 1
        while k < len(masked) and masked[k].isspace():
            k += 1
        if masked[k] == '(':
            e = match_close(masked, k) + 1
            while masked[e] != ';':
                e += 1
            return _attr_start(src, masked, s), s, e + 1
        while masked[k] not in '{;':
            if masked[k] == '(':
                k = match_close(masked, k)
            k += 1
        if masked[k] == ';':
            return _attr_start(src, masked, s), s, k + 1
        return _attr_start(src, masked, s), s, match_close(masked, k) + 1
    raise AnchorLost('%s %s not found' % (kind, name))


_LOOP_RE = re.compile(r"(?<![A-Za-z0-9_'])(?:'[A-Za-z_][A-Za-z0-9_]*\s*:\s*)?(loop|while|for)\b")


def find_loops(text, masked=None):
    """All loops in `text` in source order: list of dicts
    {kw, start (incl. label), header_end (index of body '{'), close}."""
    masked = masked if masked is not None else mask(text)
    res = []
    for m in _LOOP_RE.finditer(masked):
        kw = m.group(1)
        s = m.start()
        k = m.end()
        if kw == 'for':
            # must be `for PAT in EXPR {` (not `for<'a>` HRTB and not `impl X for Y`)
            rest = masked[k:k + 200]
            if re.match(r'\s*<', rest):
                continue
            prev = masked[max(0, s - 80):s]
            if re.search(r'\bimpl\b[^;{}]*$', prev):
                continue
        # body brace: first '{' at paren depth 0 after the keyword that is not a struct literal...
        d = 0
        j = k
        ob = None
        while j < len(masked):
            ch = masked[j]
            if ch in '([':
                j = match_close(masked, j)
            elif ch == '{':
                ob = j
                break
            elif ch == ';':
                break
            j += 1
        if ob is None:
            continue
        if kw == 'while' or kw == 'for':
            # a closure body or match block inside the header expression would start with '{' too;
            # the anchored code has none, keep the first brace.
            pass
        res.append({'kw': kw, 'start': s, 'kw_end': k, 'open': ob, 'close': match_close(masked, ob)})
    return res


def find_closure(text, let_name, masked=None):
    """`let NAME = [move] |params| { body };` -> dict(start, params(str), open, close, end(after ';'))."""
    masked = masked if masked is not None else mask(text)
    # `let NAME = [move] |..| {..};`  or  `let NAME = EXPR.map([move] |..| {..});` (closure passed to an adaptor)
    nth = 1
    if '#' in let_name:
        let_name, n = let_name.split('#', 1)
        nth = int(n)
    ms = list(re.finditer(r'\blet\s+(?:mut\s+)?' + re.escape(let_name) + r'\s*=\s*[^|;{}]*?(?:move\s+)?\|', masked))
    if len(ms) < nth:
        raise AnchorLost('closure let %s (occurrence %d) not found' % (let_name, nth))
    m = ms[nth - 1]
    p0 = m.end()
    p1 = masked.index('|', p0)
    k = p1 + 1
    # optional `-> T`
    while masked[k] != '{':
        k += 1
    ret = text[p1 + 1:k].strip()
    ob = k
    cb = match_close(masked, ob)
    e = cb + 1
    while masked[e].isspace() or masked[e] == ')':
        e += 1
    if masked[e] == ';':
        e += 1
    return {'start': m.start(), 'params': text[p0:p1], 'ret': ret, 'open': ob, 'close': cb, 'end': e}
