//@unit py_shape
//@serves C20
//@backend verus
// Python bindings (pybigtools/src/lib.rs), the BINNED fillers: the pieces that decide what a finished bin reports,
// carved out of to_array_bins / to_array_zoom / to_entry_array_bins / to_entry_array_zoom (real text, cut on every run).
// Kani cannot decide these VecDeque routines (unit py_bins, NOTES), so the fixes of findings F3-F5 are guarded here:
//   (a) bigWig: the `match summary { .. }` that turns a popped bin's accumulator into the reported number   (4 sites)
//   (b) bigBed: the `bin_data.push_back((bin, bin_start, bin_end, vec![0; n], vec![f64::NAN; n]))` statement (2 sites)
//       and the `match summary { .. }` finalisation over the per-base cells                                   (4 sites)
//   (c) bigBed exact bins: the per-cell update loops of one entry on one bin                                  (1 site)
//   (d) bigWig exact bins: the accumulation step of one value on one bin                                      (1 site)
//   (e) the FRAME of each of the four fillers (the complement of the carve-outs; whole function, 4 extractions): the
//       initialisation `v.fill(missing)` (the array a caller passes holds ARBITRARY numbers), the integer prologue of every
//       iteration (`interval_start` / `interval_end`: the item clamped to the request, minus the request's start, as
//       mathematical integers), the pop loop and the drain loop as far as WHERE a finalisation is stored.
// Floats are uninterpreted: SHAPE only (which operation on which operands, NaN test as an uninterpreted predicate).
// NOT covered: the deque bookkeeping (which bins exist, which interval meets which bin, when a bin is popped), the
// f64 bin arithmetic, the zoom cell update / zoom accumulation.  See NOTES.md.
use vstd::prelude::*;
use vstd::std_specs::ops::*;
use vstd::std_specs::convert::FromSpec;
use std::collections::VecDeque;
verus! {
global size_of usize == 8;
//@include ../_shared/floats.rs

//@extract enum pybigtools/src/lib.rs Summary
//@rule R8
//@end
//@extract struct bigtools/src/bbi.rs Value
//@rule R8
//@end

// =====================================================================================
// shims (ASSUMED; listed in NOTES.md)
// =====================================================================================
pub uninterp spec fn is_nan_spec(x: f64) -> bool;
pub assume_specification [f64::is_nan] (x: f64) -> (r: bool) ensures r == is_nan_spec(x);
/// `x as f64` for an integer (uninterpreted; exact for |x| < 2^53)
pub uninterp spec fn f64_of_int(i: int) -> f64;
pub trait IntToF64: Sized { spec fn as_int(self) -> int; }
impl IntToF64 for i32 { open spec fn as_int(self) -> int { self as int } }
impl IntToF64 for u32 { open spec fn as_int(self) -> int { self as int } }
impl IntToF64 for i64 { open spec fn as_int(self) -> int { self as int } }
impl IntToF64 for u64 { open spec fn as_int(self) -> int { self as int } }
impl IntToF64 for usize { open spec fn as_int(self) -> int { self as int } }
#[verifier::external_body]
pub fn as_f64<T: IntToF64>(x: T) -> (r: f64) ensures r == f64_of_int(x.as_int()) { unimplemented!() }
/// `v as f64` for an f32 (exact widening; uninterpreted here)
pub uninterp spec fn f64_of(x: f32) -> f64;
#[verifier::external_body]
pub fn f64_of_f32(x: f32) -> (r: f64) ensures r == f64_of(x) { x as f64 }
/// the value a result variable holds before the carved `match` assigns it: unknown
#[verifier::external_body]
pub fn unset_f64() -> (r: f64) { unimplemented!() }
/// `vec![x; n]` (std `from_elem`): n copies of x
#[verifier::external_body]
pub fn vec_of<T: Copy>(x: T, n: usize) -> (r: Vec<T>)
    ensures r@.len() == n, forall|i: int| 0 <= i < n ==> (#[trigger] r@[i]) == x,
{ unimplemented!() }
/// `&mut v[a..b]` panics unless a <= b <= len (std slice index): a real precondition
pub fn slice_bounds<T>(v: &Vec<T>, r: &core::ops::Range<usize>)
    requires r.start <= r.end, r.end <= v@.len(),
{ }
/// the element handed out by `for i in &mut v[range]`
#[verifier::external_body]
pub fn cell_mut<T>(v: &mut Vec<T>, i: usize) -> (r: &mut T)
    requires i < old(v)@.len(),
    ensures *r == old(v)@[i as int], final(v)@ == old(v)@.update(i as int, *final(r)),
{ unimplemented!() }
/// std's `Sum<f64>` starts its left fold from a fixed neutral constant (0.0 or -0.0 depending on the std version)
pub uninterp spec fn sum_start() -> f64;
#[verifier::external_body]
pub fn sum_start_f64() -> (r: f64) ensures r == sum_start() { 0.0 }

// ---- iterator chains of the finalisation, as verified loops (the STD contract of each chain is the `ensures`) ----
/// `cells.into_iter().reduce(|acc, x| acc.min(x))`: None when empty, else the left fold of f64::min from the first cell
pub open spec fn fold_min(s: Seq<f64>) -> f64 decreases s.len() {
    if s.len() <= 1 { s[0] } else { fmin(fold_min(s.drop_last()), s.last()) }
}
pub open spec fn fold_max(s: Seq<f64>) -> f64 decreases s.len() {
    if s.len() <= 1 { s[0] } else { fmax(fold_max(s.drop_last()), s.last()) }
}
pub fn reduce_min(v: &Vec<f64>) -> (r: Option<f64>)
    ensures v@.len() == 0 ==> r is None, v@.len() > 0 ==> r == Some(fold_min(v@)),
{
    if v.len() == 0 { return None; }
    let mut acc = v[0];
    let mut k: usize = 1;
    assert(v@.take(1).drop_last() =~= Seq::<f64>::empty());
    while k < v.len()
        invariant 1 <= k <= v@.len(), acc == fold_min(v@.take(k as int)),
        decreases v@.len() - k,
    {
        proof { assert(v@.take(k + 1).drop_last() =~= v@.take(k as int)); assert(v@.take(k + 1).last() == v@[k as int]); }
        acc = acc.min(v[k]);
        k = k + 1;
    }
    proof { assert(v@.take(v@.len() as int) =~= v@); }
    Some(acc)
}
pub fn reduce_max(v: &Vec<f64>) -> (r: Option<f64>)
    ensures v@.len() == 0 ==> r is None, v@.len() > 0 ==> r == Some(fold_max(v@)),
{
    if v.len() == 0 { return None; }
    let mut acc = v[0];
    let mut k: usize = 1;
    while k < v.len()
        invariant 1 <= k <= v@.len(), acc == fold_max(v@.take(k as int)),
        decreases v@.len() - k,
    {
        proof { assert(v@.take(k + 1).drop_last() =~= v@.take(k as int)); assert(v@.take(k + 1).last() == v@[k as int]); }
        acc = acc.max(v[k]);
        k = k + 1;
    }
    proof { assert(v@.take(v@.len() as int) =~= v@); }
    Some(acc)
}
/// `flags.iter().any(|v| *v > c)` / `>= c`
pub open spec fn some_gt(s: Seq<i32>, c: int) -> bool { exists|i: int| 0 <= i < s.len() && #[trigger] s[i] > c }
pub open spec fn some_ge(s: Seq<i32>, c: int) -> bool { exists|i: int| 0 <= i < s.len() && #[trigger] s[i] >= c }
pub fn any_gt(v: &Vec<i32>, c: i32) -> (r: bool) ensures r == some_gt(v@, c as int) {
    let mut k: usize = 0;
    while k < v.len()
        invariant k <= v@.len(), forall|i: int| 0 <= i < k ==> !(#[trigger] v@[i] > c),
        decreases v@.len() - k,
    { if v[k] > c { return true; } k = k + 1; }
    false
}
pub fn any_ge(v: &Vec<i32>, c: i32) -> (r: bool) ensures r == some_ge(v@, c as int) {
    let mut k: usize = 0;
    while k < v.len()
        invariant k <= v@.len(), forall|i: int| 0 <= i < k ==> !(#[trigger] v@[i] >= c),
        decreases v@.len() - k,
    { if v[k] >= c { return true; } k = k + 1; }
    false
}
/// `flags.into_iter().sum::<i32>()`: the integer sum (panics / wraps on overflow: `requires` the flags are 0/1)
pub open spec fn isum(s: Seq<i32>) -> int decreases s.len() { if s.len() == 0 { 0 } else { isum(s.drop_last()) + s.last() } }
pub open spec fn flags01(s: Seq<i32>) -> bool { s.len() <= i32::MAX && forall|i: int| 0 <= i < s.len() ==> 0 <= (#[trigger] s[i]) <= 1 }
proof fn lemma_isum_bound(s: Seq<i32>)
    requires forall|i: int| 0 <= i < s.len() ==> 0 <= (#[trigger] s[i]) <= 1,
    ensures 0 <= isum(s) <= s.len(),
    decreases s.len()
{ if s.len() > 0 { lemma_isum_bound(s.drop_last()); } }
pub fn sum_i32(v: &Vec<i32>) -> (r: i32)
    requires flags01(v@),
    ensures r == isum(v@),
{
    let mut acc: i32 = 0;
    let mut k: usize = 0;
    while k < v.len()
        invariant k <= v@.len(), acc == isum(v@.take(k as int)), flags01(v@), 0 <= acc <= k,
        decreases v@.len() - k,
    {
        proof { assert(v@.take(k + 1).drop_last() =~= v@.take(k as int)); assert(v@.take(k + 1).last() == v@[k as int]); }
        acc = acc + v[k];
        k = k + 1;
    }
    proof { assert(v@.take(v@.len() as int) =~= v@); }
    acc
}
/// `cells.into_iter().map(|c| c.max(lo)).sum::<f64>()`: left fold of `acc + fmax(cell, lo)` from std's start constant
pub open spec fn sum_clamped_spec(s: Seq<f64>, lo: f64) -> f64 decreases s.len() {
    if s.len() == 0 { sum_start() } else { sum_clamped_spec(s.drop_last(), lo).add_spec(fmax(s.last(), lo)) }
}
pub fn sum_clamped(v: &Vec<f64>, lo: f64) -> (r: f64) ensures r == sum_clamped_spec(v@, lo) {
    proof { float_ax::float_det(); }
    let mut acc = sum_start_f64();
    let mut k: usize = 0;
    while k < v.len()
        invariant k <= v@.len(), acc == sum_clamped_spec(v@.take(k as int), lo),
        decreases v@.len() - k,
    {
        proof { float_ax::float_det(); assert(v@.take(k + 1).drop_last() =~= v@.take(k as int)); assert(v@.take(k + 1).last() == v@[k as int]); }
        acc = acc + v[k].max(lo);
        k = k + 1;
    }
    proof { assert(v@.take(v@.len() as int) =~= v@); }
    acc
}

// =====================================================================================
// specification vocabulary (written from the property)
// =====================================================================================
/// bigWig: what a finished bin reports, from its accumulator `Option<(covered_bases, value)>`
spec fn bw_finish(acc: Option<(i32, f64)>, summary: Summary, missing: f64) -> f64 {
    match summary {
        Summary::Mean => match acc {
            Some(t) => if t.0 > 0 { t.1.div_spec(f64_of_int(t.0 as int)) } else { missing },
            None => missing,
        },
        _ => match acc { Some(t) => t.1, None => missing },
    }
}
/// bigBed: a finished bin, from its per-base covered flags and per-base counts (NaN = base without entry)
pub open spec fn nan_to_missing(x: f64, missing: f64) -> f64 { if is_nan_spec(x) { missing } else { x } }
spec fn bb_finish(flags: Seq<i32>, cells: Seq<f64>, summary: Summary, missing: f64) -> f64 {
    match summary {
        Summary::Min => if cells.len() == 0 { missing } else { nan_to_missing(fold_min(cells), missing) },
        Summary::Max => if cells.len() == 0 { missing } else { nan_to_missing(fold_max(cells), missing) },
        Summary::Mean => if some_gt(flags, 0) { sum_clamped_spec(cells, 0.0f64).div_spec(f64_of_int(isum(flags))) } else { missing },
    }
}
/// bigWig accumulator before a value is added: the stored one, or the initial one (Min/Max: NaN so that f64::min/max return the first value; Mean: 0.0)
spec fn acc0(d: Option<(i32, f64)>, summary: Summary) -> (i32, f64) {
    match d { Some(t) => t, None => match summary { Summary::Mean => (0i32, 0.0f64), _ => (0i32, spec_f64_nan()) } }
}
pub open spec fn imax(a: int, b: int) -> int { if a >= b { a } else { b } }
pub open spec fn imin(a: int, b: int) -> int { if a <= b { a } else { b } }

// ---- (a) to_array_bins: finalisation of a popped bin, inside the interval loop ----
//@extract fn pybigtools/src/lib.rs to_array_bins
//@rule R16
//@presub /\A.*?let front = bin_data\.pop_front\(\)\.unwrap\(\);\s*let bin = front\.0;\n(?:[ \t]*[^\n{}]+;\n)*?\s*(match summary \{.*?)\n\s*\} else \{\s*break;.*\Z/ => fn finish_bin_bwb_loop(front3: Option<(i32, f64)>, summary: Summary, missing: f64, bin_size: f64) -> f64 {\n    let mut r__: f64 = unset_f64();\n    \1\n    r__\n} min=1 count=1
//@presub /\s+\.(?=[a-z_0-9])/ => . min=0
//@presub /\bfront\.3\b/ => front3 min=0
//@presub /\bv\[[^\]\n]+\] = / => r__ =  min=0
//@presub /(\w+)\.filter\(\|\((\w+), _\)\| ([^()]*?)\)/ => (match \1 { Some(t__) => { let \2 = &t__.0; if \3 { Some(t__) } else { None } } None => None }) min=0
//@rule R15
//@sub /\((\w+) as f64\)/ => as_f64(\1) min=0
//@ret r
//@sig
    ensures
        [[L: bwb_loop/min_max_report_the_stored_extremum_or_missing]]
        !(summary is Mean) ==> r == bw_finish(front3, summary, missing),
        [[L: bwb_loop/mean_of_a_bin_without_covered_bases_is_missing]]
        summary is Mean && (front3 is None || front3->Some_0.0 <= 0) ==> r == missing,
        [[L: bwb_loop/mean_is_the_sum_over_the_covered_base_count]]
        summary is Mean && front3 is Some && front3->Some_0.0 > 0 ==> r == front3->Some_0.1.div_spec(f64_of_int(front3->Some_0.0 as int)),
//@open
    proof { float_ax::float_det(); }
//@end

// ---- (a) to_array_bins: finalisation of a popped bin, the closing drain loop ----
//@extract fn pybigtools/src/lib.rs to_array_bins
//@rule R16
//@presub /\A.*while let Some\(front\) = bin_data\.pop_front\(\) \{\s*let bin = front\.0;\n(?:[ \t]*[^\n{}]+;\n)*?\s*(match summary \{.*?)\n\s*\}\n(?:[ \t]*[^\n{}]+;\n)*\s*Ok\(\(\)\)\s*\}\s*\Z/ => fn finish_bin_bwb_drain(front3: Option<(i32, f64)>, summary: Summary, missing: f64, bin_size: f64) -> f64 {\n    let mut r__: f64 = unset_f64();\n    \1\n    r__\n} min=1 count=1
//@presub /\s+\.(?=[a-z_0-9])/ => . min=0
//@presub /\bfront\.3\b/ => front3 min=0
//@presub /\bv\[[^\]\n]+\] = / => r__ =  min=0
//@presub /(\w+)\.filter\(\|\((\w+), _\)\| ([^()]*?)\)/ => (match \1 { Some(t__) => { let \2 = &t__.0; if \3 { Some(t__) } else { None } } None => None }) min=0
//@rule R15
//@sub /\((\w+) as f64\)/ => as_f64(\1) min=0
//@ret r
//@sig
    ensures
        [[L: bwb_drain/min_max_report_the_stored_extremum_or_missing]]
        !(summary is Mean) ==> r == bw_finish(front3, summary, missing),
        [[L: bwb_drain/mean_of_a_bin_without_covered_bases_is_missing]]
        summary is Mean && (front3 is None || front3->Some_0.0 <= 0) ==> r == missing,
        [[L: bwb_drain/mean_is_the_sum_over_the_covered_base_count]]
        summary is Mean && front3 is Some && front3->Some_0.0 > 0 ==> r == front3->Some_0.1.div_spec(f64_of_int(front3->Some_0.0 as int)),
//@open
    proof { float_ax::float_det(); }
//@end

// ---- (a) to_array_zoom: finalisation of a popped bin, inside the interval loop ----
//@extract fn pybigtools/src/lib.rs to_array_zoom
//@rule R16
//@presub /\A.*?let front = bin_data\.pop_front\(\)\.unwrap\(\);\s*let bin = front\.0;\n(?:[ \t]*[^\n{}]+;\n)*?\s*(match summary \{.*?)\n\s*\} else \{\s*break;.*\Z/ => fn finish_bin_bwz_loop(front3: Option<(i32, f64)>, summary: Summary, missing: f64, bin_size: f64) -> f64 {\n    let mut r__: f64 = unset_f64();\n    \1\n    r__\n} min=1 count=1
//@presub /\s+\.(?=[a-z_0-9])/ => . min=0
//@presub /\bfront\.3\b/ => front3 min=0
//@presub /\bv\[[^\]\n]+\] = / => r__ =  min=0
//@presub /(\w+)\.filter\(\|\((\w+), _\)\| ([^()]*?)\)/ => (match \1 { Some(t__) => { let \2 = &t__.0; if \3 { Some(t__) } else { None } } None => None }) min=0
//@rule R15
//@sub /\((\w+) as f64\)/ => as_f64(\1) min=0
//@ret r
//@sig
    ensures
        [[L: bwz_loop/min_max_report_the_stored_extremum_or_missing]]
        !(summary is Mean) ==> r == bw_finish(front3, summary, missing),
        [[L: bwz_loop/mean_of_a_bin_without_covered_bases_is_missing]]
        summary is Mean && (front3 is None || front3->Some_0.0 <= 0) ==> r == missing,
        [[L: bwz_loop/mean_is_the_sum_over_the_covered_base_count]]
        summary is Mean && front3 is Some && front3->Some_0.0 > 0 ==> r == front3->Some_0.1.div_spec(f64_of_int(front3->Some_0.0 as int)),
//@open
    proof { float_ax::float_det(); }
//@end

// ---- (a) to_array_zoom: finalisation of a popped bin, the closing drain loop ----
//@extract fn pybigtools/src/lib.rs to_array_zoom
//@rule R16
//@presub /\A.*while let Some\(front\) = bin_data\.pop_front\(\) \{\s*let bin = front\.0;\n(?:[ \t]*[^\n{}]+;\n)*?\s*(match summary \{.*?)\n\s*\}\n(?:[ \t]*[^\n{}]+;\n)*\s*Ok\(\(\)\)\s*\}\s*\Z/ => fn finish_bin_bwz_drain(front3: Option<(i32, f64)>, summary: Summary, missing: f64, bin_size: f64) -> f64 {\n    let mut r__: f64 = unset_f64();\n    \1\n    r__\n} min=1 count=1
//@presub /\s+\.(?=[a-z_0-9])/ => . min=0
//@presub /\bfront\.3\b/ => front3 min=0
//@presub /\bv\[[^\]\n]+\] = / => r__ =  min=0
//@presub /(\w+)\.filter\(\|\((\w+), _\)\| ([^()]*?)\)/ => (match \1 { Some(t__) => { let \2 = &t__.0; if \3 { Some(t__) } else { None } } None => None }) min=0
//@rule R15
//@sub /\((\w+) as f64\)/ => as_f64(\1) min=0
//@ret r
//@sig
    ensures
        [[L: bwz_drain/min_max_report_the_stored_extremum_or_missing]]
        !(summary is Mean) ==> r == bw_finish(front3, summary, missing),
        [[L: bwz_drain/mean_of_a_bin_without_covered_bases_is_missing]]
        summary is Mean && (front3 is None || front3->Some_0.0 <= 0) ==> r == missing,
        [[L: bwz_drain/mean_is_the_sum_over_the_covered_base_count]]
        summary is Mean && front3 is Some && front3->Some_0.0 > 0 ==> r == front3->Some_0.1.div_spec(f64_of_int(front3->Some_0.0 as int)),
//@open
    proof { float_ax::float_det(); }
//@end

// ---- (b) to_entry_array_bins: a new bin enters the deque ----
//@extract fn pybigtools/src/lib.rs to_entry_array_bins
//@rule R16
//@presub /\A.*?(bin_data\.push_back\(\(.*?\)\);).*\Z/ => fn new_bin_bbb_new(bin: usize, bin_start: i32, bin_end: i32, missing: f64, bin_data: &mut VecDeque<(usize, i32, i32, Vec<i32>, Vec<f64>)>) {\n    \1\n} min=1 count=1
//@rule R12c
//@sub /vec!\[([^;\]]+); ([^\]]+)\]/ => vec_of(\1, \2) min=0
//@sig
    requires
        [[L: bbb_new/pre_bin_is_an_interval]]
        // bin_start = (bin * bin_size) as i32, bin_end = ((bin + 1) * bin_size) as i32: truncation is monotone
        0 <= bin_start <= bin_end,
    ensures
        [[L: bbb_new/exactly_one_bin_is_appended_with_its_index_and_span]]
        final(bin_data)@.len() == old(bin_data)@.len() + 1,
        forall|i: int| 0 <= i < old(bin_data)@.len() ==> (#[trigger] final(bin_data)@[i]) == old(bin_data)@[i],
        final(bin_data)@.last().0 == bin && final(bin_data)@.last().1 == bin_start && final(bin_data)@.last().2 == bin_end,
        [[L: bbb_new/one_flag_and_one_cell_per_base_of_the_bin]]
        final(bin_data)@.last().3@.len() == bin_end - bin_start && final(bin_data)@.last().4@.len() == bin_end - bin_start,
        [[L: bbb_new/covered_flags_start_at_zero]]
        forall|k: int| 0 <= k < bin_end - bin_start ==> (#[trigger] final(bin_data)@.last().3@[k]) == 0,
        [[L: bbb_new/cells_start_unset_nan_not_missing]]
        forall|k: int| 0 <= k < bin_end - bin_start ==> (#[trigger] final(bin_data)@.last().4@[k]) == spec_f64_nan(),
//@end

// ---- (b) to_entry_array_zoom: a new bin enters the deque ----
//@extract fn pybigtools/src/lib.rs to_entry_array_zoom
//@rule R16
//@presub /\A.*?(bin_data\.push_back\(\(.*?\)\);).*\Z/ => fn new_bin_bbz_new(bin: usize, bin_start: i32, bin_end: i32, missing: f64, bin_data: &mut VecDeque<(usize, i32, i32, Vec<i32>, Vec<f64>)>) {\n    \1\n} min=1 count=1
//@rule R12c
//@sub /vec!\[([^;\]]+); ([^\]]+)\]/ => vec_of(\1, \2) min=0
//@sig
    requires
        [[L: bbz_new/pre_bin_is_an_interval]]
        // bin_start = (bin * bin_size) as i32, bin_end = ((bin + 1) * bin_size) as i32: truncation is monotone
        0 <= bin_start <= bin_end,
    ensures
        [[L: bbz_new/exactly_one_bin_is_appended_with_its_index_and_span]]
        final(bin_data)@.len() == old(bin_data)@.len() + 1,
        forall|i: int| 0 <= i < old(bin_data)@.len() ==> (#[trigger] final(bin_data)@[i]) == old(bin_data)@[i],
        final(bin_data)@.last().0 == bin && final(bin_data)@.last().1 == bin_start && final(bin_data)@.last().2 == bin_end,
        [[L: bbz_new/one_flag_and_one_cell_per_base_of_the_bin]]
        final(bin_data)@.last().3@.len() == bin_end - bin_start && final(bin_data)@.last().4@.len() == bin_end - bin_start,
        [[L: bbz_new/covered_flags_start_at_zero]]
        forall|k: int| 0 <= k < bin_end - bin_start ==> (#[trigger] final(bin_data)@.last().3@[k]) == 0,
        [[L: bbz_new/cells_start_unset_nan_not_missing]]
        forall|k: int| 0 <= k < bin_end - bin_start ==> (#[trigger] final(bin_data)@.last().4@[k]) == spec_f64_nan(),
//@end

// ---- (b) to_entry_array_bins: finalisation of a popped bin over its per-base cells, inside the interval loop ----
//@extract fn pybigtools/src/lib.rs to_entry_array_bins
//@rule R16
//@presub /\A.*?let front = bin_data\.pop_front\(\)\.unwrap\(\);\s*let bin = front\.0;\n(?:[ \t]*[^\n{}]+;\n)*?\s*(match summary \{.*?)\n\s*\} else \{\s*break;.*\Z/ => fn finish_entry_bin_bbb_loop(front3: Vec<i32>, front4: Vec<f64>, summary: Summary, missing: f64, bin_size: f64) -> f64 {\n    let mut r__: f64 = unset_f64();\n    \1\n    r__\n} min=1 count=1
//@presub /\s+\.(?=[a-z_0-9])/ => . min=0
//@presub /\bv\[[^\]\n]+\] = / => r__ =  min=0
//@presub /front\.4\.into_iter\(\)\.reduce\(\|(\w+), (\w+)\| \1\.(min|max)\(\2\)\)/ => reduce_\3(&front4) min=0
//@presub /(reduce_\w+\(&front4\))\.filter\(\|(\w+)\| ([^;]*?)\)\.unwrap_or\(/ => (match \1 { Some(t__) => { let \2 = &t__; if \3 { Some(t__) } else { None } } None => None }).unwrap_or( min=0
//@presub /front\.3\.iter\(\)\.any\(\|(\w+)\| \*\1 > (\d+)\)/ => any_gt(&front3, \2) min=0
//@presub /front\.3\.iter\(\)\.any\(\|(\w+)\| \*\1 >= (\d+)\)/ => any_ge(&front3, \2) min=0
//@presub /front\.3\.into_iter\(\)\.sum::<i32>\(\)/ => sum_i32(&front3) min=0
//@presub /front\.3\.len\(\)/ => front3.len() min=0
//@presub /front\.4\.len\(\)/ => front4.len() min=0
//@presub /front\.4\.into_iter\(\)\.map\(\|(\w+)\| \1\.max\(([\d\.]+)\)\)\.sum::<f64>\(\)/ => sum_clamped(&front4, \2) min=0
//@presub /(any_g[te]\(&front3, \d+\))\.then\(\|\| (.*?)\)\.map\(/ => (if \1 { Some(\2) } else { None }).map( min=0
//@rule R15
//@sub /(\w+\([^()]*\)|\w+\.\w+\(\)) as f64/ => as_f64(\1) min=0
//@ret r
//@sig
    requires
        [[L: bbb_loop/pre_flags_are_0_or_1]]
        // what new_bin_* and bump_cells_* (below) establish; rules out the i32 overflow of `.sum::<i32>()`
        flags01(front3@),
    ensures
        [[L: bbb_loop/min_is_the_fold_over_the_cells_a_nan_result_is_missing]]
        summary is Min ==> r == bb_finish(front3@, front4@, summary, missing),
        [[L: bbb_loop/max_is_the_fold_over_the_cells_a_nan_result_is_missing]]
        summary is Max ==> r == bb_finish(front3@, front4@, summary, missing),
        [[L: bbb_loop/mean_without_a_covered_base_is_missing]]
        summary is Mean && !some_gt(front3@, 0) ==> r == missing,
        [[L: bbb_loop/mean_is_the_clamped_cell_sum_over_the_covered_base_count]]
        summary is Mean && some_gt(front3@, 0) ==> r == sum_clamped_spec(front4@, 0.0f64).div_spec(f64_of_int(isum(front3@))),
//@open
    proof { float_ax::float_det(); }
//@end

// ---- (b) to_entry_array_bins: finalisation of a popped bin over its per-base cells, the closing drain loop ----
//@extract fn pybigtools/src/lib.rs to_entry_array_bins
//@rule R16
//@presub /\A.*while let Some\(front\) = bin_data\.pop_front\(\) \{\s*let bin = front\.0;\n(?:[ \t]*[^\n{}]+;\n)*?\s*(match summary \{.*?)\n\s*\}\n(?:[ \t]*[^\n{}]+;\n)*\s*Ok\(\(\)\)\s*\}\s*\Z/ => fn finish_entry_bin_bbb_drain(front3: Vec<i32>, front4: Vec<f64>, summary: Summary, missing: f64, bin_size: f64) -> f64 {\n    let mut r__: f64 = unset_f64();\n    \1\n    r__\n} min=1 count=1
//@presub /\s+\.(?=[a-z_0-9])/ => . min=0
//@presub /\bv\[[^\]\n]+\] = / => r__ =  min=0
//@presub /front\.4\.into_iter\(\)\.reduce\(\|(\w+), (\w+)\| \1\.(min|max)\(\2\)\)/ => reduce_\3(&front4) min=0
//@presub /(reduce_\w+\(&front4\))\.filter\(\|(\w+)\| ([^;]*?)\)\.unwrap_or\(/ => (match \1 { Some(t__) => { let \2 = &t__; if \3 { Some(t__) } else { None } } None => None }).unwrap_or( min=0
//@presub /front\.3\.iter\(\)\.any\(\|(\w+)\| \*\1 > (\d+)\)/ => any_gt(&front3, \2) min=0
//@presub /front\.3\.iter\(\)\.any\(\|(\w+)\| \*\1 >= (\d+)\)/ => any_ge(&front3, \2) min=0
//@presub /front\.3\.into_iter\(\)\.sum::<i32>\(\)/ => sum_i32(&front3) min=0
//@presub /front\.3\.len\(\)/ => front3.len() min=0
//@presub /front\.4\.len\(\)/ => front4.len() min=0
//@presub /front\.4\.into_iter\(\)\.map\(\|(\w+)\| \1\.max\(([\d\.]+)\)\)\.sum::<f64>\(\)/ => sum_clamped(&front4, \2) min=0
//@presub /(any_g[te]\(&front3, \d+\))\.then\(\|\| (.*?)\)\.map\(/ => (if \1 { Some(\2) } else { None }).map( min=0
//@rule R15
//@sub /(\w+\([^()]*\)|\w+\.\w+\(\)) as f64/ => as_f64(\1) min=0
//@ret r
//@sig
    requires
        [[L: bbb_drain/pre_flags_are_0_or_1]]
        // what new_bin_* and bump_cells_* (below) establish; rules out the i32 overflow of `.sum::<i32>()`
        flags01(front3@),
    ensures
        [[L: bbb_drain/min_is_the_fold_over_the_cells_a_nan_result_is_missing]]
        summary is Min ==> r == bb_finish(front3@, front4@, summary, missing),
        [[L: bbb_drain/max_is_the_fold_over_the_cells_a_nan_result_is_missing]]
        summary is Max ==> r == bb_finish(front3@, front4@, summary, missing),
        [[L: bbb_drain/mean_without_a_covered_base_is_missing]]
        summary is Mean && !some_gt(front3@, 0) ==> r == missing,
        [[L: bbb_drain/mean_is_the_clamped_cell_sum_over_the_covered_base_count]]
        summary is Mean && some_gt(front3@, 0) ==> r == sum_clamped_spec(front4@, 0.0f64).div_spec(f64_of_int(isum(front3@))),
//@open
    proof { float_ax::float_det(); }
//@end

// ---- (b) to_entry_array_zoom: finalisation of a popped bin over its per-base cells, inside the interval loop ----
//@extract fn pybigtools/src/lib.rs to_entry_array_zoom
//@rule R16
//@presub /\A.*?let front = bin_data\.pop_front\(\)\.unwrap\(\);\s*let bin = front\.0;\n(?:[ \t]*[^\n{}]+;\n)*?\s*(match summary \{.*?)\n\s*\} else \{\s*break;.*\Z/ => fn finish_entry_bin_bbz_loop(front3: Vec<i32>, front4: Vec<f64>, summary: Summary, missing: f64, bin_size: f64) -> f64 {\n    let mut r__: f64 = unset_f64();\n    \1\n    r__\n} min=1 count=1
//@presub /\s+\.(?=[a-z_0-9])/ => . min=0
//@presub /\bv\[[^\]\n]+\] = / => r__ =  min=0
//@presub /front\.4\.into_iter\(\)\.reduce\(\|(\w+), (\w+)\| \1\.(min|max)\(\2\)\)/ => reduce_\3(&front4) min=0
//@presub /(reduce_\w+\(&front4\))\.filter\(\|(\w+)\| ([^;]*?)\)\.unwrap_or\(/ => (match \1 { Some(t__) => { let \2 = &t__; if \3 { Some(t__) } else { None } } None => None }).unwrap_or( min=0
//@presub /front\.3\.iter\(\)\.any\(\|(\w+)\| \*\1 > (\d+)\)/ => any_gt(&front3, \2) min=0
//@presub /front\.3\.iter\(\)\.any\(\|(\w+)\| \*\1 >= (\d+)\)/ => any_ge(&front3, \2) min=0
//@presub /front\.3\.into_iter\(\)\.sum::<i32>\(\)/ => sum_i32(&front3) min=0
//@presub /front\.3\.len\(\)/ => front3.len() min=0
//@presub /front\.4\.len\(\)/ => front4.len() min=0
//@presub /front\.4\.into_iter\(\)\.map\(\|(\w+)\| \1\.max\(([\d\.]+)\)\)\.sum::<f64>\(\)/ => sum_clamped(&front4, \2) min=0
//@presub /(any_g[te]\(&front3, \d+\))\.then\(\|\| (.*?)\)\.map\(/ => (if \1 { Some(\2) } else { None }).map( min=0
//@rule R15
//@sub /(\w+\([^()]*\)|\w+\.\w+\(\)) as f64/ => as_f64(\1) min=0
//@ret r
//@sig
    requires
        [[L: bbz_loop/pre_flags_are_0_or_1]]
        // what new_bin_* and bump_cells_* (below) establish; rules out the i32 overflow of `.sum::<i32>()`
        flags01(front3@),
    ensures
        [[L: bbz_loop/min_is_the_fold_over_the_cells_a_nan_result_is_missing]]
        summary is Min ==> r == bb_finish(front3@, front4@, summary, missing),
        [[L: bbz_loop/max_is_the_fold_over_the_cells_a_nan_result_is_missing]]
        summary is Max ==> r == bb_finish(front3@, front4@, summary, missing),
        [[L: bbz_loop/mean_without_a_covered_base_is_missing]]
        summary is Mean && !some_gt(front3@, 0) ==> r == missing,
        [[L: bbz_loop/mean_is_the_clamped_cell_sum_over_the_covered_base_count]]
        summary is Mean && some_gt(front3@, 0) ==> r == sum_clamped_spec(front4@, 0.0f64).div_spec(f64_of_int(isum(front3@))),
//@open
    proof { float_ax::float_det(); }
//@end

// ---- (b) to_entry_array_zoom: finalisation of a popped bin over its per-base cells, the closing drain loop ----
//@extract fn pybigtools/src/lib.rs to_entry_array_zoom
//@rule R16
//@presub /\A.*while let Some\(front\) = bin_data\.pop_front\(\) \{\s*let bin = front\.0;\n(?:[ \t]*[^\n{}]+;\n)*?\s*(match summary \{.*?)\n\s*\}\n(?:[ \t]*[^\n{}]+;\n)*\s*Ok\(\(\)\)\s*\}\s*\Z/ => fn finish_entry_bin_bbz_drain(front3: Vec<i32>, front4: Vec<f64>, summary: Summary, missing: f64, bin_size: f64) -> f64 {\n    let mut r__: f64 = unset_f64();\n    \1\n    r__\n} min=1 count=1
//@presub /\s+\.(?=[a-z_0-9])/ => . min=0
//@presub /\bv\[[^\]\n]+\] = / => r__ =  min=0
//@presub /front\.4\.into_iter\(\)\.reduce\(\|(\w+), (\w+)\| \1\.(min|max)\(\2\)\)/ => reduce_\3(&front4) min=0
//@presub /(reduce_\w+\(&front4\))\.filter\(\|(\w+)\| ([^;]*?)\)\.unwrap_or\(/ => (match \1 { Some(t__) => { let \2 = &t__; if \3 { Some(t__) } else { None } } None => None }).unwrap_or( min=0
//@presub /front\.3\.iter\(\)\.any\(\|(\w+)\| \*\1 > (\d+)\)/ => any_gt(&front3, \2) min=0
//@presub /front\.3\.iter\(\)\.any\(\|(\w+)\| \*\1 >= (\d+)\)/ => any_ge(&front3, \2) min=0
//@presub /front\.3\.into_iter\(\)\.sum::<i32>\(\)/ => sum_i32(&front3) min=0
//@presub /front\.3\.len\(\)/ => front3.len() min=0
//@presub /front\.4\.len\(\)/ => front4.len() min=0
//@presub /front\.4\.into_iter\(\)\.map\(\|(\w+)\| \1\.max\(([\d\.]+)\)\)\.sum::<f64>\(\)/ => sum_clamped(&front4, \2) min=0
//@presub /(any_g[te]\(&front3, \d+\))\.then\(\|\| (.*?)\)\.map\(/ => (if \1 { Some(\2) } else { None }).map( min=0
//@rule R15
//@sub /(\w+\([^()]*\)|\w+\.\w+\(\)) as f64/ => as_f64(\1) min=0
//@ret r
//@sig
    requires
        [[L: bbz_drain/pre_flags_are_0_or_1]]
        // what new_bin_* and bump_cells_* (below) establish; rules out the i32 overflow of `.sum::<i32>()`
        flags01(front3@),
    ensures
        [[L: bbz_drain/min_is_the_fold_over_the_cells_a_nan_result_is_missing]]
        summary is Min ==> r == bb_finish(front3@, front4@, summary, missing),
        [[L: bbz_drain/max_is_the_fold_over_the_cells_a_nan_result_is_missing]]
        summary is Max ==> r == bb_finish(front3@, front4@, summary, missing),
        [[L: bbz_drain/mean_without_a_covered_base_is_missing]]
        summary is Mean && !some_gt(front3@, 0) ==> r == missing,
        [[L: bbz_drain/mean_is_the_clamped_cell_sum_over_the_covered_base_count]]
        summary is Mean && some_gt(front3@, 0) ==> r == sum_clamped_spec(front4@, 0.0f64).div_spec(f64_of_int(isum(front3@))),
//@open
    proof { float_ax::float_det(); }
//@end

// ---- (c) to_entry_array_bins: one entry meets one bin: the two per-cell update loops ----
//@extract fn pybigtools/src/lib.rs to_entry_array_bins
//@rule R16
//@presub /\A.*?\n(\s*let overlap_start = .*?for i in &mut covered\[range\] \{.*?\n\s*\})\n\s*\}\n\s*\}\n(?:[ \t]*[^\n{}]+;\n)*\s*while let Some\(front\) = bin_data\.pop_front\(\) \{.*\Z/ => fn bump_cells_bbb(bin_start: &i32, bin_end: &i32, interval_start: i32, interval_end: i32, covered: &mut Vec<i32>, data: &mut Vec<f64>) {\n\1\n} min=1 count=1
//@rule R5
//@sub /for i in &mut (\w+)\[range(?:\.clone\(\))?\] \{/ => slice_bounds(\1, &range);\n            for k__ in range.start..range.end {\n                let i = cell_mut(\1, k__); min=0
//@sig
    requires
        [[L: bump/pre_bin_vectors_have_the_bins_length]]
        0 <= *bin_start <= *bin_end,
        old(covered)@.len() == *bin_end - *bin_start, old(data)@.len() == *bin_end - *bin_start,
        [[L: bump/pre_entry_meets_the_bin]]
        // `if interval_end <= *bin_start { break; }` right above the carved text
        *bin_start < interval_end, 0 <= interval_start <= interval_end,
        [[L: bump/pre_the_bin_of_a_base_does_not_end_before_it]]
        // bins in the deque have index >= (interval_start / bin_size) as usize, and ((b + 1) * bin_size) as i32 >= x for
        // b = (x / bin_size) as usize (monotone rounding): float fact, checked boundedly by Kani (py_bins lemma_bin_of_a_base_*)
        interval_start <= *bin_end,
        [[L: bump/pre_flags_are_0_or_1]]
        forall|k: int| 0 <= k < old(covered)@.len() ==> 0 <= (#[trigger] old(covered)@[k]) <= 1,
    ensures
        [[L: bump/vectors_keep_their_length]]
        final(covered)@.len() == old(covered)@.len() && final(data)@.len() == old(data)@.len(),
        [[L: bump/every_cell_of_the_overlap_gets_exactly_one_increment]]
        forall|k: int| imax(*bin_start as int, interval_start as int) - *bin_start <= k < imin(*bin_end as int, interval_end as int) - *bin_start
            ==> #[trigger] final(data)@[k] == fmax(old(data)@[k], 0.0f64).add_spec(1.0f64),
        [[L: bump/every_base_of_the_overlap_is_flagged_covered_once]]
        forall|k: int| imax(*bin_start as int, interval_start as int) - *bin_start <= k < imin(*bin_end as int, interval_end as int) - *bin_start
            ==> #[trigger] final(covered)@[k] == imax(old(covered)@[k] as int, 1),
        [[L: bump/cells_outside_the_overlap_are_untouched]]
        forall|k: int| 0 <= k < old(data)@.len() && !(imax(*bin_start as int, interval_start as int) - *bin_start <= k < imin(*bin_end as int, interval_end as int) - *bin_start)
            ==> #[trigger] final(data)@[k] == old(data)@[k] && #[trigger] final(covered)@[k] == old(covered)@[k],
        [[L: bump/flags_stay_0_or_1]]
        forall|k: int| 0 <= k < final(covered)@.len() ==> 0 <= (#[trigger] final(covered)@[k]) <= 1,
//@open
    proof { float_ax::float_det(); }
//@at /^\s*slice_bounds\(data, &range\);/ before
            proof {
                assert(range.start == imax(*bin_start as int, interval_start as int) - *bin_start
                    && range.end == imin(*bin_end as int, interval_end as int) - *bin_start); [[L: bump/range_is_the_overlap_relative_to_the_bin]]
                assert(range.start <= range.end && range.end <= data@.len()); [[L: bump/range_stays_inside_the_bins_vectors]]
            }
//@loop 1
                invariant
                    [[L: bump/loop1/frame]]
                    data@.len() == old(data)@.len(), covered@ == old(covered)@, range.start <= range.end <= data@.len(),
                    [[L: bump/loop1/cells_bumped_up_to_k]]
                    forall|q: int| range.start <= q < k__ ==> #[trigger] data@[q] == fmax(old(data)@[q], 0.0f64).add_spec(1.0f64),
                    forall|q: int| 0 <= q < data@.len() && !(range.start <= q < k__) ==> #[trigger] data@[q] == old(data)@[q],
//@loop 2
                invariant
                    [[L: bump/loop2/frame]]
                    covered@.len() == old(covered)@.len(), range.start <= range.end <= covered@.len(),
                    forall|q: int| 0 <= q < old(covered)@.len() ==> 0 <= (#[trigger] old(covered)@[q]) <= 1,
                    [[L: bump/loop2/flags_set_up_to_k]]
                    forall|q: int| range.start <= q < k__ ==> #[trigger] covered@[q] == imax(old(covered)@[q] as int, 1),
                    forall|q: int| 0 <= q < covered@.len() && !(range.start <= q < k__) ==> #[trigger] covered@[q] == old(covered)@[q],
//@at /let i = cell_mut\(data, k__\);/ after
                proof { float_ax::float_det(); }
//@end

// ---- (d) to_array_bins: one value meets one bin: the accumulation step (`get_or_insert_with` + `match summary`) ----
// `let (c, v) = data.get_or_insert_with(|| INIT);` -> the accumulator is copied out (`INIT` when absent), `c` / `v` borrow the
// copy's two fields, and the copy is written back after the carved text (same effect as updating through the reference).
//@extract fn pybigtools/src/lib.rs to_array_bins
//@rule R16
//@presub /\A.*?\n(\s*let \(c, v\) = data\.get_or_insert_with\(.*?)\n\s*\}\n\s*\}\n(?:[ \t]*[^\n{}]+;\n)*\s*while let Some\(front\) = bin_data\.pop_front\(\) \{.*\Z/ => fn accumulate_bwb(data: &mut Option<(i32, f64)>, summary: Summary, bin_start: &i32, bin_end: &i32, interval_start: i32, interval_end: i32, interval: &Value) {\n\1\n            *data = Some(t__);\n} min=1 count=1
//@presub /let \(c, v\) = data\.get_or_insert_with\(\|\| \{(.*?)\n\s*\}\);/ => let mut t__: (i32, f64) = match *data { Some(t) => t, None => {\1\n            } };\n            let c = &mut t__.0;\n            let v = &mut t__.1; min=1 count=1
//@rule R5
//@rule R12c
//@sub /\((\w+) as f64\)/ => as_f64(\1) min=0
//@sub /\b(\w+\.value) as f64\b/ => f64_of_f32(\1) min=0
//@sig
    requires
        [[L: acc/pre_bin_and_value_are_intervals]]
        0 <= *bin_start <= *bin_end, 0 <= interval_start <= interval_end,
        [[L: acc/pre_covered_count_cannot_overflow]]
        // the count of a bin never exceeds its width (values are disjoint); stated, not proved here
        *old(data) matches Some(t) ==> 0 <= t.0 && t.0 + (*bin_end - *bin_start) <= i32::MAX && t.0 - (interval_end - interval_start) >= i32::MIN,
    ensures
        [[L: acc/min_folds_the_value_with_f64_min_from_nan]]
        summary is Min ==> *final(data) == Some((acc0(*old(data), summary).0, fmin(acc0(*old(data), summary).1, f64_of(interval.value)))),
        [[L: acc/max_folds_the_value_with_f64_max_from_nan]]
        summary is Max ==> *final(data) == Some((acc0(*old(data), summary).0, fmax(acc0(*old(data), summary).1, f64_of(interval.value)))),
        [[L: acc/mean_adds_overlap_times_value_and_counts_the_overlap]]
        summary is Mean ==> *final(data) == Some((
            (acc0(*old(data), summary).0 + (imin(*bin_end as int, interval_end as int) - imax(*bin_start as int, interval_start as int))) as i32,
            acc0(*old(data), summary).1.add_spec(f64_of_int(imin(*bin_end as int, interval_end as int) - imax(*bin_start as int, interval_start as int)).mul_spec(f64_of(interval.value))))),
//@open
    proof { float_ax::float_det(); }
//@end

// =====================================================================================
// (e) the FRAME of the four binned fillers (the complement of the carve-outs above): shims and vocabulary
// =====================================================================================
//@extract struct bigtools/src/bbi.rs BedEntry
//@rule R8
//@sub /#\[derive\([^)]*\)\]\n/ => "" min=0
//@end
// bigtools' per-record statistics struct `Summary` (a field of ZoomRecord) is renamed: pybigtools has its own `enum Summary`
//@extract struct bigtools/src/bbi.rs Summary
//@rule R8
//@sub /\bstruct Summary\b/ => struct ZoomSummary min=1
//@end
//@extract struct bigtools/src/bbi.rs ZoomRecord
//@rule R8
//@sub /\bsummary: Summary\b/ => summary: ZoomSummary min=1
//@end
/// `bigtools::BBIReadError` (imported as `_BBIReadError`): opaque.
#[verifier::external_body]
#[derive(Debug)]
pub struct ReadErr { _p: u8 }
/// R11 shim for the generic stream `I: Iterator<Item = Result<T, _BBIReadError>>` (the reader's interval iterator; same shim
/// as unit py_perbase): ghost `rest()` = the items it will still yield; `next` yields the head.
#[verifier::external_body]
#[verifier::reject_recursive_types(T)]
pub struct VIter<T> { _p: core::marker::PhantomData<T> }
impl<T> VIter<T> {
    pub uninterp spec fn rest(&self) -> Seq<Result<T, ReadErr>>;
    #[verifier::external_body]
    pub fn next(&mut self) -> (r: Option<Result<T, ReadErr>>)
        ensures
            old(self).rest().len() == 0 ==> r is None && final(self).rest() == old(self).rest(),
            old(self).rest().len() > 0 ==> r == Some(old(self).rest()[0]) && final(self).rest() == old(self).rest().drop_first(),
    { unimplemented!() }
}
/// R11 shim for `numpy::ndarray::ArrayViewMut<'_, f64, numpy::Ix1>` (the output array, one cell per bin) with a GHOST
/// record `fin()` of the bin finalisations: bin index -> the value of the LAST `v[bin] = x` statement since the call began.
/// The CONTENTS of the array on entry are unconstrained (a caller may pass its own `arr=`).
///   len()          number of cells
///   fill(x)        every cell := x                      (not a finalisation: `fin()` unchanged)
///   set_bin(b, x)  `v[b] = x;` (`IndexMut`: PANICS when b >= len, so it returns only for b < len): cell b := x, recorded in `fin()`
#[verifier::external_body]
pub struct VBins { _p: u8 }
impl VBins {
    pub uninterp spec fn view(&self) -> Seq<f64>;
    pub uninterp spec fn fin(&self) -> Map<int, f64>;
    pub open spec fn spec_len(&self) -> usize { self@.len() as usize }
    #[verifier::external_body]
    #[verifier::when_used_as_spec(spec_len)]
    pub fn len(&self) -> (r: usize) ensures r == self@.len(), r == self.spec_len() { unimplemented!() }
    #[verifier::external_body]
    pub fn fill(&mut self, x: f64)
        ensures
            final(self)@.len() == old(self)@.len(),
            forall|i: int| 0 <= i < final(self)@.len() ==> (#[trigger] final(self)@[i]) == x,
            final(self).fin() == old(self).fin(),
    { unimplemented!() }
    #[verifier::external_body]
    pub fn set_bin(&mut self, b: usize, x: f64)
        ensures
            b < old(self)@.len(),
            final(self)@ == old(self)@.update(b as int, x),
            final(self).fin() == old(self).fin().insert(b as int, x),
    { unimplemented!() }
}
/// `VecDeque::front_mut` (std): None when empty, else a mutable reference to element 0
#[verifier::external_body]
pub fn deque_front_mut<T>(d: &mut VecDeque<T>) -> (r: Option<&mut T>)
    ensures
        old(d)@.len() == 0 ==> r is None && final(d)@ == old(d)@,
        old(d)@.len() > 0 ==> r is Some && *r->Some_0 == old(d)@[0] && final(d)@ == old(d)@.update(0, *final(r->Some_0)),
{ d.front_mut() }
/// integer calls a rewritten prologue might use, with their REAL contracts (judged, not rejected)
pub axiom fn ax_lossless_int_from()
    ensures
        <i64 as FromSpec<u32>>::obeys_from_spec(), forall|x: u32| #[trigger] <i64 as FromSpec<u32>>::from_spec(x) == x as i64,
        <i64 as FromSpec<i32>>::obeys_from_spec(), forall|x: i32| #[trigger] <i64 as FromSpec<i32>>::from_spec(x) == x as i64,
        <u64 as FromSpec<u32>>::obeys_from_spec(), forall|x: u32| #[trigger] <u64 as FromSpec<u32>>::from_spec(x) == x as u64;
pub assume_specification [i32::saturating_sub] (a: i32, b: i32) -> (r: i32)
    ensures r == (if a - b > i32::MAX { i32::MAX as int } else if a - b < i32::MIN { i32::MIN as int } else { a - b });
pub assume_specification [i32::saturating_add] (a: i32, b: i32) -> (r: i32)
    ensures r == (if a + b > i32::MAX { i32::MAX as int } else if a + b < i32::MIN { i32::MIN as int } else { a + b });
pub assume_specification [u32::abs_diff] (a: u32, b: u32) -> (r: u32)
    ensures r == (if a >= b { a - b } else { b - a });
/// `std::cmp::max(a, b)` / `min` on i32
pub fn ord_max_i32(a: i32, b: i32) -> (r: i32) ensures r == (if a >= b { a } else { b }) { if a >= b { a } else { b } }
pub fn ord_min_i32(a: i32, b: i32) -> (r: i32) ensures r == (if a <= b { a } else { b }) { if a <= b { a } else { b } }
/// `x as usize` for a float (saturating truncation): uninterpreted, NO contract
#[verifier::external_body]
pub fn f64_to_usize(x: f64) -> (r: usize) { x as usize }
/// the number a finalisation `match summary { .. }` reports for a popped bin: its VALUE is under the contracts of the
/// carve-outs (a)/(b) above; the frame only tracks WHERE it is stored
#[verifier::external_body]
pub fn finished_value() -> (r: f64) { unimplemented!() }
/// the rest of one iteration of the interval loop (new bins pushed, `assert!` loop, accumulation into the deque's bins):
/// NOT under contract here (float bin arithmetic, `iter_mut` over the deque).  It is handed the deque and the iteration's
/// locals but NOT the output array: the carve refuses (anchor lost) when that text mentions `v[..]`, `v.fill`, ..
#[verifier::external_body]
fn rest_of_iteration<T, B>(interval: &T, interval_start: i32, interval_end: i32, bin_start: usize, bin_end: usize, summary: Summary, bin_size: f64, bin_data: &mut VecDeque<B>) { unimplemented!() }

/// an item of the stream as far as the frame looks at it: its half-open span [start, end)
pub trait Spanned { spec fn lo(&self) -> int; spec fn hi(&self) -> int; }
impl Spanned for Value { open spec fn lo(&self) -> int { self.start as int } open spec fn hi(&self) -> int { self.end as int } }
impl Spanned for BedEntry { open spec fn lo(&self) -> int { self.start as int } open spec fn hi(&self) -> int { self.end as int } }
impl Spanned for ZoomRecord { open spec fn lo(&self) -> int { self.start as int } open spec fn hi(&self) -> int { self.end as int } }
/// What the range query `get_interval` / `get_zoom_interval(chrom, max(start,0), min(end,length))` hands to a filler called with
/// (start, end): items that TOUCH the query, for bigBed entries and zoom records NOT clipped to it (units bb_dec, bw_dec, iters;
/// py_perbase `bb_answer`).  Since max(start,0) >= start and min(end,length) <= end: `lo <= end && start <= hi`.
/// Coordinates fit i32 (chromosome length <= i32::MAX, py_perbase robustness remark R2).
pub open spec fn touches<T: Spanned>(s: Seq<Result<T, ReadErr>>, start: int, end: int) -> bool {
    forall|i: int| 0 <= i < s.len() && (#[trigger] s[i]) is Ok ==>
        0 <= s[i]->Ok_0.lo() <= s[i]->Ok_0.hi() && s[i]->Ok_0.hi() <= i32::MAX && start <= s[i]->Ok_0.hi() && s[i]->Ok_0.lo() <= end
}
/// a coordinate clamped to the requested range [lo, hi]
pub open spec fn clamp(x: int, lo: int, hi: int) -> int { if x < lo { lo } else if x > hi { hi } else { x } }
/// every cell either holds what its last finalisation stored or what it held in `base` (the array right before the interval loop)
pub open spec fn only_finalised_bins_differ(v: VBins, base: Seq<f64>) -> bool {
    &&& v@.len() == base.len()
    &&& forall|b: int| 0 <= b < base.len() ==> #[trigger] v@[b] == (if v.fin().contains_key(b) { v.fin()[b] } else { base[b] })
}

// ---- (e) to_array_bins: the frame: initialisation, integer prologue of every iteration, where finalisations are stored ----
#[verifier::loop_isolation(false)]
//@extract fn pybigtools/src/lib.rs to_array_bins
//@rule R16
//@rule R6
//@rule R12c
//@presub /\n([ \t]*)while let Some\(bin\) = bin_data\s*\.back\(\)(?:(?!\bv\[|\bv\.(?:fill|iter_mut|index_mut|assign|map_inplace|mapv_inplace|slice_mut|as_slice_mut|iter)\b).)*?\n    \}\n(?=(?:[ \t]*[^\n{}]+;\n)*    while let Some\(front\) = bin_data\.pop_front\(\))/ => \n\1rest_of_iteration(&interval, interval_start, interval_end, bin_start, bin_end, summary, bin_size, &mut bin_data);\n    }\n min=1 count=1
//@presub /\bv\[([^\]\n]+)\] = (?:[^;\/]|\/(?!\/)|\/\/[^\n]*)*;/ => v.set_bin(\1, finished_value()); min=0
//@presub /for (\w+) in v\.iter_mut\(\) \{\s*\*\1 = ([\w\.]+);\s*\}/ => v.fill(\2); min=0
//@sub /<I: Iterator<Item = Result<\w+, _BBIReadError>>>/ => "" min=1
//@sub /\biter: I\b/ => iter: &mut VIter<Value> min=1
//@sub /mut v: ArrayViewMut<'_, f64, numpy::Ix1>/ => v: &mut VBins min=1
//@sub /\b_BBIReadError\b/ => ReadErr min=0
//@sub /for interval in iter \{/ => loop {\n        let interval = match iter.next() { None => { break; } Some(r__) => r__ }; min=1
//@sub /(\w+)\.front_mut\(\)/ => deque_front_mut(&mut \1) min=0
//@sub /\b(?:std::)?cmp::(min|max)\(/ => ord_\1_i32( min=0
//@sub /(\((?:[^()]|\([^()]*\))*\)|\b\w+) as f64\b/ => as_f64(\1) min=0
//@sub /\(([^;\n]*\/[^;\n]*)\) as usize;/ => f64_to_usize(\1); min=0
//@ret r
//@sig
    requires
        [[L: bwb_frame/pre_one_cell_per_bin]]
        // the caller allocates `bins` cells or checks the size of a passed `arr` (intervals_to_array / entries_to_array)
        old(v)@.len() == bins,
        [[L: bwb_frame/pre_request_width_fits_i32]]
        start <= end, end - start <= i32::MAX,
        [[L: bwb_frame/pre_query_contract_items_touch_the_request_unclipped]]
        touches(old(iter).rest(), start as int, end as int),
        [[L: bwb_frame/pre_no_finalisation_recorded_before_the_call]]
        // definition of the ghost record; the CONTENTS of `v` on entry are arbitrary
        old(v).fin() =~= Map::empty(),
    ensures
        [[L: bwb_frame/one_number_per_bin]]
        final(v)@.len() == bins,
        [[L: bwb_frame/a_bin_no_finalisation_wrote_holds_missing_whatever_the_array_held_on_entry]]
        r is Ok ==> forall|b: int| 0 <= b < bins && !final(v).fin().contains_key(b) ==> #[trigger] final(v)@[b] == missing,
        [[L: bwb_frame/a_finalised_bin_keeps_the_value_its_last_finalisation_reported]]
        r is Ok ==> forall|b: int| 0 <= b < bins && final(v).fin().contains_key(b) ==> #[trigger] final(v)@[b] == final(v).fin()[b],
//@open
    proof { float_ax::float_det(); ax_lossless_int_from(); }
//@at /^\s*loop \{/ before
    let ghost base = v@;
//@loop 1
        invariant
            [[L: bwb_frame/loop/array_differs_from_its_state_before_the_loop_only_in_finalised_bins]]
            only_finalised_bins_differ(*v, base),
            [[L: bwb_frame/loop/frame]]
            touches(iter.rest(), start as int, end as int),
        decreases
            [[L: bwb_frame/loop/termination]]
            iter.rest().len(),
//@at /let interval = match iter\.next\(\)/ before
        let ghost rest0 = iter.rest();
//@at /let interval = match iter\.next\(\)/ after
        proof {
            assert(interval == rest0[0]);
            assert forall|i: int| 0 <= i < iter.rest().len() implies (#[trigger] iter.rest()[i]) == rest0[i + 1] by {}
        }
//@at /^\s*let bin_start = / before
        proof {
            // the part of the item inside the request [start, end), relative to `start`: mathematical integers, no wrap for start < 0
            assert(interval_start == clamp(interval.lo(), start as int, end as int) - start); [[L: bwb_frame/window_start_offset_is_the_item_start_clamped_to_the_request_minus_the_request_start]]
            assert(interval_end == clamp(interval.hi(), start as int, end as int) - start); [[L: bwb_frame/window_end_offset_is_the_item_end_clamped_to_the_request_minus_the_request_start]]
            assert(0 <= interval_start <= end - start && 0 <= interval_end <= end - start); [[L: bwb_frame/window_offsets_stay_inside_the_window]]
        }
//@loop 2
            invariant
                [[L: bwb_frame/pop/array_differs_from_its_state_before_the_loop_only_in_finalised_bins]]
                only_finalised_bins_differ(*v, base),
            decreases
                [[L: bwb_frame/pop/termination]]
                bin_data@.len(),
//@at /^ {12}\} else \{\s*$/ before
                proof { assert(v.fin().contains_key(front.0 as int) && v@[front.0 as int] == v.fin()[front.0 as int]); } [[L: bwb_frame/pop/the_finalisation_is_stored_in_the_cell_of_the_popped_bin]]
//@loop 3
        invariant
            [[L: bwb_frame/drain/array_differs_from_its_state_before_the_loop_only_in_finalised_bins]]
            only_finalised_bins_differ(*v, base),
        decreases
            [[L: bwb_frame/drain/termination]]
            bin_data@.len(),
//@loopend 3
        proof { assert(v.fin().contains_key(front.0 as int) && v@[front.0 as int] == v.fin()[front.0 as int]); } [[L: bwb_frame/drain/the_finalisation_is_stored_in_the_cell_of_the_popped_bin]]
//@end

// ---- (e) to_array_zoom: the frame: initialisation, integer prologue of every iteration, where finalisations are stored ----
#[verifier::loop_isolation(false)]
//@extract fn pybigtools/src/lib.rs to_array_zoom
//@rule R16
//@rule R6
//@rule R12c
//@presub /\n([ \t]*)while let Some\(bin\) = bin_data\s*\.back\(\)(?:(?!\bv\[|\bv\.(?:fill|iter_mut|index_mut|assign|map_inplace|mapv_inplace|slice_mut|as_slice_mut|iter)\b).)*?\n    \}\n(?=(?:[ \t]*[^\n{}]+;\n)*    while let Some\(front\) = bin_data\.pop_front\(\))/ => \n\1rest_of_iteration(&interval, interval_start, interval_end, bin_start, bin_end, summary, bin_size, &mut bin_data);\n    }\n min=1 count=1
//@presub /\bv\[([^\]\n]+)\] = (?:[^;\/]|\/(?!\/)|\/\/[^\n]*)*;/ => v.set_bin(\1, finished_value()); min=0
//@presub /for (\w+) in v\.iter_mut\(\) \{\s*\*\1 = ([\w\.]+);\s*\}/ => v.fill(\2); min=0
//@sub /<I: Iterator<Item = Result<\w+, _BBIReadError>>>/ => "" min=1
//@sub /\biter: I\b/ => iter: &mut VIter<ZoomRecord> min=1
//@sub /mut v: ArrayViewMut<'_, f64, numpy::Ix1>/ => v: &mut VBins min=1
//@sub /\b_BBIReadError\b/ => ReadErr min=0
//@sub /for interval in iter \{/ => loop {\n        let interval = match iter.next() { None => { break; } Some(r__) => r__ }; min=1
//@sub /(\w+)\.front_mut\(\)/ => deque_front_mut(&mut \1) min=0
//@sub /\b(?:std::)?cmp::(min|max)\(/ => ord_\1_i32( min=0
//@sub /(\((?:[^()]|\([^()]*\))*\)|\b\w+) as f64\b/ => as_f64(\1) min=0
//@sub /\(([^;\n]*\/[^;\n]*)\) as usize;/ => f64_to_usize(\1); min=0
//@ret r
//@sig
    requires
        [[L: bwz_frame/pre_one_cell_per_bin]]
        // the caller allocates `bins` cells or checks the size of a passed `arr` (intervals_to_array / entries_to_array)
        old(v)@.len() == bins,
        [[L: bwz_frame/pre_request_width_fits_i32]]
        start <= end, end - start <= i32::MAX,
        [[L: bwz_frame/pre_query_contract_items_touch_the_request_unclipped]]
        touches(old(iter).rest(), start as int, end as int),
        [[L: bwz_frame/pre_no_finalisation_recorded_before_the_call]]
        // definition of the ghost record; the CONTENTS of `v` on entry are arbitrary
        old(v).fin() =~= Map::empty(),
    ensures
        [[L: bwz_frame/one_number_per_bin]]
        final(v)@.len() == bins,
        [[L: bwz_frame/a_bin_no_finalisation_wrote_holds_missing_whatever_the_array_held_on_entry]]
        r is Ok ==> forall|b: int| 0 <= b < bins && !final(v).fin().contains_key(b) ==> #[trigger] final(v)@[b] == missing,
        [[L: bwz_frame/a_finalised_bin_keeps_the_value_its_last_finalisation_reported]]
        r is Ok ==> forall|b: int| 0 <= b < bins && final(v).fin().contains_key(b) ==> #[trigger] final(v)@[b] == final(v).fin()[b],
//@open
    proof { float_ax::float_det(); ax_lossless_int_from(); }
//@at /^\s*loop \{/ before
    let ghost base = v@;
//@loop 1
        invariant
            [[L: bwz_frame/loop/array_differs_from_its_state_before_the_loop_only_in_finalised_bins]]
            only_finalised_bins_differ(*v, base),
            [[L: bwz_frame/loop/frame]]
            touches(iter.rest(), start as int, end as int),
        decreases
            [[L: bwz_frame/loop/termination]]
            iter.rest().len(),
//@at /let interval = match iter\.next\(\)/ before
        let ghost rest0 = iter.rest();
//@at /let interval = match iter\.next\(\)/ after
        proof {
            assert(interval == rest0[0]);
            assert forall|i: int| 0 <= i < iter.rest().len() implies (#[trigger] iter.rest()[i]) == rest0[i + 1] by {}
        }
//@at /^\s*let bin_start = / before
        proof {
            // the part of the item inside the request [start, end), relative to `start`: mathematical integers, no wrap for start < 0
            assert(interval_start == clamp(interval.lo(), start as int, end as int) - start); [[L: bwz_frame/window_start_offset_is_the_item_start_clamped_to_the_request_minus_the_request_start]]
            assert(interval_end == clamp(interval.hi(), start as int, end as int) - start); [[L: bwz_frame/window_end_offset_is_the_item_end_clamped_to_the_request_minus_the_request_start]]
            assert(0 <= interval_start <= end - start && 0 <= interval_end <= end - start); [[L: bwz_frame/window_offsets_stay_inside_the_window]]
        }
//@loop 2
            invariant
                [[L: bwz_frame/pop/array_differs_from_its_state_before_the_loop_only_in_finalised_bins]]
                only_finalised_bins_differ(*v, base),
            decreases
                [[L: bwz_frame/pop/termination]]
                bin_data@.len(),
//@at /^ {12}\} else \{\s*$/ before
                proof { assert(v.fin().contains_key(front.0 as int) && v@[front.0 as int] == v.fin()[front.0 as int]); } [[L: bwz_frame/pop/the_finalisation_is_stored_in_the_cell_of_the_popped_bin]]
//@loop 3
        invariant
            [[L: bwz_frame/drain/array_differs_from_its_state_before_the_loop_only_in_finalised_bins]]
            only_finalised_bins_differ(*v, base),
        decreases
            [[L: bwz_frame/drain/termination]]
            bin_data@.len(),
//@loopend 3
        proof { assert(v.fin().contains_key(front.0 as int) && v@[front.0 as int] == v.fin()[front.0 as int]); } [[L: bwz_frame/drain/the_finalisation_is_stored_in_the_cell_of_the_popped_bin]]
//@end

// ---- (e) to_entry_array_bins: the frame: initialisation, integer prologue of every iteration, where finalisations are stored ----
#[verifier::loop_isolation(false)]
//@extract fn pybigtools/src/lib.rs to_entry_array_bins
//@rule R16
//@rule R6
//@rule R12c
//@presub /\n([ \t]*)while let Some\(bin\) = bin_data\s*\.back\(\)(?:(?!\bv\[|\bv\.(?:fill|iter_mut|index_mut|assign|map_inplace|mapv_inplace|slice_mut|as_slice_mut|iter)\b).)*?\n    \}\n(?=(?:[ \t]*[^\n{}]+;\n)*    while let Some\(front\) = bin_data\.pop_front\(\))/ => \n\1rest_of_iteration(&interval, interval_start, interval_end, bin_start, bin_end, summary, bin_size, &mut bin_data);\n    }\n min=1 count=1
//@presub /\bv\[([^\]\n]+)\] = (?:[^;\/]|\/(?!\/)|\/\/[^\n]*)*;/ => v.set_bin(\1, finished_value()); min=0
//@presub /for (\w+) in v\.iter_mut\(\) \{\s*\*\1 = ([\w\.]+);\s*\}/ => v.fill(\2); min=0
//@sub /<I: Iterator<Item = Result<\w+, _BBIReadError>>>/ => "" min=1
//@sub /\biter: I\b/ => iter: &mut VIter<BedEntry> min=1
//@sub /mut v: ArrayViewMut<'_, f64, numpy::Ix1>/ => v: &mut VBins min=1
//@sub /\b_BBIReadError\b/ => ReadErr min=0
//@sub /for interval in iter \{/ => loop {\n        let interval = match iter.next() { None => { break; } Some(r__) => r__ }; min=1
//@sub /(\w+)\.front_mut\(\)/ => deque_front_mut(&mut \1) min=0
//@sub /\b(?:std::)?cmp::(min|max)\(/ => ord_\1_i32( min=0
//@sub /(\((?:[^()]|\([^()]*\))*\)|\b\w+) as f64\b/ => as_f64(\1) min=0
//@sub /\(([^;\n]*\/[^;\n]*)\) as usize;/ => f64_to_usize(\1); min=0
//@ret r
//@sig
    requires
        [[L: bbb_frame/pre_one_cell_per_bin]]
        // the caller allocates `bins` cells or checks the size of a passed `arr` (intervals_to_array / entries_to_array)
        old(v)@.len() == bins,
        [[L: bbb_frame/pre_request_width_fits_i32]]
        start <= end, end - start <= i32::MAX,
        [[L: bbb_frame/pre_query_contract_items_touch_the_request_unclipped]]
        touches(old(iter).rest(), start as int, end as int),
        [[L: bbb_frame/pre_no_finalisation_recorded_before_the_call]]
        // definition of the ghost record; the CONTENTS of `v` on entry are arbitrary
        old(v).fin() =~= Map::empty(),
    ensures
        [[L: bbb_frame/one_number_per_bin]]
        final(v)@.len() == bins,
        [[L: bbb_frame/a_bin_no_finalisation_wrote_holds_missing_whatever_the_array_held_on_entry]]
        r is Ok ==> forall|b: int| 0 <= b < bins && !final(v).fin().contains_key(b) ==> #[trigger] final(v)@[b] == missing,
        [[L: bbb_frame/a_finalised_bin_keeps_the_value_its_last_finalisation_reported]]
        r is Ok ==> forall|b: int| 0 <= b < bins && final(v).fin().contains_key(b) ==> #[trigger] final(v)@[b] == final(v).fin()[b],
//@open
    proof { float_ax::float_det(); ax_lossless_int_from(); }
//@at /^\s*loop \{/ before
    let ghost base = v@;
//@loop 1
        invariant
            [[L: bbb_frame/loop/array_differs_from_its_state_before_the_loop_only_in_finalised_bins]]
            only_finalised_bins_differ(*v, base),
            [[L: bbb_frame/loop/frame]]
            touches(iter.rest(), start as int, end as int),
        decreases
            [[L: bbb_frame/loop/termination]]
            iter.rest().len(),
//@at /let interval = match iter\.next\(\)/ before
        let ghost rest0 = iter.rest();
//@at /let interval = match iter\.next\(\)/ after
        proof {
            assert(interval == rest0[0]);
            assert forall|i: int| 0 <= i < iter.rest().len() implies (#[trigger] iter.rest()[i]) == rest0[i + 1] by {}
        }
//@at /^\s*let bin_start = / before
        proof {
            // the part of the item inside the request [start, end), relative to `start`: mathematical integers, no wrap for start < 0
            assert(interval_start == clamp(interval.lo(), start as int, end as int) - start); [[L: bbb_frame/window_start_offset_is_the_item_start_clamped_to_the_request_minus_the_request_start]]
            assert(interval_end == clamp(interval.hi(), start as int, end as int) - start); [[L: bbb_frame/window_end_offset_is_the_item_end_clamped_to_the_request_minus_the_request_start]]
            assert(0 <= interval_start <= end - start && 0 <= interval_end <= end - start); [[L: bbb_frame/window_offsets_stay_inside_the_window]]
        }
//@loop 2
            invariant
                [[L: bbb_frame/pop/array_differs_from_its_state_before_the_loop_only_in_finalised_bins]]
                only_finalised_bins_differ(*v, base),
            decreases
                [[L: bbb_frame/pop/termination]]
                bin_data@.len(),
//@at /^ {12}\} else \{\s*$/ before
                proof { assert(v.fin().contains_key(front.0 as int) && v@[front.0 as int] == v.fin()[front.0 as int]); } [[L: bbb_frame/pop/the_finalisation_is_stored_in_the_cell_of_the_popped_bin]]
//@loop 3
        invariant
            [[L: bbb_frame/drain/array_differs_from_its_state_before_the_loop_only_in_finalised_bins]]
            only_finalised_bins_differ(*v, base),
        decreases
            [[L: bbb_frame/drain/termination]]
            bin_data@.len(),
//@loopend 3
        proof { assert(v.fin().contains_key(front.0 as int) && v@[front.0 as int] == v.fin()[front.0 as int]); } [[L: bbb_frame/drain/the_finalisation_is_stored_in_the_cell_of_the_popped_bin]]
//@end

// ---- (e) to_entry_array_zoom: the frame: initialisation, integer prologue of every iteration, where finalisations are stored ----
#[verifier::loop_isolation(false)]
//@extract fn pybigtools/src/lib.rs to_entry_array_zoom
//@rule R16
//@rule R6
//@rule R12c
//@presub /\n([ \t]*)while let Some\(bin\) = bin_data\s*\.back\(\)(?:(?!\bv\[|\bv\.(?:fill|iter_mut|index_mut|assign|map_inplace|mapv_inplace|slice_mut|as_slice_mut|iter)\b).)*?\n    \}\n(?=(?:[ \t]*[^\n{}]+;\n)*    while let Some\(front\) = bin_data\.pop_front\(\))/ => \n\1rest_of_iteration(&interval, interval_start, interval_end, bin_start, bin_end, summary, bin_size, &mut bin_data);\n    }\n min=1 count=1
//@presub /\bv\[([^\]\n]+)\] = (?:[^;\/]|\/(?!\/)|\/\/[^\n]*)*;/ => v.set_bin(\1, finished_value()); min=0
//@presub /for (\w+) in v\.iter_mut\(\) \{\s*\*\1 = ([\w\.]+);\s*\}/ => v.fill(\2); min=0
//@sub /<I: Iterator<Item = Result<\w+, _BBIReadError>>>/ => "" min=1
//@sub /\biter: I\b/ => iter: &mut VIter<ZoomRecord> min=1
//@sub /mut v: ArrayViewMut<'_, f64, numpy::Ix1>/ => v: &mut VBins min=1
//@sub /\b_BBIReadError\b/ => ReadErr min=0
//@sub /for interval in iter \{/ => loop {\n        let interval = match iter.next() { None => { break; } Some(r__) => r__ }; min=1
//@sub /(\w+)\.front_mut\(\)/ => deque_front_mut(&mut \1) min=0
//@sub /\b(?:std::)?cmp::(min|max)\(/ => ord_\1_i32( min=0
//@sub /(\((?:[^()]|\([^()]*\))*\)|\b\w+) as f64\b/ => as_f64(\1) min=0
//@sub /\(([^;\n]*\/[^;\n]*)\) as usize;/ => f64_to_usize(\1); min=0
//@ret r
//@sig
    requires
        [[L: bbz_frame/pre_one_cell_per_bin]]
        // the caller allocates `bins` cells or checks the size of a passed `arr` (intervals_to_array / entries_to_array)
        old(v)@.len() == bins,
        [[L: bbz_frame/pre_request_width_fits_i32]]
        start <= end, end - start <= i32::MAX,
        [[L: bbz_frame/pre_query_contract_items_touch_the_request_unclipped]]
        touches(old(iter).rest(), start as int, end as int),
        [[L: bbz_frame/pre_no_finalisation_recorded_before_the_call]]
        // definition of the ghost record; the CONTENTS of `v` on entry are arbitrary
        old(v).fin() =~= Map::empty(),
    ensures
        [[L: bbz_frame/one_number_per_bin]]
        final(v)@.len() == bins,
        [[L: bbz_frame/a_bin_no_finalisation_wrote_holds_missing_whatever_the_array_held_on_entry]]
        r is Ok ==> forall|b: int| 0 <= b < bins && !final(v).fin().contains_key(b) ==> #[trigger] final(v)@[b] == missing,
        [[L: bbz_frame/a_finalised_bin_keeps_the_value_its_last_finalisation_reported]]
        r is Ok ==> forall|b: int| 0 <= b < bins && final(v).fin().contains_key(b) ==> #[trigger] final(v)@[b] == final(v).fin()[b],
//@open
    proof { float_ax::float_det(); ax_lossless_int_from(); }
//@at /^\s*loop \{/ before
    let ghost base = v@;
//@loop 1
        invariant
            [[L: bbz_frame/loop/array_differs_from_its_state_before_the_loop_only_in_finalised_bins]]
            only_finalised_bins_differ(*v, base),
            [[L: bbz_frame/loop/frame]]
            touches(iter.rest(), start as int, end as int),
        decreases
            [[L: bbz_frame/loop/termination]]
            iter.rest().len(),
//@at /let interval = match iter\.next\(\)/ before
        let ghost rest0 = iter.rest();
//@at /let interval = match iter\.next\(\)/ after
        proof {
            assert(interval == rest0[0]);
            assert forall|i: int| 0 <= i < iter.rest().len() implies (#[trigger] iter.rest()[i]) == rest0[i + 1] by {}
        }
//@at /^\s*let bin_start = / before
        proof {
            // the part of the item inside the request [start, end), relative to `start`: mathematical integers, no wrap for start < 0
            assert(interval_start == clamp(interval.lo(), start as int, end as int) - start); [[L: bbz_frame/window_start_offset_is_the_item_start_clamped_to_the_request_minus_the_request_start]]
            assert(interval_end == clamp(interval.hi(), start as int, end as int) - start); [[L: bbz_frame/window_end_offset_is_the_item_end_clamped_to_the_request_minus_the_request_start]]
            assert(0 <= interval_start <= end - start && 0 <= interval_end <= end - start); [[L: bbz_frame/window_offsets_stay_inside_the_window]]
        }
//@loop 2
            invariant
                [[L: bbz_frame/pop/array_differs_from_its_state_before_the_loop_only_in_finalised_bins]]
                only_finalised_bins_differ(*v, base),
            decreases
                [[L: bbz_frame/pop/termination]]
                bin_data@.len(),
//@at /^ {12}\} else \{\s*$/ before
                proof { assert(v.fin().contains_key(front.0 as int) && v@[front.0 as int] == v.fin()[front.0 as int]); } [[L: bbz_frame/pop/the_finalisation_is_stored_in_the_cell_of_the_popped_bin]]
//@loop 3
        invariant
            [[L: bbz_frame/drain/array_differs_from_its_state_before_the_loop_only_in_finalised_bins]]
            only_finalised_bins_differ(*v, base),
        decreases
            [[L: bbz_frame/drain/termination]]
            bin_data@.len(),
//@loopend 3
        proof { assert(v.fin().contains_key(front.0 as int) && v@[front.0 as int] == v.fin()[front.0 as int]); } [[L: bbz_frame/drain/the_finalisation_is_stored_in_the_cell_of_the_popped_bin]]
//@end

} // verus!
fn main() {}
