// ---- codec inverse lemmas (include after bytes.rs when needed) ----
/// base-256 digits of a u16 / u32 recombine to the value (bit-vector proof: stable in any context)
#[verifier::spinoff_prover]
pub proof fn lemma_digits16(x: u16)
    ensures byte_of(x as int, 0) as int + 256 * (byte_of(x as int, 1) as int) == x,
{
    reveal(byte_of);
    let a: u16 = x % 256; let b: u16 = x / 256 % 256;
    assert(a + 256 * b == x && a < 256 && b < 256) by (bit_vector) requires a == x % 256, b == x / 256 % 256;
}
#[verifier::spinoff_prover]
pub proof fn lemma_digits32(x: u32)
    ensures byte_of(x as int, 0) as int + 256 * (byte_of(x as int, 1) as int) + 65536 * (byte_of(x as int, 2) as int) + 16777216 * (byte_of(x as int, 3) as int) == x,
{
    reveal(byte_of);
    let a: u32 = x % 256; let b: u32 = x / 256 % 256; let c: u32 = x / 65536 % 256; let d: u32 = x / 16777216 % 256;
    assert(a + 256 * b + 65536 * c + 16777216 * d == x && a < 256 && b < 256 && c < 256 && d < 256) by (bit_vector)
        requires a == x % 256, b == x / 256 % 256, c == x / 65536 % 256, d == x / 16777216 % 256;
}
#[verifier::spinoff_prover]
pub proof fn lemma_codec16(big: bool, x: u16) ensures e16(big, x).len() == 2, d16(big, e16(big, x), 0) == x { lemma_digits16(x); }
#[verifier::spinoff_prover]
pub proof fn lemma_codec32(big: bool, x: u32) ensures e32(big, x).len() == 4, d32(big, e32(big, x), 0) == x { lemma_digits32(x); }
#[verifier::spinoff_prover]
pub proof fn lemma_split64(x: u64)
    ensures ({
        let lo = (x % 4294967296) as u32; let hi = (x / 4294967296) as u32;
        &&& byte_of(x as int, 0) == byte_of(lo as int, 0) && byte_of(x as int, 1) == byte_of(lo as int, 1)
        &&& byte_of(x as int, 2) == byte_of(lo as int, 2) && byte_of(x as int, 3) == byte_of(lo as int, 3)
        &&& byte_of(x as int, 4) == byte_of(hi as int, 0) && byte_of(x as int, 5) == byte_of(hi as int, 1)
        &&& byte_of(x as int, 6) == byte_of(hi as int, 2) && byte_of(x as int, 7) == byte_of(hi as int, 3)
        &&& x as int == lo as int + 4294967296 * (hi as int)
    })
{
    reveal(byte_of);
    assert(x % 256 == (x % 4294967296) % 256) by (bit_vector);
    assert(x / 256 % 256 == (x % 4294967296) / 256 % 256) by (bit_vector);
    assert(x / 65536 % 256 == (x % 4294967296) / 65536 % 256) by (bit_vector);
    assert(x / 16777216 % 256 == (x % 4294967296) / 16777216 % 256) by (bit_vector);
    assert(x / 4294967296 % 256 == (x / 4294967296) % 256) by (bit_vector);
    assert(x / 1099511627776 % 256 == (x / 4294967296) / 256 % 256) by (bit_vector);
    assert(x / 281474976710656 % 256 == (x / 4294967296) / 65536 % 256) by (bit_vector);
    assert(x / 72057594037927936 % 256 == (x / 4294967296) / 16777216 % 256) by (bit_vector);
    assert(x == (x % 4294967296) + 4294967296 * (x / 4294967296)) by (bit_vector);
    assert(x / 4294967296 <= 4294967295) by (bit_vector);
    assert(x % 4294967296 <= 4294967295) by (bit_vector);
}
pub proof fn lemma_codec64(big: bool, x: u64) ensures e64(big, x).len() == 8, d64(big, e64(big, x), 0) == x
{
    let lo = (x % 4294967296) as u32; let hi = (x / 4294967296) as u32;
    lemma_split64(x);
    lemma_codec32(big, lo); lemma_codec32(big, hi);
}
/// decoding inside a larger buffer: if the 4 bytes at s[k..k+4] are e32(big, x) then d32 reads x
pub proof fn lemma_d32_embedded(big: bool, s: Seq<u8>, k: int, x: u32)
    requires 0 <= k, k + 4 <= s.len(), s.subrange(k, k + 4) == e32(big, x),
    ensures d32(big, s, k) == x
{
    lemma_codec32(big, x);
    let t = s.subrange(k, k + 4);
    assert(t[0] == s[k] && t[1] == s[k + 1] && t[2] == s[k + 2] && t[3] == s[k + 3]);
}
pub proof fn lemma_d16_embedded(big: bool, s: Seq<u8>, k: int, x: u16)
    requires 0 <= k, k + 2 <= s.len(), s.subrange(k, k + 2) == e16(big, x),
    ensures d16(big, s, k) == x
{
    lemma_codec16(big, x);
    let t = s.subrange(k, k + 2);
    assert(t[0] == s[k] && t[1] == s[k + 1]);
}
pub proof fn lemma_d64_embedded(big: bool, s: Seq<u8>, k: int, x: u64)
    requires 0 <= k, k + 8 <= s.len(), s.subrange(k, k + 8) == e64(big, x),
    ensures d64(big, s, k) == x
{
    lemma_codec64(big, x);
    let t = s.subrange(k, k + 8);
    assert(t[0] == s[k] && t[1] == s[k + 1] && t[2] == s[k + 2] && t[3] == s[k + 3]
        && t[4] == s[k + 4] && t[5] == s[k + 5] && t[6] == s[k + 6] && t[7] == s[k + 7]);
}
