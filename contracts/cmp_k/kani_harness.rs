// Kani harnesses for unit cmp_k (compare_position, overlaps in bbi/bbiread.rs).
// Included as a child module of bbiread.rs (`#[cfg(kani)] mod verif_kani_cmp_k`), so
// `super::` reaches the private functions.  The contracts themselves are the attribute
// lines in kani.toml ([[contract]]), inserted above the real fns in the scratch copy.

#[kani::proof_for_contract(super::compare_position)]
fn cmp_k_compare_position() {
    let c1: u32 = kani::any();
    let b1: u32 = kani::any();
    let c2: u32 = kani::any();
    let b2: u32 = kani::any();
    let _r = super::compare_position(c1, b1, c2, b2);
    kani::cover!(true, "reach_compare_position");
}

#[kani::proof_for_contract(super::overlaps)]
fn cmp_k_overlaps() {
    let q: u32 = kani::any();
    let qs: u32 = kani::any();
    let qe: u32 = kani::any();
    let b1: u32 = kani::any();
    let b1s: u32 = kani::any();
    let b2: u32 = kani::any();
    let b2e: u32 = kani::any();
    let _r = super::overlaps(q, qs, qe, b1, b1s, b2, b2e);
    kani::cover!(true, "reach_overlaps");
}
