//@unit bw_values
//@serves C03 C10
//@backend verus
// BigWigRead::values (bbi/bigwigread.rs): the per-base value array of a range.
//   C03/C10: "the per-base value array for the range agrees with [the interval query] (NaN where there is no data)":
//   the array has one entry per base of [start,end); a base covered by a value that the block decoder returns
//   (already clipped to the range) holds that value; a base covered by none holds the NaN constant; every block
//   the index search returns is decoded (for this chromosome and this range); errors propagate.
// The callees (chrom_id, full_data_cir_tree, search_cir_tree, get_block_values, tell) are shims; see NOTES.md.
use vstd::prelude::*;
verus! {

//@extract struct bigtools/src/bbi.rs Value
//@rule R8
//@end
//@extract struct bigtools/src/bbi/bbiread.rs Block
//@rule R8
//@end

// ---------------- shims (assumed; listed in NOTES.md) ----------------
/// `std::f32::NAN`: uninterpreted constant (Verus has no model of it); identity with the constant is all we can say.
pub uninterp spec fn f32_nan_c() -> f32;
#[verifier::external_body]
fn f32_nan() -> (r: f32) ensures r == f32_nan_c() { f32::NAN }

#[verifier::external_body]
pub struct BBIReadError { _p: u8 }
#[verifier::external_body]
pub struct CirTreeIndex { _p: u8 }

/// `Result::unwrap_or` (std): only so that an edit that swallows an error this way is judged, not rejected
pub assume_specification<T, E> [Result::<T, E>::unwrap_or] (s: Result<T, E>, d: T) -> (r: T)
    ensures r == (match s { Ok(t) => t, Err(_) => d });

/// the file's chromosome table (fixed for an open reader): name -> id, and whether the name is present
pub uninterp spec fn file_chrom_id(name: Seq<char>) -> u32;
pub uninterp spec fn chrom_known(name: Seq<char>) -> bool;

/// one call of get_block_values
pub ghost struct Ask { pub block: Block, pub chrom: u32, pub start: u32, pub end: u32 }

/// The reader: opaque, with ghost observers recording what was asked of the lower layers.
#[verifier::external_body]
pub struct BigWigRead { _p: u8 }
impl BigWigRead {
    /// number of lower-layer calls that returned Err so far
    pub uninterp spec fn fails(&self) -> nat;
    /// location of the full-data index as last returned by full_data_cir_tree
    pub uninterp spec fn full_index(&self) -> CirTreeIndex;
    /// the last index search: which index, which query, which blocks came back
    pub uninterp spec fn q_at(&self) -> CirTreeIndex;
    pub uninterp spec fn q_chrom(&self) -> Seq<char>;
    pub uninterp spec fn q_start(&self) -> u32;
    pub uninterp spec fn q_end(&self) -> u32;
    pub uninterp spec fn found(&self) -> Seq<Block>;
    /// get_block_values calls since the last search, and the `Ok(Some(values))` answers among them, in call order
    pub uninterp spec fn asked(&self) -> Seq<Ask>;
    pub uninterp spec fn answers(&self) -> Seq<Seq<Value>>;

    pub open spec fn same_search(&self, o: &BigWigRead) -> bool {
        &&& self.full_index() == o.full_index() && self.q_at() == o.q_at() && self.q_chrom() == o.q_chrom()
        &&& self.q_start() == o.q_start() && self.q_end() == o.q_end() && self.found() == o.found()
    }
    pub open spec fn failed_more(&self, o: &BigWigRead, err: bool) -> bool {
        self.fails() == o.fails() + (if err { 1nat } else { 0nat })
    }

    /// `self.info.chrom_id(name)`: pure lookup in the chromosome table (error type conversion by `?` dropped)
    #[verifier::external_body]
    fn chrom_id(&self, chrom_name: &str) -> (r: Result<u32, BBIReadError>)
        ensures r.is_ok() == chrom_known(chrom_name@), r matches Ok(id) ==> id == file_chrom_id(chrom_name@),
    { unimplemented!() }
    /// BBIReadInternal::full_data_cir_tree (validates/caches the index root): no contract beyond the observers
    #[verifier::external_body]
    fn full_data_cir_tree(&mut self) -> (r: Result<CirTreeIndex, BBIReadError>)
        ensures final(self).failed_more(old(self), r.is_err()), r matches Ok(t) ==> t == final(self).full_index(),
    { unimplemented!() }
    /// `self.reader().raw_reader().tell()`: file position; touches nothing we observe
    #[verifier::external_body]
    fn raw_tell(&mut self) -> (r: Result<u64, BBIReadError>)
        ensures final(self).failed_more(old(self), r.is_err()), final(self).same_search(old(self)),
            final(self).asked() == old(self).asked(), final(self).answers() == old(self).answers(),
    { unimplemented!() }
}
/// bbiread::search_cir_tree(&self.info, &mut self.read, at, chrom_name, start, end): unit rt_search.  Here only:
/// the query is recorded and the block log restarts.
#[verifier::external_body]
fn search_cir_tree(bw: &mut BigWigRead, at: CirTreeIndex, chrom_name: &str, start: u32, end: u32) -> (r: Result<Vec<Block>, BBIReadError>)
    ensures
        final(bw).failed_more(old(bw), r.is_err()),
        final(bw).full_index() == old(bw).full_index(),
        final(bw).q_at() == at, final(bw).q_chrom() == chrom_name@, final(bw).q_start() == start, final(bw).q_end() == end,
        r matches Ok(b) ==> final(bw).found() == b@,
        final(bw).asked() == Seq::<Ask>::empty(), final(bw).answers() == Seq::<Seq<Value>>::empty(),
{ unimplemented!() }

// ---------------- specification vocabulary ----------------
/// C03 block contract (what get_block_values returns for one block): inside [s, e), ascending, non-overlapping
pub open spec fn clipped_ordered(v: Seq<Value>, s: u32, e: u32) -> bool {
    &&& forall|i: int| 0 <= i < v.len() ==> s <= (#[trigger] v[i]).start && v[i].start <= v[i].end && v[i].end <= e
    &&& forall|i: int| 0 <= i < v.len() - 1 ==> (#[trigger] v[i]).end <= v[i + 1].start
}
pub open spec fn all_clipped(a: Seq<Seq<Value>>, s: u32, e: u32) -> bool {
    forall|b: int| 0 <= b < a.len() ==> clipped_ordered(#[trigger] a[b], s, e)
}
pub open spec fn inside(x: Value, p: int) -> bool { x.start <= p < x.end }
pub open spec fn uncovered(v: Seq<Value>, n: int, p: int) -> bool {
    forall|j: int| 0 <= j < n ==> !inside(#[trigger] v[j], p)
}
/// no value of any answered block contains base p
pub open spec fn no_data(a: Seq<Seq<Value>>, p: int) -> bool {
    forall|b: int| 0 <= b < a.len() ==> uncovered(#[trigger] a[b], a[b].len() as int, p)
}
/// no value of the first n blocks and none of the first m values of block n contains base p
pub open spec fn no_data_n(a: Seq<Seq<Value>>, n: int, m: int, p: int) -> bool {
    &&& forall|b: int| 0 <= b < n ==> uncovered(#[trigger] a[b], a[b].len() as int, p)
    &&& uncovered(a[n], m, p)
}
/// every base of the range that no answered value contains holds the NaN constant
#[verifier::opaque]
pub open spec fn nan_ok(out: Seq<f32>, a: Seq<Seq<Value>>, start: u32) -> bool {
    forall|q: int| 0 <= q < out.len() && no_data(a, start + q) ==> #[trigger] out[q] == f32_nan_c()
}
#[verifier::opaque]
pub open spec fn nan_ok_n(out: Seq<f32>, a: Seq<Seq<Value>>, n: int, m: int, start: u32) -> bool {
    forall|q: int| 0 <= q < out.len() && no_data_n(a, n, m, start + q) ==> #[trigger] out[q] == f32_nan_c()
}
/// ASSUMPTION ON THE FILE (hypothesis of `bases_with_data_hold_the_value`): values of a later block start at or after
/// the end of every value of every earlier block (blocks come back in file order and a well-formed bigWig is sorted)
#[verifier::opaque]
pub open spec fn blocks_ascending(a: Seq<Seq<Value>>) -> bool {
    forall|b1: int, k1: int, b2: int, k2: int| 0 <= b1 < b2 < a.len() && 0 <= k1 < a[b1].len() && 0 <= k2 < a[b2].len()
        ==> (#[trigger] a[b1][k1]).end <= (#[trigger] a[b2][k2]).start
}
/// every base that some value of the first n blocks contains holds that value
#[verifier::opaque]
pub open spec fn painted(out: Seq<f32>, a: Seq<Seq<Value>>, n: int, start: u32) -> bool {
    forall|q: int, b: int, k: int| 0 <= q < out.len() && 0 <= b < n && 0 <= k < a[b].len() && inside(#[trigger] a[b][k], start + q)
        ==> #[trigger] out[q] == a[b][k].value
}
/// every base that one of the first m values of v contains holds that value
#[verifier::opaque]
pub open spec fn this_painted(out: Seq<f32>, v: Seq<Value>, m: int, start: u32) -> bool {
    forall|q: int, k: int| 0 <= q < out.len() && 0 <= k < m && inside(#[trigger] v[k], start + q) ==> #[trigger] out[q] == v[k].value
}
/// state between two blocks
pub open spec fn between_blocks(out: Seq<f32>, a: Seq<Seq<Value>>, s: u32, e: u32) -> bool {
    &&& all_clipped(a, s, e)
    &&& nan_ok(out, a, s)
    &&& blocks_ascending(a) ==> painted(out, a, a.len() as int, s)
}
/// state inside the last answered block, after m of its values
pub open spec fn within_block(out: Seq<f32>, a: Seq<Seq<Value>>, m: int, s: u32, e: u32) -> bool {
    &&& a.len() >= 1
    &&& all_clipped(a, s, e)
    &&& nan_ok_n(out, a, a.len() - 1, m, s)
    &&& blocks_ascending(a) ==> painted(out, a, a.len() - 1, s)
    &&& this_painted(out, a[a.len() - 1], m, s)
}

proof fn lemma_init(out: Seq<f32>, s: u32, e: u32)
    requires forall|i: int| 0 <= i < out.len() ==> out[i] == f32_nan_c(),
    ensures between_blocks(out, Seq::<Seq<Value>>::empty(), s, e),
{
    reveal(nan_ok); reveal(painted);
}
proof fn lemma_enter_block(out: Seq<f32>, a0: Seq<Seq<Value>>, v: Seq<Value>, s: u32, e: u32)
    requires between_blocks(out, a0, s, e), clipped_ordered(v, s, e),
    ensures within_block(out, a0.push(v), 0, s, e),
{
    let a1 = a0.push(v);
    let n = a0.len() as int;
    reveal(nan_ok); reveal(nan_ok_n); reveal(painted); reveal(this_painted); reveal(blocks_ascending);
    assert(a1[n] == v);
    assert forall|b: int| 0 <= b < a1.len() implies clipped_ordered(#[trigger] a1[b], s, e) by {
        if b < n { assert(a1[b] == a0[b]); }
    }
    assert forall|q: int| 0 <= q < out.len() && no_data_n(a1, n, 0, s + q) implies #[trigger] out[q] == f32_nan_c() by {
        assert forall|b: int| 0 <= b < a0.len() implies uncovered(#[trigger] a0[b], a0[b].len() as int, s + q) by {
            assert(a1[b] == a0[b]);
        }
    }
    if blocks_ascending(a1) {
        assert forall|b1: int, k1: int, b2: int, k2: int| 0 <= b1 < b2 < a0.len() && 0 <= k1 < a0[b1].len() && 0 <= k2 < a0[b2].len()
            implies (#[trigger] a0[b1][k1]).end <= (#[trigger] a0[b2][k2]).start by {
            assert(a1[b1] == a0[b1]); assert(a1[b2] == a0[b2]);
            assert(a1[b1][k1].end <= a1[b2][k2].start);
        }
        assert forall|q: int, b: int, k: int| 0 <= q < out.len() && 0 <= b < n && 0 <= k < a1[b].len() && inside(#[trigger] a1[b][k], s + q)
            implies #[trigger] out[q] == a1[b][k].value by {
            assert(a1[b] == a0[b]);
            assert(inside(a0[b][k], s + q));
        }
    }
}
proof fn lemma_asc_at(a: Seq<Seq<Value>>, b1: int, k1: int, b2: int, k2: int)
    requires blocks_ascending(a), 0 <= b1 < b2 < a.len(), 0 <= k1 < a[b1].len(), 0 <= k2 < a[b2].len(),
    ensures a[b1][k1].end <= a[b2][k2].start,
{
    reveal(blocks_ascending);
}
/// frame of one fill: `after` is `before` with [lo, hi) set to x
pub open spec fn filled(before: Seq<f32>, after: Seq<f32>, lo: int, hi: int, x: f32) -> bool {
    &&& after.len() == before.len()
    &&& forall|i: int| lo <= i < hi ==> #[trigger] after[i] == x
    &&& forall|i: int| 0 <= i < after.len() && !(lo <= i < hi) ==> #[trigger] after[i] == before[i]
}
proof fn lemma_paint_this(before: Seq<f32>, after: Seq<f32>, v: Seq<Value>, m: int, s: u32, e: u32)
    requires
        this_painted(before, v, m, s), clipped_ordered(v, s, e), 0 <= m < v.len(),
        filled(before, after, v[m].start - s, v[m].end - s, v[m].value),
    ensures this_painted(after, v, m + 1, s),
{
    reveal(this_painted);
    assert forall|q: int, k: int| 0 <= q < after.len() && 0 <= k < m + 1 && inside(#[trigger] v[k], s + q)
        implies #[trigger] after[q] == v[k].value by {
        if k < m { lemma_pairwise(v, s, e, k, m); assert(before[q] == v[k].value); }
    }
}
proof fn lemma_paint_earlier(before: Seq<f32>, after: Seq<f32>, a: Seq<Seq<Value>>, m: int, s: u32, e: u32)
    requires
        a.len() >= 1, blocks_ascending(a), painted(before, a, a.len() - 1, s), 0 <= m < a[a.len() - 1].len(),
        filled(before, after, a[a.len() - 1][m].start - s, a[a.len() - 1][m].end - s, a[a.len() - 1][m].value),
    ensures painted(after, a, a.len() - 1, s),
{
    let n = a.len() - 1;
    reveal(painted);
    assert forall|q: int, b: int, k: int| 0 <= q < after.len() && 0 <= b < n && 0 <= k < a[b].len() && inside(#[trigger] a[b][k], s + q)
        implies #[trigger] after[q] == a[b][k].value by {
        lemma_asc_at(a, b, k, n, m);
        assert(before[q] == a[b][k].value);
    }
}
proof fn lemma_paint_nan(before: Seq<f32>, after: Seq<f32>, a: Seq<Seq<Value>>, m: int, s: u32, e: u32)
    requires
        a.len() >= 1, nan_ok_n(before, a, a.len() - 1, m, s), 0 <= m < a[a.len() - 1].len(),
        filled(before, after, a[a.len() - 1][m].start - s, a[a.len() - 1][m].end - s, a[a.len() - 1][m].value),
    ensures nan_ok_n(after, a, a.len() - 1, m + 1, s),
{
    let n = a.len() - 1;
    let v = a[n];
    reveal(nan_ok_n);
    assert forall|q: int| 0 <= q < after.len() && no_data_n(a, n, m + 1, s + q) implies #[trigger] after[q] == f32_nan_c() by {
        assert(no_data_n(a, n, m, s + q));
        assert(!inside(v[m], s + q));
        assert(before[q] == f32_nan_c());
    }
}
/// painting value number m of the last block over [bv.start - s, bv.end - s)
proof fn lemma_paint_value(before: Seq<f32>, after: Seq<f32>, a: Seq<Seq<Value>>, m: int, s: u32, e: u32)
    requires
        within_block(before, a, m, s, e), 0 <= m < a[a.len() - 1].len(),
        filled(before, after, a[a.len() - 1][m].start - s, a[a.len() - 1][m].end - s, a[a.len() - 1][m].value),
    ensures within_block(after, a, m + 1, s, e),
{
    let n = a.len() - 1;
    assert(clipped_ordered(a[n], s, e));
    lemma_paint_this(before, after, a[n], m, s, e);
    lemma_paint_nan(before, after, a, m, s, e);
    if blocks_ascending(a) { lemma_paint_earlier(before, after, a, m, s, e); }
}
proof fn lemma_leave_block(out: Seq<f32>, a: Seq<Seq<Value>>, s: u32, e: u32)
    requires within_block(out, a, a[a.len() - 1].len() as int, s, e),
    ensures between_blocks(out, a, s, e),
{
    reveal(nan_ok); reveal(nan_ok_n); reveal(painted); reveal(this_painted);
    let n = a.len() - 1;
    assert forall|q: int| 0 <= q < out.len() && no_data(a, s + q) implies #[trigger] out[q] == f32_nan_c() by {
        assert(uncovered(a[n], a[n].len() as int, s + q));
        assert(no_data_n(a, n, a[n].len() as int, s + q));
    }
    if blocks_ascending(a) {
        assert forall|q: int, b: int, k: int| 0 <= q < out.len() && 0 <= b < a.len() && 0 <= k < a[b].len() && inside(#[trigger] a[b][k], s + q)
            implies #[trigger] out[q] == a[b][k].value by {
            if b == n { assert(inside(a[n][k], s + q)); }
        }
    }
}
/// loop state of the block loop: between two blocks, or just after the last value of the last answered block
pub open spec fn at_block_boundary(out: Seq<f32>, a: Seq<Seq<Value>>, s: u32, e: u32) -> bool {
    between_blocks(out, a, s, e) || (a.len() >= 1 && within_block(out, a, a[a.len() - 1].len() as int, s, e))
}
proof fn lemma_boundary(out: Seq<f32>, a: Seq<Seq<Value>>, s: u32, e: u32)
    requires at_block_boundary(out, a, s, e),
    ensures between_blocks(out, a, s, e),
{
    if !between_blocks(out, a, s, e) { lemma_leave_block(out, a, s, e); }
}
pub open spec fn asks_for(found: Seq<Block>, n: int, chrom: u32, start: u32, end: u32) -> Seq<Ask> {
    Seq::new(n as nat, |i: int| Ask { block: found[i], chrom: chrom, start: start, end: end })
}

proof fn lemma_pairwise(v: Seq<Value>, s: u32, e: u32, j: int, k: int)
    requires clipped_ordered(v, s, e), 0 <= j < k < v.len(),
    ensures v[j].end <= v[k].start,
    decreases k - j,
{
    if j + 1 < k {
        lemma_pairwise(v, s, e, j, k - 1);
        assert(v[k - 1].end <= v[k - 1 + 1].start);
        assert(v[k - 1].start <= v[k - 1].end);
    } else {
        assert(v[j].end <= v[j + 1].start);
    }
}

/// `for i in &mut values[a..b] { *i = x }` (verified; `requires` = the slice-index precondition of `values[a..b]`)
fn fill_range(v: &mut Vec<f32>, a: usize, b: usize, x: f32)
    requires a <= b <= old(v)@.len(),
    ensures final(v)@.len() == old(v)@.len(),
        forall|i: int| a <= i < b ==> final(v)@[i] == x,
        forall|i: int| 0 <= i < final(v)@.len() && !(a <= i < b) ==> final(v)@[i] == old(v)@[i],
{
    let mut i = a;
    while i < b
        invariant a <= i <= b <= v@.len(), v@.len() == old(v)@.len(),
            forall|j: int| a <= j < i ==> v@[j] == x,
            forall|j: int| 0 <= j < v@.len() && !(a <= j < i) ==> v@[j] == old(v)@[j],
        decreases b - i,
    {
        v.set(i, x);
        i = i + 1;
    }
}
/// `for i in &mut values[a..=b] { *i = x }` (only reachable from edited code)
fn fill_range_incl(v: &mut Vec<f32>, a: usize, b: usize, x: f32)
    requires a <= b + 1, b < old(v).len(),
    ensures final(v)@.len() == old(v)@.len(),
        forall|i: int| a <= i <= b ==> final(v)@[i] == x,
        forall|i: int| 0 <= i < final(v)@.len() && !(a <= i <= b) ==> final(v)@[i] == old(v)@[i],
{
    fill_range(v, a, b + 1, x);
}

// get_block_values: signature cut from the repository, body dropped (units bw_dec / Kani lane verify the decoder).
// ASSUMED: the C03 block contract for the returned values; `Ok(None)` (block of another chromosome) and `Err` add no answer.
//@extract fn bigtools/src/bbi/bigwigread.rs get_block_values
//@rule R16
//@sub /<R: BBIFileRead>/ => "" min=1
//@sub /BigWigRead<R>/ => BigWigRead min=1
//@sub /std::vec::IntoIter<Value>/ => Vec<Value> min=1
//@skipbody
//@ret r
//@sig
    ensures
        final(bigwig).failed_more(old(bigwig), r.is_err()),
        final(bigwig).same_search(old(bigwig)),
        final(bigwig).asked() == old(bigwig).asked().push(Ask { block: block, chrom: chrom, start: start, end: end }),
        r matches Ok(Some(v)) ==> final(bigwig).answers() == old(bigwig).answers().push(v@),
        r matches Ok(Some(v)) ==> (start <= end ==> clipped_ordered(v@, start, end)),
        !(r matches Ok(Some(_))) ==> final(bigwig).answers() == old(bigwig).answers(),
//@end

impl BigWigRead {
//@extract method bigtools/src/bbi/bigwigread.rs values "impl<R> BigWigRead<R> where R: BBIFileRead"
//@rule R16
//@rule R8
//@sub /self\.info\.chrom_id\(/ => self.chrom_id( min=1
//@sub /search_cir_tree\(&self\.info, &mut self\.read, / => search_cir_tree(self, min=1
//@sub /[ \t]*use crate::utils::tell::Tell;\n/ => "" min=0
//@sub /self\.reader\(\)\.raw_reader\(\)\.tell\(\)/ => self.raw_tell() min=0
//@sub /std::f32::NAN|f32::NAN/ => f32_nan() min=0
//@sub /for block in blocks \{/ => let mut bi: usize = 0;\n        while bi < blocks.len() { let block = blocks[bi]; bi = bi + 1; min=1
//@sub /for block_value in block_values \{/ => for i__2 in 0..block_values.len() { let block_value = &block_values[i__2]; min=1
//@sub /for (\w+) in &mut (\w+)\[([^\]]*?)\.\.=([^\]]*)\] \{\s*\*\1 = ([^;}]*?);?\s*\}/ => fill_range_incl(&mut \2, \3, \4, \5); min=0
//@sub /for (\w+) in &mut (\w+)\[([^\]]*?)\.\.([^\]]*)\] \{\s*\*\1 = ([^;}]*?);?\s*\}/ => fill_range(&mut \2, \3, \4, \5); min=0
//@ret r
//@sig
    requires
        [[L: pre_range_not_inverted]]
        // `(end - start) as usize` is an unchecked u32 subtraction; no caller-side check exists (public API, see NOTES)
        start <= end,
    ensures
        [[L: searches_this_range_in_the_full_index]]
        r.is_ok() ==> final(self).q_at() == final(self).full_index() && final(self).q_chrom() == chrom_name@
            && final(self).q_start() == start && final(self).q_end() == end,
        [[L: every_found_block_is_decoded_for_this_chrom_and_range]]
        r.is_ok() ==> final(self).asked() == asks_for(final(self).found(), final(self).found().len() as int, file_chrom_id(chrom_name@), start, end),
        [[L: one_entry_per_base]]
        r matches Ok(out) ==> out@.len() == end - start,
        [[L: bases_without_data_are_nan]]
        // nan_ok: every base q with no_data(answers, start+q) holds f32_nan_c()
        r matches Ok(out) ==> nan_ok(out@, final(self).answers(), start),
        [[L: bases_with_data_hold_the_value]]
        r matches Ok(out) ==> (blocks_ascending(final(self).answers()) ==> painted(out@, final(self).answers(), final(self).answers().len() as int, start)),
        [[L: errors_propagate]]
        r.is_err() <==> (!chrom_known(chrom_name@) || final(self).fails() > old(self).fails()),
//@at /let mut bi: usize = 0;/ before
        proof { lemma_init(values@, start, end); } [[L: array_starts_all_nan]]
//@loop 1
            invariant
                [[L: blocks/frame]]
                start <= end, values@.len() == end - start, bi <= blocks@.len(),
                self.found() == blocks@, self.q_at() == self.full_index(), self.q_chrom() == chrom_name@,
                self.q_start() == start, self.q_end() == end, chrom == file_chrom_id(chrom_name@), chrom_known(chrom_name@),
                [[L: blocks/no_error_so_far]]
                self.fails() == old(self).fails(),
                [[L: blocks/asked_in_order]]
                self.asked() == asks_for(blocks@, bi as int, chrom, start, end),
                [[L: blocks/array_matches_answers_so_far]]
                // = answers clipped /\ NaN where no answer covers /\ (file sorted ==> covered bases hold their value)
                at_block_boundary(values@, self.answers(), start, end),
            decreases
                [[L: blocks/termination]]
                blocks@.len() - bi,
//@at /let block_values = get_block_values\(/ before
            let ghost a0 = self.answers();
            proof { lemma_boundary(values@, a0, start, end); }
//@at /let block_values = get_block_values\(/ after
            proof {
                assert(self.asked() =~= asks_for(blocks@, bi as int, chrom, start, end)); [[L: blocks/this_block_asked_with_chrom_and_range]]
            }
//@at /for i__2 in 0\.\.block_values\.len\(\)/ before
            let ghost a1 = self.answers();
            proof {
                lemma_enter_block(values@, a0, block_values@, start, end);
                assert(a1[a1.len() - 1] == block_values@);
            }
//@loop 2
                invariant
                    [[L: vals/frame]]
                    start <= end, values@.len() == end - start,
                    self.answers() == a1, a1.len() >= 1, a1[a1.len() - 1] == block_values@,
                    all_clipped(a1, start, end),
                    [[L: vals/rest_still_nan]]
                    nan_ok_n(values@, a1, a1.len() - 1, i__2 as int, start),
                    [[L: vals/earlier_blocks_not_overwritten]]
                    blocks_ascending(a1) ==> painted(values@, a1, a1.len() - 1, start),
                    [[L: vals/this_block_painted_so_far]]
                    this_painted(values@, block_values@, i__2 as int, start),
//@at /let block_value_start = / before
                let ghost vals_before = values@;
                proof {
                    assert(clipped_ordered(a1[a1.len() - 1], start, end));
                    assert(start <= block_values@[i__2 as int].start && block_values@[i__2 as int].end <= end); [[L: vals/offsets_cannot_underflow_and_stay_in_bounds]]
                }
//@at /fill_range(_incl)?\(/ after
                proof {
                    lemma_paint_value(vals_before, values@, a1, i__2 as int, start, end); [[L: vals/paints_exactly_the_bases_of_this_value]]
                }
//@at /^\s*Ok\(values\)\s*$/ before
        proof {
            lemma_boundary(values@, self.answers(), start, end);
            assert(self.asked() =~= asks_for(self.found(), self.found().len() as int, file_chrom_id(chrom_name@), start, end)); [[L: no_block_skipped]]
        }
//@end
}

} // verus!
fn main() {}
