// Staging buffer utils/file/tempfilebuffer.rs: TempFileBufferWriter::{update, write, flush, drop},
// TempFileBuffer::{switch, is_real_file_ready, len, await_real_file, expect_closed_write}.
// Property C12: the destination ends up holding exactly the bytes written, each once and in order,
// wherever the redirection (`switch`) lands relative to the writes and to the producer's drop, for
// in-memory and temp-file staging; the reported staged length equals the number of bytes written.
//
// Model (see NOTES.md): the two shared cells (`real_file`, `closed`) are handles (`Mailbox`, `Closed`)
// onto ghost tokens (`MbTok`, `ClTok`) that carry the cell contents.  Every access to a cell goes
// through one shim call that needs `&mut` on the token, so a verified method is a whole, sequential
// operation on the shared state.  The closed cell's token carries what the cell holds NOW (`None` until the
// producer has published: what a single `lock()` finds) and what it holds EVENTUALLY (once the producer has
// published: what the wait loop, `wait_closed`, hands out), so a consumer that looks once instead of waiting is
// a different program in the model and fails `.../the_cell_is_read_only_after_waiting_for_the_producer`.
// That the wait returns at all (wake-ups, deadlock-freedom) is NOT modelled.
use vstd::prelude::*;
verus! {

// =====================================================================================
// shims (R11 / R13): assumed contracts, kept as weak as is true of the real thing
// =====================================================================================
#[verifier::external_body]
#[derive(Debug)]
pub struct IoError { _p: u8 }
pub type IoResult<T> = Result<T, IoError>;

pub enum SeekFrom { Start(u64), End(i64), Current(i64) }

/// std::io::Write seen through a ghost `bytes()`: everything the sink has accepted so far.
/// Nothing is said about the sink after an `Err`.
pub trait Write: Sized {
    spec fn bytes(&self) -> Seq<u8>;
    fn write(&mut self, buf: &[u8]) -> (r: IoResult<usize>)
        ensures
            r matches Ok(n) ==> n <= buf@.len() && final(self).bytes() == old(self).bytes() + buf@.subrange(0, n as int),
    ;
    fn write_all(&mut self, buf: &[u8]) -> (r: IoResult<()>)
        ensures
            r is Ok ==> final(self).bytes() == old(self).bytes() + buf@,
    ;
    fn flush(&mut self) -> (r: IoResult<()>)
        ensures
            final(self).bytes() == old(self).bytes(),
    ;
}
/// `impl Write for Vec<u8>` of std (append everything, never fails) -- verified against the trait contract.
impl Write for Vec<u8> {
    open spec fn bytes(&self) -> Seq<u8> { self@ }
    fn write(&mut self, buf: &[u8]) -> (r: IoResult<usize>)
        ensures r == Ok::<usize, IoError>(buf@.len() as usize),
    {
        self.extend_from_slice(buf);
        proof { assert(buf@.subrange(0, buf@.len() as int) =~= buf@); }
        Ok(buf.len())
    }
    fn write_all(&mut self, buf: &[u8]) -> (r: IoResult<()>) { self.extend_from_slice(buf); Ok(()) }
    fn flush(&mut self) -> (r: IoResult<()>) { Ok(()) }
}
/// `.unwrap()` on an I/O result: panics on `Err` (that is the code's documented behaviour on the
/// consumer side), so if it returns the result was `Ok`.  The panic on I/O error is not an obligation.
#[verifier::external_body]
fn io_ok<T>(r: IoResult<T>) -> (v: T)
    ensures r == Ok::<T, IoError>(v),
{ match r { Ok(v) => v, Err(_) => panic!("i/o error") } }

/// std::fs::File used as an anonymous temp file: ghost `content()` and cursor `pos()`.
#[verifier::external_body]
pub struct VTemp { _p: u8 }
impl VTemp {
    pub uninterp spec fn content(&self) -> Seq<u8>;
    pub uninterp spec fn pos(&self) -> int;
    /// tempfile::tempfile()
    #[verifier::external_body]
    pub fn create() -> (r: IoResult<VTemp>)
        ensures r matches Ok(f) ==> f.content().len() == 0 && f.pos() == 0,
    { unimplemented!() }
    /// File::write with the cursor at the end appends a prefix of buf (other cursor positions: unspecified)
    #[verifier::external_body]
    pub fn write(&mut self, buf: &[u8]) -> (r: IoResult<usize>)
        ensures
            r matches Ok(n) ==> n <= buf@.len() && (old(self).pos() == old(self).content().len() ==>
                final(self).content() == old(self).content() + buf@.subrange(0, n as int)
                && final(self).pos() == old(self).pos() + n),
    { unimplemented!() }
    /// File::seek: never changes the content; Ok(p) => p is the new cursor
    #[verifier::external_body]
    pub fn seek(&mut self, to: SeekFrom) -> (r: IoResult<u64>)
        ensures
            final(self).content() == old(self).content(),
            r matches Ok(p) ==> p as int == final(self).pos() && (match to {
                SeekFrom::Start(n) => final(self).pos() == n as int,
                SeekFrom::Current(d) => final(self).pos() == old(self).pos() + d as int,
                SeekFrom::End(d) => final(self).pos() == old(self).content().len() + d as int,
            }),
    { unimplemented!() }
    #[verifier::external_body]
    pub fn flush(&mut self) -> (r: IoResult<()>)
        ensures final(self).content() == old(self).content(), final(self).pos() == old(self).pos(),
    { unimplemented!() }
    /// Seek::stream_position / Seek::rewind (not used by the code today; present so that an edit using them is judged)
    #[verifier::external_body]
    pub fn stream_position(&mut self) -> (r: IoResult<u64>)
        ensures final(self).content() == old(self).content(), final(self).pos() == old(self).pos(),
            r matches Ok(p) ==> p as int == old(self).pos(),
    { unimplemented!() }
    #[verifier::external_body]
    pub fn rewind(&mut self) -> (r: IoResult<()>)
        ensures final(self).content() == old(self).content(), r is Ok ==> final(self).pos() == 0,
    { unimplemented!() }
}
/// io::copy(&mut file, &mut dest): Ok => dest got everything from the file's cursor to its end, in order.
#[verifier::external_body]
fn copy_temp<W: Write>(f: &mut VTemp, d: &mut W) -> (r: IoResult<u64>)
    ensures
        final(f).content() == old(f).content(),
        r matches Ok(n) ==> (0 <= old(f).pos() <= old(f).content().len() ==>
            final(d).bytes() == old(d).bytes() + old(f).content().subrange(old(f).pos(), old(f).content().len() as int)
            && n as int == old(f).content().len() - old(f).pos()
            && final(f).pos() == old(f).content().len()),
{ unimplemented!() }
/// std::mem::replace, verified via mem::swap
fn mem_replace<T>(dest: &mut T, src: T) -> (r: T)
    ensures *final(dest) == src, r == *old(dest),
{ let mut s = src; std::mem::swap(dest, &mut s); s }

// ---- Arc<AtomicCell<Option<R>>>: handle + ghost token; ONE linearizable operation `swap` ----
#[verifier::external_body]
#[verifier::reject_recursive_types(R)]
pub struct Mailbox<R> { _p: core::marker::PhantomData<R> }
/// ghost state of the mailbox cell `id()`: what it holds and how often it has been accessed
#[verifier::external_body]
#[verifier::reject_recursive_types(R)]
pub tracked struct MbTok<R> { _p: core::marker::PhantomData<R> }
impl<R> MbTok<R> {
    pub uninterp spec fn id(&self) -> int;
    pub uninterp spec fn held(&self) -> Option<R>;
    pub uninterp spec fn ops(&self) -> nat;
}
impl<R> Mailbox<R> {
    pub uninterp spec fn id(&self) -> int;
    /// AtomicCell::swap
    #[verifier::external_body]
    pub fn swap1(&self, Tracked(t): Tracked<&mut MbTok<R>>, v: Option<R>) -> (r: Option<R>)
        requires
            old(t).id() == self.id(),
        ensures
            final(t).id() == old(t).id(),
            r == old(t).held(),
            final(t).held() == v,
            final(t).ops() == old(t).ops() + 1,
    { unimplemented!() }
}
// ---- Arc<(Mutex<Option<BufferState<R>>>, Condvar)>: handle + ghost token ----
#[verifier::external_body]
#[verifier::reject_recursive_types(R)]
pub struct Closed<R> { _p: core::marker::PhantomData<R> }
#[verifier::external_body]
#[verifier::reject_recursive_types(R)]
pub tracked struct ClTok<R> { _p: core::marker::PhantomData<R> }
/// Ghost state of the closed cell `id()`.  It carries TWO values, so that "waits for the producer" and
/// "looks once" are different things in the model:
///  * `now()`        what the cell holds at the moment of the call: `None` as long as the producer has
///                   not published (that is what a single `lock()` finds);
///  * `eventually()` what the cell holds once the producer has published (that is what the wait loop
///                   hands out).  `val()` of the contracts is this value.
/// `wf()`: a single look finds nothing, or exactly the published value.
impl<R> ClTok<R> {
    pub uninterp spec fn id(&self) -> int;
    pub uninterp spec fn now(&self) -> Option<BufferState<R>>;
    pub uninterp spec fn eventually(&self) -> Option<BufferState<R>>;
    pub uninterp spec fn locks(&self) -> nat;
    /// number of `notify_one`/`notify_all` calls made on the Condvar half so far: a consumer parked in the wait
    /// loop re-examines the cell only after such a call
    pub uninterp spec fn wakes(&self) -> nat;
    pub open spec fn val(&self) -> Option<BufferState<R>> { self.eventually() }
    pub open spec fn wf(&self) -> bool { self.now() is None || self.now() == self.eventually() }
    /// Ghost step for the drivers only (no repository code can call it): the consumer's call STARTED before
    /// the producer published.  A single look at that moment finds the cell empty; what a waiting consumer
    /// receives is unchanged.  The drivers list whole operations in the order in which they take effect;
    /// this step moves the start of the consumer's next call back before the publication.
    #[verifier::external_body]
    pub proof fn call_started_before_publication(tracked &mut self)
        ensures
            final(self).id() == old(self).id(),
            final(self).locks() == old(self).locks(),
            final(self).eventually() == old(self).eventually(),
            final(self).now() is None,
    { unimplemented!() }
}
impl<R> Closed<R> {
    pub uninterp spec fn id(&self) -> int;
    /// `cvar.notify_one()` / `notify_all()`: wakes a consumer parked in the wait loop; touches nothing else
    #[verifier::external_body]
    pub fn notify(&self, Tracked(t): Tracked<&mut ClTok<R>>)
        requires
            old(t).id() == self.id(),
        ensures
            final(t).id() == old(t).id(), final(t).now() == old(t).now(), final(t).eventually() == old(t).eventually(),
            final(t).locks() == old(t).locks(),
            final(t).wakes() == old(t).wakes() + 1,
    { unimplemented!() }
    /// lock.lock().unwrap(): exclusive access to what the cell holds NOW for the rest of the method; no
    /// waiting.  Whatever the method leaves in the cell is what it holds from then on, with one exception:
    /// a cell found empty and left empty still receives the producer's publication later.
    #[verifier::external_body]
    pub fn lock<'a>(&self, Tracked(t): Tracked<&'a mut ClTok<R>>) -> (g: &'a mut Option<BufferState<R>>)
        requires
            old(t).id() == self.id(),
        ensures
            *g == old(t).now(),
            final(t).now() == *final(g),
            final(t).eventually() == (if old(t).now() is None && *final(g) is None { old(t).eventually() } else { *final(g) }),
            final(t).id() == old(t).id(),
            final(t).locks() == old(t).locks() + 1,
            final(t).wakes() == old(t).wakes(),
    { unimplemented!() }
    /// R13: lock + `while closed.is_none() { closed = cvar.wait(closed).unwrap(); }`.  The loop exits only
    /// once the producer has published, so it hands out the value the cell holds THEN (`eventually()`),
    /// whatever a single look would have found at the moment of the call.  That it returns at all
    /// (wake-up, no deadlock) is NOT modelled: the precondition restricts the verification to cells that
    /// do get published.
    #[verifier::external_body]
    pub fn wait_closed<'a>(&self, Tracked(t): Tracked<&'a mut ClTok<R>>) -> (g: &'a mut Option<BufferState<R>>)
        requires
            old(t).id() == self.id(),
            old(t).eventually() is Some,
        ensures
            *g == old(t).eventually(),
            final(t).now() == *final(g),
            final(t).eventually() == *final(g),
            final(t).id() == old(t).id(),
            final(t).locks() == old(t).locks() + 1,
            final(t).wakes() == old(t).wakes(),
    { unimplemented!() }
}
/// The Condvar half of the pair as seen by a consumer method in which the R13 idiom was NOT recognised (the method
/// then goes through the plain `lock`): present so that an edit which waits differently (once, or on another
/// condition) is judged instead of rejected.  `Condvar::wait` gives the lock up and takes it again after a wake-up
/// that may be spurious; the guard then shows whatever the cell holds at that moment -- nothing is promised about it.
pub struct CvarView { }
#[derive(Debug)]
pub struct Poisoned { }
impl CvarView {
    #[verifier::external_body]
    pub fn wait<'a, T>(&self, g: &'a mut T) -> (r: Result<&'a mut T, Poisoned>)
        ensures
            r matches Ok(g2) && *final(g) == *final(g2),
    { unimplemented!() }
}
/// R6: panic!/unreachable! -- must be proved unreachable
#[verifier::external_body]
fn vpanic() -> !
    requires false,
{ panic!() }

// =====================================================================================
// the repository's types
// =====================================================================================
pub enum BufferState<R> {
    NotStarted,
    InMemory(Vec<u8>),
    Temp(VTemp),
    Real(R),
}

#[verifier::reject_recursive_types(R)]
pub struct TempFileBuffer<R> {
    pub closed: Closed<R>,
    pub real_file: Mailbox<R>,
}

#[verifier::reject_recursive_types(R)]
pub struct TempFileBufferWriter<R> {
    pub closed: Closed<R>,
    pub buffer_state: BufferState<R>,
    pub real_file: Mailbox<R>,
    pub inmemory: bool,
}

// =====================================================================================
// specification vocabulary (written from the property)
// =====================================================================================
/// ghost protocol state: `sw` = switch has been called; `d0` = destination contents at that moment;
/// `w` = all bytes accepted by `write` so far, in order.
pub ghost struct G { pub sw: bool, pub d0: Seq<u8>, pub w: Seq<u8> }

/// a staging state holds exactly `w` (temp file: content == w and the cursor is at the end)
pub open spec fn staging_ok<R>(st: BufferState<R>, w: Seq<u8>) -> bool {
    match st {
        BufferState::NotStarted => w.len() == 0,
        BufferState::InMemory(v) => v@ =~= w,
        BufferState::Temp(f) => f.content() =~= w && f.pos() == w.len(),
        BufferState::Real(_) => false,
    }
}
/// Invariant I over (producer state or published final state `st`, mailbox contents `held`, ghost g):
///  * staging: holds exactly g.w; the mailbox holds the destination iff switched, untouched (== d0);
///  * Real(d): d.bytes == d0 ++ w, switched, mailbox empty.
/// So the destination is in at most one place and no byte is duplicated or lost.
pub open spec fn proto<R: Write>(st: BufferState<R>, held: Option<R>, g: G) -> bool {
    match st {
        BufferState::Real(d) => g.sw && held is None && d.bytes() =~= g.d0 + g.w,
        _ => staging_ok(st, g.w) && (g.sw <==> held is Some) && (held matches Some(d) ==> d.bytes() =~= g.d0),
    }
}
/// same variant, same bytes, same cursor
pub open spec fn same_contents<R: Write>(a: BufferState<R>, b: BufferState<R>) -> bool {
    match (a, b) {
        (BufferState::NotStarted, BufferState::NotStarted) => true,
        (BufferState::InMemory(x), BufferState::InMemory(y)) => x@ =~= y@,
        (BufferState::Temp(f), BufferState::Temp(h)) => f.content() =~= h.content() && f.pos() == h.pos(),
        (BufferState::Real(d), BufferState::Real(e)) => d.bytes() =~= e.bytes(),
        _ => false,
    }
}
pub proof fn lemma_same_contents_keeps_proto<R: Write>(a: BufferState<R>, b: BufferState<R>, held: Option<R>, g: G)
    requires same_contents(a, b), proto(a, held, g),
    ensures proto(b, held, g),
{
}
pub open spec fn g_written(g: G, more: Seq<u8>) -> G { G { sw: g.sw, d0: g.d0, w: g.w + more } }
pub open spec fn g_switched(g: G, d0: Seq<u8>) -> G { G { sw: true, d0: d0, w: g.w } }

// =====================================================================================
// producer half
// =====================================================================================
impl<R: Write> TempFileBufferWriter<R> {

fn update(&mut self, Tracked(mb): Tracked<&mut MbTok<R>>, Ghost(g): Ghost<G>) -> (r: IoResult<()>)
    requires
        
        old(mb).id() == old(self).real_file.id(),
        proto(old(self).buffer_state, old(mb).held(), g),
    ensures
        
        final(self).closed == old(self).closed, final(self).real_file == old(self).real_file,
        final(self).inmemory == old(self).inmemory, final(mb).id() == old(mb).id(),
        
        final(mb).ops() == old(mb).ops() + (if old(self).buffer_state is Real { 0nat } else { 1nat }),
        
        r is Ok ==> proto(final(self).buffer_state, final(mb).held(), g),
        
        r is Ok ==> final(mb).held() is None,
        
        r is Ok ==> !(final(self).buffer_state is NotStarted),
        
        r is Ok && g.sw ==> (final(self).buffer_state matches BufferState::Real(d) && d.bytes() =~= g.d0 + g.w),
        
        r is Ok && !g.sw && old(self).buffer_state is NotStarted ==>
            (if old(self).inmemory { final(self).buffer_state is InMemory } else { final(self).buffer_state is Temp }),
        
        r is Ok && !g.sw && !(old(self).buffer_state is NotStarted) ==> final(self).buffer_state == old(self).buffer_state,
{
        match &mut self.buffer_state {
            BufferState::NotStarted => {
                let real_file = self.real_file.swap1(Tracked(mb),None).take();
                match real_file {
                    Some(new_file) => {
                        self.buffer_state = BufferState::Real(new_file);
                    }
                    None => {
                        if self.inmemory {
                            self.buffer_state =
                                BufferState::InMemory(Vec::with_capacity(10 * 1_000));
                        } else {
                            self.buffer_state = BufferState::Temp(VTemp::create()?);
                        }
                    }
                }
            }
            BufferState::InMemory(data) => {
                let real_file = self.real_file.swap1(Tracked(mb),None).take();
                if let Some(mut new_file) = real_file {
                    new_file.write_all(&data)?;
                    self.buffer_state = BufferState::Real(new_file);
                }
            }
            BufferState::Temp(ref mut file) => {
                let real_file = self.real_file.swap1(Tracked(mb),None).take();
                if let Some(mut new_file) = real_file {
                    file.seek(SeekFrom::Start(0))?;

                    copy_temp(file, &mut new_file)?;
                    self.buffer_state = BufferState::Real(new_file);
                }
            }
            BufferState::Real(_) => {}
        }
        Ok(())
    }

fn write(&mut self, buf: &[u8], Tracked(mb): Tracked<&mut MbTok<R>>, Ghost(g): Ghost<G>) -> (r: IoResult<usize>)
    requires
        
        old(mb).id() == old(self).real_file.id(),
        proto(old(self).buffer_state, old(mb).held(), g),
    ensures
        
        final(self).closed == old(self).closed, final(self).real_file == old(self).real_file,
        final(self).inmemory == old(self).inmemory, final(mb).id() == old(mb).id(),
        
        final(mb).ops() <= old(mb).ops() + 1,
        
        r matches Ok(n) ==> n <= buf@.len(),
        
        r matches Ok(n) ==> proto(final(self).buffer_state, final(mb).held(), g_written(g, buf@.subrange(0, n as int))),
        
        r is Ok ==> final(mb).held() is None,
        
        r is Ok ==> !(final(self).buffer_state is NotStarted),
        
        r is Ok && g.sw ==> final(self).buffer_state is Real,
{
        self.update(Tracked(mb), Ghost(g))?;
        loop 
            invariant
                
                proto(self.buffer_state, mb.held(), g),
                
                mb.held() is None,
                
                !(self.buffer_state is NotStarted),
                
                g.sw ==> self.buffer_state is Real,
                
                self.closed == old(self).closed, self.real_file == old(self).real_file,
                self.inmemory == old(self).inmemory, mb.id() == old(mb).id(),
                mb.ops() <= old(mb).ops() + 1,
            decreases
                
                0int,
{

            assert(!(self.buffer_state is NotStarted)); 
            match self.buffer_state {
                BufferState::NotStarted => vpanic(),
                BufferState::InMemory(ref mut data) => return data.write(buf),
                BufferState::Temp(ref mut file) => return file.write(buf),
                BufferState::Real(ref mut file) => return file.write(buf),
            }
        }
    }

fn flush(&mut self) -> (r: IoResult<()>)
    ensures
        
        final(self).closed == old(self).closed, final(self).real_file == old(self).real_file,
        final(self).inmemory == old(self).inmemory,
        
        same_contents(old(self).buffer_state, final(self).buffer_state),
{
        match self.buffer_state {
            BufferState::NotStarted => Ok(()), // No data has been written, nothing to flush
            BufferState::InMemory(_) => Ok(()), // All data is written immediately to vec
            BufferState::Temp(ref mut file) => file.flush(),
            BufferState::Real(ref mut file) => file.flush(),
        }
    }

fn drop(&mut self, Tracked(cl): Tracked<&mut ClTok<R>>)
    requires
        
        old(cl).id() == old(self).closed.id(),
    ensures
        
        final(self).closed == old(self).closed, final(self).real_file == old(self).real_file,
        final(self).inmemory == old(self).inmemory, final(cl).id() == old(cl).id(),
        
        final(cl).val() == Some(old(self).buffer_state),
        
        final(cl).now() == final(cl).val(),
        
        final(cl).locks() == old(cl).locks() + 1,
        
        final(cl).wakes() >= old(cl).wakes() + 1,
        
        final(self).buffer_state is NotStarted,
{
        let closed = self.closed.lock(Tracked(cl));
        let buffer_state = mem_replace(&mut self.buffer_state, BufferState::NotStarted);
        *closed = Some(buffer_state);
        self.closed.notify(Tracked(cl));
    }

} // impl TempFileBufferWriter

// =====================================================================================
// consumer half
// =====================================================================================
impl<R: Write> TempFileBuffer<R> {

pub fn switch(&mut self, new_file: R, Tracked(mb): Tracked<&mut MbTok<R>>, Ghost(st): Ghost<BufferState<R>>, Ghost(g): Ghost<G>)
    requires
        
        old(mb).id() == old(self).real_file.id(),
        proto(st, old(mb).held(), g),
        !g.sw,
    ensures
        
        *final(self) == *old(self), final(mb).id() == old(mb).id(),
        
        final(mb).ops() == old(mb).ops() + 1,
        
        final(mb).held() == Some(new_file),
        
        proto(st, final(mb).held(), g_switched(g, new_file.bytes())),
{
        if self.real_file.swap1(Tracked(mb),Some(new_file)).is_some() {

            assert(false); 
            vpanic();
        }
    }

pub fn is_real_file_ready(&self, Tracked(cl): Tracked<&mut ClTok<R>>) -> (r: bool)
    requires
        
        old(cl).id() == self.closed.id(),
        old(cl).wf(),
    ensures
        
        r == (old(cl).now() is Some),
        
        final(cl).now() == old(cl).now(), final(cl).val() == old(cl).val(),
        
        final(cl).id() == old(cl).id(), final(cl).locks() == old(cl).locks() + 1,
{
        let closed = self.closed.lock(Tracked(cl));

        closed.is_some()
    }

pub fn len(&self, Tracked(cl): Tracked<&mut ClTok<R>>, Ghost(w): Ghost<Seq<u8>>) -> (r: IoResult<u64>)
    requires
        
        old(cl).id() == self.closed.id(),
        old(cl).val() matches Some(st) && !(st is Real) && staging_ok(st, w),
        old(cl).wf(),
    ensures
        
        r matches Ok(n) ==> n as int == w.len(),
        
        r is Ok ==> (final(cl).val() matches Some(st2) && same_contents(old(cl).val().unwrap(), st2)),
        
        final(cl).now() == final(cl).val(),
        
        final(cl).id() == old(cl).id(), final(cl).locks() == old(cl).locks() + 1,
{
        let mut closed = self.closed.wait_closed(Tracked(cl));

        assert(*closed is Some); 
        assert(*closed matches Some(st) && !(st is Real)); 
        let closed = closed.as_mut();

        match closed.unwrap() {
            BufferState::Real(_) => vpanic(),
            BufferState::InMemory(data) => Ok(data.len() as u64),
            BufferState::Temp(ref mut t) => t.seek(SeekFrom::Current(0)),
            BufferState::NotStarted => Ok(0),
        }
    }

pub fn await_real_file(self, Tracked(mb): Tracked<&mut MbTok<R>>, Tracked(cl): Tracked<&mut ClTok<R>>, Ghost(g): Ghost<G>) -> (d: R)
    requires
        
        old(mb).id() == self.real_file.id(),
        old(cl).id() == self.closed.id(),
        old(cl).val() matches Some(st) && proto(st, old(mb).held(), g),
        old(cl).wf(),
        g.sw,
    ensures
        
        d.bytes() =~= g.d0 + g.w,
        
        final(mb).held() is None,
        
        final(cl).val() is None, final(cl).now() is None,
        
        final(mb).id() == old(mb).id(), final(cl).id() == old(cl).id(),
        
        final(mb).ops() == old(mb).ops() + 1, final(cl).locks() == old(cl).locks() + 1,
{
        let mut closed = self.closed.wait_closed(Tracked(cl));

        assert(*closed is Some); 
        let closed = closed.take().unwrap();

        let real_file = self.real_file.swap1(Tracked(mb),None);


        assert(!(real_file is Some && closed is Real)); 
        assert(real_file is Some || closed is Real); 
        match (real_file, closed) {
            (Some(mut real_file), BufferState::InMemory(data)) => {
                // Switch was called but no writes have happened
                // Writer was dropped with data having been written
                io_ok(real_file.write_all(&data));
                real_file
            }
            (Some(mut real_file), BufferState::Temp(mut closed_file)) => {
                // Switch was called but no writes have happened
                // Writer was dropped with temp file having been written
                io_ok(closed_file.seek(SeekFrom::Start(0)));
                io_ok(copy_temp(&mut closed_file, &mut real_file));
                real_file
            }
            (Some(_), BufferState::Real(_)) => vpanic(),
            (Some(real_file), BufferState::NotStarted) => {
                // Switch was called but no writes have happened
                // Writer was dropped with no tempfile being created (or written to)
                real_file
            }
            (None, BufferState::Real(real_file)) => real_file,
            (None, BufferState::InMemory(_) | BufferState::Temp(_) | BufferState::NotStarted) => {
                vpanic()
            }
        }
    }

pub fn expect_closed_write<O>(self, mut real_: &mut O, Tracked(mb): Tracked<&mut MbTok<R>>, Tracked(cl): Tracked<&mut ClTok<R>>, Ghost(g): Ghost<G>) -> (r: IoResult<()>) where
        O: Write,
    requires
        
        old(mb).id() == self.real_file.id(),
        old(cl).id() == self.closed.id(),
        old(cl).val() matches Some(st) && proto(st, old(mb).held(), g),
        old(cl).wf(),
        !g.sw,
    ensures
        
        r is Ok ==> final(real_).bytes() =~= old(real_).bytes() + g.w,
        
        final(mb).held() is None,
        
        final(cl).val() is None, final(cl).now() is None,
        
        final(mb).id() == old(mb).id(), final(cl).id() == old(cl).id(),
        
        final(mb).ops() == old(mb).ops() + 1, final(cl).locks() == old(cl).locks() + 1,
{
        let mut closed_ = self.closed.wait_closed(Tracked(cl));

        assert(*closed_ is Some); 
        let closed_ = closed_.take().unwrap();

        let real_file = self.real_file.swap1(Tracked(mb),None);

        assert(real_file is None); 
        assert(real_file.is_none());


        assert(!(closed_ is Real)); 
        match closed_ {
            BufferState::Temp(mut closed_file) => {
                closed_file.seek(SeekFrom::Start(0))?;
                copy_temp(&mut closed_file, real_)?;
            }
            BufferState::InMemory(data) => {
                real_.write_all(&data)?;
            }
            BufferState::NotStarted => {}
            BufferState::Real(_) => vpanic(),
        }
        Ok(())
    }

} // impl TempFileBuffer

// =====================================================================================
// C12 over every order of whole operations.
// The drivers below call the extracted methods above (nothing is re-implemented) with symbolic
// staging kind (`inmemory`), symbolic write contents, symbolic number of writes and a symbolic
// position `k` of the switch; Verus checks them against the callee contracts for ALL such values.
// The loops are the induction over the producer's history.
// =====================================================================================
/// concatenation of the accepted chunks
pub open spec fn flat(a: Seq<Seq<u8>>) -> Seq<u8>
    decreases a.len(),
{
    if a.len() == 0 { Seq::empty() } else { flat(a.drop_last()) + a.last() }
}
pub proof fn lemma_flat_push(a: Seq<Seq<u8>>, x: Seq<u8>)
    ensures flat(a.push(x)) =~= flat(a) + x,
{
    assert(a.push(x).drop_last() =~= a);
}
/// `acc[i]` is the prefix of `writes[i]` that the i-th `write` call accepted
pub open spec fn accepted(acc: Seq<Seq<u8>>, writes: Seq<Vec<u8>>) -> bool {
    &&& acc.len() <= writes.len()
    &&& forall|i: int| 0 <= i < acc.len() ==> (#[trigger] acc[i]).len() <= writes[i]@.len() && acc[i] =~= writes[i]@.subrange(0, acc[i].len() as int)
}
/// what TempFileBuffer::new(inmemory) returns: both halves are handles on the same two cells,
/// nothing staged, mailbox empty, nothing published.  (`new` itself is not extracted: Arc/clone.)
pub open spec fn fresh_pair<R: Write>(b: TempFileBuffer<R>, wr: TempFileBufferWriter<R>, mb: MbTok<R>, cl: ClTok<R>) -> bool {
    &&& b.real_file.id() == mb.id() && wr.real_file.id() == mb.id()
    &&& b.closed.id() == cl.id() && wr.closed.id() == cl.id()
    &&& wr.buffer_state is NotStarted
    &&& mb.held() is None
    &&& cl.now() is None
}

/// producer history segment: write(writes[lo]), .., write(writes[hi-1])
fn write_phase<R: Write>(writer: &mut TempFileBufferWriter<R>, writes: &Vec<Vec<u8>>, lo: usize, hi: usize,
        Tracked(mb): Tracked<&mut MbTok<R>>, Ghost(g): Ghost<G>, Ghost(acc): Ghost<Seq<Seq<u8>>>) -> (r: IoResult<Ghost<Seq<Seq<u8>>>>)
    requires
        lo <= hi <= writes@.len(),
        old(mb).id() == old(writer).real_file.id(),
        proto(old(writer).buffer_state, old(mb).held(), g),
        acc.len() == lo, accepted(acc, writes@), g.w =~= flat(acc),
    ensures
        final(writer).closed == old(writer).closed, final(writer).real_file == old(writer).real_file,
        final(writer).inmemory == old(writer).inmemory, final(mb).id() == old(mb).id(),
        
        r matches Ok(a2) ==> a2@.len() == hi && accepted(a2@, writes@),
        
        r matches Ok(a2) ==> proto(final(writer).buffer_state, final(mb).held(), G { sw: g.sw, d0: g.d0, w: flat(a2@) }),
        
        final(mb).ops() <= old(mb).ops() + (hi - lo),
{
    let mut i = lo;
    let ghost mut a = acc;
    while i < hi
        invariant
            lo <= i <= hi <= writes@.len(),
            mb.id() == writer.real_file.id(),
            writer.closed == old(writer).closed, writer.real_file == old(writer).real_file,
            writer.inmemory == old(writer).inmemory, mb.id() == old(mb).id(),
            a.len() == i, accepted(a, writes@),
            proto(writer.buffer_state, mb.held(), G { sw: g.sw, d0: g.d0, w: flat(a) }),
            mb.ops() <= old(mb).ops() + (i - lo),
        decreases
            
            hi - i,
    {
        let ghost gi = G { sw: g.sw, d0: g.d0, w: flat(a) };
        let n = writer.write(writes[i].as_slice(), Tracked(mb), Ghost(gi))?;
        proof {
            let chunk = writes@[i as int]@.subrange(0, n as int);
            lemma_flat_push(a, chunk);
            let a2 = a.push(chunk);
            assert forall|j: int| 0 <= j < a2.len() implies (#[trigger] a2[j]).len() <= writes@[j]@.len() && a2[j] =~= writes@[j]@.subrange(0, a2[j].len() as int) by {
                if j < a.len() { assert(a2[j] == a[j]); }
            }
            a = a2;
        }
        i += 1;
    }
    Ok(Ghost(a))
}

/// ORDER 1: k writes; switch; the remaining writes; flush; drop; await_real_file.
/// k == 0: switch before the first write.  0 < k < n: between two writes.  k == n: after the
/// last write, before the drop.  Both staging kinds (writer.inmemory is symbolic).
fn driver_switch_at_k<R: Write>(buffer: TempFileBuffer<R>, writer: TempFileBufferWriter<R>, dest: R, writes: &Vec<Vec<u8>>, k: usize,
        Tracked(mb): Tracked<MbTok<R>>, Tracked(cl): Tracked<ClTok<R>>) -> (r: IoResult<(R, Ghost<Seq<Seq<u8>>>)>)
    requires
        fresh_pair(buffer, writer, mb, cl),
        k <= writes@.len(),
    ensures
        
        r matches Ok(p) ==> p.1@.len() == writes@.len() && accepted(p.1@, writes@),
        
        r matches Ok(p) ==> p.0.bytes() =~= dest.bytes() + flat(p.1@),
{
    let mut buffer = buffer;
    let mut writer = writer;
    let tracked mut mb = mb;
    let tracked mut cl = cl;
    let ghost d0 = dest.bytes();
    let ghost g0 = G { sw: false, d0: Seq::<u8>::empty(), w: Seq::<u8>::empty() };
    let a1 = write_phase(&mut writer, writes, 0, k, Tracked(&mut mb), Ghost(g0), Ghost(Seq::<Seq<u8>>::empty()))?;
    let ghost g1 = G { sw: false, d0: Seq::<u8>::empty(), w: flat(a1@) };
    buffer.switch(dest, Tracked(&mut mb), Ghost(writer.buffer_state), Ghost(g1));
    let ghost g2 = g_switched(g1, d0);
    let a2 = write_phase(&mut writer, writes, k, writes.len(), Tracked(&mut mb), Ghost(g2), Ghost(a1@))?;
    let ghost g3 = G { sw: true, d0: d0, w: flat(a2@) };
    let ghost before_flush = writer.buffer_state;
    let fl = writer.flush();
    proof { lemma_same_contents_keeps_proto(before_flush, writer.buffer_state, mb.held(), g3); }
    writer.drop(Tracked(&mut cl));
    let d = buffer.await_real_file(Tracked(&mut mb), Tracked(&mut cl), Ghost(g3));
    Ok((d, a2))
}

/// ORDER 2: all writes; drop; switch; await_real_file  (redirection after the producer finished).
fn driver_switch_after_drop<R: Write>(buffer: TempFileBuffer<R>, writer: TempFileBufferWriter<R>, dest: R, writes: &Vec<Vec<u8>>,
        Tracked(mb): Tracked<MbTok<R>>, Tracked(cl): Tracked<ClTok<R>>) -> (r: IoResult<(R, Ghost<Seq<Seq<u8>>>)>)
    requires
        fresh_pair(buffer, writer, mb, cl),
    ensures
        
        r matches Ok(p) ==> p.1@.len() == writes@.len() && accepted(p.1@, writes@),
        
        r matches Ok(p) ==> p.0.bytes() =~= dest.bytes() + flat(p.1@),
{
    let mut buffer = buffer;
    let mut writer = writer;
    let tracked mut mb = mb;
    let tracked mut cl = cl;
    let ghost d0 = dest.bytes();
    let ghost g0 = G { sw: false, d0: Seq::<u8>::empty(), w: Seq::<u8>::empty() };
    let a1 = write_phase(&mut writer, writes, 0, writes.len(), Tracked(&mut mb), Ghost(g0), Ghost(Seq::<Seq<u8>>::empty()))?;
    let ghost g1 = G { sw: false, d0: Seq::<u8>::empty(), w: flat(a1@) };
    let ghost last = writer.buffer_state;
    writer.drop(Tracked(&mut cl));
    let ready = buffer.is_real_file_ready(Tracked(&mut cl));
    assert(ready); 
    buffer.switch(dest, Tracked(&mut mb), Ghost(last), Ghost(g1));
    let d = buffer.await_real_file(Tracked(&mut mb), Tracked(&mut cl), Ghost(g_switched(g1, d0)));
    Ok((d, a1))
}

/// ORDER 3: all writes; drop; len; expect_closed_write(out)  (never switched).
fn driver_never_switched<R: Write, O: Write>(buffer: TempFileBuffer<R>, writer: TempFileBufferWriter<R>, out: &mut O, writes: &Vec<Vec<u8>>,
        Tracked(mb): Tracked<MbTok<R>>, Tracked(cl): Tracked<ClTok<R>>) -> (r: IoResult<(u64, Ghost<Seq<Seq<u8>>>)>)
    requires
        fresh_pair(buffer, writer, mb, cl),
    ensures
        
        r matches Ok(p) ==> p.1@.len() == writes@.len() && accepted(p.1@, writes@),
        
        r matches Ok(p) ==> final(out).bytes() =~= old(out).bytes() + flat(p.1@),
        
        r matches Ok(p) ==> p.0 as int == flat(p.1@).len(),
{
    let mut writer = writer;
    let tracked mut mb = mb;
    let tracked mut cl = cl;
    let ghost g0 = G { sw: false, d0: Seq::<u8>::empty(), w: Seq::<u8>::empty() };
    let a1 = write_phase(&mut writer, writes, 0, writes.len(), Tracked(&mut mb), Ghost(g0), Ghost(Seq::<Seq<u8>>::empty()))?;
    let ghost g1 = G { sw: false, d0: Seq::<u8>::empty(), w: flat(a1@) };
    let ghost last = writer.buffer_state;
    writer.drop(Tracked(&mut cl));
    let n = buffer.len(Tracked(&mut cl), Ghost(g1.w))?;
    proof { lemma_same_contents_keeps_proto(last, cl.val().unwrap(), mb.held(), g1); }
    buffer.expect_closed_write(out, Tracked(&mut mb), Tracked(&mut cl), Ghost(g1))?;
    Ok((n, a1))
}

/// ORDER 4: the consumer's finishing call STARTS before the producer is done (that is what the waiting is for).
/// Whole operations in the order in which they take effect: the writes (with the switch after the k-th, or never),
/// the drop, the consumer's finish -- but the consumer made its call before the publication
/// (`call_started_before_publication`): a single look at that moment finds the cell empty (the poll says "not ready"),
/// and still the result is the same as in orders 1 and 3, because the consumer methods take the cell's contents from
/// `wait_closed`, which hands out what the cell holds once the producer has published.  This is the place where the
/// blocking assumption R13 is used.
fn driver_consumer_arrives_early<R: Write, O: Write>(buffer: TempFileBuffer<R>, writer: TempFileBufferWriter<R>, dest: R, out: &mut O,
        writes: &Vec<Vec<u8>>, switch_at: Option<usize>, ask_len: bool, Tracked(mb): Tracked<MbTok<R>>, Tracked(cl): Tracked<ClTok<R>>)
        -> (r: IoResult<(Option<R>, Ghost<Seq<Seq<u8>>>)>)
    requires
        fresh_pair(buffer, writer, mb, cl),
        switch_at matches Some(k) ==> k <= writes@.len(),
    ensures
        
        r matches Ok(p) ==> p.1@.len() == writes@.len() && accepted(p.1@, writes@),
        
        r matches Ok(p) ==> (switch_at is Some ==> (p.0 matches Some(d) && d.bytes() =~= dest.bytes() + flat(p.1@))),
        
        r matches Ok(p) ==> (switch_at is Some ==> final(out).bytes() =~= old(out).bytes()),
        
        r matches Ok(p) ==> (switch_at is None ==> (p.0 is None && final(out).bytes() =~= old(out).bytes() + flat(p.1@))),
{
    let mut buffer = buffer;
    let mut writer = writer;
    let tracked mut mb = mb;
    let tracked mut cl = cl;
    let ghost d0 = dest.bytes();
    let ghost g0 = G { sw: false, d0: Seq::<u8>::empty(), w: Seq::<u8>::empty() };
    match switch_at {
        Some(k) => {
            let a1 = write_phase(&mut writer, writes, 0, k, Tracked(&mut mb), Ghost(g0), Ghost(Seq::<Seq<u8>>::empty()))?;
            let ghost g1 = G { sw: false, d0: Seq::<u8>::empty(), w: flat(a1@) };
            buffer.switch(dest, Tracked(&mut mb), Ghost(writer.buffer_state), Ghost(g1));
            let ghost g2 = g_switched(g1, d0);
            let a2 = write_phase(&mut writer, writes, k, writes.len(), Tracked(&mut mb), Ghost(g2), Ghost(a1@))?;
            let ghost g3 = G { sw: true, d0: d0, w: flat(a2@) };
            writer.drop(Tracked(&mut cl));
            proof { cl.call_started_before_publication(); }
            let ready = buffer.is_real_file_ready(Tracked(&mut cl));
            assert(!ready); 
            let d = buffer.await_real_file(Tracked(&mut mb), Tracked(&mut cl), Ghost(g3));
            Ok((Some(d), a2))
        }
        None => {
            let a1 = write_phase(&mut writer, writes, 0, writes.len(), Tracked(&mut mb), Ghost(g0), Ghost(Seq::<Seq<u8>>::empty()))?;
            let ghost g1 = G { sw: false, d0: Seq::<u8>::empty(), w: flat(a1@) };
            let ghost last = writer.buffer_state;
            writer.drop(Tracked(&mut cl));
            proof { cl.call_started_before_publication(); }
            let ready = buffer.is_real_file_ready(Tracked(&mut cl));
            assert(!ready); 
            if ask_len {
                let n = buffer.len(Tracked(&mut cl), Ghost(g1.w))?;
                assert(n as int == flat(a1@).len()); 
                let ready2 = buffer.is_real_file_ready(Tracked(&mut cl));
                assert(ready2); 
                proof { lemma_same_contents_keeps_proto(last, cl.val().unwrap(), mb.held(), g1); }
            }
            buffer.expect_closed_write(out, Tracked(&mut mb), Tracked(&mut cl), Ghost(g1))?;
            Ok((None, a1))
        }
    }
}

/// ORDER *: every schedule of whole operations.  While the producer is alive the two threads perform,
/// in any order and any number, `write(buf)` and `flush()` (producer) and `is_real_file_ready()` and
/// `switch(dest)` (consumer; the first `Switch` in the schedule is the redirection, later ones are
/// skipped = "switch is called at most once").  Then the producer drops.  If the schedule contained no
/// switch the consumer may still switch now (`late_switch`).  Finally the consumer finishes with
/// `await_real_file` (switched) or `len` + `expect_closed_write(out)` (never switched); with `arrives_early` that
/// finishing call started before the publication (see ORDER 4).
pub enum Op { Write(Vec<u8>), Flush, Poll, Switch }

/// the buffers of the Write operations of a schedule, in order
pub open spec fn wbufs(ops: Seq<Op>) -> Seq<Seq<u8>>
    decreases ops.len(),
{
    if ops.len() == 0 { Seq::empty() } else {
        match ops.last() { Op::Write(b) => wbufs(ops.drop_last()).push(b@), _ => wbufs(ops.drop_last()) }
    }
}
pub open spec fn has_switch(ops: Seq<Op>) -> bool
    decreases ops.len(),
{
    if ops.len() == 0 { false } else { ops.last() is Switch || has_switch(ops.drop_last()) }
}
/// acc[i] is a prefix of bufs[i], one chunk per write
pub open spec fn accepted_seq(acc: Seq<Seq<u8>>, bufs: Seq<Seq<u8>>) -> bool {
    &&& acc.len() == bufs.len()
    &&& forall|i: int| 0 <= i < acc.len() ==> (#[trigger] acc[i]).len() <= bufs[i].len() && acc[i] =~= bufs[i].subrange(0, acc[i].len() as int)
}
pub proof fn lemma_accepted_push(acc: Seq<Seq<u8>>, bufs: Seq<Seq<u8>>, b: Seq<u8>, n: int)
    requires accepted_seq(acc, bufs), 0 <= n <= b.len(),
    ensures accepted_seq(acc.push(b.subrange(0, n)), bufs.push(b)),
{
    let a2 = acc.push(b.subrange(0, n));
    let b2 = bufs.push(b);
    assert forall|i: int| 0 <= i < a2.len() implies (#[trigger] a2[i]).len() <= b2[i].len() && a2[i] =~= b2[i].subrange(0, a2[i].len() as int) by {
        if i < acc.len() { assert(a2[i] == acc[i]); assert(b2[i] == bufs[i]); }
    }
}

fn driver_any_schedule<R: Write, O: Write>(buffer: TempFileBuffer<R>, writer: TempFileBufferWriter<R>, dest: R, out: &mut O,
        ops: &Vec<Op>, late_switch: bool, arrives_early: bool, Tracked(mb): Tracked<MbTok<R>>, Tracked(cl): Tracked<ClTok<R>>)
        -> (r: IoResult<(Option<R>, Ghost<Seq<Seq<u8>>>)>)
    requires
        fresh_pair(buffer, writer, mb, cl),
    ensures
        
        r matches Ok(p) ==> accepted_seq(p.1@, wbufs(ops@)),
        
        r matches Ok(p) ==> (has_switch(ops@) || late_switch) ==>
            (p.0 matches Some(d) && d.bytes() =~= dest.bytes() + flat(p.1@)),
        
        r matches Ok(p) ==> (has_switch(ops@) || late_switch) ==> final(out).bytes() =~= old(out).bytes(),
        
        r matches Ok(p) ==> !(has_switch(ops@) || late_switch) ==>
            (p.0 is None && final(out).bytes() =~= old(out).bytes() + flat(p.1@)),
{
    let mut buffer = buffer;
    let mut writer = writer;
    let tracked mut mb = mb;
    let tracked mut cl = cl;
    let mut pending: Option<R> = Some(dest);
    let ghost d0 = dest.bytes();
    let ghost mut g = G { sw: false, d0: Seq::<u8>::empty(), w: Seq::<u8>::empty() };
    let ghost mut acc = Seq::<Seq<u8>>::empty();
    let mut i: usize = 0;
    while i < ops.len()
        invariant
            i <= ops@.len(),
            buffer.real_file.id() == mb.id() && writer.real_file.id() == mb.id(),
            buffer.closed.id() == cl.id() && writer.closed.id() == cl.id(),
            
            cl.now() is None,
            
            proto(writer.buffer_state, mb.held(), g),
            g.w =~= flat(acc),
            accepted_seq(acc, wbufs(ops@.subrange(0, i as int))),
            g.sw == has_switch(ops@.subrange(0, i as int)),
            g.sw ==> pending is None && g.d0 =~= d0,
            !g.sw ==> pending == Some(dest),
            d0 =~= dest.bytes(),
            out.bytes() =~= old(out).bytes(),
        decreases
            
            ops@.len() - i,
    {
        proof {
            let s1 = ops@.subrange(0, i as int + 1);
            assert(s1.drop_last() =~= ops@.subrange(0, i as int));
            assert(s1.last() == ops@[i as int]);
        }
        match &ops[i] {
            Op::Write(b) => {
                let n = writer.write(b.as_slice(), Tracked(&mut mb), Ghost(g))?;
                proof {
                    let chunk = b@.subrange(0, n as int);
                    lemma_flat_push(acc, chunk);
                    lemma_accepted_push(acc, wbufs(ops@.subrange(0, i as int)), b@, n as int);
                    acc = acc.push(chunk);
                    g = g_written(g, chunk);
                }
            }
            Op::Flush => {
                let ghost before = writer.buffer_state;
                writer.flush()?;
                proof { lemma_same_contents_keeps_proto(before, writer.buffer_state, mb.held(), g); }
            }
            Op::Poll => {
                let ready = buffer.is_real_file_ready(Tracked(&mut cl));
                assert(!ready); 
            }
            Op::Switch => {
                match pending.take() {
                    Some(d) => {
                        buffer.switch(d, Tracked(&mut mb), Ghost(writer.buffer_state), Ghost(g));
                        proof { g = g_switched(g, d0); }
                    }
                    None => {}
                }
            }
        }
        i += 1;
    }
    proof { assert(ops@.subrange(0, ops@.len() as int) =~= ops@); }
    let ghost last = writer.buffer_state;
    writer.drop(Tracked(&mut cl));
    let ready = buffer.is_real_file_ready(Tracked(&mut cl));
    assert(ready); 
    if late_switch {
        match pending.take() {
            Some(d) => {
                buffer.switch(d, Tracked(&mut mb), Ghost(last), Ghost(g));
                proof { g = g_switched(g, d0); }
            }
            None => {}
        }
    }
    if arrives_early {
        proof { cl.call_started_before_publication(); }
        let ready = buffer.is_real_file_ready(Tracked(&mut cl));
        assert(!ready); 
    }
    match pending {
        Some(_dest_never_handed_over) => {
            let n = buffer.len(Tracked(&mut cl), Ghost(g.w))?;
            assert(n as int == flat(acc).len()); 
            proof { lemma_same_contents_keeps_proto(last, cl.val().unwrap(), mb.held(), g); }
            buffer.expect_closed_write(out, Tracked(&mut mb), Tracked(&mut cl), Ghost(g))?;
            Ok((None, Ghost(acc)))
        }
        None => {
            let d = buffer.await_real_file(Tracked(&mut mb), Tracked(&mut cl), Ghost(g));
            Ok((Some(d), Ghost(acc)))
        }
    }
}

} // verus!
fn main() {}

