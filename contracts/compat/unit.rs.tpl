//@unit compat
//@serves C16
//@backend verus
// utils/cli.rs: the UCSC-compatibility front end that every binary puts between `std::env::args_os()` and clap.
//   compat_arg_mut(arg)   one argument: UCSC spelling -> native spelling (macro `compat_replace_mut!`, three tables)
//   compat_args(args)     the argument vector: finds the command (multicall `bigtools <sub>` or the binary's own name),
//                         bigwigmerge Kent-style positional call -> `-b`/`-l` pairs, compat_arg_mut on every argument of
//                         the listed tools
//   C16: "... This holds for any thread count, parallel mode and pass mode and WHETHER NATIVE OR UCSC-STYLE FLAGS ARE
//         USED ..." (quantifier: "... and the UCSC spellings (-unc, -blockSize=, -chrom=, -start=, -end=)")
// The three TABLES of the macro invocation are real text (cut from /repo on every run, turned into match arms by regex
// over the invocation's own text); the ARM SHAPE the macro body prescribes is re-stated in the replacement texts of the
// presubs of block (A) and pinned by the exact-text anchor of block (A0).  See NOTES.md.
use vstd::prelude::*;
verus! {

// =====================================================================================
// text vocabulary (all DEFINED over Seq<char>, nothing axiomatised)
// =====================================================================================
/// `s.starts_with(p)`: p is no longer than s and s agrees with p on every character of p
pub open spec fn has_prefix(s: Seq<char>, p: Seq<char>) -> bool {
    p.len() <= s.len() && forall|i: int| #![trigger s[i]] #![trigger p[i]] 0 <= i < p.len() ==> s[i] == p[i]
}
/// `s.ends_with(p)`
pub open spec fn has_suffix(s: Seq<char>, p: Seq<char>) -> bool {
    p.len() <= s.len() && s.subrange(s.len() - p.len(), s.len() as int) == p
}
/// f occurs in s at index i
pub open spec fn occurs_at(s: Seq<char>, f: Seq<char>, i: int) -> bool {
    0 <= i && i + f.len() <= s.len() && s.subrange(i, i + f.len()) == f
}
/// `s.contains(f)`
pub open spec fn contains(s: Seq<char>, f: Seq<char>) -> bool { exists|i: int| occurs_at(s, f, i) }
/// `str::replace` with the EMPTY pattern (std inserts `r` around every character): never used here, left open
pub uninterp spec fn replace_empty_pattern(s: Seq<char>, r: Seq<char>) -> Seq<char>;
/// `str::replace(f, r)` (REAL std contract, DEFINED): ALL non-overlapping occurrences of f, found left to right, are
/// replaced by r; everything else is copied.  Opaque, so that a false goal fails instead of unfolding.
#[verifier::opaque]
pub open spec fn str_replace(s: Seq<char>, f: Seq<char>, r: Seq<char>) -> Seq<char>
    decreases s.len()
{
    if f.len() == 0 { replace_empty_pattern(s, r) }
    else if s.len() < f.len() { s }
    else if has_prefix(s, f) { r + str_replace(s.subrange(f.len() as int, s.len() as int), f, r) }
    else { seq![s[0]] + str_replace(s.subrange(1, s.len() as int), f, r) }
}
/// a text without the pattern is copied
proof fn lemma_replace_absent(s: Seq<char>, f: Seq<char>, r: Seq<char>)
    requires f.len() > 0, !contains(s, f),
    ensures str_replace(s, f, r) == s,
    decreases s.len()
{
    reveal(str_replace);
    if s.len() >= f.len() {
        assert(!has_prefix(s, f)) by { if has_prefix(s, f) { assert(s.subrange(0, f.len() as int) =~= f); assert(occurs_at(s, f, 0)); } }
        let t = s.subrange(1, s.len() as int);
        assert(!contains(t, f)) by {
            if contains(t, f) {
                let i = choose|i: int| occurs_at(t, f, i);
                assert(t.subrange(i, i + f.len()) =~= s.subrange(i + 1, i + 1 + f.len()));
                assert(occurs_at(s, f, i + 1));
            }
        }
        lemma_replace_absent(t, f, r);
        assert(seq![s[0]] + t =~= s);
    }
}
/// pattern at the front and nowhere in the rest: the front is replaced, the rest is copied
proof fn lemma_replace_leading_once(f: Seq<char>, rest: Seq<char>, r: Seq<char>)
    requires f.len() > 0, !contains(rest, f),
    ensures str_replace(f + rest, f, r) == r + rest,
{
    reveal(str_replace);
    let s = f + rest;
    assert(s.subrange(0, f.len() as int) =~= f);
    assert(s.subrange(f.len() as int, s.len() as int) =~= rest);
    lemma_replace_absent(rest, f, r);
}
/// pattern at the front AND once more in the rest: the result is NOT `r + rest` (the rest is rewritten too)
proof fn lemma_replace_leading_and_again(f: Seq<char>, rest: Seq<char>, r: Seq<char>)
    requires f.len() > 0,
    ensures str_replace(f + rest, f, r) == r + str_replace(rest, f, r),
{
    reveal(str_replace);
    let s = f + rest;
    assert(s.subrange(0, f.len() as int) =~= f);
    assert(s.subrange(f.len() as int, s.len() as int) =~= rest);
}
/// `str::replacen(f, r, n)` (REAL std contract, DEFINED): the first n non-overlapping occurrences, left to right
pub uninterp spec fn replacen_empty_pattern(s: Seq<char>, r: Seq<char>, n: nat) -> Seq<char>;
#[verifier::opaque]
pub open spec fn str_replacen(s: Seq<char>, f: Seq<char>, r: Seq<char>, n: nat) -> Seq<char>
    decreases s.len()
{
    if n == 0 { s }
    else if f.len() == 0 { replacen_empty_pattern(s, r, n) }
    else if s.len() < f.len() { s }
    else if has_prefix(s, f) { r + str_replacen(s.subrange(f.len() as int, s.len() as int), f, r, (n - 1) as nat) }
    else { seq![s[0]] + str_replacen(s.subrange(1, s.len() as int), f, r, n) }
}
/// replacing only the FIRST occurrence of a pattern the text starts with leaves the rest alone, whatever it contains
proof fn lemma_replacen_leading_first(f: Seq<char>, rest: Seq<char>, r: Seq<char>)
    requires f.len() > 0,
    ensures str_replacen(f + rest, f, r, 1) == r + rest,
{
    reveal(str_replacen);
    let s = f + rest;
    assert(s.subrange(f.len() as int, s.len() as int) =~= rest);
    assert(str_replacen(rest, f, r, 0) == rest);
}
/// one more character in front that is not the first character of the pattern
proof fn lemma_not_contains_cons(c: char, v: Seq<char>, f: Seq<char>)
    requires f.len() > 0, f[0] != c, !contains(v, f),
    ensures !contains(seq![c] + v, f),
{
    let s = seq![c] + v;
    if contains(s, f) {
        let i = choose|i: int| occurs_at(s, f, i);
        if i == 0 {
            assert(s.subrange(0, f.len() as int)[0] == f[0]);
        } else {
            assert(s.subrange(i, i + f.len()) =~= v.subrange(i - 1, i - 1 + f.len()));
            assert(occurs_at(v, f, i - 1));
        }
    }
}
/// a text that contains `g` contains every prefix `f` of `g`
proof fn lemma_contains_prefix(s: Seq<char>, g: Seq<char>, f: Seq<char>)
    requires has_prefix(g, f), contains(s, g),
    ensures contains(s, f),
{
    let i = choose|i: int| occurs_at(s, g, i);
    assert forall|k: int| 0 <= k < f.len() implies s.subrange(i, i + f.len())[k] == f[k] by {
        assert(s.subrange(i, i + g.len())[k] == g[k]);
    }
    assert(s.subrange(i, i + f.len()) =~= f);
    assert(occurs_at(s, f, i));
}

// =====================================================================================
// shims (each one is a listed assumption, see NOTES.md)
// =====================================================================================
/// `str` / `&str` / `String` / `Cow<str>`: an opaque text with a character content
#[verifier::external_body]
pub struct Str { _p: u8 }
impl Str {
    /// the text as a `str` value (what string-literal patterns compare with)
    pub uninterp spec fn text(&self) -> &'static str;
    /// its characters
    pub open spec fn view(&self) -> Seq<char> { self.text()@ }
    /// a string literal used as a `&str` value
    #[verifier::external_body]
    pub fn lit(s: &'static str) -> (r: &'static Str)
        ensures r.text() == s,
    { unimplemented!() }
    /// `str::starts_with(&str)` (REAL std contract)
    #[verifier::external_body]
    pub fn starts_with(&self, p: &str) -> (r: bool)
        ensures r == has_prefix(self@, p@),
    { unimplemented!() }
    /// `str::ends_with(&str)` (REAL std contract)
    #[verifier::external_body]
    pub fn ends_with(&self, p: &str) -> (r: bool)
        ensures r == has_suffix(self@, p@),
    { unimplemented!() }
    /// `str::contains(&str)` (REAL std contract)
    #[verifier::external_body]
    pub fn contains(&self, p: &str) -> (r: bool)
        ensures r == contains(self@, p@),
    { unimplemented!() }
    /// `str::replace(&str, &str) -> String` (REAL std contract: str_replace)
    #[verifier::external_body]
    pub fn replace(&self, from: &str, to: &str) -> (r: Str)
        ensures r@ == str_replace(self@, from@, to@),
    { unimplemented!() }
    /// `str::replacen(&str, &str, n)` (REAL std contract: str_replacen)
    #[verifier::external_body]
    pub fn replacen(&self, from: &str, to: &str, n: usize) -> (r: Str)
        ensures r@ == str_replacen(self@, from@, to@, n as nat),
    { unimplemented!() }
    /// `s == "literal"` (`PartialEq<str>`)
    #[verifier::external_body]
    pub fn eq_lit(&self, p: &str) -> (r: bool)
        ensures r == (self@ == p@),
    { unimplemented!() }
    /// `str::len`: BYTES, not characters -- nothing promised beyond emptiness
    #[verifier::external_body]
    pub fn len(&self) -> (r: usize)
        ensures (r == 0) == (self@.len() == 0),
    { unimplemented!() }
    #[verifier::external_body]
    pub fn is_empty(&self) -> (r: bool)
        ensures r == (self@.len() == 0),
    { unimplemented!() }
    /// `to_string` / `to_owned` / `String::from` / `as_str`: the same characters
    #[verifier::external_body]
    pub fn to_string(&self) -> (r: Str)
        ensures r@ == self@,
    { unimplemented!() }
    #[verifier::external_body]
    pub fn to_owned(&self) -> (r: Str)
        ensures r@ == self@,
    { unimplemented!() }
    #[verifier::external_body]
    pub fn as_str<'a>(&'a self) -> (r: &'a Str)
        ensures r@ == self@,
    { unimplemented!() }
    /// `str::to_lowercase` (Unicode): `lower_of`, some fixed function of the text
    #[verifier::external_body]
    pub fn to_lowercase(&self) -> (r: Str)
        ensures r.text() == lower_str(self.text()),
    { unimplemented!() }
    // ---- calls a plausible edit might start using: NO postcondition, so the edit is judged by the contracts ----
    #[verifier::external_body]
    pub fn to_uppercase(&self) -> (r: Str) { unimplemented!() }
    #[verifier::external_body]
    pub fn to_ascii_lowercase(&self) -> (r: Str) { unimplemented!() }
    #[verifier::external_body]
    pub fn trim<'a>(&'a self) -> (r: &'a Str) { unimplemented!() }
    #[verifier::external_body]
    pub fn trim_start_matches<'a>(&'a self, p: &str) -> (r: &'a Str) { unimplemented!() }
    #[verifier::external_body]
    pub fn strip_prefix<'a>(&'a self, p: &str) -> (r: Option<&'a Str>) { unimplemented!() }
}
/// `str::to_lowercase`: Unicode lower-casing, a fixed function of the text (uninterpreted)
pub uninterp spec fn lower_str(s: &'static str) -> &'static str;
/// `Option<String>::as_deref()`
#[verifier::external_body]
pub fn opt_as_deref(o: &Option<Str>) -> (r: Option<&'static str>)
    ensures o is None <==> r is None, o matches Some(s) ==> r == Some(s.text()),
{ unimplemented!() }

/// the error of `OsString::from_str` (`core::convert::Infallible`: there is none)
#[derive(Debug)]
pub struct Infallible {}

/// `OsString` / `&OsStr`: an opaque platform string.  `is_utf8()`: it is valid Unicode; then `text()` is its text and `@`
/// the characters of that text.
#[verifier::external_body]
pub struct OsString { _p: u8 }
impl OsString {
    pub uninterp spec fn is_utf8(&self) -> bool;
    pub uninterp spec fn text(&self) -> &'static str;
    pub open spec fn view(&self) -> Seq<char> { self.text()@ }
    /// the text `to_string_lossy` shows (the text itself when valid Unicode, see `to_string_lossy`)
    pub uninterp spec fn lossy(&self) -> &'static str;
    /// `OsStr::to_str` (REAL std contract): `Some(text)` iff the string is valid Unicode
    #[verifier::external_body]
    pub fn to_str<'a>(&'a self) -> (r: Option<&'a Str>)
        ensures r is Some <==> self.is_utf8(), r matches Some(t) ==> t.text() == self.text(),
    { unimplemented!() }
    /// `<OsString as FromStr>::from_str` (REAL std contract): never fails; a function of the text; valid Unicode with
    /// that text
    #[verifier::external_body]
    pub fn from_str(s: &Str) -> (r: Result<OsString, Infallible>)
        ensures r is Ok, r->Ok_0 == os_lit(s.text()), r->Ok_0.is_utf8(), r->Ok_0.text() == s.text(),
    { unimplemented!() }
    /// `OsStr::to_string_lossy` (REAL std contract): the text itself when it is valid Unicode, otherwise some text with
    /// replacement characters (nothing promised about it)
    #[verifier::external_body]
    pub fn to_string_lossy(&self) -> (r: Str)
        ensures r.text() == self.lossy(), self.is_utf8() ==> self.lossy() == self.text(),
    { unimplemented!() }
    /// `OsStr::eq_ignore_ascii_case(lit)`: `eq_icase`, a fixed relation (uninterpreted; reflexive on the literal itself)
    #[verifier::external_body]
    pub fn eq_ignore_ascii_case(&self, p: &'static str) -> (r: bool)
        ensures r == eq_icase(*self, p),
    { unimplemented!() }
    /// `OsStr::to_ascii_lowercase` (REAL std contract on the Unicode half): A-Z become a-z, every other character and the
    /// length stay; a string that is not valid Unicode stays invalid
    #[verifier::external_body]
    pub fn to_ascii_lowercase(&self) -> (r: OsString)
        ensures r == ascii_lower(*self), r.is_utf8() == self.is_utf8(),
            self.is_utf8() ==> r@.len() == self@.len(),
            self.is_utf8() ==> forall|i: int| 0 <= i < self@.len() ==> #[trigger] r@[i] == ascii_lower_char(self@[i]),
    { unimplemented!() }
    // ---- calls a plausible edit might start using: NO postcondition ----
    #[verifier::external_body]
    pub fn to_ascii_uppercase(&self) -> (r: OsString) { unimplemented!() }
    #[verifier::external_body]
    pub fn clone(&self) -> (r: OsString) ensures r == *self, { unimplemented!() }
    #[verifier::external_body]
    pub fn is_empty(&self) -> (r: bool) { unimplemented!() }
}
/// the platform string `OsString::from_str(t)` yields
pub uninterp spec fn os_lit(t: &'static str) -> OsString;
pub uninterp spec fn eq_icase(a: OsString, p: &'static str) -> bool;
pub uninterp spec fn ascii_lower(a: OsString) -> OsString;
pub open spec fn ascii_lower_char(c: char) -> char { if 'A' <= c && c <= 'Z' { ((c as u8) + 32u8) as char } else { c } }

// =====================================================================================
// (A) compat_arg_mut: what the property demands of ONE argument
// =====================================================================================
/// a plain value or path (also the empty argument): does not start with `-`
pub open spec fn plain_value(s: Seq<char>) -> bool { s.len() == 0 || s[0] != '-' }
/// a native long spelling `--...` (also the bare `--`)
pub open spec fn native_long(s: Seq<char>) -> bool { s.len() >= 2 && s[0] == '-' && s[1] == '-' }
/// `-` (stdin/stdout) or a short flag `-t`, `-z`, `-V`
pub open spec fn short_flag(s: Seq<char>) -> bool { s.len() <= 2 }
/// the argument spells the UCSC flag `u`: `u` alone, or `u=<value>`
pub open spec fn spells(s: Seq<char>, u: Seq<char>) -> bool {
    has_prefix(s, u) && (s.len() == u.len() || s[u.len() as int] == '=')
}
/// what follows the flag text: nothing, or `=<value>`
pub open spec fn tail(s: Seq<char>, u: Seq<char>) -> Seq<char> { s.subrange(u.len() as int, s.len() as int) }

/// THE OBLIGATION OF THE PROPERTY for the UCSC spelling `u` with native spelling `n`: an argument `u` / `u=<value>`
/// becomes `n` / `n=<value>` -- the flag text replaced, the `=<value>` part UNCHANGED, for EVERY value
pub open spec fn translated(a0: OsString, a1: OsString, u: Seq<char>, n: Seq<char>) -> bool {
    a0.is_utf8() && spells(a0@, u) ==> a1.is_utf8() && a1@ == n + tail(a0@, u)
}
/// the same, but only for values that do not contain the text `x` (x = the flag text; for `-chroms`: `-chrom`, the
/// table entry that actually fires)
pub open spec fn translated_unless(a0: OsString, a1: OsString, u: Seq<char>, n: Seq<char>, x: Seq<char>) -> bool {
    a0.is_utf8() && spells(a0@, u) && !contains(tail(a0@, u), x) ==> a1.is_utf8() && a1@ == n + tail(a0@, u)
}
/// the characters a number, a list of numbers or an exponent is written with (and the `=` in front)
pub open spec fn numeral_char(c: char) -> bool {
    ('0' <= c && c <= '9') || c == '.' || c == ',' || c == '+' || c == '-' || c == 'e' || c == 'E' || c == '='
}
/// nothing, `=<number>` or `=<n1,n2,..>`: what the numeric options accept
pub open spec fn numeral_tail(t: Seq<char>) -> bool { forall|k: int| 0 <= k < t.len() ==> numeral_char(#[trigger] t[k]) }
/// the obligation for the options whose value is a number: for EVERY value such an option accepts
pub open spec fn translated_numeric(a0: OsString, a1: OsString, u: Seq<char>, n: Seq<char>) -> bool {
    a0.is_utf8() && spells(a0@, u) && numeral_tail(tail(a0@, u)) ==> a1.is_utf8() && a1@ == n + tail(a0@, u)
}
/// a text of numeral characters does not contain a text whose character k is no numeral character
proof fn lemma_numeral_tail_does_not_contain(t: Seq<char>, u: Seq<char>, k: int)
    requires numeral_tail(t), 0 <= k < u.len(), !numeral_char(u[k]),
    ensures !contains(t, u),
{
    if contains(t, u) {
        let i = choose|i: int| occurs_at(t, u, i);
        assert(t.subrange(i, i + u.len())[k] == u[k]);
        assert(numeral_char(t[i + k]));
    }
}
/// reading aid for `translated_unless`: the BARE flag (no value) becomes exactly the native flag
proof fn lemma_bare_flag(a0: OsString, a1: OsString, u: Seq<char>, n: Seq<char>, x: Seq<char>)
    requires translated_unless(a0, a1, u, n, x), a0.is_utf8(), a0@ == u, x.len() > 0,
    ensures
        [[L: lemma/a_bare_flag_becomes_exactly_the_native_flag]]
        a1.is_utf8() && a1@ == n,
{
    assert(tail(a0@, u) =~= Seq::<char>::empty());
    assert(n + Seq::<char>::empty() =~= n);
    assert(!contains(Seq::<char>::empty(), x)) by {
        if contains(Seq::<char>::empty(), x) { let i = choose|i: int| occurs_at(Seq::<char>::empty(), x, i); }
    }
}
/// reading aid: `u=<value>` with a value that does not contain `x` becomes `n=<value>`
proof fn lemma_flag_with_value(a0: OsString, a1: OsString, u: Seq<char>, n: Seq<char>, x: Seq<char>, v: Seq<char>)
    requires translated_unless(a0, a1, u, n, x), a0.is_utf8(), a0@ == u + seq!['='] + v, x.len() > 0, x[0] != '=', !contains(v, x),
    ensures
        [[L: lemma/a_flag_with_a_value_becomes_the_native_flag_with_the_same_value]]
        a1.is_utf8() && a1@ == n + seq!['='] + v,
{
    assert(tail(a0@, u) =~= seq!['='] + v);
    lemma_not_contains_cons('=', v, x);
    assert(n + (seq!['='] + v) =~= n + seq!['='] + v);
}

/// THE DOCUMENTED USAGE of the tools: plain values and paths, `-`, native spellings, short flags, the UCSC flags of
/// the replace table (`u` / `u=<value>`) and the two flags that are accepted and ignored.  On these the function must
/// not panic.  (The options of the `unimplemented` table panic BY DESIGN: `doc/`.)
pub open spec fn documented(s: Seq<char>) -> bool {
    plain_value(s) || native_long(s) || short_flag(s)
    || spells(s, "-unc"@)
    || spells(s, "-blockSize"@)
    || spells(s, "-chrom"@)
    || spells(s, "-start"@)
    || spells(s, "-end"@)
    || spells(s, "-itemsPerSlot"@)
    || spells(s, "-as"@)
    || spells(s, "-bed"@)
    || spells(s, "-minMax"@)
    || spells(s, "-adjust"@)
    || spells(s, "-clip"@)
    || spells(s, "-threshold"@)
    || spells(s, "-chroms"@)
    || spells(s, "-zooms"@)
    || s == "-inList"@ || s == "-tab"@
}
/// `panic!("Unimplemented compatibility option {}.", ..)`: does not return.  Reaching it is allowed only for
/// arguments outside the documented usage.
#[verifier::external_body]
pub fn vpanic_unimplemented(arg: &OsString)
    requires
        [[L: compat_arg_mut/documented_usage_never_reaches_the_unimplemented_option_panic]]
        !(arg.is_utf8() && documented(arg@)),
    ensures false,
{ unimplemented!() }

/// naming the `&mut` parameter at the exit of the function (a verified no-op).  Verus 0.2026.09.13 loses the final value
/// of a `&mut` parameter on the path that skips every arm of a `match` with GUARDED arms (`Some(b) if ..`) unless the
/// parameter is used once more behind the match.
fn touch_arg(x: &mut OsString)
    ensures *final(x) == *old(x),
{ }

/// the characters of every literal the contract mentions (PROVED from the literals themselves: `reveal_strlit`)
proof fn lemma_flag_texts()
    ensures
        "-unc"@.len() == 4, "-unc"@[0] == '-', "-unc"@[1] == 'u', "-unc"@[2] == 'n', "-unc"@[3] == 'c',
        "--uncompressed"@.len() == 14, "--uncompressed"@[0] == '-', "--uncompressed"@[1] == '-', "--uncompressed"@[2] == 'u', "--uncompressed"@[3] == 'n', "--uncompressed"@[4] == 'c', "--uncompressed"@[5] == 'o', "--uncompressed"@[6] == 'm', "--uncompressed"@[7] == 'p', "--uncompressed"@[8] == 'r', "--uncompressed"@[9] == 'e', "--uncompressed"@[10] == 's', "--uncompressed"@[11] == 's', "--uncompressed"@[12] == 'e', "--uncompressed"@[13] == 'd',
        "-blockSize"@.len() == 10, "-blockSize"@[0] == '-', "-blockSize"@[1] == 'b', "-blockSize"@[2] == 'l', "-blockSize"@[3] == 'o', "-blockSize"@[4] == 'c', "-blockSize"@[5] == 'k', "-blockSize"@[6] == 'S', "-blockSize"@[7] == 'i', "-blockSize"@[8] == 'z', "-blockSize"@[9] == 'e',
        "--block-size"@.len() == 12, "--block-size"@[0] == '-', "--block-size"@[1] == '-', "--block-size"@[2] == 'b', "--block-size"@[3] == 'l', "--block-size"@[4] == 'o', "--block-size"@[5] == 'c', "--block-size"@[6] == 'k', "--block-size"@[7] == '-', "--block-size"@[8] == 's', "--block-size"@[9] == 'i', "--block-size"@[10] == 'z', "--block-size"@[11] == 'e',
        "-chrom"@.len() == 6, "-chrom"@[0] == '-', "-chrom"@[1] == 'c', "-chrom"@[2] == 'h', "-chrom"@[3] == 'r', "-chrom"@[4] == 'o', "-chrom"@[5] == 'm',
        "--chrom"@.len() == 7, "--chrom"@[0] == '-', "--chrom"@[1] == '-', "--chrom"@[2] == 'c', "--chrom"@[3] == 'h', "--chrom"@[4] == 'r', "--chrom"@[5] == 'o', "--chrom"@[6] == 'm',
        "-start"@.len() == 6, "-start"@[0] == '-', "-start"@[1] == 's', "-start"@[2] == 't', "-start"@[3] == 'a', "-start"@[4] == 'r', "-start"@[5] == 't',
        "--start"@.len() == 7, "--start"@[0] == '-', "--start"@[1] == '-', "--start"@[2] == 's', "--start"@[3] == 't', "--start"@[4] == 'a', "--start"@[5] == 'r', "--start"@[6] == 't',
        "-end"@.len() == 4, "-end"@[0] == '-', "-end"@[1] == 'e', "-end"@[2] == 'n', "-end"@[3] == 'd',
        "--end"@.len() == 5, "--end"@[0] == '-', "--end"@[1] == '-', "--end"@[2] == 'e', "--end"@[3] == 'n', "--end"@[4] == 'd',
        "-itemsPerSlot"@.len() == 13, "-itemsPerSlot"@[0] == '-', "-itemsPerSlot"@[1] == 'i', "-itemsPerSlot"@[2] == 't', "-itemsPerSlot"@[3] == 'e', "-itemsPerSlot"@[4] == 'm', "-itemsPerSlot"@[5] == 's', "-itemsPerSlot"@[6] == 'P', "-itemsPerSlot"@[7] == 'e', "-itemsPerSlot"@[8] == 'r', "-itemsPerSlot"@[9] == 'S', "-itemsPerSlot"@[10] == 'l', "-itemsPerSlot"@[11] == 'o', "-itemsPerSlot"@[12] == 't',
        "--items-per-slot"@.len() == 16, "--items-per-slot"@[0] == '-', "--items-per-slot"@[1] == '-', "--items-per-slot"@[2] == 'i', "--items-per-slot"@[3] == 't', "--items-per-slot"@[4] == 'e', "--items-per-slot"@[5] == 'm', "--items-per-slot"@[6] == 's', "--items-per-slot"@[7] == '-', "--items-per-slot"@[8] == 'p', "--items-per-slot"@[9] == 'e', "--items-per-slot"@[10] == 'r', "--items-per-slot"@[11] == '-', "--items-per-slot"@[12] == 's', "--items-per-slot"@[13] == 'l', "--items-per-slot"@[14] == 'o', "--items-per-slot"@[15] == 't',
        "-as"@.len() == 3, "-as"@[0] == '-', "-as"@[1] == 'a', "-as"@[2] == 's',
        "--autosql"@.len() == 9, "--autosql"@[0] == '-', "--autosql"@[1] == '-', "--autosql"@[2] == 'a', "--autosql"@[3] == 'u', "--autosql"@[4] == 't', "--autosql"@[5] == 'o', "--autosql"@[6] == 's', "--autosql"@[7] == 'q', "--autosql"@[8] == 'l',
        "-bed"@.len() == 4, "-bed"@[0] == '-', "-bed"@[1] == 'b', "-bed"@[2] == 'e', "-bed"@[3] == 'd',
        "--overlap-bed"@.len() == 13, "--overlap-bed"@[0] == '-', "--overlap-bed"@[1] == '-', "--overlap-bed"@[2] == 'o', "--overlap-bed"@[3] == 'v', "--overlap-bed"@[4] == 'e', "--overlap-bed"@[5] == 'r', "--overlap-bed"@[6] == 'l', "--overlap-bed"@[7] == 'a', "--overlap-bed"@[8] == 'p', "--overlap-bed"@[9] == '-', "--overlap-bed"@[10] == 'b', "--overlap-bed"@[11] == 'e', "--overlap-bed"@[12] == 'd',
        "-minMax"@.len() == 7, "-minMax"@[0] == '-', "-minMax"@[1] == 'm', "-minMax"@[2] == 'i', "-minMax"@[3] == 'n', "-minMax"@[4] == 'M', "-minMax"@[5] == 'a', "-minMax"@[6] == 'x',
        "--minmax"@.len() == 8, "--minmax"@[0] == '-', "--minmax"@[1] == '-', "--minmax"@[2] == 'm', "--minmax"@[3] == 'i', "--minmax"@[4] == 'n', "--minmax"@[5] == 'm', "--minmax"@[6] == 'a', "--minmax"@[7] == 'x',
        "-adjust"@.len() == 7, "-adjust"@[0] == '-', "-adjust"@[1] == 'a', "-adjust"@[2] == 'd', "-adjust"@[3] == 'j', "-adjust"@[4] == 'u', "-adjust"@[5] == 's', "-adjust"@[6] == 't',
        "--adjust"@.len() == 8, "--adjust"@[0] == '-', "--adjust"@[1] == '-', "--adjust"@[2] == 'a', "--adjust"@[3] == 'd', "--adjust"@[4] == 'j', "--adjust"@[5] == 'u', "--adjust"@[6] == 's', "--adjust"@[7] == 't',
        "-clip"@.len() == 5, "-clip"@[0] == '-', "-clip"@[1] == 'c', "-clip"@[2] == 'l', "-clip"@[3] == 'i', "-clip"@[4] == 'p',
        "--clip"@.len() == 6, "--clip"@[0] == '-', "--clip"@[1] == '-', "--clip"@[2] == 'c', "--clip"@[3] == 'l', "--clip"@[4] == 'i', "--clip"@[5] == 'p',
        "-threshold"@.len() == 10, "-threshold"@[0] == '-', "-threshold"@[1] == 't', "-threshold"@[2] == 'h', "-threshold"@[3] == 'r', "-threshold"@[4] == 'e', "-threshold"@[5] == 's', "-threshold"@[6] == 'h', "-threshold"@[7] == 'o', "-threshold"@[8] == 'l', "-threshold"@[9] == 'd',
        "--threshold"@.len() == 11, "--threshold"@[0] == '-', "--threshold"@[1] == '-', "--threshold"@[2] == 't', "--threshold"@[3] == 'h', "--threshold"@[4] == 'r', "--threshold"@[5] == 'e', "--threshold"@[6] == 's', "--threshold"@[7] == 'h', "--threshold"@[8] == 'o', "--threshold"@[9] == 'l', "--threshold"@[10] == 'd',
        "-chroms"@.len() == 7, "-chroms"@[0] == '-', "-chroms"@[1] == 'c', "-chroms"@[2] == 'h', "-chroms"@[3] == 'r', "-chroms"@[4] == 'o', "-chroms"@[5] == 'm', "-chroms"@[6] == 's',
        "--chroms"@.len() == 8, "--chroms"@[0] == '-', "--chroms"@[1] == '-', "--chroms"@[2] == 'c', "--chroms"@[3] == 'h', "--chroms"@[4] == 'r', "--chroms"@[5] == 'o', "--chroms"@[6] == 'm', "--chroms"@[7] == 's',
        "-zooms"@.len() == 6, "-zooms"@[0] == '-', "-zooms"@[1] == 'z', "-zooms"@[2] == 'o', "-zooms"@[3] == 'o', "-zooms"@[4] == 'm', "-zooms"@[5] == 's',
        "--zooms"@.len() == 7, "--zooms"@[0] == '-', "--zooms"@[1] == '-', "--zooms"@[2] == 'z', "--zooms"@[3] == 'o', "--zooms"@[4] == 'o', "--zooms"@[5] == 'm', "--zooms"@[6] == 's',
        "-inList"@.len() == 7, "-inList"@[0] == '-', "-inList"@[1] == 'i', "-inList"@[2] == 'n', "-inList"@[3] == 'L', "-inList"@[4] == 'i', "-inList"@[5] == 's', "-inList"@[6] == 't',
        "-tab"@.len() == 4, "-tab"@[0] == '-', "-tab"@[1] == 't', "-tab"@[2] == 'a', "-tab"@[3] == 'b',
        "-allow1bOverlap"@.len() == 15, "-allow1bOverlap"@[0] == '-', "-allow1bOverlap"@[1] == 'a', "-allow1bOverlap"@[2] == 'l', "-allow1bOverlap"@[3] == 'l', "-allow1bOverlap"@[4] == 'o', "-allow1bOverlap"@[5] == 'w', "-allow1bOverlap"@[6] == '1', "-allow1bOverlap"@[7] == 'b', "-allow1bOverlap"@[8] == 'O', "-allow1bOverlap"@[9] == 'v', "-allow1bOverlap"@[10] == 'e', "-allow1bOverlap"@[11] == 'r', "-allow1bOverlap"@[12] == 'l', "-allow1bOverlap"@[13] == 'a', "-allow1bOverlap"@[14] == 'p',
        "-bedOut"@.len() == 7, "-bedOut"@[0] == '-', "-bedOut"@[1] == 'b', "-bedOut"@[2] == 'e', "-bedOut"@[3] == 'd', "-bedOut"@[4] == 'O', "-bedOut"@[5] == 'u', "-bedOut"@[6] == 't',
        "-extraIndex"@.len() == 11, "-extraIndex"@[0] == '-', "-extraIndex"@[1] == 'e', "-extraIndex"@[2] == 'x', "-extraIndex"@[3] == 't', "-extraIndex"@[4] == 'r', "-extraIndex"@[5] == 'a', "-extraIndex"@[6] == 'I', "-extraIndex"@[7] == 'n', "-extraIndex"@[8] == 'd', "-extraIndex"@[9] == 'e', "-extraIndex"@[10] == 'x',
        "-header"@.len() == 7, "-header"@[0] == '-', "-header"@[1] == 'h', "-header"@[2] == 'e', "-header"@[3] == 'a', "-header"@[4] == 'd', "-header"@[5] == 'e', "-header"@[6] == 'r',
        "-max"@.len() == 4, "-max"@[0] == '-', "-max"@[1] == 'm', "-max"@[2] == 'a', "-max"@[3] == 'x',
        "-maxItems"@.len() == 9, "-maxItems"@[0] == '-', "-maxItems"@[1] == 'm', "-maxItems"@[2] == 'a', "-maxItems"@[3] == 'x', "-maxItems"@[4] == 'I', "-maxItems"@[5] == 't', "-maxItems"@[6] == 'e', "-maxItems"@[7] == 'm', "-maxItems"@[8] == 's',
        "-sampleAroundCenter"@.len() == 19, "-sampleAroundCenter"@[0] == '-', "-sampleAroundCenter"@[1] == 's', "-sampleAroundCenter"@[2] == 'a', "-sampleAroundCenter"@[3] == 'm', "-sampleAroundCenter"@[4] == 'p', "-sampleAroundCenter"@[5] == 'l', "-sampleAroundCenter"@[6] == 'e', "-sampleAroundCenter"@[7] == 'A', "-sampleAroundCenter"@[8] == 'r', "-sampleAroundCenter"@[9] == 'o', "-sampleAroundCenter"@[10] == 'u', "-sampleAroundCenter"@[11] == 'n', "-sampleAroundCenter"@[12] == 'd', "-sampleAroundCenter"@[13] == 'C', "-sampleAroundCenter"@[14] == 'e', "-sampleAroundCenter"@[15] == 'n', "-sampleAroundCenter"@[16] == 't', "-sampleAroundCenter"@[17] == 'e', "-sampleAroundCenter"@[18] == 'r',
        "-sizesIs2Bit"@.len() == 12, "-sizesIs2Bit"@[0] == '-', "-sizesIs2Bit"@[1] == 's', "-sizesIs2Bit"@[2] == 'i', "-sizesIs2Bit"@[3] == 'z', "-sizesIs2Bit"@[4] == 'e', "-sizesIs2Bit"@[5] == 's', "-sizesIs2Bit"@[6] == 'I', "-sizesIs2Bit"@[7] == 's', "-sizesIs2Bit"@[8] == '2', "-sizesIs2Bit"@[9] == 'B', "-sizesIs2Bit"@[10] == 'i', "-sizesIs2Bit"@[11] == 't',
        "-sizesIsChromAliasBb"@.len() == 20, "-sizesIsChromAliasBb"@[0] == '-', "-sizesIsChromAliasBb"@[1] == 's', "-sizesIsChromAliasBb"@[2] == 'i', "-sizesIsChromAliasBb"@[3] == 'z', "-sizesIsChromAliasBb"@[4] == 'e', "-sizesIsChromAliasBb"@[5] == 's', "-sizesIsChromAliasBb"@[6] == 'I', "-sizesIsChromAliasBb"@[7] == 's', "-sizesIsChromAliasBb"@[8] == 'C', "-sizesIsChromAliasBb"@[9] == 'h', "-sizesIsChromAliasBb"@[10] == 'r', "-sizesIsChromAliasBb"@[11] == 'o', "-sizesIsChromAliasBb"@[12] == 'm', "-sizesIsChromAliasBb"@[13] == 'A', "-sizesIsChromAliasBb"@[14] == 'l', "-sizesIsChromAliasBb"@[15] == 'i', "-sizesIsChromAliasBb"@[16] == 'a', "-sizesIsChromAliasBb"@[17] == 's', "-sizesIsChromAliasBb"@[18] == 'B', "-sizesIsChromAliasBb"@[19] == 'b',
        "-sizesIsBb"@.len() == 10, "-sizesIsBb"@[0] == '-', "-sizesIsBb"@[1] == 's', "-sizesIsBb"@[2] == 'i', "-sizesIsBb"@[3] == 'z', "-sizesIsBb"@[4] == 'e', "-sizesIsBb"@[5] == 's', "-sizesIsBb"@[6] == 'I', "-sizesIsBb"@[7] == 's', "-sizesIsBb"@[8] == 'B', "-sizesIsBb"@[9] == 'b',
        "-stats"@.len() == 6, "-stats"@[0] == '-', "-stats"@[1] == 's', "-stats"@[2] == 't', "-stats"@[3] == 'a', "-stats"@[4] == 't', "-stats"@[5] == 's',
        "-type"@.len() == 5, "-type"@[0] == '-', "-type"@[1] == 't', "-type"@[2] == 'y', "-type"@[3] == 'p', "-type"@[4] == 'e',
        "-udcDir"@.len() == 7, "-udcDir"@[0] == '-', "-udcDir"@[1] == 'u', "-udcDir"@[2] == 'd', "-udcDir"@[3] == 'c', "-udcDir"@[4] == 'D', "-udcDir"@[5] == 'i', "-udcDir"@[6] == 'r',
        ""@.len() == 0,
        "--overlap-bedOut"@.len() == 16, "--overlap-bedOut"@[0] == '-', "--overlap-bedOut"@[1] == '-', "--overlap-bedOut"@[2] == 'o', "--overlap-bedOut"@[3] == 'v', "--overlap-bedOut"@[4] == 'e', "--overlap-bedOut"@[5] == 'r', "--overlap-bedOut"@[6] == 'l', "--overlap-bedOut"@[7] == 'a', "--overlap-bedOut"@[8] == 'p', "--overlap-bedOut"@[9] == '-', "--overlap-bedOut"@[10] == 'b', "--overlap-bedOut"@[11] == 'e', "--overlap-bedOut"@[12] == 'd', "--overlap-bedOut"@[13] == 'O', "--overlap-bedOut"@[14] == 'u', "--overlap-bedOut"@[15] == 't',
{
    reveal_strlit("-unc");
    reveal_strlit("--uncompressed");
    reveal_strlit("-blockSize");
    reveal_strlit("--block-size");
    reveal_strlit("-chrom");
    reveal_strlit("--chrom");
    reveal_strlit("-start");
    reveal_strlit("--start");
    reveal_strlit("-end");
    reveal_strlit("--end");
    reveal_strlit("-itemsPerSlot");
    reveal_strlit("--items-per-slot");
    reveal_strlit("-as");
    reveal_strlit("--autosql");
    reveal_strlit("-bed");
    reveal_strlit("--overlap-bed");
    reveal_strlit("-minMax");
    reveal_strlit("--minmax");
    reveal_strlit("-adjust");
    reveal_strlit("--adjust");
    reveal_strlit("-clip");
    reveal_strlit("--clip");
    reveal_strlit("-threshold");
    reveal_strlit("--threshold");
    reveal_strlit("-chroms");
    reveal_strlit("--chroms");
    reveal_strlit("-zooms");
    reveal_strlit("--zooms");
    reveal_strlit("-inList");
    reveal_strlit("-tab");
    reveal_strlit("-allow1bOverlap");
    reveal_strlit("-bedOut");
    reveal_strlit("-extraIndex");
    reveal_strlit("-header");
    reveal_strlit("-max");
    reveal_strlit("-maxItems");
    reveal_strlit("-sampleAroundCenter");
    reveal_strlit("-sizesIs2Bit");
    reveal_strlit("-sizesIsChromAliasBb");
    reveal_strlit("-sizesIsBb");
    reveal_strlit("-stats");
    reveal_strlit("-type");
    reveal_strlit("-udcDir");
    reveal_strlit("");
    reveal_strlit("--overlap-bedOut");
}

/// what `b.replace($find, $replace)` / `b.replacen($find, $replace, 1)` in the macro body computes
pub open spec fn pinned_replace(s: Seq<char>, f: Seq<char>, r: Seq<char>) -> Seq<char> { str_replace(s, f, r) }
pub open spec fn pinned_replacen(s: Seq<char>, f: Seq<char>, r: Seq<char>) -> Seq<char> { str_replacen(s, f, r, 1) }

// ---- (A0) the macro BODY, pinned: the definition `macro_rules! compat_replace_mut { .. }` is cut from /repo on every run
// and must be, token for token (layout and comments apart), the text the regex below spells -- the text whose arm shapes
// the presubs of (A) re-state.  Any edit of the macro body (matcher or transcriber) is "anchor lost" (exit 2): the unit
// then says nothing, it does not guess.  The tables of the invocation are NOT pinned: they are judged by (A).
// ONE expression of the body has two accepted spellings: `b.replacen($find, $replace, 1)` (the tree since 26bb58a) and
// `b.replace($find, $replace)` (before).  Whichever the macro has is cut out (method name and the `, 1`) into the body
// of `macro_body_replace`, which the replace arms of (A) call; its contract is `pinned_<method>`.  So a revert of the
// repair is JUDGED (the `every_value/*` obligations fail), not "anchor lost".
//@extract macro bigtools/src/utils/cli.rs compat_replace_mut
//@sub /\A\s*macro_rules\s*!\s*compat_replace_mut\s*\{\s*\(\s*\$\s*a\s*:\s*expr\s*;\s*replace\s*:\s*\$\s*\(\s*\$\s*find\s*:\s*literal\s*,\s*\$\s*replace\s*:\s*literal\s*\)\s*;\s*\*\s*ignore\s*:\s*\$\s*\(\s*\$\s*ignore\s*:\s*literal\s*\)\s*;\s*\*\s*unimplemented\s*:\s*\$\s*\(\s*\$\s*unimplemented\s*:\s*literal\s*\)\s*;\s*\*\s*\)\s*=>\s*\{\s*\{\s*use\s*std\s*::\s*ffi\s*::\s*OsString\s*;\s*use\s*std\s*::\s*str\s*::\s*FromStr\s*;\s*match\s*\$\s*a\s*\.\s*to_str\s*\(\s*\)\s*\{\s*\$\s*\(\s*Some\s*\(\s*b\s*\)\s*if\s*b\s*\.\s*starts_with\s*\(\s*\$\s*find\s*\)\s*=>\s*\{\s*\*\s*\(\s*\$\s*a\s*\)\s*=\s*OsString\s*::\s*from_str\s*\(\s*\&\s*b\s*\.\s*(replacen?)\s*\(\s*\$\s*find\s*,\s*\$\s*replace\s*(,\s*1)?\s*\)\s*\)\s*\.\s*unwrap\s*\(\s*\)\s*\}\s*\)\s*\*\s*\$\s*\(\s*Some\s*\(\s*b\s*\)\s*if\s*b\s*\.\s*starts_with\s*\(\s*\$\s*ignore\s*\)\s*=>\s*\*\s*\(\s*\$\s*a\s*\)\s*=\s*OsString\s*::\s*from_str\s*\(\s*""\s*\)\s*\.\s*unwrap\s*\(\s*\)\s*,\s*\)\s*\*\s*\$\s*\(\s*Some\s*\(\s*b\s*\)\s*if\s*b\s*\.\s*starts_with\s*\(\s*\$\s*unimplemented\s*\)\s*=>\s*\{\s*panic\s*!\s*\(\s*"Unimplemented\ compatibility\ option\ \{\}\."\s*,\s*\$\s*a\s*\.\s*to_string_lossy\s*\(\s*\)\s*\)\s*;\s*\}\s*\)\s*\*\s*_\s*=>\s*\{\s*\}\s*\}\s*\}\s*\}\s*\}\s*\Z/ => // (macro body pinned: see NOTES.md)  The one expression of it that has two accepted spellings, cut verbatim:\nfn macro_body_replace(b: &Str, find: &str, repl: &str) -> (r: Str)\n    ensures r@ == pinned_\1(b@, find@, repl@),\n{ b.\1(find, repl\2) } min=1
//@end

// ---- the macro invocation -> the match the macro body prescribes (first match wins, order of the tables kept) ----
// replace table: every `"find", "replace";` pair
// ignore table: every literal between `ignore:` and `unimplemented:`
// unimplemented table: every literal between `unimplemented:` and the closing parenthesis of the invocation
// the frame: `match $a.to_str() {` .. `_ => {} }`
//@extract fn bigtools/src/utils/cli.rs compat_arg_mut
//@presub /("[^"\n]*")\s*,\s*("[^"\n]*")\s*;?/ => Some(b) if b.starts_with(\1) => { *(arg) = OsString::from_str(&macro_body_replace(b, \1, \2)).unwrap() }\n min=0
//@presub /("[^"\n]*")\s*;?(?=(?:\s*"[^"\n]*"\s*;?)*\s*unimplemented\s*:)/ => Some(b) if b.starts_with(\1) => *(arg) = OsString::from_str("").unwrap(),\n min=0
//@presub /("[^"\n]*")\s*;?(?=(?:\s*"[^"\n]*"\s*;?)*\s*\)\s*;?\s*\}\s*\Z)/ => Some(b) if b.starts_with(\1) => { panic!("Unimplemented compatibility option {}.", arg.to_string_lossy()); }\n min=0
//@presub /compat_replace_mut!\s*\(\s*arg\s*;\s*replace\s*:/ => match arg.to_str() { min=1 count=1
//@presub /\bignore\s*:/ => "" min=1 count=1
//@presub /\bunimplemented\s*:/ => "" min=1 count=1
//@presub /\)\s*;?\s*\}\s*\Z/ => _ => {}\n    }\n} min=1 count=1
//@rule R6
//@rule R8
//@sub /vpanic\(\)/ => vpanic_unimplemented(arg) min=0
//@sub /from_str\(("[^"\n]*")\)/ => from_str(Str::lit(\1)) min=0
//@sig
    ensures
        [[L: not_unicode_is_unchanged]]
        !old(arg).is_utf8() ==> *final(arg) == *old(arg),
        [[L: plain_value_or_path_is_unchanged]]
        old(arg).is_utf8() && plain_value(old(arg)@) ==> *final(arg) == *old(arg),
        [[L: native_spelling_is_unchanged]]
        old(arg).is_utf8() && native_long(old(arg)@) ==> *final(arg) == *old(arg),
        [[L: short_flag_or_single_dash_is_unchanged]]
        old(arg).is_utf8() && short_flag(old(arg)@) ==> *final(arg) == *old(arg),
        [[L: ucsc/unc_becomes_uncompressed_rest_of_the_argument_unchanged]]
        translated_unless(*old(arg), *final(arg), "-unc"@, "--uncompressed"@, "-unc"@),
        [[L: ucsc/blockSize_becomes_block_size_rest_of_the_argument_unchanged]]
        translated_unless(*old(arg), *final(arg), "-blockSize"@, "--block-size"@, "-blockSize"@),
        [[L: ucsc/chrom_becomes_chrom_rest_of_the_argument_unchanged]]
        translated_unless(*old(arg), *final(arg), "-chrom"@, "--chrom"@, "-chrom"@),
        [[L: ucsc/start_becomes_start_rest_of_the_argument_unchanged]]
        translated_unless(*old(arg), *final(arg), "-start"@, "--start"@, "-start"@),
        [[L: ucsc/end_becomes_end_rest_of_the_argument_unchanged]]
        translated_unless(*old(arg), *final(arg), "-end"@, "--end"@, "-end"@),
        [[L: ucsc/itemsPerSlot_becomes_items_per_slot_rest_of_the_argument_unchanged]]
        translated_unless(*old(arg), *final(arg), "-itemsPerSlot"@, "--items-per-slot"@, "-itemsPerSlot"@),
        [[L: ucsc/as_becomes_autosql_rest_of_the_argument_unchanged]]
        translated_unless(*old(arg), *final(arg), "-as"@, "--autosql"@, "-as"@),
        [[L: ucsc/bed_becomes_overlap_bed_rest_of_the_argument_unchanged]]
        translated_unless(*old(arg), *final(arg), "-bed"@, "--overlap-bed"@, "-bed"@),
        [[L: ucsc/minMax_becomes_minmax_rest_of_the_argument_unchanged]]
        translated_unless(*old(arg), *final(arg), "-minMax"@, "--minmax"@, "-minMax"@),
        [[L: ucsc/adjust_becomes_adjust_rest_of_the_argument_unchanged]]
        translated_unless(*old(arg), *final(arg), "-adjust"@, "--adjust"@, "-adjust"@),
        [[L: ucsc/clip_becomes_clip_rest_of_the_argument_unchanged]]
        translated_unless(*old(arg), *final(arg), "-clip"@, "--clip"@, "-clip"@),
        [[L: ucsc/threshold_becomes_threshold_rest_of_the_argument_unchanged]]
        translated_unless(*old(arg), *final(arg), "-threshold"@, "--threshold"@, "-threshold"@),
        [[L: ucsc/chroms_becomes_chroms_rest_of_the_argument_unchanged]]
        translated_unless(*old(arg), *final(arg), "-chroms"@, "--chroms"@, "-chrom"@),
        [[L: ucsc/zooms_becomes_zooms_rest_of_the_argument_unchanged]]
        translated_unless(*old(arg), *final(arg), "-zooms"@, "--zooms"@, "-zooms"@),
        [[L: ucsc_numeric/blockSize_becomes_block_size_for_every_numeric_value]]
        translated_numeric(*old(arg), *final(arg), "-blockSize"@, "--block-size"@),
        [[L: ucsc_numeric/start_becomes_start_for_every_numeric_value]]
        translated_numeric(*old(arg), *final(arg), "-start"@, "--start"@),
        [[L: ucsc_numeric/end_becomes_end_for_every_numeric_value]]
        translated_numeric(*old(arg), *final(arg), "-end"@, "--end"@),
        [[L: ucsc_numeric/itemsPerSlot_becomes_items_per_slot_for_every_numeric_value]]
        translated_numeric(*old(arg), *final(arg), "-itemsPerSlot"@, "--items-per-slot"@),
        [[L: ucsc_numeric/adjust_becomes_adjust_for_every_numeric_value]]
        translated_numeric(*old(arg), *final(arg), "-adjust"@, "--adjust"@),
        [[L: ucsc_numeric/clip_becomes_clip_for_every_numeric_value]]
        translated_numeric(*old(arg), *final(arg), "-clip"@, "--clip"@),
        [[L: ucsc_numeric/threshold_becomes_threshold_for_every_numeric_value]]
        translated_numeric(*old(arg), *final(arg), "-threshold"@, "--threshold"@),
        [[L: ucsc_numeric/zooms_becomes_zooms_for_every_numeric_value]]
        translated_numeric(*old(arg), *final(arg), "-zooms"@, "--zooms"@),
        [[L: ignored/inList_and_tab_become_the_empty_argument]]
        old(arg).is_utf8() && (old(arg)@ == "-inList"@ || old(arg)@ == "-tab"@) ==> final(arg).is_utf8() && final(arg)@.len() == 0,
        [[L: doc/bedOut_is_taken_by_the_bed_entry_never_reaches_unimplemented]]
        old(arg).is_utf8() && old(arg)@ == "-bedOut"@ ==> final(arg)@ == "--overlap-bedOut"@,
        [[L: doc/unimplemented_options_do_not_return]]
        old(arg).is_utf8() ==> !(has_prefix(old(arg)@, "-allow1bOverlap"@)
            || has_prefix(old(arg)@, "-extraIndex"@)
            || has_prefix(old(arg)@, "-header"@)
            || has_prefix(old(arg)@, "-max"@)
            || has_prefix(old(arg)@, "-maxItems"@)
            || has_prefix(old(arg)@, "-sampleAroundCenter"@)
            || has_prefix(old(arg)@, "-sizesIs2Bit"@)
            || has_prefix(old(arg)@, "-sizesIsChromAliasBb"@)
            || has_prefix(old(arg)@, "-sizesIsBb"@)
            || has_prefix(old(arg)@, "-stats"@)
            || has_prefix(old(arg)@, "-type"@)
            || has_prefix(old(arg)@, "-udcDir"@)),
//@open
    proof { lemma_flag_texts(); }
    let ghost u0 = arg.is_utf8();
    let ghost s0 = arg@;
//@close
    proof {
        if u0 && spells(s0, "-unc"@) && !contains(tail(s0, "-unc"@), "-unc"@) {
            assert(s0 =~= "-unc"@ + tail(s0, "-unc"@));
            lemma_replace_leading_once("-unc"@, tail(s0, "-unc"@), "--uncompressed"@);
            lemma_replacen_leading_first("-unc"@, tail(s0, "-unc"@), "--uncompressed"@);
        }
        if u0 && spells(s0, "-blockSize"@) && !contains(tail(s0, "-blockSize"@), "-blockSize"@) {
            assert(s0 =~= "-blockSize"@ + tail(s0, "-blockSize"@));
            lemma_replace_leading_once("-blockSize"@, tail(s0, "-blockSize"@), "--block-size"@);
            lemma_replacen_leading_first("-blockSize"@, tail(s0, "-blockSize"@), "--block-size"@);
        }
        if u0 && spells(s0, "-chrom"@) && !contains(tail(s0, "-chrom"@), "-chrom"@) {
            assert(s0 =~= "-chrom"@ + tail(s0, "-chrom"@));
            lemma_replace_leading_once("-chrom"@, tail(s0, "-chrom"@), "--chrom"@);
            lemma_replacen_leading_first("-chrom"@, tail(s0, "-chrom"@), "--chrom"@);
        }
        if u0 && spells(s0, "-start"@) && !contains(tail(s0, "-start"@), "-start"@) {
            assert(s0 =~= "-start"@ + tail(s0, "-start"@));
            lemma_replace_leading_once("-start"@, tail(s0, "-start"@), "--start"@);
            lemma_replacen_leading_first("-start"@, tail(s0, "-start"@), "--start"@);
        }
        if u0 && spells(s0, "-end"@) && !contains(tail(s0, "-end"@), "-end"@) {
            assert(s0 =~= "-end"@ + tail(s0, "-end"@));
            lemma_replace_leading_once("-end"@, tail(s0, "-end"@), "--end"@);
            lemma_replacen_leading_first("-end"@, tail(s0, "-end"@), "--end"@);
        }
        if u0 && spells(s0, "-itemsPerSlot"@) && !contains(tail(s0, "-itemsPerSlot"@), "-itemsPerSlot"@) {
            assert(s0 =~= "-itemsPerSlot"@ + tail(s0, "-itemsPerSlot"@));
            lemma_replace_leading_once("-itemsPerSlot"@, tail(s0, "-itemsPerSlot"@), "--items-per-slot"@);
            lemma_replacen_leading_first("-itemsPerSlot"@, tail(s0, "-itemsPerSlot"@), "--items-per-slot"@);
        }
        if u0 && spells(s0, "-as"@) && !contains(tail(s0, "-as"@), "-as"@) {
            assert(s0 =~= "-as"@ + tail(s0, "-as"@));
            lemma_replace_leading_once("-as"@, tail(s0, "-as"@), "--autosql"@);
            lemma_replacen_leading_first("-as"@, tail(s0, "-as"@), "--autosql"@);
        }
        if u0 && spells(s0, "-bed"@) && !contains(tail(s0, "-bed"@), "-bed"@) {
            assert(s0 =~= "-bed"@ + tail(s0, "-bed"@));
            lemma_replace_leading_once("-bed"@, tail(s0, "-bed"@), "--overlap-bed"@);
            lemma_replacen_leading_first("-bed"@, tail(s0, "-bed"@), "--overlap-bed"@);
        }
        if u0 && spells(s0, "-minMax"@) && !contains(tail(s0, "-minMax"@), "-minMax"@) {
            assert(s0 =~= "-minMax"@ + tail(s0, "-minMax"@));
            lemma_replace_leading_once("-minMax"@, tail(s0, "-minMax"@), "--minmax"@);
            lemma_replacen_leading_first("-minMax"@, tail(s0, "-minMax"@), "--minmax"@);
        }
        if u0 && spells(s0, "-adjust"@) && !contains(tail(s0, "-adjust"@), "-adjust"@) {
            assert(s0 =~= "-adjust"@ + tail(s0, "-adjust"@));
            lemma_replace_leading_once("-adjust"@, tail(s0, "-adjust"@), "--adjust"@);
            lemma_replacen_leading_first("-adjust"@, tail(s0, "-adjust"@), "--adjust"@);
        }
        if u0 && spells(s0, "-clip"@) && !contains(tail(s0, "-clip"@), "-clip"@) {
            assert(s0 =~= "-clip"@ + tail(s0, "-clip"@));
            lemma_replace_leading_once("-clip"@, tail(s0, "-clip"@), "--clip"@);
            lemma_replacen_leading_first("-clip"@, tail(s0, "-clip"@), "--clip"@);
        }
        if u0 && spells(s0, "-threshold"@) && !contains(tail(s0, "-threshold"@), "-threshold"@) {
            assert(s0 =~= "-threshold"@ + tail(s0, "-threshold"@));
            lemma_replace_leading_once("-threshold"@, tail(s0, "-threshold"@), "--threshold"@);
            lemma_replacen_leading_first("-threshold"@, tail(s0, "-threshold"@), "--threshold"@);
        }
        if u0 && spells(s0, "-chroms"@) && !contains(tail(s0, "-chroms"@), "-chrom"@) {
            // table order: `-chrom` precedes `-chroms`, so `-chroms[=..]` is taken by the `-chrom` entry: by luck the same
            let t = tail(s0, "-chroms"@);
            assert(s0 =~= "-chrom"@ + (seq!['s'] + t));
            lemma_not_contains_cons('s', t, "-chrom"@);
            lemma_replace_leading_once("-chrom"@, seq!['s'] + t, "--chrom"@);
            lemma_replacen_leading_first("-chrom"@, seq!['s'] + t, "--chrom"@);
            assert("--chrom"@ + (seq!['s'] + t) =~= "--chroms"@ + t);
            // (with the two entries in the other order the `-chroms` entry fires)
            assert(s0 =~= "-chroms"@ + t);
            if contains(t, "-chroms"@) { lemma_contains_prefix(t, "-chroms"@, "-chrom"@); }
            lemma_replace_leading_once("-chroms"@, t, "--chroms"@);
            lemma_replacen_leading_first("-chroms"@, t, "--chroms"@);
        }
        if u0 && spells(s0, "-zooms"@) && !contains(tail(s0, "-zooms"@), "-zooms"@) {
            assert(s0 =~= "-zooms"@ + tail(s0, "-zooms"@));
            lemma_replace_leading_once("-zooms"@, tail(s0, "-zooms"@), "--zooms"@);
            lemma_replacen_leading_first("-zooms"@, tail(s0, "-zooms"@), "--zooms"@);
        }
        if numeral_tail(tail(s0, "-blockSize"@)) { lemma_numeral_tail_does_not_contain(tail(s0, "-blockSize"@), "-blockSize"@, 1); }
        if numeral_tail(tail(s0, "-start"@)) { lemma_numeral_tail_does_not_contain(tail(s0, "-start"@), "-start"@, 1); }
        if numeral_tail(tail(s0, "-end"@)) { lemma_numeral_tail_does_not_contain(tail(s0, "-end"@), "-end"@, 2); }
        if numeral_tail(tail(s0, "-itemsPerSlot"@)) { lemma_numeral_tail_does_not_contain(tail(s0, "-itemsPerSlot"@), "-itemsPerSlot"@, 1); }
        if numeral_tail(tail(s0, "-adjust"@)) { lemma_numeral_tail_does_not_contain(tail(s0, "-adjust"@), "-adjust"@, 1); }
        if numeral_tail(tail(s0, "-clip"@)) { lemma_numeral_tail_does_not_contain(tail(s0, "-clip"@), "-clip"@, 1); }
        if numeral_tail(tail(s0, "-threshold"@)) { lemma_numeral_tail_does_not_contain(tail(s0, "-threshold"@), "-threshold"@, 1); }
        if numeral_tail(tail(s0, "-zooms"@)) { lemma_numeral_tail_does_not_contain(tail(s0, "-zooms"@), "-zooms"@, 1); }
        if u0 && s0 == "-bedOut"@ {
            let t = seq!['O', 'u', 't'];
            assert(s0 =~= "-bed"@ + t);
            lemma_replace_leading_once("-bed"@, t, "--overlap-bed"@);
            lemma_replacen_leading_first("-bed"@, t, "--overlap-bed"@);
            assert("--overlap-bed"@ + t =~= "--overlap-bedOut"@);
        }
    }
    touch_arg(arg);
//@end

// ---- the same function twice more, under the obligation AS THE PROPERTY STATES IT ("returns the original records ...
// whether native or UCSC-style flags are used": the value of an option must arrive unchanged WHATEVER it is, also when it
// contains the flag text: `-as=my-assembly.as` -> `--autosql=my-assembly.as`).  Holds since 26bb58a (`replacen(.., 1)`:
// only the leading occurrence is rewritten); with `replace` (every occurrence) these obligations FAIL.  Two extractions
// of seven obligations each, so that a revert shows all fourteen within the error budget of a function.
//@extract fn bigtools/src/utils/cli.rs compat_arg_mut
//@presub /("[^"\n]*")\s*,\s*("[^"\n]*")\s*;?/ => Some(b) if b.starts_with(\1) => { *(arg) = OsString::from_str(&macro_body_replace(b, \1, \2)).unwrap() }\n min=0
//@presub /("[^"\n]*")\s*;?(?=(?:\s*"[^"\n]*"\s*;?)*\s*unimplemented\s*:)/ => Some(b) if b.starts_with(\1) => *(arg) = OsString::from_str("").unwrap(),\n min=0
//@presub /("[^"\n]*")\s*;?(?=(?:\s*"[^"\n]*"\s*;?)*\s*\)\s*;?\s*\}\s*\Z)/ => Some(b) if b.starts_with(\1) => { panic!("Unimplemented compatibility option {}.", arg.to_string_lossy()); }\n min=0
//@presub /compat_replace_mut!\s*\(\s*arg\s*;\s*replace\s*:/ => match arg.to_str() { min=1 count=1
//@presub /\bignore\s*:/ => "" min=1 count=1
//@presub /\bunimplemented\s*:/ => "" min=1 count=1
//@presub /\)\s*;?\s*\}\s*\Z/ => _ => {}\n    }\n} min=1 count=1
//@rule R6
//@rule R8
//@sub /vpanic\(\)/ => vpanic_unimplemented(arg) min=0
//@sub /from_str\(("[^"\n]*")\)/ => from_str(Str::lit(\1)) min=0
//@sub /fn compat_arg_mut\b/ => fn compat_arg_mut_every_value_a min=1 count=1
//@as every_value
//@sig
    ensures
        [[L: unc_value_unchanged_even_if_it_contains_the_flag_text]]
        translated(*old(arg), *final(arg), "-unc"@, "--uncompressed"@),
        [[L: blockSize_value_unchanged_even_if_it_contains_the_flag_text]]
        translated(*old(arg), *final(arg), "-blockSize"@, "--block-size"@),
        [[L: chrom_value_unchanged_even_if_it_contains_the_flag_text]]
        translated(*old(arg), *final(arg), "-chrom"@, "--chrom"@),
        [[L: start_value_unchanged_even_if_it_contains_the_flag_text]]
        translated(*old(arg), *final(arg), "-start"@, "--start"@),
        [[L: end_value_unchanged_even_if_it_contains_the_flag_text]]
        translated(*old(arg), *final(arg), "-end"@, "--end"@),
        [[L: as_value_unchanged_even_if_it_contains_the_flag_text]]
        translated(*old(arg), *final(arg), "-as"@, "--autosql"@),
        [[L: bed_value_unchanged_even_if_it_contains_the_flag_text]]
        translated(*old(arg), *final(arg), "-bed"@, "--overlap-bed"@),
//@open
    proof { lemma_flag_texts(); }
    let ghost u0 = arg.is_utf8();
    let ghost s0 = arg@;
//@close
    proof {
        if u0 && spells(s0, "-unc"@) { assert(s0 =~= "-unc"@ + tail(s0, "-unc"@)); lemma_replacen_leading_first("-unc"@, tail(s0, "-unc"@), "--uncompressed"@); }
        if u0 && spells(s0, "-blockSize"@) { assert(s0 =~= "-blockSize"@ + tail(s0, "-blockSize"@)); lemma_replacen_leading_first("-blockSize"@, tail(s0, "-blockSize"@), "--block-size"@); }
        if u0 && spells(s0, "-chrom"@) { assert(s0 =~= "-chrom"@ + tail(s0, "-chrom"@)); lemma_replacen_leading_first("-chrom"@, tail(s0, "-chrom"@), "--chrom"@); }
        if u0 && spells(s0, "-start"@) { assert(s0 =~= "-start"@ + tail(s0, "-start"@)); lemma_replacen_leading_first("-start"@, tail(s0, "-start"@), "--start"@); }
        if u0 && spells(s0, "-end"@) { assert(s0 =~= "-end"@ + tail(s0, "-end"@)); lemma_replacen_leading_first("-end"@, tail(s0, "-end"@), "--end"@); }
        if u0 && spells(s0, "-as"@) { assert(s0 =~= "-as"@ + tail(s0, "-as"@)); lemma_replacen_leading_first("-as"@, tail(s0, "-as"@), "--autosql"@); }
        if u0 && spells(s0, "-bed"@) { assert(s0 =~= "-bed"@ + tail(s0, "-bed"@)); lemma_replacen_leading_first("-bed"@, tail(s0, "-bed"@), "--overlap-bed"@); }
    }
    touch_arg(arg);
//@end

//@extract fn bigtools/src/utils/cli.rs compat_arg_mut
//@presub /("[^"\n]*")\s*,\s*("[^"\n]*")\s*;?/ => Some(b) if b.starts_with(\1) => { *(arg) = OsString::from_str(&macro_body_replace(b, \1, \2)).unwrap() }\n min=0
//@presub /("[^"\n]*")\s*;?(?=(?:\s*"[^"\n]*"\s*;?)*\s*unimplemented\s*:)/ => Some(b) if b.starts_with(\1) => *(arg) = OsString::from_str("").unwrap(),\n min=0
//@presub /("[^"\n]*")\s*;?(?=(?:\s*"[^"\n]*"\s*;?)*\s*\)\s*;?\s*\}\s*\Z)/ => Some(b) if b.starts_with(\1) => { panic!("Unimplemented compatibility option {}.", arg.to_string_lossy()); }\n min=0
//@presub /compat_replace_mut!\s*\(\s*arg\s*;\s*replace\s*:/ => match arg.to_str() { min=1 count=1
//@presub /\bignore\s*:/ => "" min=1 count=1
//@presub /\bunimplemented\s*:/ => "" min=1 count=1
//@presub /\)\s*;?\s*\}\s*\Z/ => _ => {}\n    }\n} min=1 count=1
//@rule R6
//@rule R8
//@sub /vpanic\(\)/ => vpanic_unimplemented(arg) min=0
//@sub /from_str\(("[^"\n]*")\)/ => from_str(Str::lit(\1)) min=0
//@sub /fn compat_arg_mut\b/ => fn compat_arg_mut_every_value_b min=1 count=1
//@as every_value
//@sig
    ensures
        [[L: itemsPerSlot_value_unchanged_even_if_it_contains_the_flag_text]]
        translated(*old(arg), *final(arg), "-itemsPerSlot"@, "--items-per-slot"@),
        [[L: minMax_value_unchanged_even_if_it_contains_the_flag_text]]
        translated(*old(arg), *final(arg), "-minMax"@, "--minmax"@),
        [[L: adjust_value_unchanged_even_if_it_contains_the_flag_text]]
        translated(*old(arg), *final(arg), "-adjust"@, "--adjust"@),
        [[L: clip_value_unchanged_even_if_it_contains_the_flag_text]]
        translated(*old(arg), *final(arg), "-clip"@, "--clip"@),
        [[L: threshold_value_unchanged_even_if_it_contains_the_flag_text]]
        translated(*old(arg), *final(arg), "-threshold"@, "--threshold"@),
        [[L: chroms_value_unchanged_even_if_it_contains_the_flag_text]]
        translated(*old(arg), *final(arg), "-chroms"@, "--chroms"@),
        [[L: zooms_value_unchanged_even_if_it_contains_the_flag_text]]
        translated(*old(arg), *final(arg), "-zooms"@, "--zooms"@),
//@open
    proof { lemma_flag_texts(); }
    let ghost u0 = arg.is_utf8();
    let ghost s0 = arg@;
//@close
    proof {
        if u0 && spells(s0, "-itemsPerSlot"@) { assert(s0 =~= "-itemsPerSlot"@ + tail(s0, "-itemsPerSlot"@)); lemma_replacen_leading_first("-itemsPerSlot"@, tail(s0, "-itemsPerSlot"@), "--items-per-slot"@); }
        if u0 && spells(s0, "-minMax"@) { assert(s0 =~= "-minMax"@ + tail(s0, "-minMax"@)); lemma_replacen_leading_first("-minMax"@, tail(s0, "-minMax"@), "--minmax"@); }
        if u0 && spells(s0, "-adjust"@) { assert(s0 =~= "-adjust"@ + tail(s0, "-adjust"@)); lemma_replacen_leading_first("-adjust"@, tail(s0, "-adjust"@), "--adjust"@); }
        if u0 && spells(s0, "-clip"@) { assert(s0 =~= "-clip"@ + tail(s0, "-clip"@)); lemma_replacen_leading_first("-clip"@, tail(s0, "-clip"@), "--clip"@); }
        if u0 && spells(s0, "-threshold"@) { assert(s0 =~= "-threshold"@ + tail(s0, "-threshold"@)); lemma_replacen_leading_first("-threshold"@, tail(s0, "-threshold"@), "--threshold"@); }
        if u0 && spells(s0, "-chroms"@) {
            // `-chroms[=..]` is taken by the `-chrom` entry (table order); with the entries swapped by the `-chroms` entry
            let t = tail(s0, "-chroms"@);
            assert(s0 =~= "-chrom"@ + (seq!['s'] + t));
            lemma_replacen_leading_first("-chrom"@, seq!['s'] + t, "--chrom"@);
            assert("--chrom"@ + (seq!['s'] + t) =~= "--chroms"@ + t);
            assert(s0 =~= "-chroms"@ + t);
            lemma_replacen_leading_first("-chroms"@, t, "--chroms"@);
        }
        if u0 && spells(s0, "-zooms"@) { assert(s0 =~= "-zooms"@ + tail(s0, "-zooms"@)); lemma_replacen_leading_first("-zooms"@, tail(s0, "-zooms"@), "--zooms"@); }
    }
    touch_arg(arg);
//@end

// =====================================================================================
// (B) compat_args: the argument vector
// =====================================================================================
/// `std::path::Path` (`Path::new(os)` is `&Path`): the path an OsString spells
#[verifier::external_body]
pub struct Path { _p: u8 }
impl Path {
    pub uninterp spec fn of(&self) -> OsString;
    #[verifier::external_body]
    pub fn new<'a>(s: &'a OsString) -> (r: &'a Path)
        ensures r.of() == *s,
    { unimplemented!() }
    /// `Path::file_name`: the last component (None for `..`, `/`, the empty path): `file_name_of`, a fixed function of
    /// the path (uninterpreted)
    #[verifier::external_body]
    pub fn file_name<'a>(&'a self) -> (r: Option<&'a OsString>)
        ensures r is Some <==> file_name_of(self.of()) is Some, r matches Some(f) ==> Some(*f) == file_name_of(self.of()),
    { unimplemented!() }
    // plausible foreign calls: nothing promised
    #[verifier::external_body]
    pub fn file_stem<'a>(&'a self) -> (r: Option<&'a OsString>) { unimplemented!() }
    #[verifier::external_body]
    pub fn extension<'a>(&'a self) -> (r: Option<&'a OsString>) { unimplemented!() }
}
pub uninterp spec fn file_name_of(a: OsString) -> Option<OsString>;

/// `impl Iterator<Item = OsString>` / `std::vec::IntoIter<OsString>`: the arguments not handed out yet (Vec-backed;
/// ASSUMED fused)
#[verifier::external_body]
pub struct ArgIter { _p: u8 }
impl ArgIter {
    pub uninterp spec fn rest(&self) -> Seq<OsString>;
    /// `Iterator::next`
    #[verifier::external_body]
    pub fn next(&mut self) -> (r: Option<OsString>)
        ensures
            old(self).rest().len() == 0 ==> r is None && final(self).rest() == old(self).rest(),
            old(self).rest().len() > 0 ==> r == Some(old(self).rest()[0]) && final(self).rest() == old(self).rest().drop_first(),
    { unimplemented!() }
    /// `Iterator::collect::<Vec<_>>()`: everything that is left, in order
    #[verifier::external_body]
    pub fn collect(self) -> (r: Vec<OsString>)
        ensures r@ == self.rest(),
    { unimplemented!() }
    /// `Iterator::skip(n)` / `rev()` (REAL std contracts)
    #[verifier::external_body]
    pub fn skip(self, n: usize) -> (r: ArgIter)
        ensures r.rest() == self.rest().subrange(if n as int <= self.rest().len() { n as int } else { self.rest().len() as int }, self.rest().len() as int),
    { unimplemented!() }
    #[verifier::external_body]
    pub fn rev(self) -> (r: ArgIter)
        ensures r.rest() == self.rest().reverse(),
    { unimplemented!() }
    /// `.map(|a| a.to_ascii_lowercase())` on the iterator (REAL contract: element-wise)
    #[verifier::external_body]
    pub fn map_to_ascii_lowercase(self) -> (r: ArgIter)
        ensures r.rest().len() == self.rest().len(), forall|i: int| 0 <= i < self.rest().len() ==> #[trigger] r.rest()[i] == ascii_lower(self.rest()[i]),
    { unimplemented!() }
    // plausible foreign calls: nothing promised
    #[verifier::external_body]
    pub fn last(self) -> (r: Option<OsString>) { unimplemented!() }
    #[verifier::external_body]
    pub fn nth(&mut self, n: usize) -> (r: Option<OsString>) { unimplemented!() }
}
/// `Vec::into_iter`
#[verifier::external_body]
pub fn vec_into_iter(v: Vec<OsString>) -> (r: ArgIter)
    ensures r.rest() == v@,
{ unimplemented!() }
/// `<[T]>::reverse` (std; REAL contract)
pub assume_specification<T>[ <[T]>::reverse ](s: &mut [T])
    ensures final(s)@ == old(s)@.reverse();

pub open spec fn opt_seq(o: Option<OsString>) -> Seq<OsString> {
    match o { Some(a) => seq![a], None => Seq::<OsString>::empty() }
}
/// `empty().chain(a).collect()` (an `Option` iterates over its element, if any).  Verified.
pub fn collect_opt(a: Option<OsString>) -> (r: Vec<OsString>)
    ensures r@ == opt_seq(a),
{
    let mut v: Vec<OsString> = Vec::new();
    match a { Some(x) => { v.push(x); } None => {} }
    proof { assert(v@ =~= opt_seq(a)); }
    v
}
/// `empty().chain(a).chain(b).collect()`.  Verified.
pub fn collect_opt_opt(a: Option<OsString>, b: Option<OsString>) -> (r: Vec<OsString>)
    ensures r@ == opt_seq(a) + opt_seq(b),
{
    let mut v: Vec<OsString> = Vec::new();
    match a { Some(x) => { v.push(x); } None => {} }
    match b { Some(x) => { v.push(x); } None => {} }
    proof { assert(v@ =~= opt_seq(a) + opt_seq(b)); }
    v
}
/// `v.extend(w)` / `v.extend(w.into_iter())` for a Vec `w`.  Verified (Vec::append).
pub fn vec_extend(v: &mut Vec<OsString>, w: Vec<OsString>)
    ensures final(v)@ == old(v)@ + w@,
{
    let mut w = w;
    v.append(&mut w);
}
/// `chain!(a, it).collect::<Vec<_>>()`.  Verified on top of `collect`.
pub fn chain_opt_iter(a: Option<OsString>, it: ArgIter) -> (r: Vec<OsString>)
    ensures r@ == opt_seq(a) + it.rest(),
{
    let mut v = collect_opt(a);
    let w = it.collect();
    vec_extend(&mut v, w);
    v
}
/// `chain!(a, b, it).collect::<Vec<_>>()`.  Verified on top of `collect`.
pub fn chain_opt_opt_iter(a: Option<OsString>, b: Option<OsString>, it: ArgIter) -> (r: Vec<OsString>)
    ensures r@ == opt_seq(a) + opt_seq(b) + it.rest(),
{
    let mut v = collect_opt_opt(a, b);
    let w = it.collect();
    vec_extend(&mut v, w);
    v
}

/// WHAT compat_arg_mut TURNS AN ARGUMENT INTO (part (A) says what that is; the function is deterministic)
pub uninterp spec fn cam(a: OsString) -> OsString;
pub open spec fn map_cam(s: Seq<OsString>) -> Seq<OsString> { Seq::new(s.len(), |i: int| cam(s[i])) }
/// `v.iter_mut().skip(k).for_each(compat_arg_mut)` (ASSUMED std contract of iter_mut/skip/for_each: the function is
/// applied to every element from index k on, in place; the elements before k and the length stay).  compat_arg_mut
/// itself is part (A).
#[verifier::external_body]
pub fn for_each_compat_arg_mut(v: &mut Vec<OsString>, k: usize)
    ensures
        final(v)@.len() == old(v)@.len(),
        forall|i: int| 0 <= i < old(v)@.len() && i < k ==> #[trigger] final(v)@[i] == old(v)@[i],
        forall|i: int| 0 <= i < old(v)@.len() && i >= k ==> #[trigger] final(v)@[i] == cam(old(v)@[i]),
{ unimplemented!() }
/// `v.iter_mut().for_each(|a| *a = a.to_ascii_lowercase())` (REAL contract: element-wise, in place)
#[verifier::external_body]
pub fn for_each_to_ascii_lowercase(v: &mut Vec<OsString>)
    ensures
        final(v)@.len() == old(v)@.len(),
        forall|i: int| 0 <= i < old(v)@.len() ==> #[trigger] final(v)@[i] == ascii_lower(old(v)@[i]),
{ unimplemented!() }
/// part (A), labels `plain_value_or_path_is_unchanged` / `not_unicode_is_unchanged`, in terms of `cam`
#[verifier::external_body]
pub proof fn axiom_cam_leaves_non_dash_arguments_alone(a: OsString)
    requires !a.is_utf8() || plain_value(a@),
    ensures cam(a) == a,
{ }

// ---------------- what the property says about the argument vector ----------------
/// `bigtools <sub> ...`: the program name ends in `bigtools` (any case)
pub open spec fn is_multicall(inp: Seq<OsString>) -> bool {
    inp.len() > 0 && has_suffix(lower_str(inp[0].lossy())@, "bigtools"@)
}
/// the subcommand as it is handed on: ASCII-lower-cased, except `-V`
pub open spec fn sub_norm(a: OsString) -> OsString { if eq_icase(a, "-V") { a } else { ascii_lower(a) } }
/// the command an argument names: the file name of the path, lower-cased (None: no file name / not Unicode)
pub open spec fn command_of(a: OsString) -> Option<&'static str> {
    match file_name_of(a) {
        Some(f) => if f.is_utf8() { Some(lower_str(f.text())) } else { None },
        None => None,
    }
}
/// the command of an argument vector
pub open spec fn command(inp: Seq<OsString>) -> Option<&'static str> {
    if inp.len() == 0 { None }
    else if is_multicall(inp) { if inp.len() >= 2 { command_of(sub_norm(inp[1])) } else { None } }
    else { command_of(inp[0]) }
}
/// the leading elements (program name, subcommand) as they are handed on
pub open spec fn lead(inp: Seq<OsString>) -> Seq<OsString> {
    if inp.len() == 0 { Seq::<OsString>::empty() }
    else if is_multicall(inp) { if inp.len() >= 2 { seq![inp[0], sub_norm(inp[1])] } else { seq![inp[0]] } }
    else if command(inp) is Some { seq![ascii_lower(inp[0])] }
    else { seq![inp[0]] }
}
/// the arguments behind them
pub open spec fn args_of(inp: Seq<OsString>) -> Seq<OsString> { inp.subrange(lead(inp).len() as int, inp.len() as int) }
/// the tools whose UCSC flags are translated (bigwigmerge apart)
pub open spec fn is_listed(c: &'static str) -> bool {
    c == "bedgraphtobigwig" || c == "bedtobigbed" || c == "bigbedtobed" || c == "bigwiginfo" || c == "bigwigaverageoverbed"
    || c == "bigwigtobedgraph"
}
/// bigwigmerge: an input is named with `-b` / `-l` (any argument starting so)
pub open spec fn names_input(a: OsString) -> bool { a.is_utf8() && (has_prefix(a@, "-b"@) || has_prefix(a@, "-l"@)) }
pub open spec fn is_in_list_flag(a: OsString) -> bool { a.is_utf8() && a@ == "-inList"@ }
pub open spec fn any_names_input(s: Seq<OsString>) -> bool { exists|i: int| 0 <= i < s.len() && names_input(#[trigger] s[i]) }
pub open spec fn any_in_list(s: Seq<OsString>) -> bool { exists|i: int| 0 <= i < s.len() && is_in_list_flag(#[trigger] s[i]) }
/// the marker put in front of a positional argument
pub open spec fn marker(in_list: bool) -> OsString { if in_list { os_lit("-l") } else { os_lit("-b") } }
/// Kent-style `bigWigMerge [options] in1.bw in2.bw ...`: what ONE argument becomes
pub open spec fn kent_item(a: OsString, in_list: bool) -> Seq<OsString> {
    if a.lossy()@ == "-inList"@ { Seq::<OsString>::empty() }
    else if has_prefix(a.lossy()@, "-"@) { seq![a] }
    else { seq![marker(in_list), a] }
}
/// ... and what the arguments (without the output) become, in order
pub open spec fn kent_map(s: Seq<OsString>, in_list: bool) -> Seq<OsString>
    decreases s.len()
{
    if s.len() == 0 { Seq::<OsString>::empty() } else { kent_item(s[0], in_list) + kent_map(s.drop_first(), in_list) }
}
/// the same over the reversed list (the order the code pops them in)
pub open spec fn kent_rev(r: Seq<OsString>, in_list: bool) -> Seq<OsString>
    decreases r.len()
{
    if r.len() == 0 { Seq::<OsString>::empty() } else { kent_item(r.last(), in_list) + kent_rev(r.drop_last(), in_list) }
}
proof fn lemma_kent_rev(s: Seq<OsString>, in_list: bool)
    ensures kent_rev(s.reverse(), in_list) == kent_map(s, in_list),
    decreases s.len()
{
    if s.len() > 0 {
        let r = s.reverse();
        assert(r.last() == s[0]);
        assert(r.drop_last() =~= s.drop_first().reverse());
        lemma_kent_rev(s.drop_first(), in_list);
    }
}
/// the arguments of bigwigmerge as they are handed on (before compat_arg_mut)
pub open spec fn merge_args(a: Seq<OsString>) -> Seq<OsString> {
    if any_names_input(a) || a.len() == 0 { a }
    else { kent_map(a.drop_last(), any_in_list(a)) + seq![a.last()] }
}

//@extract fn bigtools/src/utils/cli.rs compat_args
//@presub /\s+\.(?=[a-z_0-9])/ => . min=0
//@presub /\A.*?let has_input = \w+\.iter\(\)\.any\(\|(\w+)\| (.*?)\);.*\Z/ => fn names_input_pred(\1: &OsString) -> bool { \2 } min=1
//@rule R15
//@rule R8
//@as names_input_pred
//@ret r
//@sig
    ensures
        [[L: an_input_is_named_by_an_argument_starting_with_b_or_l]]
        r == names_input(*a),
//@end

//@extract fn bigtools/src/utils/cli.rs compat_args
//@presub /\s+\.(?=[a-z_0-9])/ => . min=0
//@presub /\A.*?let in_list = \w+\.iter\(\)\.any\(\|(\w+)\| (.*?)\);.*\Z/ => fn in_list_pred(\1: &OsString) -> bool { \2 } min=1
//@rule R15
//@rule R8
//@sub /(\w+) == ("[^"\n]*")/ => \1.eq_lit(\2) min=0
//@as in_list_pred
//@ret r
//@sig
    ensures
        [[L: the_list_flag_is_the_argument_inList]]
        r == is_in_list_flag(*a),
//@end

/// a Vec's length is a usize (a verified no-op; makes `len() + 1` after a `pop()` provably overflow-free)
fn len_fits_usize(v: &Vec<OsString>)
    ensures v@.len() <= usize::MAX,
{ let _n = v.len(); }

/// `v.iter().any(|a| names_input_pred(a))`: a verified loop over the closure body cut out above
fn any_names_input_of(v: &Vec<OsString>) -> (r: bool)
    ensures r == any_names_input(v@),
{
    let mut i: usize = 0;
    while i < v.len()
        invariant i <= v.len(), forall|k: int| 0 <= k < i ==> !names_input(#[trigger] v@[k]),
        decreases v.len() - i,
    {
        if names_input_pred(&v[i]) { return true; }
        i = i + 1;
    }
    false
}
fn any_in_list_of(v: &Vec<OsString>) -> (r: bool)
    ensures r == any_in_list(v@),
{
    let mut i: usize = 0;
    while i < v.len()
        invariant i <= v.len(), forall|k: int| 0 <= k < i ==> !is_in_list_flag(#[trigger] v@[k]),
        decreases v.len() - i,
    {
        if in_list_pred(&v[i]) { return true; }
        i = i + 1;
    }
    false
}

//@extract fn bigtools/src/utils/cli.rs compat_args
//@presub /\s+\.(?=[a-z_0-9])/ => . min=0
//@presub /(\w+)\.as_ref\(\)\.and_then\(\|(\w+)\| ([^|;{}]*?)\)\.and_then\(\|(\w+)\| ([^|;{}]*?)\)\.map\(\|(\w+)\| ([^|;{}]*?)\)(?=\s*\{)/ => (match \1.as_ref() { Some(\2) => (match \3 { Some(\4) => (match \5 { Some(\6) => Some(\7), None => None }), None => None }), None => None }) min=0
//@presub /\bargs\.map\(\|(\w+)\| \1\.to_ascii_lowercase\(\)\)/ => args.map_to_ascii_lowercase() min=0
//@presub /\b(\w+)\.map\(\|(\w+)\| ((?:[^();]|\((?:[^()]|\([^()]*\))*\)|;(?=[^()]*\}))*?)\);/ => (match \1 { Some(\2) => Some(\3), None => None }); min=0
//@presub /(\w+)\.iter\(\)\.any\(\|\w+\| .*?\)(?=;)/ => any_names_input_of(&\1) min=1 count=1
//@presub /(\w+)\.iter\(\)\.any\(\|\w+\| .*?\)(?=;)/ => any_in_list_of(&\1) min=1 count=1
//@presub /while let Some\((\w+)\) = (\w+)\.pop\(\)\s*\{/ => loop { let \1 = match \2.pop() { Some(v__) => v__, None => break }; min=0
//@rule R15
//@rule R8
//@rule R6
//@sub /impl Iterator<Item = OsString>/ => ArgIter min=2
//@sub /(\w+) == ("[^"\n]*")/ => \1.eq_lit(\2) min=0
//@sub /from_str\(("[^"\n]*")\)/ => from_str(Str::lit(\1)) min=0
//@sub /empty\(\)\.chain\((\w+)\)\.chain\((\w+)\)\.collect\(\)/ => collect_opt_opt(\1, \2) min=0
//@sub /empty\(\)\.chain\((\w+)\)\.collect\(\)/ => collect_opt(\1) min=0
//@sub /empty\(\)\.chain\(/ => unknown_chain_on_empty__refused( min=0
//@sub /chain!\((\w+), (\w+), (\w+)\)\.collect::<Vec<_>>\(\)\.into_iter\(\)/ => vec_into_iter(chain_opt_opt_iter(\1, \2, \3)) min=0
//@sub /chain!\((\w+), (\w+)\)\.collect::<Vec<_>>\(\)\.into_iter\(\)/ => vec_into_iter(chain_opt_iter(\1, \2)) min=0
//@sub /(\w+)\.extend\((\w+)\.into_iter\(\)\)/ => vec_extend(&mut \1, \2) min=0
//@sub /(\w+)\.extend\((\w+)\)/ => vec_extend(&mut \1, \2) min=0
//@sub /(\w+)\.iter_mut\(\)\.skip\((\w+)\)\.for_each\((\w+)\)/ => for_each_\3(&mut \1, \2) min=0
//@sub /(\w+)\.iter_mut\(\)\.for_each\((\w+)\)/ => for_each_\2(&mut \1, 0) min=0
//@sub /(\w+)\.iter_mut\(\)\.for_each\(\|(\w+)\| \*\2 = \2\.to_ascii_lowercase\(\)\)/ => for_each_to_ascii_lowercase(&mut \1) min=0
//@sub /(\w+)\.map\(\|(\w+)\| \2\.to_ascii_lowercase\(\)\)\.collect\(\)/ => \1.map_to_ascii_lowercase().collect() min=0
//@sub /(\w+)\.into_iter\(\)/ => vec_into_iter(\1) min=0
//@sub /(\w+)\.as_deref\(\)/ => opt_as_deref(&\1) min=0
//@ret r
//@sig
    ensures
        [[L: no_command/arguments_are_handed_on_in_order_subcommand_lower_cased]]
        command(args.rest()) is None ==> r.rest() =~= lead(args.rest()) + args_of(args.rest()),
        [[L: other_tools/arguments_unchanged_in_order_only_the_command_element_lower_cased]]
        command(args.rest()) matches Some(c) ==> (c != "bigwigmerge" && !is_listed(c) ==> r.rest() =~= lead(args.rest()) + args_of(args.rest())),
        [[L: listed_tools/every_argument_behind_the_command_is_compat_arg_mut_of_its_input_in_order]]
        command(args.rest()) matches Some(c) ==> (is_listed(c) ==> r.rest().len() == args.rest().len()
            && r.rest().subrange(lead(args.rest()).len() as int, r.rest().len() as int) =~= map_cam(args_of(args.rest()))),
        [[L: bigwigmerge/b_or_l_present_nothing_rearranged_else_positionals_get_a_marker_flags_stay_last_is_output]]
        command(args.rest()) matches Some(c) ==> (c == "bigwigmerge" ==> r.rest().len() >= lead(args.rest()).len()
            && r.rest().subrange(lead(args.rest()).len() as int, r.rest().len() as int) =~= map_cam(merge_args(args_of(args.rest())))),
        [[L: same_number_of_arguments_for_every_command_but_bigwigmerge]]
        (command(args.rest()) matches Some(c) ==> c != "bigwigmerge") ==> r.rest().len() == args.rest().len(),
        [[L: leading_elements_are_program_name_and_subcommand_as_for_any_other_tool_or_compat_arg_mut_of_them]]
        forall|i: int| 0 <= i < lead(args.rest()).len() ==> i < r.rest().len()
            && (r.rest()[i] == #[trigger] lead(args.rest())[i] || r.rest()[i] == cam(lead(args.rest())[i])),
        [[L: leading_elements_not_starting_with_a_dash_are_the_same_for_every_tool]]
        forall|i: int| 0 <= i < lead(args.rest()).len() && (!lead(args.rest())[i].is_utf8() || plain_value(lead(args.rest())[i]@))
            ==> i < r.rest().len() && r.rest()[i] == #[trigger] lead(args.rest())[i],
        [[L: doc/today_the_leading_elements_of_the_translated_tools_go_through_compat_arg_mut_too]]
        r.rest() =~= expected(args.rest()),
//@open
    let ghost inp = args.rest();
    proof {
        if lead(inp).len() >= 1 && (!lead(inp)[0].is_utf8() || plain_value(lead(inp)[0]@)) { axiom_cam_leaves_non_dash_arguments_alone(lead(inp)[0]); }
        if lead(inp).len() >= 2 && (!lead(inp)[1].is_utf8() || plain_value(lead(inp)[1]@)) { axiom_cam_leaves_non_dash_arguments_alone(lead(inp)[1]); }
    }
//@at /let args = match / before optional
    assert(args@ =~= args_of(inp)); [[L: the_arguments_behind_the_command_are_collected_in_order]]
    assert(start@ =~= lead(inp)); [[L: the_leading_elements_are_program_name_and_subcommand]]
//@at /let last = old_args\.pop\(\)/ before optional
                len_fits_usize(&old_args);
//@at /old_args\.reverse\(\)/ before optional
                let ghost orig = old_args@;
//@at /old_args\.reverse\(\)/ after optional
                let ghost r0 = old_args@;
//@loop 1
                    invariant
                        [[L: loop/kent_rewrite_processes_the_arguments_in_their_original_order]]
                        args@ + kent_rev(old_args@, in_list) =~= kent_rev(r0, in_list),
                    ensures
                        old_args@.len() == 0,
                    decreases
                        [[L: loop/termination]]
                        old_args@.len(),
//@at /match last \{/ before optional
                proof {
                    lemma_kent_rev(orig, in_list);
                    assert(args@ + Seq::<OsString>::empty() =~= args@);
                }
//@end

/// THE WHOLE RESULT in one expression
pub open spec fn expected(inp: Seq<OsString>) -> Seq<OsString> {
    match command(inp) {
        None => lead(inp) + args_of(inp),
        Some(c) =>
            if c == "bigwigmerge" { map_cam(lead(inp) + merge_args(args_of(inp))) }
            else if is_listed(c) { map_cam(lead(inp) + args_of(inp)) }
            else { lead(inp) + args_of(inp) },
    }
}

/// (3) MULTICALL: `bigtools <sub> args...` hands on, behind its two leading elements, exactly what `<prog> args...`
/// hands on behind its one, whenever `<sub>` and `<prog>` name the same command
proof fn lemma_multicall_behaves_like_the_tool_itself(bt: OsString, sub: OsString, prog: OsString, rest: Seq<OsString>)
    requires
        is_multicall(seq![bt, sub] + rest),
        !is_multicall(seq![prog] + rest),
        command_of(sub_norm(sub)) is Some,
        command_of(prog) == command_of(sub_norm(sub)),
    ensures
        [[L: lemma/multicall_bigtools_sub_args_hands_on_the_arguments_of_sub_args]]
        expected(seq![bt, sub] + rest).subrange(2, expected(seq![bt, sub] + rest).len() as int)
            =~= expected(seq![prog] + rest).subrange(1, expected(seq![prog] + rest).len() as int),
{
    let i1 = seq![bt, sub] + rest;
    let i2 = seq![prog] + rest;
    assert(i1[0] == bt && i1[1] == sub && i2[0] == prog);
    assert(args_of(i1) =~= rest);
    assert(args_of(i2) =~= rest);
}
/// (4) the Kent call of the documentation: `bigWigMerge in1.bw in2.bw out.bg` -> `-b in1.bw -b in2.bw out.bg`
proof fn lemma_kent_example(in1: OsString, in2: OsString, out: OsString)
    requires
        !names_input(in1), !names_input(in2), !names_input(out),
        !has_prefix(in1.lossy()@, "-"@), !has_prefix(in2.lossy()@, "-"@),
        in1.lossy()@ != "-inList"@, in2.lossy()@ != "-inList"@,
        !is_in_list_flag(in1), !is_in_list_flag(in2), !is_in_list_flag(out),
    ensures
        [[L: lemma/kent_call_in1_in2_out_becomes_b_in1_b_in2_out]]
        merge_args(seq![in1, in2, out]) =~= seq![os_lit("-b"), in1, os_lit("-b"), in2, out],
{
    let a = seq![in1, in2, out];
    assert(!any_names_input(a));
    assert(!any_in_list(a));
    let d = a.drop_last();
    assert(d =~= seq![in1, in2]);
    reveal_with_fuel(kent_map, 3);
    assert(d.drop_first() =~= seq![in2]);
    assert(d.drop_first().drop_first() =~= Seq::<OsString>::empty());
}
/// ... and with `-inList`: `bigWigMerge -inList list.txt out.bg` -> `-l list.txt out.bg` (the flag itself is dropped, a
/// Kent flag such as `-threshold=0.5` keeps its place)
proof fn lemma_kent_example_in_list(fl: OsString, thr: OsString, list: OsString, out: OsString)
    requires
        is_in_list_flag(fl), fl.lossy()@ == "-inList"@,
        has_prefix(thr.lossy()@, "-"@), thr.lossy()@ != "-inList"@,
        !has_prefix(list.lossy()@, "-"@), list.lossy()@ != "-inList"@,
        !names_input(fl), !names_input(thr), !names_input(list), !names_input(out),
    ensures
        [[L: lemma/kent_call_inList_threshold_list_out_becomes_threshold_l_list_out]]
        merge_args(seq![fl, thr, list, out]) =~= seq![thr, os_lit("-l"), list, out],
{
    let a = seq![fl, thr, list, out];
    assert(!any_names_input(a));
    assert(is_in_list_flag(a[0]));
    assert(any_in_list(a));
    let d = a.drop_last();
    assert(d =~= seq![fl, thr, list]);
    reveal_with_fuel(kent_map, 4);
    assert(d.drop_first() =~= seq![thr, list]);
    assert(d.drop_first().drop_first() =~= seq![list]);
    assert(d.drop_first().drop_first().drop_first() =~= Seq::<OsString>::empty());
}

} // verus!
fn main() {}
