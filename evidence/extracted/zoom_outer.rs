// The level loop of `process_val_zoom` (bigwigwrite.rs and bigbedwrite.rs): the WHOLE function is cut,
// only the `{ .. }` of `for zoom_item in zoom_items.iter_mut() { .. }` is replaced by ONE call
// `level_step(zoom_item, options, <the value>, next_val, runtime, chrom_id)`.  That `{ .. }` is exactly what
// units bw_zoom / bb_zoom put under contract (`loopbody .. 1`, rule R9 "the enclosing iteration is dropped");
// this unit is the enclosing iteration: the loop header and every statement before / after the loop.
//   C07 / C08 "every base that has data lies in exactly one record" holds for EVERY zoom level and
//   "nothing is pending at the end of a chromosome" for EVERY level only if every level is stepped exactly
//   once per value, with the value's own start/end/value, the caller's `next_val` (None exactly when the
//   caller passed None: the end-of-chromosome flush depends on it) and the chromosome id.
// The postcondition of both functions IS the contract that unit procs assumes for its signature-only
// `process_val_zoom` (`pvz_post`, `pvz_pre .. ==> flushed`): same names, here with a definition.
use vstd::prelude::*;
use vstd::std_specs::ops::*;
use vstd::std_specs::convert::FromSpec;
verus! {
// ---- shared float prelude -------------------------------------------------
// Rust float operators are total; Verus models their results as uninterpreted
// functions (`add_spec`, `mul_spec`, `from_spec`, ...).  The axioms below say
// only (1) the operators have no precondition and (2) the exec operator returns
// the value of its spec function (determinism).  Nothing numerical is assumed.
mod float_ax {
use vstd::prelude::*;
use vstd::std_specs::ops::*;
use vstd::std_specs::convert::FromSpec;
pub broadcast axiom fn ax_f64_mul_total(a: f64, b: f64) ensures #[trigger] a.mul_req(b);
pub broadcast axiom fn ax_f64_add_total(a: f64, b: f64) ensures #[trigger] a.add_req(b);
pub broadcast axiom fn ax_f64_sub_total(a: f64, b: f64) ensures #[trigger] a.sub_req(b);
pub broadcast axiom fn ax_f64_div_total(a: f64, b: f64) ensures #[trigger] a.div_req(b);
pub broadcast axiom fn ax_f32_add_total(a: f32, b: f32) ensures #[trigger] a.add_req(b);
pub broadcast axiom fn ax_f32_sub_total(a: f32, b: f32) ensures #[trigger] a.sub_req(b);
pub broadcast group float_total { ax_f64_mul_total, ax_f64_add_total, ax_f64_sub_total, ax_f64_div_total, ax_f32_add_total, ax_f32_sub_total }
pub axiom fn float_det()
    ensures
        <f64 as AddSpec<f64>>::obeys_add_spec(), <f64 as MulSpec<f64>>::obeys_mul_spec(),
        <f64 as SubSpec<f64>>::obeys_sub_spec(), <f64 as DivSpec<f64>>::obeys_div_spec(),
        <f32 as AddSpec<f32>>::obeys_add_spec(), <f32 as SubSpec<f32>>::obeys_sub_spec(),
        <f64 as FromSpec<u32>>::obeys_from_spec(), <f64 as FromSpec<f32>>::obeys_from_spec();
}
broadcast use float_ax::float_total;
pub uninterp spec fn fmin(a: f64, b: f64) -> f64;
pub uninterp spec fn fmax(a: f64, b: f64) -> f64;
pub assume_specification [f64::min] (a: f64, b: f64) -> (r: f64) ensures r == fmin(a, b);
pub assume_specification [f64::max] (a: f64, b: f64) -> (r: f64) ensures r == fmax(a, b);
// float constants (rule R12c): Verus has no model of core::f64 associated consts; each is an
// uninterpreted spec constant, distinct names so that swapping two of them is visible.
pub uninterp spec fn spec_f64_max() -> f64;
pub uninterp spec fn spec_f64_min() -> f64;
pub uninterp spec fn spec_f64_min_positive() -> f64;
pub uninterp spec fn spec_f64_nan() -> f64;
pub uninterp spec fn spec_f64_infinity() -> f64;
pub uninterp spec fn spec_f64_neg_infinity() -> f64;
pub uninterp spec fn spec_f64_epsilon() -> f64;
#[verifier::external_body] pub fn fconst_f64_max() -> (r: f64) ensures r == spec_f64_max() { f64::MAX }
#[verifier::external_body] pub fn fconst_f64_min() -> (r: f64) ensures r == spec_f64_min() { f64::MIN }
#[verifier::external_body] pub fn fconst_f64_min_positive() -> (r: f64) ensures r == spec_f64_min_positive() { f64::MIN_POSITIVE }
#[verifier::external_body] pub fn fconst_f64_nan() -> (r: f64) ensures r == spec_f64_nan() { f64::NAN }
#[verifier::external_body] pub fn fconst_f64_infinity() -> (r: f64) ensures r == spec_f64_infinity() { f64::INFINITY }
#[verifier::external_body] pub fn fconst_f64_neg_infinity() -> (r: f64) ensures r == spec_f64_neg_infinity() { f64::NEG_INFINITY }
#[verifier::external_body] pub fn fconst_f64_epsilon() -> (r: f64) ensures r == spec_f64_epsilon() { f64::EPSILON }

#[derive(Copy, Clone)]
pub struct Summary {
    pub total_items: u64,
    pub bases_covered: u64,
    pub min_val: f64,
    pub max_val: f64,
    pub sum: f64,
    pub sum_squares: f64,
}
#[derive(Copy, Clone)]
pub struct Value {
    pub start: u32,
    pub end: u32,
    pub value: f32,
}
#[derive(Copy, Clone)]
pub struct ZoomRecord {
    pub chrom: u32,
    pub start: u32,
    pub end: u32,
    pub summary: Summary,
}
// R11: `rest: String` -> `rest: Vec<u8>` (as units procs / bb_enc / bb_batch; the text is never inspected here)
pub struct BedEntry {
    pub start: u32,
    pub end: u32,
    pub rest: Vec<u8>,
}
#[derive(Copy, Clone)]
pub enum InputSortType {
    ALL,
    START,
    // TODO
    //NONE,
}
pub struct BBIWriteOptions {
    pub compress: bool,
    pub items_per_slot: u32,
    pub block_size: u32,
    pub initial_zoom_size: u32,
    pub max_zooms: u32,
    pub manual_zoom_sizes: Option<Vec<u32>>,
    pub input_sort_type: InputSortType,
    pub channel_size: usize,
    pub inmemory: bool,
}
// thiserror attributes dropped; io::Error -> opaque IoErr
pub enum ProcessDataError {
    InvalidInput(String),
    InvalidChromosome(String),
    IoError(IoErr),
}

// ---------------- shims (each one is a listed assumption) ----------------
#[verifier::external_body]
pub struct IoErr { _p: u8 }
/// tokio runtime handle: only passed on
#[verifier::external_body]
pub struct Handle { _p: u8 }
/// IndexList<Value>: the sweep line of units bb_sweep / bb_zoom; opaque here
#[verifier::external_body]
pub struct Overlap { _p: u8 }
/// section channel (BBIDataProcessoringInputSectionChannel): opaque here
#[verifier::external_body]
pub struct ZoomSink { _p: u8 }

/// `v.iter_mut()` hands out, for each position, the exclusive borrow of THAT element (`IndexMut`): the
/// element is read as it is, whatever is written through the borrow lands at that position, no other
/// position changes (this is the frame "level k's step sees only item k").  Panics out of range.
#[verifier::external_body]
pub fn elem_mut<T>(v: &mut Vec<T>, i: usize) -> (r: &mut T)
    requires
        i < old(v)@.len(),
    ensures
        *r == old(v)@[i as int],
        final(v)@ == old(v)@.update(i as int, *final(r)),
{ unimplemented!() }

// ---------------- the order in which an iterator chain visits the positions of a Vec ----------------
// `for x in V.iter_mut()<adaptors> { B }` is rewritten (R7-style, unit-local sub) into
//   let order__ = Order::all(V.len())<adaptors>; let mut j__ = 0;
//   while j__ < order__.len() { let x = elem_mut(V, order__.at(j__)); B  j__ = j__ + 1; }
// `Order` is the sequence of positions visited; `all(n)` = 0, 1, .., n-1 (slice::IterMut), and the
// adaptors `skip / take / rev` act on that sequence as the std adaptors act on any exact-size
// double-ended iterator.  Everything below is VERIFIED (no external_body).
pub open spec fn vis(o: Seq<usize>, j: int, k: int) -> bool {
    exists|i: int| 0 <= i < j && i < o.len() && (#[trigger] o[i]) as int == k
}
/// no position is visited twice
pub open spec fn inj(o: Seq<usize>) -> bool {
    forall|a: int, b: int| 0 <= a < b < o.len() ==> (#[trigger] o[a]) != (#[trigger] o[b])
}
pub open spec fn bounded(o: Seq<usize>, n: int) -> bool {
    forall|i: int| 0 <= i < o.len() ==> (#[trigger] o[i]) < n
}
/// every position below n is visited
pub open spec fn onto(o: Seq<usize>, n: int) -> bool {
    forall|k: int| 0 <= k < n ==> #[trigger] vis(o, o.len() as int, k)
}
pub proof fn lemma_vis_step(o: Seq<usize>, j: int, k: int)
    requires 0 <= j < o.len(),
    ensures vis(o, j + 1, k) == (vis(o, j, k) || o[j] as int == k),
{
    if vis(o, j + 1, k) {
        let i = choose|i: int| 0 <= i < j + 1 && i < o.len() && (#[trigger] o[i]) as int == k;
        if i < j { assert(vis(o, j, k)); }
    }
    if vis(o, j, k) {
        let i = choose|i: int| 0 <= i < j && i < o.len() && (#[trigger] o[i]) as int == k;
        assert(0 <= i < j + 1 && o[i] as int == k);
    }
    if o[j] as int == k { assert(0 <= j < j + 1 && o[j] as int == k); }
}
pub proof fn lemma_fresh(o: Seq<usize>, j: int)
    requires inj(o), 0 <= j < o.len(),
    ensures !vis(o, j, o[j] as int),
{
    if vis(o, j, o[j] as int) {
        let i = choose|i: int| 0 <= i < j && i < o.len() && (#[trigger] o[i]) as int == o[j] as int;
        assert(o[i] != o[j]);
    }
}
pub struct Order { pub ix: Vec<usize> }
impl Order {
    pub open spec fn view(&self) -> Seq<usize> { self.ix@ }
    pub fn all(n: usize) -> (r: Order)
        ensures
            r@.len() == n,
            forall|i: int| 0 <= i < n ==> (#[trigger] r@[i]) == i,
            inj(r@), bounded(r@, n as int), onto(r@, n as int),
    {
        let mut ix: Vec<usize> = Vec::new();
        let mut i: usize = 0;
        while i < n
            invariant i <= n, ix@.len() == i, forall|t: int| 0 <= t < i ==> (#[trigger] ix@[t]) == t,
            decreases n - i,
        {
            ix.push(i);
            i = i + 1;
        }
        proof {
            assert forall|k: int| 0 <= k < n implies #[trigger] vis(ix@, ix@.len() as int, k) by {
                assert(ix@[k] as int == k);
            }
        }
        Order { ix }
    }
    pub fn len(&self) -> (r: usize)
        ensures r == self@.len(),
    { self.ix.len() }
    pub fn at(&self, j: usize) -> (r: usize)
        requires j < self@.len(),
        ensures r == self@[j as int],
    { self.ix[j] }
    /// Iterator::skip(n): drops the first n (all of them when there are fewer)
    pub fn skip(self, n: usize) -> (r: Order)
        ensures
            r@ == self@.subrange(if n <= self@.len() { n as int } else { self@.len() as int }, self@.len() as int),
            inj(self@) ==> inj(r@),
            forall|m: int| bounded(self@, m) ==> #[trigger] bounded(r@, m),
            n == 0 ==> r@ == self@,
    {
        let len = self.ix.len();
        let lo = if n <= len { n } else { len };
        let mut ix: Vec<usize> = Vec::new();
        let mut i: usize = lo;
        while i < len
            invariant lo <= i <= len, len == self.ix@.len(), ix@ == self.ix@.subrange(lo as int, i as int),
            decreases len - i,
        {
            ix.push(self.ix[i]);
            i = i + 1;
            assert(ix@ =~= self.ix@.subrange(lo as int, i as int));
        }
        proof {
            let s = self.ix@; let t = ix@;
            assert forall|a: int| 0 <= a < t.len() implies (#[trigger] t[a]) == s[a + lo] by { }
            if inj(s) {
                assert forall|a: int, b: int| 0 <= a < b < t.len() implies (#[trigger] t[a]) != (#[trigger] t[b]) by {
                    assert(s[a + lo] != s[b + lo]);
                }
            }
            assert forall|m: int| bounded(s, m) implies #[trigger] bounded(t, m) by {
                assert forall|a: int| 0 <= a < t.len() implies (#[trigger] t[a]) < m by { assert(s[a + lo] < m); }
            }
            if n == 0 { assert(t =~= s); }
        }
        Order { ix }
    }
    /// Iterator::take(n): keeps the first n (all of them when there are fewer)
    pub fn take(self, n: usize) -> (r: Order)
        ensures
            r@ == self@.subrange(0, if n <= self@.len() { n as int } else { self@.len() as int }),
            inj(self@) ==> inj(r@),
            forall|m: int| bounded(self@, m) ==> #[trigger] bounded(r@, m),
            n >= self@.len() ==> r@ == self@,
    {
        let len = self.ix.len();
        let hi = if n <= len { n } else { len };
        let mut ix: Vec<usize> = Vec::new();
        let mut i: usize = 0;
        while i < hi
            invariant i <= hi <= len, len == self.ix@.len(), ix@ == self.ix@.subrange(0, i as int),
            decreases hi - i,
        {
            ix.push(self.ix[i]);
            i = i + 1;
            assert(ix@ =~= self.ix@.subrange(0, i as int));
        }
        proof {
            let s = self.ix@; let t = ix@;
            if inj(s) {
                assert forall|a: int, b: int| 0 <= a < b < t.len() implies (#[trigger] t[a]) != (#[trigger] t[b]) by {
                    assert(s[a] != s[b]);
                }
            }
            assert forall|m: int| bounded(s, m) implies #[trigger] bounded(t, m) by {
                assert forall|a: int| 0 <= a < t.len() implies (#[trigger] t[a]) < m by { assert(s[a] < m); }
            }
            if n >= len { assert(t =~= s); }
        }
        Order { ix }
    }
    /// Iterator::step_by(n): panics for n == 0; for n == 1 the same sequence; otherwise NOTHING is promised here
    /// (a plausible edit "every other level" is judged - it cannot show that every level is visited - not rejected)
    pub fn step_by(self, n: usize) -> (r: Order)
        requires
            n > 0,
        ensures
            n == 1 ==> r@ == self@,
    {
        let len = self.ix.len();
        let mut ix: Vec<usize> = Vec::new();
        let mut i: usize = 0;
        while i < len
            invariant i <= len, len == self.ix@.len(), n > 0, n == 1 ==> ix@ == self.ix@.subrange(0, i as int),
            decreases len - i,
        {
            ix.push(self.ix[i]);
            i = if len - i > n { i + n } else { len };
            assert(n == 1 ==> ix@ =~= self.ix@.subrange(0, i as int));
        }
        assert(n == 1 ==> ix@ =~= self.ix@);
        Order { ix }
    }
    /// DoubleEndedIterator::rev(): the same positions, last first
    pub fn rev(self) -> (r: Order)
        ensures
            r@.len() == self@.len(),
            forall|i: int| 0 <= i < r@.len() ==> (#[trigger] r@[i]) == self@[self@.len() - 1 - i],
            inj(self@) ==> inj(r@),
            forall|m: int| bounded(self@, m) ==> #[trigger] bounded(r@, m),
            forall|m: int| onto(self@, m) ==> #[trigger] onto(r@, m),
    {
        let len = self.ix.len();
        let mut ix: Vec<usize> = Vec::new();
        let mut i: usize = 0;
        while i < len
            invariant i <= len, len == self.ix@.len(), ix@.len() == i,
                forall|t: int| 0 <= t < i ==> (#[trigger] ix@[t]) == self.ix@[len - 1 - t],
            decreases len - i,
        {
            ix.push(self.ix[len - 1 - i]);
            i = i + 1;
        }
        proof {
            let s = self.ix@; let t = ix@;
            if inj(s) {
                assert forall|a: int, b: int| 0 <= a < b < t.len() implies (#[trigger] t[a]) != (#[trigger] t[b]) by {
                    assert(s[len - 1 - b] != s[len - 1 - a]);
                }
            }
            assert forall|m: int| bounded(s, m) implies #[trigger] bounded(t, m) by {
                assert forall|a: int| 0 <= a < t.len() implies (#[trigger] t[a]) < m by { assert(s[len - 1 - a] < m); }
            }
            assert forall|m: int| onto(s, m) implies #[trigger] onto(t, m) by {
                assert forall|k: int| 0 <= k < m implies #[trigger] vis(t, t.len() as int, k) by {
                    assert(vis(s, s.len() as int, k));
                    let i0 = choose|i0: int| 0 <= i0 < s.len() && i0 < s.len() && (#[trigger] s[i0]) as int == k;
                    assert(t[len - 1 - i0] as int == k);
                }
            }
        }
        Order { ix }
    }
}

// =====================================================================================
pub mod bw {
use super::*;

pub struct ZoomItem {
    // How many bases this zoom item covers
pub size: u32,
    // The current zoom entry
pub live_info: Option<ZoomRecord>,
    // All zoom entries in the current section
pub records: Vec<ZoomRecord>,
pub channel: ZoomSink,
}

// ---- vocabulary of unit procs (same names) ----
pub open spec fn opt_value(o: Option<&Value>) -> Option<Value> {
    match o { Some(v) => Some(*v), None => None }
}
/// every zoom level has no open record and no pending records (what `destroy` asserts per level)
pub open spec fn flushed(z: Seq<ZoomItem>) -> bool {
    forall|k: int| 0 <= k < z.len() ==> (#[trigger] z[k]).live_info.is_none() && z[k].records@.len() == 0
}
/// ONE level went through the per-level body once, from z0 to z1, with exactly these arguments.
/// Uninterpreted: "whatever unit bw_zoom guarantees" (bw_zoom/process_val_zoom__level/tiling_invariant,
/// size_unchanged, batch_not_full_at_exit, chrom_end_flushes_everything, stream_only_grows).  Nothing is
/// assumed about it (no determinism, no composition): two steps, no step, or a step with another
/// argument cannot establish it.
pub uninterp spec fn stepped(z0: ZoomItem, z1: ZoomItem, options: BBIWriteOptions, current_val: Value, next: Option<Value>, chrom_id: u32) -> bool;
/// unit bw_zoom, label `pre`, of one level (with the level's ghost history)
pub uninterp spec fn level_pre(z0: ZoomItem, options: BBIWriteOptions, current_val: Value, next: Option<Value>, chrom_id: u32) -> bool;
/// procs' `pvz_pre`: bw_zoom's `pre` for every level
pub open spec fn pvz_pre(z0: Seq<ZoomItem>, options: BBIWriteOptions, current_val: Value, next: Option<Value>, chrom_id: u32) -> bool {
    forall|k: int| 0 <= k < z0.len() ==> level_pre(#[trigger] z0[k], options, current_val, next, chrom_id)
}
/// procs' `pvz_post`: same number of levels, every level stepped exactly once with exactly these arguments
pub open spec fn pvz_post(z0: Seq<ZoomItem>, options: BBIWriteOptions, current_val: Value, next: Option<Value>, chrom_id: u32, z1: Seq<ZoomItem>) -> bool {
    &&& z1.len() == z0.len()
    &&& forall|k: int| 0 <= k < z0.len() ==> stepped(z0[k], #[trigger] z1[k], options, current_val, next, chrom_id)
}
/// state of level k while the loop runs: stepped once if already visited, untouched otherwise
pub open spec fn lvl(z0: ZoomItem, z1: ZoomItem, visited: bool, options: BBIWriteOptions, current_val: Value, next: Option<Value>, chrom_id: u32) -> bool {
    if visited { stepped(z0, z1, options, current_val, next, chrom_id) } else { z1 == z0 }
}

/// R9 the other way round: stands for the `{ .. }` of `for zoom_item in zoom_items.iter_mut()`, i.e. for
/// exactly the text that unit bw_zoom verifies as `process_val_zoom__level` (same parameters in the same
/// order + `runtime`, which bw_zoom's R2 hand-off shim swallows).
#[verifier::external_body]
pub fn level_step(zoom_item: &mut ZoomItem, options: &BBIWriteOptions, current_val: Value, next_val: Option<&Value>, runtime: &Handle, chrom_id: u32)
    ensures
        stepped(*old(zoom_item), *final(zoom_item), *options, current_val, opt_value(next_val), chrom_id),
        // bw_zoom / process_val_zoom__level / chrom_end_flushes_everything
        level_pre(*old(zoom_item), *options, current_val, opt_value(next_val), chrom_id) && next_val.is_none()
            ==> final(zoom_item).live_info.is_none() && final(zoom_item).records@.len() == 0,
{ unimplemented!() }

fn process_val_zoom(
    zoom_items: &mut Vec<ZoomItem>,
    options: &BBIWriteOptions,
    current_val: Value,
    next_val: Option<&Value>,
    runtime: &Handle,
    chrom_id: u32,
)
    ensures
        
        final(zoom_items)@.len() == old(zoom_items)@.len(),
        
        forall|k: int| 0 <= k < old(zoom_items)@.len() ==>
            stepped(old(zoom_items)@[k], #[trigger] final(zoom_items)@[k], *options, current_val, opt_value(next_val), chrom_id),
        
        pvz_post(old(zoom_items)@, *options, current_val, opt_value(next_val), chrom_id, final(zoom_items)@),
        
        pvz_pre(old(zoom_items)@, *options, current_val, opt_value(next_val), chrom_id) && next_val.is_none()
            ==> flushed(final(zoom_items)@),
    decreases
        
        0int,
{
    // Then, add the item to the zoom item queues. This is a bit complicated.
    let order__ = Order::all(zoom_items.len());
    let mut j__: usize = 0;

    assert(inj(order__@) && bounded(order__@, zoom_items@.len() as int)); 
    assert(onto(order__@, zoom_items@.len() as int)); 
    while j__ < order__.len() 
        invariant
            
            zoom_items@.len() == old(zoom_items)@.len(),
            j__ <= order__@.len(),
            inj(order__@), bounded(order__@, zoom_items@.len() as int), onto(order__@, zoom_items@.len() as int),
            
            forall|k: int| 0 <= k < zoom_items@.len() ==>
                lvl(old(zoom_items)@[k], #[trigger] zoom_items@[k], vis(order__@, j__ as int, k), *options, current_val, opt_value(next_val), chrom_id),
            
            pvz_pre(old(zoom_items)@, *options, current_val, opt_value(next_val), chrom_id) && next_val.is_none() ==>
                forall|k: int| 0 <= k < zoom_items@.len() && vis(order__@, j__ as int, k) ==>
                    (#[trigger] zoom_items@[k]).live_info.is_none() && zoom_items@[k].records@.len() == 0,
        decreases
            
            order__@.len() - j__,
{

        let ghost prev = zoom_items@;
        let ghost k0 = order__@[j__ as int] as int;
        proof {
            lemma_fresh(order__@, j__ as int);
            assert(prev[k0] == old(zoom_items)@[k0]); 
        }
        let zoom_item = elem_mut(zoom_items, order__.at(j__));
        level_step(zoom_item, options, current_val, next_val, runtime, chrom_id);

        proof {
            assert(zoom_items@.len() == prev.len() && forall|k: int| 0 <= k < prev.len() && k != k0 ==> (#[trigger] zoom_items@[k]) == prev[k]); 
            assert forall|k: int| 0 <= k < zoom_items@.len() implies 
                lvl(old(zoom_items)@[k], #[trigger] zoom_items@[k], vis(order__@, j__ as int + 1, k), *options, current_val, opt_value(next_val), chrom_id) by {
                lemma_vis_step(order__@, j__ as int, k);
                if k != k0 { assert(zoom_items@[k] == prev[k]); }
            }
            assert forall|k: int| 0 <= k < zoom_items@.len() && vis(order__@, j__ as int + 1, k) && next_val.is_none() 
                && pvz_pre(old(zoom_items)@, *options, current_val, opt_value(next_val), chrom_id) implies
                (#[trigger] zoom_items@[k]).live_info.is_none() && zoom_items@[k].records@.len() == 0 by {
                lemma_vis_step(order__@, j__ as int, k);
                if k != k0 { assert(zoom_items@[k] == prev[k]); }
            }
        }
        j__ = j__ + 1;
    }
}
} // mod bw

// =====================================================================================
pub mod bb {
use super::*;

pub struct ZoomItem {
pub size: u32,
pub live_info: Option<(ZoomRecord, u64)>,
pub overlap: Overlap,
pub records: Vec<ZoomRecord>,
pub channel: ZoomSink,
}

// ---- vocabulary of unit procs (same names) ----
pub open spec fn opt_entry(o: Option<&BedEntry>) -> Option<BedEntry> {
    match o { Some(v) => Some(*v), None => None }
}
/// every zoom level has no open record and no pending records (what `destroy` asserts per level)
pub open spec fn flushed(z: Seq<ZoomItem>) -> bool {
    forall|k: int| 0 <= k < z.len() ==> (#[trigger] z[k]).live_info.is_none() && z[k].records@.len() == 0
}
/// ONE level went through the per-level body once, from z0 to z1, with exactly these arguments.
/// Uninterpreted: "whatever unit bb_zoom guarantees" (bb_zoom/process_val_zoom__level/tiling_invariant,
/// size_unchanged, batch_not_full_at_exit, chrom_end_flushes_everything, stream_only_grows).  Nothing is
/// assumed about it (no determinism, no composition): two steps, no step, or a step with another
/// argument cannot establish it.
pub uninterp spec fn stepped(z0: ZoomItem, z1: ZoomItem, options: BBIWriteOptions, item_start: u32, item_end: u32, next: Option<BedEntry>, chrom_id: u32) -> bool;
/// unit bb_zoom, label `pre`, of one level (with the level's ghost history)
pub uninterp spec fn level_pre(z0: ZoomItem, options: BBIWriteOptions, item_start: u32, item_end: u32, next: Option<BedEntry>, chrom_id: u32) -> bool;
/// procs' `pvz_pre`: bb_zoom's `pre` for every level
pub open spec fn pvz_pre(z0: Seq<ZoomItem>, options: BBIWriteOptions, item_start: u32, item_end: u32, next: Option<BedEntry>, chrom_id: u32) -> bool {
    forall|k: int| 0 <= k < z0.len() ==> level_pre(#[trigger] z0[k], options, item_start, item_end, next, chrom_id)
}
/// procs' `pvz_post`: Ok (the level body has no error path), same number of levels, every level stepped exactly once with exactly these arguments
pub open spec fn pvz_post(z0: Seq<ZoomItem>, options: BBIWriteOptions, item_start: u32, item_end: u32, next: Option<BedEntry>, chrom_id: u32,
    z1: Seq<ZoomItem>, r: Result<(), ProcessDataError>) -> bool {
    &&& r.is_ok()
    &&& z1.len() == z0.len()
    &&& forall|k: int| 0 <= k < z0.len() ==> stepped(z0[k], #[trigger] z1[k], options, item_start, item_end, next, chrom_id)
}
/// state of level k while the loop runs: stepped once if already visited, untouched otherwise
pub open spec fn lvl(z0: ZoomItem, z1: ZoomItem, visited: bool, options: BBIWriteOptions, item_start: u32, item_end: u32, next: Option<BedEntry>, chrom_id: u32) -> bool {
    if visited { stepped(z0, z1, options, item_start, item_end, next, chrom_id) } else { z1 == z0 }
}

/// R9 the other way round: stands for the `{ .. }` of `for zoom_item in zoom_items.iter_mut()`, i.e. for
/// exactly the text that unit bb_zoom verifies as `process_val_zoom__level` (same parameters in the same
/// order + `runtime`, which bb_zoom's R2 hand-off shim swallows).
#[verifier::external_body]
pub fn level_step(zoom_item: &mut ZoomItem, options: &BBIWriteOptions, item_start: u32, item_end: u32, next_val: Option<&BedEntry>, runtime: &Handle, chrom_id: u32)
    ensures
        stepped(*old(zoom_item), *final(zoom_item), *options, item_start, item_end, opt_entry(next_val), chrom_id),
        // bb_zoom / process_val_zoom__level / chrom_end_flushes_everything
        level_pre(*old(zoom_item), *options, item_start, item_end, opt_entry(next_val), chrom_id) && next_val.is_none()
            ==> final(zoom_item).live_info.is_none() && final(zoom_item).records@.len() == 0,
{ unimplemented!() }

fn process_val_zoom(
    zoom_items: &mut Vec<ZoomItem>,
    options: &BBIWriteOptions,
    item_start: u32,
    item_end: u32,
    next_val: Option<&BedEntry>,
    runtime: &Handle,
    chrom_id: u32,
) -> (r: Result<(), ProcessDataError>)
    ensures
        
        r.is_ok(),
        
        final(zoom_items)@.len() == old(zoom_items)@.len(),
        
        forall|k: int| 0 <= k < old(zoom_items)@.len() ==>
            stepped(old(zoom_items)@[k], #[trigger] final(zoom_items)@[k], *options, item_start, item_end, opt_entry(next_val), chrom_id),
        
        pvz_post(old(zoom_items)@, *options, item_start, item_end, opt_entry(next_val), chrom_id, final(zoom_items)@, r),
        
        pvz_pre(old(zoom_items)@, *options, item_start, item_end, opt_entry(next_val), chrom_id) && r.is_ok() && next_val.is_none()
            ==> flushed(final(zoom_items)@),
    decreases
        
        0int,
{
    // Then, add the item to the zoom item queues. This is a bit complicated.
    let order__ = Order::all(zoom_items.len());
    let mut j__: usize = 0;

    assert(inj(order__@) && bounded(order__@, zoom_items@.len() as int)); 
    assert(onto(order__@, zoom_items@.len() as int)); 
    while j__ < order__.len() 
        invariant
            
            zoom_items@.len() == old(zoom_items)@.len(),
            j__ <= order__@.len(),
            inj(order__@), bounded(order__@, zoom_items@.len() as int), onto(order__@, zoom_items@.len() as int),
            
            forall|k: int| 0 <= k < zoom_items@.len() ==>
                lvl(old(zoom_items)@[k], #[trigger] zoom_items@[k], vis(order__@, j__ as int, k), *options, item_start, item_end, opt_entry(next_val), chrom_id),
            
            pvz_pre(old(zoom_items)@, *options, item_start, item_end, opt_entry(next_val), chrom_id) && next_val.is_none() ==>
                forall|k: int| 0 <= k < zoom_items@.len() && vis(order__@, j__ as int, k) ==>
                    (#[trigger] zoom_items@[k]).live_info.is_none() && zoom_items@[k].records@.len() == 0,
        decreases
            
            order__@.len() - j__,
{

        let ghost prev = zoom_items@;
        let ghost k0 = order__@[j__ as int] as int;
        proof {
            lemma_fresh(order__@, j__ as int);
            assert(prev[k0] == old(zoom_items)@[k0]); 
        }
        let zoom_item = elem_mut(zoom_items, order__.at(j__));
        level_step(zoom_item, options, item_start, item_end, next_val, runtime, chrom_id);

        proof {
            assert(zoom_items@.len() == prev.len() && forall|k: int| 0 <= k < prev.len() && k != k0 ==> (#[trigger] zoom_items@[k]) == prev[k]); 
            assert forall|k: int| 0 <= k < zoom_items@.len() implies 
                lvl(old(zoom_items)@[k], #[trigger] zoom_items@[k], vis(order__@, j__ as int + 1, k), *options, item_start, item_end, opt_entry(next_val), chrom_id) by {
                lemma_vis_step(order__@, j__ as int, k);
                if k != k0 { assert(zoom_items@[k] == prev[k]); }
            }
            assert forall|k: int| 0 <= k < zoom_items@.len() && vis(order__@, j__ as int + 1, k) && next_val.is_none() 
                && pvz_pre(old(zoom_items)@, *options, item_start, item_end, opt_entry(next_val), chrom_id) implies
                (#[trigger] zoom_items@[k]).live_info.is_none() && zoom_items@[k].records@.len() == 0 by {
                lemma_vis_step(order__@, j__ as int, k);
                if k != k0 { assert(zoom_items@[k] == prev[k]); }
            }
        }
        j__ = j__ + 1;
    }

    Ok(())
}
} // mod bb

} // verus!
fn main() {}

