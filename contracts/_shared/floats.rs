// ---- shared float prelude -------------------------------------------------
// Rust float operators are total; Verus models their results as uninterpreted
// functions (`add_spec`, `mul_spec`, `from_spec`, ...).  The axioms below say
// only (1) the operators have no precondition and (2) the exec operator returns
// the value of its spec function (determinism).  Nothing numerical is assumed.
mod float_ax {
use vstd::prelude::*;
use vstd::std_specs::ops::*;
use vstd::std_specs::convert::FromSpec;
pub broadcast axiom fn ax_f64_mul_total(a: f64, b: f64) ensures #[trigger] a.mul_req(b);
pub broadcast axiom fn ax_f64_add_total(a: f64, b: f64) ensures #[trigger] a.add_req(b);
pub broadcast axiom fn ax_f64_sub_total(a: f64, b: f64) ensures #[trigger] a.sub_req(b);
pub broadcast axiom fn ax_f64_div_total(a: f64, b: f64) ensures #[trigger] a.div_req(b);
pub broadcast axiom fn ax_f32_add_total(a: f32, b: f32) ensures #[trigger] a.add_req(b);
pub broadcast axiom fn ax_f32_sub_total(a: f32, b: f32) ensures #[trigger] a.sub_req(b);
pub broadcast group float_total { ax_f64_mul_total, ax_f64_add_total, ax_f64_sub_total, ax_f64_div_total, ax_f32_add_total, ax_f32_sub_total }
pub axiom fn float_det()
    ensures
        <f64 as AddSpec<f64>>::obeys_add_spec(), <f64 as MulSpec<f64>>::obeys_mul_spec(),
        <f64 as SubSpec<f64>>::obeys_sub_spec(), <f64 as DivSpec<f64>>::obeys_div_spec(),
        <f32 as AddSpec<f32>>::obeys_add_spec(), <f32 as SubSpec<f32>>::obeys_sub_spec(),
        <f64 as FromSpec<u32>>::obeys_from_spec(), <f64 as FromSpec<f32>>::obeys_from_spec();
}
broadcast use float_ax::float_total;
pub uninterp spec fn fmin(a: f64, b: f64) -> f64;
pub uninterp spec fn fmax(a: f64, b: f64) -> f64;
pub assume_specification [f64::min] (a: f64, b: f64) -> (r: f64) ensures r == fmin(a, b);
pub assume_specification [f64::max] (a: f64, b: f64) -> (r: f64) ensures r == fmax(a, b);
