// Plain-Rust statement of C20 for the binned fillers, written from the property text (not from the code).
// Shared verbatim by the Kani harnesses (harness.rs) and the cargo-test replays.
//
//   "With N bins in exact mode each bin reports the mean, minimum or maximum over the covered bases of its
//    span and `missing` when none is covered, never NaN for finite data and finite `missing`; requested
//    portions outside the chromosome are filled with the out-of-bounds value."
//
// A layout is a fixed-size array + a count (no allocation: cheap for CBMC).

pub const MAXN: usize = 3;

#[derive(Clone, Copy, Debug, PartialEq)]
pub enum Stat {
    Mean,
    Min,
    Max,
}

pub const MAXW: i64 = 8;

/// bigWig: the stored value at base p (`vals[..n]` = (start, end, value), pairwise disjoint).
/// (Loop-free on purpose: MAXN = 3 layout slots, so that the harness unwinding bound is set by the code's loops only.)
pub fn bw_at(vals: &[(u32, u32, f32); MAXN], n: usize, p: i64) -> Option<f64> {
    if n > 0 && (vals[0].0 as i64) <= p && p < (vals[0].1 as i64) {
        return Some(vals[0].2 as f64);
    }
    if n > 1 && (vals[1].0 as i64) <= p && p < (vals[1].1 as i64) {
        return Some(vals[1].2 as f64);
    }
    if n > 2 && (vals[2].0 as i64) <= p && p < (vals[2].1 as i64) {
        return Some(vals[2].2 as f64);
    }
    None
}

fn covers(e: (u32, u32), p: i64) -> u32 {
    if (e.0 as i64) <= p && p < (e.1 as i64) { 1 } else { 0 }
}

/// bigBed: the value at base p = number of entries covering it; "no data" when that number is 0
pub fn bb_at(ents: &[(u32, u32); MAXN], n: usize, p: i64) -> Option<f64> {
    let c = (if n > 0 { covers(ents[0], p) } else { 0 }) + (if n > 1 { covers(ents[1], p) } else { 0 }) + (if n > 2 { covers(ents[2], p) } else { 0 });
    if c == 0 {
        None
    } else {
        Some(c as f64)
    }
}

/// Span of bin b when the width (end - start) / bins is integral: [start + b*w, start + (b+1)*w).
pub fn bin_span(start: i32, end: i32, bins: usize, b: usize) -> (i64, i64) {
    let w = ((end - start) as i64) / (bins as i64);
    let lo = start as i64 + (b as i64) * w;
    (lo, lo + w)
}

#[derive(Clone, Copy)]
pub struct Acc {
    pub cnt: u32,
    pub acc: f64,
}

fn step(stat: Stat, a: Acc, p: i64, hi: i64, length: i64, x: Option<f64>) -> Acc {
    if p < hi && p >= 0 && p < length {
        if let Some(x) = x {
            if a.cnt == 0 {
                return Acc { cnt: 1, acc: x };
            }
            let v = match stat {
                Stat::Mean => a.acc + x,
                Stat::Min => if x < a.acc { x } else { a.acc },
                Stat::Max => if x > a.acc { x } else { a.acc },
            };
            return Acc { cnt: a.cnt + 1, acc: v };
        }
    }
    a
}

/// Fold of the statistic over the covered bases of [lo, hi), hi - lo <= MAXW: None when no base is covered.
/// `at(p)` is the per-base value (None = no data); bases outside [0, length) carry no data.  Loop-free (unrolled).
pub fn fold_span(stat: Stat, lo: i64, hi: i64, length: i64, at: &dyn Fn(i64) -> Option<f64>) -> Option<f64> {
    assert!(hi - lo <= MAXW);
    let mut a = Acc { cnt: 0, acc: 0.0 };
    a = step(stat, a, lo, hi, length, at(lo));
    a = step(stat, a, lo + 1, hi, length, at(lo + 1));
    a = step(stat, a, lo + 2, hi, length, at(lo + 2));
    a = step(stat, a, lo + 3, hi, length, at(lo + 3));
    a = step(stat, a, lo + 4, hi, length, at(lo + 4));
    a = step(stat, a, lo + 5, hi, length, at(lo + 5));
    a = step(stat, a, lo + 6, hi, length, at(lo + 6));
    a = step(stat, a, lo + 7, hi, length, at(lo + 7));
    if a.cnt == 0 {
        return None;
    }
    match stat {
        Stat::Mean => Some(a.acc / a.cnt as f64),
        _ => Some(a.acc),
    }
}

/// equal up to 1e-9 relative (the code sums width*value per interval, the oracle sums per base)
pub fn close(a: f64, b: f64) -> bool {
    if a == b {
        return true;
    }
    let d = if a > b { a - b } else { b - a };
    let ma = if a < 0.0 { -a } else { a };
    let mb = if b < 0.0 { -b } else { b };
    let m = if ma > mb { ma } else { mb };
    d <= 1e-9 * m
}

fn bw_slot_ok(v: (u32, u32, f32), prev_end: i64, qe: i64) -> bool {
    prev_end <= v.0 as i64 && (v.0 as i64) < (v.1 as i64) && (v.1 as i64) <= qe
}

/// What the reader hands to the bigWig fillers for request [start, end) on a chromosome of `length`:
/// values sorted, non-empty, pairwise disjoint, clipped to [max(start,0), min(end,length)).
pub fn bw_layout_ok(vals: &[(u32, u32, f32); MAXN], n: usize, start: i32, end: i32, length: i32) -> bool {
    let qs = if start > 0 { start as i64 } else { 0 };
    let qe = if end < length { end as i64 } else { length as i64 };
    (n <= 0 || bw_slot_ok(vals[0], qs, qe)) && (n <= 1 || bw_slot_ok(vals[1], vals[0].1 as i64, qe)) && (n <= 2 || bw_slot_ok(vals[2], vals[1].1 as i64, qe))
}

fn bb_slot_ok(e: (u32, u32), prev_start: i64, qs: i64, qe: i64, length: i64) -> bool {
    prev_start <= e.0 as i64 && (e.0 as i64) < (e.1 as i64) && (e.1 as i64) <= length && (e.1 as i64) >= qs && (e.0 as i64) <= qe
}

/// What the reader hands to the bigBed fillers: entries inside the chromosome, non-empty, sorted by start,
/// each TOUCHING the query [max(start,0), min(end,length)] (`e.end >= qs && e.start <= qe`), NOT clipped.
pub fn bb_layout_ok(ents: &[(u32, u32); MAXN], n: usize, start: i32, end: i32, length: i32) -> bool {
    let qs = if start > 0 { start as i64 } else { 0 };
    let qe = if end < length { end as i64 } else { length as i64 };
    let l = length as i64;
    (n <= 0 || bb_slot_ok(ents[0], 0, qs, qe, l)) && (n <= 1 || bb_slot_ok(ents[1], ents[0].0 as i64, qs, qe, l)) && (n <= 2 || bb_slot_ok(ents[2], ents[1].0 as i64, qs, qe, l))
}
