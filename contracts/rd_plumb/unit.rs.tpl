//@unit rd_plumb
//@serves C03 C04 C07 C08 C10
//@backend verus
// Reader plumbing of bigwigread.rs / bigbedread.rs / bbiread.rs: the small functions between `open` and a query.
//   BigWigRead / BigBedRead: `with_info`, `into_inner`, `inner_read`, `info`, `chroms` (inherent and `BBIRead`),
//       `reader` (`BBIReadInternal`), `cached`, `reopen` (`impl Reopen`)
//   GenericBBIRead: `open`, `info`, `chroms`, `reader`, `reader_and_info`, `bigwig`, `bigbed`
//   the four `Into<BigWigRead<R>>` / `Into<BigBedRead<R>>` impls of the `_move` iterators (hand the reader back)
//   `open_file` (x3) and `ReopenableFile::reopen` (utils/file/reopen.rs)
//   the error conversions (`From` impls) of the reader error enums.
// C03/C04/C10 "The answer is the same through the caching reader, through a reopened reader, and after any sequence
// of earlier queries": every query contract of this project (query_glue, tree_offsets, rt_search, cache, bw_dec, ...)
// is stated on a reader value `{ info, read }` where `info` is what `read_info` made of the file under `read`.
// The plumbing must hand that pair on UNCHANGED:
//   * `cached()` keeps the info and wraps THE SAME reader in a fresh cache (unit cache: a fresh cache is coherent);
//   * `reopen()` yields a reader over the same file content whose info states the same facts about the file; the
//     lazily cached R-tree positions (`full_index_tree_offset`, `index_tree_offset`: positions in that same file) are
//     either taken over or dropped -- both keep unit tree_offsets' `offsets_ok` invariant, and the answer of a tree
//     lookup does not depend on them (tree_offsets: `full/answer_is_full_index_offset_plus_48_whatever_the_caches_hold`);
//   * `info()` / `chroms()` report the reader's own info / chromosome table (C10 "Chromosome table ... match the
//     encoded content");
//   * `GenericBBIRead::open` opens a bigWig as `BigWig` and a bigBed as `BigBed` (C10 `observe_at`: "BigWigRead/
//     BigBedRead/GenericBBIRead::open");
//   * a refusal keeps its kind through every conversion behind `?`: an unknown chromosome stays
//     `InvalidChromosome(that name)`, an I/O error stays that I/O error, a bad magic stays a bad-magic refusal, a
//     missing reduction level stays `ReductionLevelNotFound` (query_glue states WHEN a query fails; which error the
//     caller then sees is decided here).
use vstd::prelude::*;
verus! {

// ---------------- shims (each one is a listed assumption) ----------------
/// byteordered::Endianness (external crate; only copied)
#[derive(Clone, Copy)]
pub enum Endianness { Big, Little }
/// std::io::Error (opaque)
#[verifier::external_body]
pub struct IoError { _p: u8 }
/// bed::bedparser::BedValueError (opaque; never constructed here)
#[verifier::external_body]
pub struct BedValueError { _p: u8 }
/// a chromosome name / message (`String`): opaque, with real equality
#[verifier::external_body]
pub struct Name { _s: String }
impl Name {
    /// `String::clone` / `to_owned` / `to_string`: the same text
    #[verifier::external_body]
    pub fn clone(&self) -> (r: Name) ensures r == *self, { unimplemented!() }
    #[verifier::external_body]
    pub fn to_owned(&self) -> (r: Name) ensures r == *self, { unimplemented!() }
    #[verifier::external_body]
    pub fn to_string(&self) -> (r: Name) ensures r == *self, { unimplemented!() }
}
/// `"..".to_owned()` / `String::new()` / `format!(..)`: SOME text (nothing promised; only reachable through an edit)
#[verifier::external_body]
pub fn some_text() -> (r: Name) { unimplemented!() }
/// `&[]` (0 hits on /repo): the empty slice
#[verifier::external_body]
pub fn empty_slice<'a, T>() -> (r: &'a [T]) ensures r@.len() == 0, { unimplemented!() }
// std stand-ins that only matter for CHANGED code (0 hits on /repo)
pub assume_specification<T, E>[Result::<T, E>::unwrap_or](x: Result<T, E>, d: T) -> (v: T)
    ensures x matches Ok(y) ==> v == y, x is Err ==> v == d;

//@extract enum bigtools/src/bbi.rs BBIFile
//@rule R8
//@end
//@extract struct bigtools/src/bbi.rs ZoomHeader
//@rule R8
//@end
//@extract struct bigtools/src/bbi/bbiread.rs BBIHeader
//@rule R8
//@end
// R11: `name: String` -> `name: Name`
//@extract struct bigtools/src/bbi/bbiread.rs ChromInfo
//@rule R8
//@sub /#\[derive\(Clone\)\]\n/ => "" min=0
//@sub /name: String/ => name: Name min=1
//@end
//@extract struct bigtools/src/bbi/bbiread.rs BBIFileInfo
//@rule R8
//@sub /#\[derive\(Clone\)\]\n/ => "" min=0
//@end
/// `#[derive(Clone)]` of `BBIFileInfo` (compiler-generated, not repository text).  ASSUMED: field by field --
/// `BBIFile`, `BBIHeader`, `ZoomHeader` are `Copy`; `Vec::clone` clones element by element; `ChromInfo`'s derived clone
/// clones the `String` (same text) and copies the two numbers.
impl Clone for BBIFileInfo {
    #[verifier::external_body]
    fn clone(&self) -> (r: Self)
        ensures r.filetype == self.filetype, r.header == self.header, r.zoom_headers@ == self.zoom_headers@,
            r.chrom_info@ == self.chrom_info@,
    { unimplemented!() }
}
//@extract struct bigtools/src/bbi/bbiread.rs ChromIdNotFound
//@rule R8
//@sub /String/ => Name min=1
//@end
// thiserror attributes dropped; io::Error -> opaque IoError; String payloads -> Name
//@extract enum bigtools/src/bbi/bbiread.rs BBIFileReadInfoError
//@rule R8
//@sub /[ \t]*#\[error\([^\n]*\)\]\n/ => "" min=0
//@sub /#\[from\] io::Error/ => IoError min=1
//@end
//@extract enum bigtools/src/bbi/bbiread.rs CirTreeSearchError
//@rule R8
//@sub /[ \t]*#\[error\([^\n]*\)\]\n/ => "" min=0
//@sub /#\[from\] io::Error/ => IoError min=1
//@sub /String/ => Name min=1
//@end
//@extract enum bigtools/src/bbi/bbiread.rs BBIReadError
//@rule R8
//@sub /[ \t]*#\[error\([^\n]*\)\]\n/ => "" min=0
//@sub /#\[from\] io::Error/ => IoError min=1
//@sub /#\[from\] BedValueError/ => BedValueError min=1
//@sub /String/ => Name min=2
//@end
//@extract enum bigtools/src/bbi/bbiread.rs ZoomIntervalError
//@rule R8
//@sub /[ \t]*#\[error\([^\n]*\)\]\n/ => "" min=0
//@end
//@extract enum bigtools/src/bbi/bbiread.rs FullDataCirTreeError
//@rule R8
//@sub /io::Error/ => IoError min=1
//@end
//@extract enum bigtools/src/bbi/bbiread.rs ZoomDataCirTreeError
//@rule R8
//@sub /io::Error/ => IoError min=1
//@end
//@extract enum bigtools/src/bbi/bbiread.rs GenericBBIFileOpenError
//@rule R8
//@sub /[ \t]*#\[error\([^\n]*\)\]\n/ => "" min=0
//@sub /#\[from\] io::Error/ => IoError min=1
//@end
//@extract enum bigtools/src/bbi/bigwigread.rs BigWigReadOpenError
//@rule R8
//@sub /[ \t]*#\[error\([^\n]*\)\]\n/ => "" min=0
//@sub /#\[derive\([^\)]*\)\]\n/ => "" min=0
//@sub /io::Error/ => IoError min=1
//@end

// =====================================================================================
// (1) the conversions behind `?`: each keeps the KIND of the refusal and its payload
// =====================================================================================
// `impl From<A> for B { fn from(x: A) -> Self }` -> free function `a_to_b(x: A) -> B` (Verus `?` does not go through
// user `From` impls); the bodies are the repository's.
//@extract method bigtools/src/bbi/bbiread.rs from "From<ChromIdNotFound> for BBIReadError"
//@as cinf_to_read
//@rule R15
//@rule R16
//@sub /fn from\(e: ChromIdNotFound\) -> Self/ => pub fn cinf_to_read(e: ChromIdNotFound) -> BBIReadError min=1
//@sub /"[^"\n]*"\s*\.(?:to_owned|to_string|into)\(\)|String::new\(\)|format!\([^;]*?\)(?=\))/ => some_text() min=0
//@ret r
//@sig
    ensures
        [[L: unknown_chromosome_stays_invalid_chromosome_with_its_name]]
        r == BBIReadError::InvalidChromosome(e.0),
//@end
//@extract method bigtools/src/bbi/bbiread.rs from "From<CirTreeSearchError> for BBIReadError"
//@as cts_to_read
//@rule R15
//@rule R16
//@sub /fn from\(value: CirTreeSearchError\) -> Self/ => pub fn cts_to_read(value: CirTreeSearchError) -> BBIReadError min=1
//@sub /"[^"\n]*"\s*\.(?:to_owned|to_string|into)\(\)|String::new\(\)|format!\([^;]*?\)(?=\))/ => some_text() min=0
//@ret r
//@sig
    ensures
        [[L: invalid_chromosome_keeps_its_kind_and_name]]
        value matches CirTreeSearchError::InvalidChromosome(n) ==> r == BBIReadError::InvalidChromosome(n),
        [[L: io_error_stays_that_io_error]]
        value matches CirTreeSearchError::IoError(x) ==> r == BBIReadError::IoError(x),
//@end
//@extract method bigtools/src/bbi/bbiread.rs from "From<internal::FullDataCirTreeError> for BBIReadError"
//@as fdct_to_read
//@rule R15
//@rule R16
//@sub /fn from\(value: internal::FullDataCirTreeError\) -> Self/ => pub fn fdct_to_read(value: FullDataCirTreeError) -> BBIReadError min=1
//@sub /internal::/ => "" min=0
//@sub /"[^"\n]*"\s*\.(?:to_owned|to_string|into)\(\)|String::new\(\)|format!\([^;]*?\)(?=\))/ => some_text() min=0
//@ret r
//@sig
    ensures
        [[L: bad_index_magic_stays_unknown_magic]]
        value is UnknownMagic ==> r is UnknownMagic,
        [[L: io_error_stays_that_io_error]]
        value matches FullDataCirTreeError::IoError(x) ==> r == BBIReadError::IoError(x),
//@end
//@extract method bigtools/src/bbi/bbiread.rs from "From<ChromIdNotFound> for ZoomIntervalError"
//@as cinf_to_zoom
//@rule R15
//@rule R16
//@sub /fn from\(e: ChromIdNotFound\) -> Self/ => pub fn cinf_to_zoom(e: ChromIdNotFound) -> ZoomIntervalError min=1
//@sub /e\.into\(\)/ => cinf_to_read(e) min=0
//@sub /"[^"\n]*"\s*\.(?:to_owned|to_string|into)\(\)|String::new\(\)|format!\([^;]*?\)(?=\))/ => some_text() min=0
//@ret r
//@sig
    ensures
        [[L: unknown_chromosome_stays_invalid_chromosome_with_its_name]]
        r == ZoomIntervalError::BBIReadError(BBIReadError::InvalidChromosome(e.0)),
//@end
//@extract method bigtools/src/bbi/bbiread.rs from "From<CirTreeSearchError> for ZoomIntervalError"
//@as cts_to_zoom
//@rule R15
//@rule R16
//@sub /fn from\(e: CirTreeSearchError\) -> Self/ => pub fn cts_to_zoom(e: CirTreeSearchError) -> ZoomIntervalError min=1
//@sub /e\.into\(\)/ => cts_to_read(e) min=0
//@sub /"[^"\n]*"\s*\.(?:to_owned|to_string|into)\(\)|String::new\(\)|format!\([^;]*?\)(?=\))/ => some_text() min=0
//@ret r
//@sig
    ensures
        [[L: invalid_chromosome_keeps_its_kind_and_name]]
        e matches CirTreeSearchError::InvalidChromosome(n) ==> r == ZoomIntervalError::BBIReadError(BBIReadError::InvalidChromosome(n)),
        [[L: io_error_stays_that_io_error]]
        e matches CirTreeSearchError::IoError(x) ==> r == ZoomIntervalError::BBIReadError(BBIReadError::IoError(x)),
//@end
//@extract method bigtools/src/bbi/bbiread.rs from "From<internal::ZoomDataCirTreeError> for ZoomIntervalError"
//@as zdct_to_zoom
//@rule R15
//@rule R16
//@sub /fn from\(value: internal::ZoomDataCirTreeError\) -> Self/ => pub fn zdct_to_zoom(value: ZoomDataCirTreeError) -> ZoomIntervalError min=1
//@sub /internal::/ => "" min=0
//@sub /"[^"\n]*"\s*\.(?:to_owned|to_string|into)\(\)|String::new\(\)|format!\([^;]*?\)(?=\))/ => some_text() min=0
//@ret r
//@sig
    ensures
        [[L: bad_index_magic_stays_unknown_magic]]
        value is UnknownMagic ==> r == ZoomIntervalError::BBIReadError(BBIReadError::UnknownMagic),
        [[L: missing_reduction_level_stays_reduction_level_not_found]]
        value is ReductionLevelNotFound <==> r is ReductionLevelNotFound,
        [[L: io_error_stays_that_io_error]]
        value matches ZoomDataCirTreeError::IoError(x) ==> r == ZoomIntervalError::BBIReadError(BBIReadError::IoError(x)),
//@end
//@extract method bigtools/src/bbi/bbiread.rs from "From<BBIFileReadInfoError> for GenericBBIFileOpenError"
//@as info_to_generic_open
//@rule R15
//@rule R16
//@sub /fn from\(error: BBIFileReadInfoError\) -> Self/ => pub fn info_to_generic_open(error: BBIFileReadInfoError) -> GenericBBIFileOpenError min=1
//@ret r
//@sig
    ensures
        [[L: unknown_magic_is_not_a_bbi_file_and_nothing_else_is]]
        error is UnknownMagic <==> r is NotABBIFile,
        [[L: invalid_chroms_stays_invalid_chroms]]
        error is InvalidChroms <==> r is InvalidChroms,
        [[L: io_error_stays_that_io_error]]
        error matches BBIFileReadInfoError::IoError(x) ==> r == GenericBBIFileOpenError::IoError(x),
//@end
//@extract method bigtools/src/bbi/bigwigread.rs from "From<io::Error> for BigWigReadOpenError"
//@as io_to_bigwig_open
//@rule R15
//@rule R16
//@sub /fn from\(error: io::Error\) -> Self/ => pub fn io_to_bigwig_open(error: IoError) -> BigWigReadOpenError min=1
//@ret r
//@sig
    ensures
        [[L: io_error_stays_that_io_error]]
        r == BigWigReadOpenError::IoError(error),
//@end

// =====================================================================================
// (2) the readers
// =====================================================================================
/// R11 shim for the reader `R` (`R: BBIFileRead`, `R: SeekableRead`, `R: Reopen`): ghost file content, OS position and
/// an environment flag (as in units asql_read / tree_offsets)
#[verifier::external_body]
pub struct VRead { _p: u8 }
impl VRead {
    pub uninterp spec fn content(&self) -> Seq<u8>;
    pub uninterp spec fn pos(&self) -> int;
    pub uninterp spec fn env_ok(&self) -> bool;
    /// WHICH read position (cursor) this handle reads through.  Two handles with the same `cursor_id` share one
    /// position: a seek/read on one moves the other (what `File::try_clone` / `dup` gives); handles with different
    /// ids are independent.
    pub uninterp spec fn cursor_id(&self) -> int;
    /// ASSUMED contract of `R::reopen` (trait Reopen, utils/file/reopen.rs: "reopening should be independent with
    /// respect to seeks and reads from the original object"): may fail; the new handle is over the SAME file content,
    /// at position 0, through a cursor of its OWN.  For `ReopenableFile` this is what `file_reopen/*` below proves from
    /// `File::open`'s contract ("the path still names the same, unmodified file"; a fresh open file description); for
    /// `CachedBBIFileRead<R>` it is what unit cache proves from R's (`reopen/reopened_reader_is_coherent_for_the_same_file`).
    #[verifier::external_body]
    pub fn reopen(&self) -> (r: Result<VRead, IoError>)
        ensures r matches Ok(f) ==> f.content() == self.content() && f.pos() == 0 && f.cursor_id() != self.cursor_id(),
    { unimplemented!() }
}
/// R11 shim for `CachedBBIFileRead<R>` (R = VRead).  ASSUMED contract of `CachedBBIFileRead::new(read)`: wraps the
/// given reader, both memo tables empty (unit cache verifies the real text:
/// `new/fresh_reader_is_coherent_and_wraps_the_given_file`).
#[verifier::external_body]
pub struct CachedRead { _p: u8 }
impl CachedRead {
    pub uninterp spec fn inner(&self) -> VRead;
    pub uninterp spec fn fresh(&self) -> bool;
    #[verifier::external_body]
    pub fn new(read: VRead) -> (r: CachedRead) ensures r.inner() == read, r.fresh(), { unimplemented!() }
}

// ---------------- what "the same info" means across a reopen ----------------
/// `b` states the same facts about the file as `a`: everything equal except possibly the two kinds of lazily cached
/// R-tree positions
pub open spec fn same_file_facts(a: BBIFileInfo, b: BBIFileInfo) -> bool {
    &&& b.filetype == a.filetype
    &&& b.chrom_info@ == a.chrom_info@
    &&& b.header == BBIHeader { full_index_tree_offset: b.header.full_index_tree_offset, ..a.header }
    &&& b.zoom_headers@.len() == a.zoom_headers@.len()
    &&& forall|i: int| 0 <= i < a.zoom_headers@.len() ==>
            (#[trigger] b.zoom_headers@[i]) == ZoomHeader { index_tree_offset: b.zoom_headers@[i].index_tree_offset, ..a.zoom_headers@[i] }
}
/// every cached tree position of `b` is `a`'s (taken over) -- or dropped
pub open spec fn caches_taken_over_or_dropped(a: BBIFileInfo, b: BBIFileInfo) -> bool {
    &&& b.header.full_index_tree_offset is Some ==> b.header.full_index_tree_offset == a.header.full_index_tree_offset
    &&& b.zoom_headers@.len() == a.zoom_headers@.len()
    &&& forall|i: int| 0 <= i < a.zoom_headers@.len() ==>
            ((#[trigger] b.zoom_headers@[i]).index_tree_offset is Some ==> b.zoom_headers@[i].index_tree_offset == a.zoom_headers@[i].index_tree_offset)
}
/// unit tree_offsets' cache-coherence invariant, word for word
pub open spec fn offsets_ok(info: BBIFileInfo) -> bool {
    &&& info.header.full_index_tree_offset matches Some(x) ==> x == info.header.full_index_offset + 48
    &&& forall|i: int| 0 <= i < info.zoom_headers@.len() ==>
            ((#[trigger] info.zoom_headers@[i]).index_tree_offset matches Some(x) ==> x == info.zoom_headers@[i].index_offset + 48)
}
/// the cached positions are positions in the same file: tree_offsets' invariant carries over to the reopened reader
pub proof fn lemma_reopened_info_keeps_offsets_ok(a: BBIFileInfo, b: BBIFileInfo)
    requires same_file_facts(a, b), caches_taken_over_or_dropped(a, b), offsets_ok(a),
    ensures
        [[L: lemma/reopened_info_keeps_tree_offsets_invariant]]
        offsets_ok(b),
{
    assert forall|i: int| 0 <= i < b.zoom_headers@.len() implies
        ((#[trigger] b.zoom_headers@[i]).index_tree_offset matches Some(x) ==> x == b.zoom_headers@[i].index_offset + 48) by {
        let _ = a.zoom_headers@[i];
    }
}

//@extract struct bigtools/src/bbi/bigwigread.rs BigWigRead
//@rule R8
//@end
//@extract struct bigtools/src/bbi/bigbedread.rs BigBedRead
//@rule R8
//@end

// ---------------- BigWigRead ----------------
impl<R> BigWigRead<R> {
//@extract method bigtools/src/bbi/bigwigread.rs info "^impl<R> BigWigRead<R>$"
//@as bw_info
//@rule R15
//@rule R16
//@ret r
//@sig
    ensures
        [[L: reports_the_readers_own_info]]
        *r == self.info,
//@end
//@extract method bigtools/src/bbi/bigwigread.rs chroms "^impl<R> BigWigRead<R>$"
//@as bw_chroms
//@rule R15
//@rule R16
//@sub /&\[\]/ => empty_slice() min=0
//@ret r
//@sig
    ensures
        [[L: reports_the_whole_chromosome_table_in_order]]
        r@ == self.info.chrom_info@,
//@end
//@extract method bigtools/src/bbi/bigwigread.rs into_inner "^impl<R> BigWigRead<R>$"
//@as bw_into_inner
//@rule R15
//@rule R16
//@ret r
//@sig
    ensures
        [[L: hands_back_the_readers_own_reader]]
        r == self.read,
//@end
// `impl<R: BBIFileRead> BBIRead for BigWigRead<R>`: the trait methods as inherent methods under another name
//@extract method bigtools/src/bbi/bigwigread.rs info "BBIRead for BigWigRead<R>$"
//@as bw_bbiread_info
//@rule R15
//@rule R16
//@sub /fn info\(/ => pub fn bbiread_info( min=1
//@ret r
//@sig
    ensures
        [[L: reports_the_readers_own_info]]
        *r == self.info,
//@end
//@extract method bigtools/src/bbi/bigwigread.rs chroms "BBIRead for BigWigRead<R>$"
//@as bw_bbiread_chroms
//@rule R15
//@rule R16
//@sub /fn chroms\(/ => pub fn bbiread_chroms( min=1
//@sub /&\[\]/ => empty_slice() min=0
//@ret r
//@sig
    ensures
        [[L: reports_the_whole_chromosome_table_in_order]]
        r@ == self.info.chrom_info@,
//@end
// `impl<R: BBIFileRead> BBIReadInternal for BigWigRead<R>`
//@extract method bigtools/src/bbi/bigwigread.rs reader "BBIReadInternal for BigWigRead<R>$"
//@as bw_reader
//@rule R15
//@rule R16
//@sub /fn reader\(/ => pub fn reader( min=1
//@ret r
//@sig
    ensures
        [[L: lends_the_readers_own_reader_info_untouched]]
        *r == old(self).read && *final(r) == final(self).read && final(self).info == old(self).info,
//@end
//@extract method bigtools/src/bbi/bigwigread.rs reader_and_info "BBIReadInternal for BigWigRead<R>$"
//@as bw_reader_and_info
//@rule R15
//@rule R16
//@sub /fn reader_and_info\(&mut self\) -> \(&mut Self::Read, &mut BBIFileInfo\)/ => pub fn reader_and_info(&mut self) -> (&mut R, &mut BBIFileInfo) min=1
//@ret r
//@sig
    ensures
        [[L: lends_the_readers_own_reader_and_info]]
        *r.0 == old(self).read && *final(r.0) == final(self).read && *r.1 == old(self).info && *final(r.1) == final(self).info,
//@end
// `impl<R> BigWigRead<R> where R: BBIFileRead`
//@extract method bigtools/src/bbi/bigwigread.rs with_info "^impl<R> BigWigRead<R>\s+where\s+R: BBIFileRead"
//@as bw_with_info
//@rule R15
//@rule R16
//@ret r
//@sig
    ensures
        [[L: reader_is_exactly_the_given_info_and_reader]]
        r.info == info && r.read == read,
//@end
//@extract method bigtools/src/bbi/bigwigread.rs inner_read "^impl<R> BigWigRead<R>\s+where\s+R: BBIFileRead"
//@as bw_inner_read
//@rule R15
//@rule R16
//@ret r
//@sig
    ensures
        [[L: lends_the_readers_own_reader]]
        *r == self.read,
//@end
}

impl BigWigRead<VRead> {
// `impl<R> BigWigRead<R> where R: SeekableRead`, R = VRead; `CachedBBIFileRead<R>` -> `CachedRead`
//@extract method bigtools/src/bbi/bigwigread.rs cached "^impl<R> BigWigRead<R>\s+where\s+R: SeekableRead"
//@as bw_cached
//@rule R15
//@rule R16
//@sub /CachedBBIFileRead<R>/ => CachedRead min=1
//@sub /CachedBBIFileRead::new\(/ => CachedRead::new( min=0
//@ret r
//@sig
    ensures
        [[L: caching_reader_keeps_the_info_unchanged]]
        r.info == self.info,
        [[L: caching_reader_wraps_the_same_reader_in_a_fresh_cache]]
        r.read.inner() == self.read && r.read.fresh(),
//@end
// `impl<R: Reopen> Reopen for BigWigRead<R>`, R = VRead; `io::Result<Self>` -> `Result<Self, IoError>`
//@extract method bigtools/src/bbi/bigwigread.rs reopen "Reopen for BigWigRead<R>$"
//@as bw_reopen
//@rule R15
//@rule R16
//@sub /fn reopen\(&self\) -> io::Result<Self>/ => pub fn reopen(&self) -> Result<Self, IoError> min=1
//@ret r
//@sig
    ensures
        [[L: reopened_reader_is_over_the_same_file_content]]
        r matches Ok(c) ==> c.read.content() == self.read.content(),
        [[L: reopened_info_states_the_same_facts_about_the_file]]
        r matches Ok(c) ==> same_file_facts(self.info, c.info),
        [[L: cached_tree_positions_are_taken_over_or_dropped_never_invented]]
        r matches Ok(c) ==> caches_taken_over_or_dropped(self.info, c.info),
        [[L: reopened_reader_reads_through_a_cursor_of_its_own]]
        r matches Ok(c) ==> c.read.cursor_id() != self.read.cursor_id(),
        [[L: doc/reopened_reader_starts_at_position_0]]
        r matches Ok(c) ==> c.read.pos() == 0,
        [[L: doc/reopened_info_is_a_full_clone_caches_included]]
        r matches Ok(c) ==> c.info.header == self.info.header && c.info.zoom_headers@ == self.info.zoom_headers@,
//@end
}

// ---------------- BigBedRead ----------------
impl<R> BigBedRead<R> {
//@extract method bigtools/src/bbi/bigbedread.rs info "^impl<R> BigBedRead<R>$"
//@as bb_info
//@rule R15
//@rule R16
//@ret r
//@sig
    ensures
        [[L: reports_the_readers_own_info]]
        *r == self.info,
//@end
//@extract method bigtools/src/bbi/bigbedread.rs chroms "^impl<R> BigBedRead<R>$"
//@as bb_chroms
//@rule R15
//@rule R16
//@sub /&\[\]/ => empty_slice() min=0
//@ret r
//@sig
    ensures
        [[L: reports_the_whole_chromosome_table_in_order]]
        r@ == self.info.chrom_info@,
//@end
//@extract method bigtools/src/bbi/bigbedread.rs into_inner "^impl<R> BigBedRead<R>$"
//@as bb_into_inner
//@rule R15
//@rule R16
//@ret r
//@sig
    ensures
        [[L: hands_back_the_readers_own_reader]]
        r == self.read,
//@end
//@extract method bigtools/src/bbi/bigbedread.rs info "BBIRead for BigBedRead<R>$"
//@as bb_bbiread_info
//@rule R15
//@rule R16
//@sub /fn info\(/ => pub fn bbiread_info( min=1
//@ret r
//@sig
    ensures
        [[L: reports_the_readers_own_info]]
        *r == self.info,
//@end
//@extract method bigtools/src/bbi/bigbedread.rs chroms "BBIRead for BigBedRead<R>$"
//@as bb_bbiread_chroms
//@rule R15
//@rule R16
//@sub /fn chroms\(/ => pub fn bbiread_chroms( min=1
//@sub /&\[\]/ => empty_slice() min=0
//@ret r
//@sig
    ensures
        [[L: reports_the_whole_chromosome_table_in_order]]
        r@ == self.info.chrom_info@,
//@end
// `impl<R: BBIFileRead> BBIReadInternal for BigBedRead<R>`
//@extract method bigtools/src/bbi/bigbedread.rs reader "BBIReadInternal for BigBedRead<R>$"
//@as bb_reader
//@rule R15
//@rule R16
//@sub /fn reader\(/ => pub fn reader( min=1
//@ret r
//@sig
    ensures
        [[L: lends_the_readers_own_reader_info_untouched]]
        *r == old(self).read && *final(r) == final(self).read && final(self).info == old(self).info,
//@end
//@extract method bigtools/src/bbi/bigbedread.rs reader_and_info "BBIReadInternal for BigBedRead<R>$"
//@as bb_reader_and_info
//@rule R15
//@rule R16
//@sub /fn reader_and_info\(&mut self\) -> \(&mut Self::Read, &mut BBIFileInfo\)/ => pub fn reader_and_info(&mut self) -> (&mut R, &mut BBIFileInfo) min=1
//@ret r
//@sig
    ensures
        [[L: lends_the_readers_own_reader_and_info]]
        *r.0 == old(self).read && *final(r.0) == final(self).read && *r.1 == old(self).info && *final(r.1) == final(self).info,
//@end
//@extract method bigtools/src/bbi/bigbedread.rs with_info "^impl<R: BBIFileRead> BigBedRead<R>$"
//@as bb_with_info
//@rule R15
//@rule R16
//@ret r
//@sig
    ensures
        [[L: reader_is_exactly_the_given_info_and_reader]]
        r.info == info && r.read == read,
//@end
//@extract method bigtools/src/bbi/bigbedread.rs inner_read "^impl<R: BBIFileRead> BigBedRead<R>$"
//@as bb_inner_read
//@rule R15
//@rule R16
//@ret r
//@sig
    ensures
        [[L: lends_the_readers_own_reader]]
        *r == self.read,
//@end
}

impl BigBedRead<VRead> {
//@extract method bigtools/src/bbi/bigbedread.rs cached "^impl<R> BigBedRead<R>\s+where\s+R: SeekableRead"
//@as bb_cached
//@rule R15
//@rule R16
//@sub /CachedBBIFileRead<R>/ => CachedRead min=1
//@sub /CachedBBIFileRead::new\(/ => CachedRead::new( min=0
//@ret r
//@sig
    ensures
        [[L: caching_reader_keeps_the_info_unchanged]]
        r.info == self.info,
        [[L: caching_reader_wraps_the_same_reader_in_a_fresh_cache]]
        r.read.inner() == self.read && r.read.fresh(),
//@end
//@extract method bigtools/src/bbi/bigbedread.rs reopen "Reopen for BigBedRead<R>$"
//@as bb_reopen
//@rule R15
//@rule R16
//@sub /fn reopen\(&self\) -> io::Result<Self>/ => pub fn reopen(&self) -> Result<Self, IoError> min=1
//@ret r
//@sig
    ensures
        [[L: reopened_reader_is_over_the_same_file_content]]
        r matches Ok(c) ==> c.read.content() == self.read.content(),
        [[L: reopened_info_states_the_same_facts_about_the_file]]
        r matches Ok(c) ==> same_file_facts(self.info, c.info),
        [[L: cached_tree_positions_are_taken_over_or_dropped_never_invented]]
        r matches Ok(c) ==> caches_taken_over_or_dropped(self.info, c.info),
        [[L: reopened_reader_reads_through_a_cursor_of_its_own]]
        r matches Ok(c) ==> c.read.cursor_id() != self.read.cursor_id(),
        [[L: doc/reopened_reader_starts_at_position_0]]
        r matches Ok(c) ==> c.read.pos() == 0,
        [[L: doc/reopened_info_is_a_full_clone_caches_included]]
        r matches Ok(c) ==> c.info.header == self.info.header && c.info.zoom_headers@ == self.info.zoom_headers@,
//@end
}

// ---------------- the `_move` iterators hand their reader back (`Into<BigWigRead<R>>` / `Into<BigBedRead<R>>`) ----------------
// C03/C04 "after any sequence of earlier queries": `get_interval_move` / `get_zoom_interval_move` consume the reader;
// the caller continues on what `.into()` hands back -- the iterator's own reader, whole.
// Structs as in unit query_glue: `<R, B>` -> `<B>`, the `PhantomData<R>` field dropped, `std::vec::IntoIter<T>` -> `Vec<T>`.
//@extract struct bigtools/src/bbi/bbiread.rs Block
//@rule R8
//@end
//@extract struct bigtools/src/bbi.rs Value
//@rule R8
//@end
//@extract struct bigtools/src/bbi.rs Summary
//@rule R8
//@end
//@extract struct bigtools/src/bbi.rs ZoomRecord
//@rule R8
//@end
//@extract struct bigtools/src/bbi.rs BedEntry
//@rule R8
//@sub /#\[derive\(Clone\)\]\n/ => "" min=0
//@sub /rest: String/ => rest: Name min=1
//@end
//@extract struct bigtools/src/bbi/bigwigread.rs BigWigIntervalIter
//@rule R8
//@sub /<R, B>/ => <B> min=1
//@sub /[ \t]*r: std::marker::PhantomData<R>,\n/ => "" min=1
//@sub /std::vec::IntoIter<(\w+)>/ => Vec<\1> min=2
//@sub /^    (\w+):/ => pub \1: min=0
//@end
//@extract struct bigtools/src/bbi/bigbedread.rs BigBedIntervalIter
//@rule R8
//@sub /<R, B>/ => <B> min=1
//@sub /[ \t]*r: std::marker::PhantomData<R>,\n/ => "" min=1
//@sub /std::vec::IntoIter<(\w+)>/ => Vec<\1> min=2
//@sub /^    (\w+):/ => pub \1: min=0
//@end
//@extract struct bigtools/src/bbi/bbiread.rs ZoomIntervalIter
//@rule R8
//@sub /<R, B>/ => <B> min=1
//@sub /[ \t]*_r: std::marker::PhantomData<R>,\n/ => "" min=1
//@sub /std::vec::IntoIter<(\w+)>/ => Vec<\1> min=2
//@sub /^    (\w+):/ => pub \1: min=0
//@end
impl<R> BigWigIntervalIter<BigWigRead<R>> {
//@extract method bigtools/src/bbi/bigwigread.rs into "Into<BigWigRead<R>> for BigWigIntervalIter<R, BigWigRead<R>>$"
//@as bw_iter_into_reader
//@rule R15
//@rule R16
//@sub /fn into\(self\)/ => pub fn into_reader(self) min=1
//@ret r
//@sig
    ensures
        [[L: hands_back_the_iterators_own_reader_whole]]
        r == self.bigwig,
//@end
}
impl<R> BigBedIntervalIter<BigBedRead<R>> {
//@extract method bigtools/src/bbi/bigbedread.rs into "Into<BigBedRead<R>> for BigBedIntervalIter<R, BigBedRead<R>>$"
//@as bb_iter_into_reader
//@rule R15
//@rule R16
//@sub /fn into\(self\)/ => pub fn into_reader(self) min=1
//@ret r
//@sig
    ensures
        [[L: hands_back_the_iterators_own_reader_whole]]
        r == self.bigbed,
//@end
}
impl<R> ZoomIntervalIter<BigWigRead<R>> {
//@extract method bigtools/src/bbi/bbiread.rs into "Into<BigWigRead<R>> for ZoomIntervalIter<BigWigRead<R>, BigWigRead<R>>$"
//@as bw_zoom_iter_into_reader
//@rule R15
//@rule R16
//@sub /fn into\(self\)/ => pub fn into_reader(self) min=1
//@ret r
//@sig
    ensures
        [[L: hands_back_the_iterators_own_reader_whole]]
        r == self.bbifile,
//@end
}
impl<R> ZoomIntervalIter<BigBedRead<R>> {
//@extract method bigtools/src/bbi/bbiread.rs into "Into<BigBedRead<R>> for ZoomIntervalIter<BigBedRead<R>, BigBedRead<R>>$"
//@as bb_zoom_iter_into_reader
//@rule R15
//@rule R16
//@sub /fn into\(self\)/ => pub fn into_reader(self) min=1
//@ret r
//@sig
    ensures
        [[L: hands_back_the_iterators_own_reader_whole]]
        r == self.bbifile,
//@end
}

// ---------------- GenericBBIRead ----------------
//@extract enum bigtools/src/bbi/bbiread.rs GenericBBIRead
//@rule R8
//@end
/// the info / the reader of whichever kind it is
pub open spec fn ginfo<R>(g: GenericBBIRead<R>) -> BBIFileInfo {
    match g { GenericBBIRead::BigWig(b) => b.info, GenericBBIRead::BigBed(b) => b.info }
}
pub open spec fn gread<R>(g: GenericBBIRead<R>) -> R {
    match g { GenericBBIRead::BigWig(b) => b.read, GenericBBIRead::BigBed(b) => b.read }
}
/// what `read_info` makes of a file (units info + chrom_rd own its contract; as in unit asql_read: it reads, it does
/// not write, and its result is a function of the file content)
pub uninterp spec fn info_of(c: Seq<u8>) -> Option<BBIFileInfo>;
#[verifier::external_body]
pub fn read_info(file: &mut VRead) -> (r: Result<BBIFileInfo, BBIFileReadInfoError>)
    ensures final(file).content() == old(file).content(), final(file).env_ok() == old(file).env_ok(),
        r matches Ok(i) ==> info_of(old(file).content()) == Some(i),
        (old(file).env_ok() && info_of(old(file).content()) is Some) ==> r is Ok,
        (r matches Err(e) && e is UnknownMagic) ==> info_of(old(file).content()) is None,
{ unimplemented!() }

impl<R> GenericBBIRead<R> {
// `impl<R: SeekableRead> BBIRead for GenericBBIRead<R>`
//@extract method bigtools/src/bbi/bbiread.rs info "BBIRead for GenericBBIRead<R>$"
//@as generic_info
//@rule R15
//@rule R16
//@sub /fn info\(/ => pub fn info( min=1
//@ret r
//@sig
    ensures
        [[L: reports_the_info_of_the_reader_it_holds]]
        *r == ginfo(*self),
//@end
//@extract method bigtools/src/bbi/bbiread.rs chroms "BBIRead for GenericBBIRead<R>$"
//@as generic_chroms
//@rule R15
//@rule R16
//@sub /fn chroms\(/ => pub fn chroms( min=1
//@sub /&\[\]/ => empty_slice() min=0
//@ret r
//@sig
    ensures
        [[L: reports_the_whole_chromosome_table_of_the_reader_it_holds]]
        r@ == ginfo(*self).chrom_info@,
//@end
// `impl<R: SeekableRead> BBIReadInternal for GenericBBIRead<R>`
//@extract method bigtools/src/bbi/bbiread.rs reader "BBIReadInternal for GenericBBIRead<R>$"
//@as generic_reader
//@rule R15
//@rule R16
//@sub /fn reader\(&mut self\) -> &mut Self::Read/ => pub fn reader(&mut self) -> &mut R min=1
//@ret r
//@sig
    ensures
        [[L: lends_the_reader_of_the_reader_it_holds_kind_and_info_untouched]]
        *r == gread(*old(self)) && *final(r) == gread(*final(self)) && ginfo(*final(self)) == ginfo(*old(self))
            && (*final(self) is BigWig <==> *old(self) is BigWig),
//@end
//@extract method bigtools/src/bbi/bbiread.rs reader_and_info "BBIReadInternal for GenericBBIRead<R>$"
//@as generic_reader_and_info
//@rule R15
//@rule R16
//@sub /fn reader_and_info\(&mut self\) -> \(&mut Self::Read, &mut BBIFileInfo\)/ => pub fn reader_and_info(&mut self) -> (&mut R, &mut BBIFileInfo) min=1
//@ret r
//@sig
    ensures
        [[L: lends_reader_and_info_of_the_reader_it_holds_kind_untouched]]
        *r.0 == gread(*old(self)) && *final(r.0) == gread(*final(self)) && *r.1 == ginfo(*old(self)) && *final(r.1) == ginfo(*final(self))
            && (*final(self) is BigWig <==> *old(self) is BigWig),
//@end
//@extract method bigtools/src/bbi/bbiread.rs bigwig "^impl<R> GenericBBIRead<R>$"
//@as generic_bigwig
//@rule R15
//@rule R16
//@ret r
//@sig
    ensures
        [[L: a_bigwig_is_handed_out_whole_a_bigbed_is_not_a_bigwig]]
        self matches GenericBBIRead::BigWig(b) ==> r == Some(b),
        self is BigBed ==> r is None,
//@end
//@extract method bigtools/src/bbi/bbiread.rs bigbed "^impl<R> GenericBBIRead<R>$"
//@as generic_bigbed
//@rule R15
//@rule R16
//@ret r
//@sig
    ensures
        [[L: a_bigbed_is_handed_out_whole_a_bigwig_is_not_a_bigbed]]
        self matches GenericBBIRead::BigBed(b) ==> r == Some(b),
        self is BigWig ==> r is None,
//@end
}

impl GenericBBIRead<VRead> {
// `impl<R: BBIFileRead> GenericBBIRead<R>`, R = VRead; `read_info(&mut read)?` -> explicit match with the extracted
// conversion `info_to_generic_open`; 0 hits on /repo: `read_info(..).map_err(|_| E)?` -> match (definition of map_err + `?`)
//@extract method bigtools/src/bbi/bbiread.rs open "^impl<R: BBIFileRead> GenericBBIRead<R>$"
//@as generic_open
//@rule R15
//@rule R16
//@sub /\(mut read: R\) -> Result<Self, GenericBBIFileOpenError>/ => (mut read: VRead) -> Result<Self, GenericBBIFileOpenError> min=1
//@sub /read_info\(&mut read(?:\.raw_reader\(\))?\)\s*\.map_err\(\|_\w*\| ([^;]*?)\)\?;/ => (match read_info(&mut read) { Ok(i__) => i__, Err(_) => return Err(\1) }); min=0
//@sub /read_info\(&mut read(?:\.raw_reader\(\))?\)\?/ => (match read_info(&mut read) { Ok(i__) => i__, Err(e__) => return Err(info_to_generic_open(e__)) }) min=0
//@ret r
//@sig
    ensures
        [[L: opened_reader_holds_the_files_info_and_the_given_reader]]
        r matches Ok(g) ==> info_of(read.content()) == Some(ginfo(g)) && gread(g).content() == read.content(),
        [[L: a_bigwig_is_opened_as_bigwig_a_bigbed_as_bigbed]]
        r matches Ok(g) ==> (g is BigWig <==> ginfo(g).filetype is BigWig),
        [[L: a_readable_bbi_file_is_opened]]
        (read.env_ok() && info_of(read.content()) is Some) ==> r is Ok,
        [[L: not_a_bbi_file_only_for_a_file_without_a_bbi_magic]]
        (r matches Err(e) && e is NotABBIFile) ==> info_of(read.content()) is None,
//@end
}

// =====================================================================================
// (3) opening by path: `open_file` x3 and `ReopenableFile::reopen` (utils/file/reopen.rs)
// =====================================================================================
// C03/C04/C10 "through a reopened reader": `open_file` must remember THE path it opened (a later `reopen()` opens
// that path again) and must hand back exactly what `open` made of exactly that file.
/// a path (`impl AsRef<Path>`, `&str`, `PathBuf`): opaque, with real equality; conversions keep the path
#[verifier::external_body]
pub struct PathV { _p: u8 }
impl PathV {
    #[verifier::external_body] pub fn as_ref(&self) -> (r: &PathV) ensures *r == *self, { unimplemented!() }
    #[verifier::external_body] pub fn to_owned(&self) -> (r: PathV) ensures r == *self, { unimplemented!() }
    #[verifier::external_body] pub fn to_path_buf(&self) -> (r: PathV) ensures r == *self, { unimplemented!() }
    #[verifier::external_body] pub fn clone(&self) -> (r: PathV) ensures r == *self, { unimplemented!() }
    #[verifier::external_body] pub fn into(&self) -> (r: PathV) ensures r == *self, { unimplemented!() }
    /// `PathBuf::new()` (0 hits on /repo): SOME path, nothing promised
    #[verifier::external_body] pub fn new() -> (r: PathV) { unimplemented!() }
}
/// `std::io::SeekFrom` (R11: `io::SeekFrom` -> `SeekFrom`)
pub enum SeekFrom { Start(u64), End(i64), Current(i64) }
/// `std::io::IoSliceMut<'_>` (opaque; only handed on)
#[verifier::external_body]
pub struct IoSliceMut { _p: u8 }
/// `std::fs::File`: an opaque handle = WHICH file it is on (`node`: the file the OS resolved, content included), WHICH
/// open file description it reads through (`cursor_id`: the kernel object that holds the read position) and where
/// that position stands.
#[verifier::external_body]
pub struct VFile { _p: u8 }
impl VFile {
    pub uninterp spec fn node(&self) -> int;
    pub uninterp spec fn cursor_id(&self) -> int;
    pub uninterp spec fn pos(&self) -> int;
    /// `File::try_clone` (std: "Creates a new File instance that shares the same underlying file handle ... Reads,
    /// writes, and seeks will affect both File instances simultaneously" -- `dup`): may fail; the new handle is on the
    /// same file and reads through THE SAME cursor (shared position).  0 hits on /repo.
    #[verifier::external_body]
    pub fn try_clone(&self) -> (r: Result<VFile, IoError>)
        ensures r matches Ok(f) ==> f.node() == self.node() && f.cursor_id() == self.cursor_id() && f.pos() == self.pos(),
    { unimplemented!() }
    // The seven `Seek` / `Read` methods of `File`.  ASSUMED: nothing about WHAT they answer (short reads, EINTR, ...):
    // only a name for "an outcome this call can have on this handle" (`*_out`: handle and buffer before, handle and
    // buffer after, result), and that the handle stays on its file and cursor.
    pub uninterp spec fn seek_out(before: VFile, pos: SeekFrom, after: VFile, r: Result<u64, IoError>) -> bool;
    pub uninterp spec fn read_out(before: VFile, buf: Seq<u8>, after: VFile, buf_after: Seq<u8>, r: Result<usize, IoError>) -> bool;
    pub uninterp spec fn read_vectored_out(before: VFile, bufs: Seq<IoSliceMut>, after: VFile, bufs_after: Seq<IoSliceMut>, r: Result<usize, IoError>) -> bool;
    pub uninterp spec fn read_to_end_out(before: VFile, buf: Seq<u8>, after: VFile, buf_after: Seq<u8>, r: Result<usize, IoError>) -> bool;
    pub uninterp spec fn read_to_string_out(before: VFile, buf: Name, after: VFile, buf_after: Name, r: Result<usize, IoError>) -> bool;
    pub uninterp spec fn read_exact_out(before: VFile, buf: Seq<u8>, after: VFile, buf_after: Seq<u8>, r: Result<(), IoError>) -> bool;
    #[verifier::external_body]
    pub fn seek(&mut self, pos: SeekFrom) -> (r: Result<u64, IoError>)
        ensures VFile::seek_out(*old(self), pos, *final(self), r),
            final(self).node() == old(self).node(), final(self).cursor_id() == old(self).cursor_id(),
    { unimplemented!() }
    #[verifier::external_body]
    pub fn read(&mut self, buf: &mut [u8]) -> (r: Result<usize, IoError>)
        ensures VFile::read_out(*old(self), old(buf)@, *final(self), final(buf)@, r),
            final(self).node() == old(self).node(), final(self).cursor_id() == old(self).cursor_id(),
    { unimplemented!() }
    #[verifier::external_body]
    pub fn read_vectored(&mut self, bufs: &mut [IoSliceMut]) -> (r: Result<usize, IoError>)
        ensures VFile::read_vectored_out(*old(self), old(bufs)@, *final(self), final(bufs)@, r),
            final(self).node() == old(self).node(), final(self).cursor_id() == old(self).cursor_id(),
    { unimplemented!() }
    #[verifier::external_body]
    pub fn read_to_end(&mut self, buf: &mut Vec<u8>) -> (r: Result<usize, IoError>)
        ensures VFile::read_to_end_out(*old(self), old(buf)@, *final(self), final(buf)@, r),
            final(self).node() == old(self).node(), final(self).cursor_id() == old(self).cursor_id(),
    { unimplemented!() }
    #[verifier::external_body]
    pub fn read_to_string(&mut self, buf: &mut Name) -> (r: Result<usize, IoError>)
        ensures VFile::read_to_string_out(*old(self), *old(buf), *final(self), *final(buf), r),
            final(self).node() == old(self).node(), final(self).cursor_id() == old(self).cursor_id(),
    { unimplemented!() }
    #[verifier::external_body]
    pub fn read_exact(&mut self, buf: &mut [u8]) -> (r: Result<(), IoError>)
        ensures VFile::read_exact_out(*old(self), old(buf)@, *final(self), final(buf)@, r),
            final(self).node() == old(self).node(), final(self).cursor_id() == old(self).cursor_id(),
    { unimplemented!() }
}
/// WHICH file the file system resolves a path to, or the refusal (ASSUMED deterministic while the program runs: "the
/// path keeps naming the same, unmodified file" -- the hypothesis under which a reopened reader can give the same
/// answers at all).  The HANDLE that an `open` returns is new each time: see `file_open`.
pub uninterp spec fn fs_open(p: PathV) -> Result<int, IoError>;
/// `File::open(path)`: refusal as the file system says; else a handle on the file the path names, at position 0,
/// reading through a NEW open file description (nothing is claimed here about how its cursor relates to others:
/// there is no other handle in sight where this shim is used)
#[verifier::external_body]
pub fn file_open(p: &PathV) -> (r: Result<VFile, IoError>)
    ensures fs_open(*p) matches Err(e) ==> r == Err::<VFile, IoError>(e),
        fs_open(*p) matches Ok(n) ==> (r matches Ok(f) && f.node() == n && f.pos() == 0),
{ unimplemented!() }
/// `File::open(path)` while the handle `existing` is alive (inside `ReopenableFile::reopen`: `self.file`): as
/// `file_open`, and the new open file description is not the one any existing handle reads through -- `open(2)`
/// always creates a new one; only `dup`/`try_clone`/`fork` share one.
#[verifier::external_body]
pub fn file_open_beside(existing: &VFile, p: &PathV) -> (r: Result<VFile, IoError>)
    ensures fs_open(*p) matches Err(e) ==> r == Err::<VFile, IoError>(e),
        fs_open(*p) matches Ok(n) ==> (r matches Ok(f) && f.node() == n && f.pos() == 0),
        r matches Ok(f) ==> f.cursor_id() != existing.cursor_id(),
{ unimplemented!() }
/// `eprintln!(..)`: diagnostics only
pub fn eprint_note() {}

// R11: `PathBuf` -> `PathV`, `File` -> `VFile`
//@extract struct bigtools/src/utils/file/reopen.rs ReopenableFile
//@rule R8
//@sub /PathBuf/ => PathV min=1
//@sub /file: File/ => file: VFile min=1
//@end
impl ReopenableFile {
// `impl Reopen for ReopenableFile`; `io::Result<Self>` -> `Result<Self, IoError>`, `File::open(&` -> `file_open_beside(&self.file, &`
// C03/C04/C10/C16 "the answer is the same ... through a reopened reader" / "independent of thread count": every reader
// that a worker thread gets is a `reopen()` of the caller's; the query contracts are stated for a reader whose position
// only its own seeks and reads move.  So the reopened handle must be on the same file AND read through a cursor of its
// own: with a shared cursor (`try_clone`) another reader's seek lands between this reader's seek and its read.
//@extract method bigtools/src/utils/file/reopen.rs reopen "Reopen for ReopenableFile$"
//@as file_reopen
//@rule R15
//@rule R16
//@sub /fn reopen\(&self\) -> io::Result<Self>/ => pub fn reopen(&self) -> Result<Self, IoError> min=1
//@sub /File::open\(&?/ => file_open_beside(&self.file, & min=0
//@sub /PathBuf::new\(\)/ => PathV::new() min=0
//@sub /io::SeekFrom::/ => SeekFrom:: min=0
//@ret r
//@sig
    ensures
        [[L: reopens_the_same_path_and_remembers_it]]
        fs_open(self.path) matches Ok(n) ==> (r matches Ok(c) && c.path == self.path && (c.file.node() == n || c.file.node() == self.file.node())),
        [[L: open_error_is_passed_on]]
        fs_open(self.path) matches Err(e) ==> r == Err::<ReopenableFile, IoError>(e),
        [[L: reopened_handle_reads_through_a_cursor_of_its_own]]
        r matches Ok(c) ==> c.file.cursor_id() != self.file.cursor_id(),
        [[L: doc/reopened_handle_starts_at_position_0]]
        r matches Ok(c) ==> c.file.pos() == 0,
//@end
// `impl Seek for ReopenableFile` / `impl Read for ReopenableFile`: seven one-line delegations.  Each must be THE
// file's own method of the same name on the reader's own handle (the outcome is one that call can have), the path kept.
//@extract method bigtools/src/utils/file/reopen.rs seek "Seek for ReopenableFile$"
//@as file_seek
//@rule R15
//@rule R16
//@sub /fn seek\(&mut self, pos: io::SeekFrom\) -> io::Result<u64>/ => pub fn seek(&mut self, pos: SeekFrom) -> Result<u64, IoError> min=1
//@sub /io::SeekFrom::/ => SeekFrom:: min=0
//@ret r
//@sig
    ensures
        [[L: is_the_files_own_seek_to_the_given_target]]
        VFile::seek_out(old(self).file, pos, final(self).file, r),
        [[L: path_kept]]
        final(self).path == old(self).path,
//@end
//@extract method bigtools/src/utils/file/reopen.rs read "Read for ReopenableFile$"
//@as file_read
//@rule R15
//@rule R16
//@sub /fn read\(&mut self, buf: &mut \[u8\]\) -> io::Result<usize>/ => pub fn read(&mut self, buf: &mut [u8]) -> Result<usize, IoError> min=1
//@ret r
//@sig
    ensures
        [[L: is_the_files_own_read_into_the_given_buffer]]
        VFile::read_out(old(self).file, old(buf)@, final(self).file, final(buf)@, r),
        [[L: path_kept]]
        final(self).path == old(self).path,
//@end
//@extract method bigtools/src/utils/file/reopen.rs read_vectored "Read for ReopenableFile$"
//@as file_read_vectored
//@rule R15
//@rule R16
//@sub /fn read_vectored\(&mut self, bufs: &mut \[io::IoSliceMut<'_>\]\) -> io::Result<usize>/ => pub fn read_vectored(&mut self, bufs: &mut [IoSliceMut]) -> Result<usize, IoError> min=1
//@ret r
//@sig
    ensures
        [[L: is_the_files_own_read_vectored_into_the_given_buffers]]
        VFile::read_vectored_out(old(self).file, old(bufs)@, final(self).file, final(bufs)@, r),
        [[L: path_kept]]
        final(self).path == old(self).path,
//@end
//@extract method bigtools/src/utils/file/reopen.rs read_to_end "Read for ReopenableFile$"
//@as file_read_to_end
//@rule R15
//@rule R16
//@sub /fn read_to_end\(&mut self, buf: &mut Vec<u8>\) -> io::Result<usize>/ => pub fn read_to_end(&mut self, buf: &mut Vec<u8>) -> Result<usize, IoError> min=1
//@ret r
//@sig
    ensures
        [[L: is_the_files_own_read_to_end_into_the_given_buffer]]
        VFile::read_to_end_out(old(self).file, old(buf)@, final(self).file, final(buf)@, r),
        [[L: path_kept]]
        final(self).path == old(self).path,
//@end
//@extract method bigtools/src/utils/file/reopen.rs read_to_string "Read for ReopenableFile$"
//@as file_read_to_string
//@rule R15
//@rule R16
//@sub /fn read_to_string\(&mut self, buf: &mut String\) -> io::Result<usize>/ => pub fn read_to_string(&mut self, buf: &mut Name) -> Result<usize, IoError> min=1
//@ret r
//@sig
    ensures
        [[L: is_the_files_own_read_to_string_into_the_given_buffer]]
        VFile::read_to_string_out(old(self).file, *old(buf), final(self).file, *final(buf), r),
        [[L: path_kept]]
        final(self).path == old(self).path,
//@end
//@extract method bigtools/src/utils/file/reopen.rs read_exact "Read for ReopenableFile$"
//@as file_read_exact
//@rule R15
//@rule R16
//@sub /fn read_exact\(&mut self, buf: &mut \[u8\]\) -> io::Result<\(\)>/ => pub fn read_exact(&mut self, buf: &mut [u8]) -> Result<(), IoError> min=1
//@ret r
//@sig
    ensures
        [[L: is_the_files_own_read_exact_into_the_given_buffer]]
        VFile::read_exact_out(old(self).file, old(buf)@, final(self).file, final(buf)@, r),
        [[L: path_kept]]
        final(self).path == old(self).path,
//@end
}

/// `BigWigRead::open` / `BigBedRead::open` / `GenericBBIRead::open` on a `ReopenableFile` (under contract in unit
/// asql_read resp. above for R = VRead): here only "the result is a function of the reader handed in"
pub uninterp spec fn bw_open_of(read: ReopenableFile) -> Result<BigWigRead<ReopenableFile>, BigWigReadOpenError>;
pub uninterp spec fn bb_open_of(read: ReopenableFile) -> Result<BigBedRead<ReopenableFile>, BigBedReadOpenError>;
pub uninterp spec fn generic_open_of(read: ReopenableFile) -> Result<GenericBBIRead<ReopenableFile>, GenericBBIFileOpenError>;
//@extract enum bigtools/src/bbi/bigbedread.rs BigBedReadOpenError
//@rule R8
//@sub /[ \t]*#\[error\([^\n]*\)\]\n/ => "" min=0
//@sub /#\[derive\([^\)]*\)\]\n/ => "" min=0
//@sub /#\[from\] io::Error/ => IoError min=1
//@end
/// the `From<io::Error>` impls that thiserror's `#[from]` generates (compiler-generated, not repository text;
/// ASSUMED: they wrap, nothing else)
pub fn io_to_bigbed_open(e: IoError) -> (r: BigBedReadOpenError) ensures r == BigBedReadOpenError::IoError(e), { BigBedReadOpenError::IoError(e) }
pub fn io_to_generic_open(e: IoError) -> (r: GenericBBIFileOpenError) ensures r == GenericBBIFileOpenError::IoError(e), { GenericBBIFileOpenError::IoError(e) }

impl BigWigRead<ReopenableFile> {
    #[verifier::external_body]
    pub fn open(read: ReopenableFile) -> (r: Result<Self, BigWigReadOpenError>) ensures r == bw_open_of(read), { unimplemented!() }
// R11: `path: impl AsRef<Path>` -> `PathV`; `File::open(&path)?` -> explicit match with the extracted conversion
// `io_to_bigwig_open`; `eprintln!(..)` -> `eprint_note()`
//@extract method bigtools/src/bbi/bigwigread.rs open_file "^impl BigWigRead<ReopenableFile>$"
//@as bw_open_file
//@rule R15
//@rule R16
//@sub /path: impl AsRef<Path>/ => path: PathV min=1
//@sub /File::open\(&path\)\s*\.map_err\(\|_\w*\| ([^;]*?)\)\?(?=,)/ => (match file_open(&path) { Ok(f__) => f__, Err(_) => return Err(\1) }) min=0
//@sub /File::open\(&path\)\?/ => (match file_open(&path) { Ok(f__) => f__, Err(e__) => return Err(io_to_bigwig_open(e__)) }) min=0
//@sub /eprintln!\([^;]*\);/ => eprint_note(); min=0
//@sub /PathBuf::new\(\)/ => PathV::new() min=0
//@ret r
//@sig
    ensures
        [[L: a_path_that_cannot_be_opened_is_that_io_error]]
        fs_open(path) matches Err(e) ==> r == Err::<Self, BigWigReadOpenError>(BigWigReadOpenError::IoError(e)),
        [[L: result_is_what_open_makes_of_that_file_remembering_that_path]]
        fs_open(path) matches Ok(n) ==> exists|f: VFile| f.node() == n && f.pos() == 0 && r == #[trigger] bw_open_of(ReopenableFile { path: path, file: f }),
//@end
}
impl BigBedRead<ReopenableFile> {
    #[verifier::external_body]
    pub fn open(read: ReopenableFile) -> (r: Result<Self, BigBedReadOpenError>) ensures r == bb_open_of(read), { unimplemented!() }
//@extract method bigtools/src/bbi/bigbedread.rs open_file "^impl BigBedRead<ReopenableFile>$"
//@as bb_open_file
//@rule R15
//@rule R16
//@sub /path: impl AsRef<Path>/ => path: PathV min=1
//@sub /File::open\(&path\)\s*\.map_err\(\|_\w*\| ([^;]*?)\)\?(?=,)/ => (match file_open(&path) { Ok(f__) => f__, Err(_) => return Err(\1) }) min=0
//@sub /File::open\(&path\)\?/ => (match file_open(&path) { Ok(f__) => f__, Err(e__) => return Err(io_to_bigbed_open(e__)) }) min=0
//@sub /eprintln!\([^;]*\);/ => eprint_note(); min=0
//@sub /PathBuf::new\(\)/ => PathV::new() min=0
//@ret r
//@sig
    ensures
        [[L: a_path_that_cannot_be_opened_is_that_io_error]]
        fs_open(path) matches Err(e) ==> r == Err::<Self, BigBedReadOpenError>(BigBedReadOpenError::IoError(e)),
        [[L: result_is_what_open_makes_of_that_file_remembering_that_path]]
        fs_open(path) matches Ok(n) ==> exists|f: VFile| f.node() == n && f.pos() == 0 && r == #[trigger] bb_open_of(ReopenableFile { path: path, file: f }),
//@end
}
impl GenericBBIRead<ReopenableFile> {
    #[verifier::external_body]
    pub fn open_reopenable(read: ReopenableFile) -> (r: Result<Self, GenericBBIFileOpenError>) ensures r == generic_open_of(read), { unimplemented!() }
// R11: `path: &str` -> `&PathV`; `GenericBBIRead::open(` -> the shim above (the verified `open` is the R = VRead instance)
//@extract method bigtools/src/bbi/bbiread.rs open_file "^impl GenericBBIRead<ReopenableFile>$"
//@as generic_open_file
//@rule R15
//@rule R16
//@sub /path: &str/ => path: &PathV min=1
//@sub /File::open\(&path\)\s*\.map_err\(\|_\w*\| ([^;]*?)\)\?(?=,)/ => (match file_open(path) { Ok(f__) => f__, Err(_) => return Err(\1) }) min=0
//@sub /File::open\(&path\)\?/ => (match file_open(path) { Ok(f__) => f__, Err(e__) => return Err(io_to_generic_open(e__)) }) min=0
//@sub /GenericBBIRead::open\(/ => GenericBBIRead::open_reopenable( min=0
//@sub /eprintln!\([^;]*\);/ => eprint_note(); min=0
//@sub /PathBuf::new\(\)/ => PathV::new() min=0
//@ret r
//@sig
    ensures
        [[L: a_path_that_cannot_be_opened_is_that_io_error]]
        fs_open(*path) matches Err(e) ==> r == Err::<Self, GenericBBIFileOpenError>(GenericBBIFileOpenError::IoError(e)),
        [[L: result_is_what_open_makes_of_that_file_remembering_that_path]]
        fs_open(*path) matches Ok(n) ==> exists|f: VFile| f.node() == n && f.pos() == 0 && r == #[trigger] generic_open_of(ReopenableFile { path: *path, file: f }),
//@end
}

} // verus!
fn main() {}
