// Kani harnesses for unit asql_tok: the autoSql tokenizer `mod parser` in bigtools/src/bed/autosql.rs
// (take_whitespace, peek_word_internal, peek_one, peek_quoted_string, take and the eat_* wrappers).
// Injected as `#[cfg(kani)] mod verif_kani_asql_tok` INSIDE `pub mod parse { mod parser { .. } }`
// (kani.toml: module_path) because `parser` is private to `parse`; the real methods are called.
//
// BOUNDED (kind = "bounded"): input strings of length <= L over ALPHABET (spec.rs), every length,
// every content, and EVERY wf cursor state (0 <= pos <= end <= len), one method call per harness.
// That is the one-step inductive form of A1: from any wf state each method re-establishes wf and its
// clause, so by induction every call sequence from `Parser::of` (pos = end = 0) does.
// Unwinding assertions on: the tokenizer's loops exit within the bound for these inputs.

include!("spec.rs");

/// Stand-in for `str::is_char_boundary` -- the test that `&data[a..]` / `&data[a..b]` make before they panic with "byte
/// index is not a char boundary" / "out of range".  Same answer as the real one (its definition, byte for byte), and
/// the panic that a `false` leads to is raised HERE already: a failed check located in
/// `core::str::traits::<impl SliceIndex<str> for RangeFrom<usize>>::index` has a blank in its id and the lane's output
/// parser does not see it (the run would end UNDECIDED instead of VIOLATION).  The tokenizer never calls
/// `is_char_boundary`/`get` to ASK: every use is a slice expression, for which `false` is the panic.
fn checked_char_boundary(s: &str, index: usize) -> bool {
    let b = s.as_bytes();
    let r = index == 0 || index == b.len() || (index < b.len() && (b[index] as i8) >= -0x40);
    no_slice_panic(r);
    r
}
/// (a function of its own so that the check is located in a function whose path has no blank: the stub's body runs
/// under the name `core::str::<impl str>::is_char_boundary`)
#[inline(never)]
fn no_slice_panic(on_boundary: bool) {
    assert!(on_boundary, "A1/no panic: a str is sliced at a byte index that is out of range or inside a code point");
}

/// quick tier: L = 4; thorough tier: L = 6 (kani.toml states the bound per harness)
fn one_call<const L: usize>(m: Method) {
    let mut bytes = [b'a'; L];
    let mut i = 0;
    while i < L {
        let k: u8 = kani::any();
        kani::assume((k as usize) < ALPHABET.len());
        bytes[i] = ALPHABET[k as usize];
        i += 1;
    }
    let len: usize = kani::any();
    let pos: usize = kani::any();
    let end: usize = kani::any();
    kani::assume(len <= L);
    kani::assume(wf(pos, end, len));
    kani::cover!(true, "reach_one_call");
    // ASCII only, so every index is a char boundary and the bytes are valid UTF-8
    let data: &str = unsafe { std::str::from_utf8_unchecked(&bytes[..len]) };
    let mut p = super::Parser { data, start_cursor: pos, end_cursor: end };
    let v = call_and_check(m, &mut p);
    assert!(!v[0], "A1/wf': pos' <= end' <= len");
    assert!(!v[1], "A1/pos' >= pos");
    assert!(!v[2], "A1/cursor-token relation");
    assert!(!v[3], "A1/emptiness clause");
    assert!(!v[4], "A1/end-of-input or whitespace clause");
    assert!(!v[5], "A1/eat: token is the tail of the consumed input");
    assert!(!v[6], "A1/one: exactly one character");
    assert!(!v[7], "A1/word token shape");
}

// `Parser::of`: pos = end = 0, wf for every string
#[kani::proof]
#[kani::unwind(9)]
#[kani::stub(str::is_char_boundary, checked_char_boundary)]
fn asql_tok_of() {
    const L: usize = 6;
    let mut bytes = [b'a'; L];
    let mut i = 0;
    while i < L {
        let k: u8 = kani::any();
        kani::assume((k as usize) < ALPHABET.len());
        bytes[i] = ALPHABET[k as usize];
        i += 1;
    }
    let len: usize = kani::any();
    kani::assume(len <= L);
    kani::cover!(true, "reach_of");
    let data: &str = unsafe { std::str::from_utf8_unchecked(&bytes[..len]) };
    let p = super::Parser::of(data);
    assert!(p.start_cursor == 0 && p.end_cursor == 0 && p.data.len() == len, "A1/of: pos == end == 0, len == |data|");
}

macro_rules! asql_tok_harness {
    ($name:ident, $l:expr, $u:expr, $m:expr) => {
        #[kani::proof]
        #[kani::unwind($u)]
        #[kani::stub(str::is_char_boundary, checked_char_boundary)]
        fn $name() {
            one_call::<$l>($m)
        }
    };
}
// quick tier: strings of length <= 4 (unwind 6 = L + 2: the longest tokenizer loop makes L + 1 iterations)
asql_tok_harness!(asql_tok_take, 4, 6, Method::Take);
asql_tok_harness!(asql_tok_peek_word, 4, 6, Method::PeekWord);
asql_tok_harness!(asql_tok_eat_word, 4, 6, Method::EatWord);
asql_tok_harness!(asql_tok_peek_one, 4, 6, Method::PeekOne);
asql_tok_harness!(asql_tok_eat_one, 4, 6, Method::EatOne);
asql_tok_harness!(asql_tok_peek_quoted, 4, 6, Method::PeekQuoted);
asql_tok_harness!(asql_tok_eat_quoted, 4, 6, Method::EatQuoted);
// thorough tier: strings of length <= 6
asql_tok_harness!(asql_tok_take_l6, 6, 8, Method::Take);
asql_tok_harness!(asql_tok_peek_word_l6, 6, 8, Method::PeekWord);
asql_tok_harness!(asql_tok_eat_word_l6, 6, 8, Method::EatWord);
asql_tok_harness!(asql_tok_peek_one_l6, 6, 8, Method::PeekOne);
asql_tok_harness!(asql_tok_eat_one_l6, 6, 8, Method::EatOne);
asql_tok_harness!(asql_tok_peek_quoted_l6, 6, 8, Method::PeekQuoted);
asql_tok_harness!(asql_tok_eat_quoted_l6, 6, 8, Method::EatQuoted);

// ---------------------------------------------------------------------------------------------------
// Unicode pieces: the string is n <= P whole pieces of UPIECES (spec.rs) -- ASCII space, tab, a letter, a delimiter,
// U+00A0 (2 bytes), U+2003 (3 bytes) -- every choice; the cursors rest on piece boundaries (every wf state the
// tokenizer can be in: it only ever stores char boundaries, which clause [7] re-establishes), one call.
// ---------------------------------------------------------------------------------------------------
/// (ONE const parameter: the lane's output parser takes a check id up to the first blank, and `one_call_u::<3, 9>` has one)
fn one_call_u<const P: usize>(m: Method) {
    let mut bytes = [b'a'; 12]; // 3 * P bytes are used at most, P <= 4
    let mut off = [0usize; 8];
    let n: usize = kani::any();
    kani::assume(n <= P);
    let mut len = 0;
    let mut i = 0;
    while i < P {
        let k: u8 = kani::any();
        kani::assume((k as usize) < UPIECES.len());
        if i < n {
            let piece = UPIECES[k as usize].as_bytes();
            bytes[len] = piece[0];
            if piece.len() > 1 {
                bytes[len + 1] = piece[1];
            }
            if piece.len() > 2 {
                bytes[len + 2] = piece[2];
            }
            len += piece.len();
        }
        off[i + 1] = len;
        i += 1;
    }
    let ip: usize = kani::any();
    let ie: usize = kani::any();
    kani::assume(ip <= ie && ie <= n);
    let (pos, end) = (off[ip], off[ie]);
    kani::cover!(true, "reach_one_call_u");
    // whole UTF-8 pieces back to back: valid UTF-8 (the replay test uses the checked `from_utf8`)
    let data: &str = unsafe { std::str::from_utf8_unchecked(&bytes[..len]) };
    let mut p = super::Parser { data, start_cursor: pos, end_cursor: end };
    let v = call_and_check_u(m, &mut p);
    assert!(!v[0], "A1/wf': pos' <= end' <= len");
    assert!(!v[1], "A1/pos' >= pos");
    assert!(!v[2], "A1/cursor-token relation");
    assert!(!v[3], "A1/emptiness clause");
    assert!(!v[4], "A1/end-of-input or whitespace clause");
    assert!(!v[5], "A1/eat: token is the tail of the consumed input");
    assert!(!v[6], "A1/one: exactly one character");
    assert!(!v[7], "A1/cursors on char boundaries");
}

macro_rules! asql_tok_u_harness {
    ($name:ident, $p:expr, $u:expr, $m:expr) => {
        #[kani::proof]
        #[kani::unwind($u)]
        #[kani::stub(str::is_char_boundary, checked_char_boundary)]
        fn $name() {
            one_call_u::<$p>($m)
        }
    };
}
// quick tier: <= 3 pieces (<= 9 bytes) for take / peek_one / eat_one, <= 2 pieces (<= 6 bytes) for the word and
// quoted-string methods (unwind = P + 2: the longest loop, `take_whitespace` over P blanks, makes P + 1 iterations)
asql_tok_u_harness!(asql_tok_u_take, 3, 5, Method::Take);
asql_tok_u_harness!(asql_tok_u_peek_one, 3, 5, Method::PeekOne);
asql_tok_u_harness!(asql_tok_u_eat_one, 3, 5, Method::EatOne);
asql_tok_u_harness!(asql_tok_u_peek_word, 2, 4, Method::PeekWord);
asql_tok_u_harness!(asql_tok_u_eat_word, 2, 4, Method::EatWord);
asql_tok_u_harness!(asql_tok_u_peek_quoted, 2, 4, Method::PeekQuoted);
asql_tok_u_harness!(asql_tok_u_eat_quoted, 2, 4, Method::EatQuoted);
// thorough tier: <= 4 pieces (<= 12 bytes)
asql_tok_u_harness!(asql_tok_u_take_p4, 4, 6, Method::Take);
asql_tok_u_harness!(asql_tok_u_peek_one_p4, 4, 6, Method::PeekOne);
asql_tok_u_harness!(asql_tok_u_eat_one_p4, 4, 6, Method::EatOne);
asql_tok_u_harness!(asql_tok_u_peek_word_p4, 4, 6, Method::PeekWord);
asql_tok_u_harness!(asql_tok_u_eat_word_p4, 4, 6, Method::EatWord);
asql_tok_u_harness!(asql_tok_u_peek_quoted_p4, 4, 6, Method::PeekQuoted);
asql_tok_u_harness!(asql_tok_u_eat_quoted_p4, 4, 6, Method::EatQuoted);
