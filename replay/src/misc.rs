//! FileView window semantics (C18) and autoSql parser totality (C19).
use crate::rng::Rng;
use crate::Args;
use bigtools::utils::file::file_view::FileView;
use std::io::{Read, Seek, SeekFrom, Write};

/// args: n=<file len> a=<view start> b=<view end> ops=S<k>|C<k>|E<k>|R<n>;...
pub fn run_fileview(a: &Args) -> Result<(), String> {
    let n: u64 = a.get("n").ok_or("n")?.parse().unwrap();
    let va: u64 = a.get("a").ok_or("a")?.parse().unwrap();
    let vb: u64 = a.get("b").ok_or("b")?.parse().unwrap();
    let ops = a.get("ops").cloned().unwrap_or_default();
    let mut tf = tempfile::NamedTempFile::new().map_err(|e| e.to_string())?;
    let data: Vec<u8> = (0..n).map(|i| (i % 251) as u8).collect();
    tf.write_all(&data).unwrap();
    tf.flush().unwrap();
    let f = std::fs::File::open(tf.path()).unwrap();
    let ops2 = ops.clone();
    let res = std::panic::catch_unwind(move || -> Result<(), String> {
        let mut v = FileView::new(f, va, vb).map_err(|e| e.to_string())?;
        // reference: the slice data[va..min(vb,n)] with a cursor
        let hi = vb.min(n);
        let win = &data[va as usize..hi as usize];
        let mut cur: i64 = 0;
        let wl = win.len() as i64;
        for op in ops2.split(';').filter(|s| !s.is_empty()) {
            let k: i128 = op[1..].parse().unwrap();
            match &op[0..1] {
                "S" => { let got = v.seek(SeekFrom::Start(k as u64)).map_err(|e| e.to_string())?; cur = (k as u64 as i128).min(wl as i128) as i64; if got as i64 != cur { return Err(format!("seek(Start({})) -> {} expected {}", k, got, cur)); } }
                "C" => { let got = v.seek(SeekFrom::Current(k as i64)).map_err(|e| e.to_string())?; cur = (cur as i128 + k).max(0).min(wl as i128) as i64; if got as i64 != cur { return Err(format!("seek(Current({})) -> {} expected {}", k, got, cur)); } }
                "E" => { let got = v.seek(SeekFrom::End(k as i64)).map_err(|e| e.to_string())?; cur = (wl as i128 + k.min(0)).max(0).min(wl as i128) as i64; if got as i64 != cur { return Err(format!("seek(End({})) -> {} expected {}", k, got, cur)); } }
                "R" => {
                    let k = k as i64;
                    let mut buf = vec![0u8; k as usize];
                    let got = v.read(&mut buf).map_err(|e| e.to_string())?;
                    let avail = (wl - cur) as usize;
                    if got > avail { return Err(format!("read({}) returned {} bytes, only {} left in window", k, got, avail)); }
                    if buf[..got] != win[cur as usize..cur as usize + got] { return Err(format!("read({}) returned bytes that are not the window's at {}", k, cur)); }
                    if got == 0 && k > 0 && avail > 0 { return Err(format!("read({}) returned 0 with {} bytes left", k, avail)); }
                    cur += got as i64;
                }
                _ => return Err("bad op".into()),
            }
        }
        Ok(())
    });
    match res {
        Ok(r) => r,
        Err(p) => Err(format!("panicked: {}", p.downcast_ref::<String>().cloned().or_else(|| p.downcast_ref::<&str>().map(|s| s.to_string())).unwrap_or_default())),
    }
}
pub fn gen_fileview(r: &mut Rng) -> String {
    let n = r.range(0, 40);
    let a = r.below(n + 1);
    let b = r.range(a, n + 5);
    let mut ops = vec![];
    for _ in 0..r.range(1, 5) {
        ops.push(match r.below(4) {
            0 => if r.below(8) == 0 { format!("S{}", u64::MAX - r.below(40)) } else { format!("S{}", r.below(50)) },
            1 => if r.below(8) == 0 { format!("C{}", i64::MAX - r.below(40) as i64) } else { format!("C{}", r.below(60) as i64 - 30) },
            2 => format!("E{}", r.below(80) as i64 - 60),
            _ => format!("R{}", r.below(20)),
        });
    }
    format!("n={} a={} b={} ops={}", n, a, b, ops.join(";"))
}

/// args: hex=<schema text as hex>   (runs the parser in a thread with a 3 s budget)
pub fn run_autosql(a: &Args) -> Result<(), String> {
    let hex = a.get("hex").cloned().unwrap_or_default();
    let bytes: Vec<u8> = (0..hex.len() / 2).map(|i| u8::from_str_radix(&hex[2 * i..2 * i + 2], 16).unwrap()).collect();
    let text = String::from_utf8(bytes).map_err(|_| "not utf8".to_string())?;
    let (tx, rx) = std::sync::mpsc::channel();
    let t2 = text.clone();
    std::thread::spawn(move || {
        let r = std::panic::catch_unwind(|| bigtools::bed::autosql::parse::parse_autosql(&t2).is_ok());
        let _ = tx.send(r.is_ok());
    });
    match rx.recv_timeout(std::time::Duration::from_secs(3)) {
        Ok(true) => Ok(()),
        Ok(false) => Err(format!("parse_autosql panicked on {:?}", text)),
        Err(_) => Err(format!("parse_autosql did not return within 3 s on {:?}", text)),
    }
}
pub fn gen_autosql(r: &mut Rng) -> String {
    let toks = ["table", " ", "t", "\"c\"", "(", ")", "enum", "set", "a", ",", ";", "[", "]", "uint", "x", "string", "3", "\n"];
    let mut s = String::from("table t \"c\" ( ");
    for _ in 0..r.range(0, 8) { s.push_str(r.pick(&toks)); s.push(' '); }
    let hex: String = s.bytes().map(|b| format!("{:02x}", b)).collect();
    format!("hex={}", hex)
}
