//@unit rt_spans
//@serves C03 C04 C05 C09
//@backend verus
// bbiwrite::get_rtreeindex -- the closure that builds ONE non-leaf R-tree item from the child it
// summarises (`.map(|c| match &c { DataSections(..) => RTreeNode {..}, Nodes(..) => RTreeNode {..} })`).
//   C04/C05/C09: "every R-tree [is] structurally valid with spans that contain everything beneath them";
//   the search (units rt_nodes / rt_search) finds every overlapping block GIVEN that a node's span
//   covers its children's spans -- this unit discharges that assumption for the code that computes the
//   spans, for every child size and every (chrom, start, end) layout, including bigBed children whose
//   largest end is not the last one.
// NOT covered here: the chunking around the closure (itertools `chunks(block_size)`, `inspect`,
// `collect`) and the level loop -- Kani unit rt_build (bounded) stands in for those.
use vstd::prelude::*;
verus! {

//@extract struct bigtools/src/bbi/bbiwrite.rs Section
//@rule R8
//@end
//@extract struct bigtools/src/bbi/bbiwrite.rs RTreeNode
//@rule R8
//@end
//@extract enum bigtools/src/bbi/bbiwrite.rs RTreeChildren
//@rule R8
//@end

// ---------------- specification vocabulary (from the property text) ----------------
/// (chrom, base) positions are ordered lexicographically
spec fn pos_le(a: (u32, u32), b: (u32, u32)) -> bool { a.0 < b.0 || (a.0 == b.0 && a.1 <= b.1) }
/// the span [lo, hi] contains the span [s, e]
spec fn contains(lo: (u32, u32), hi: (u32, u32), s: (u32, u32), e: (u32, u32)) -> bool {
    pos_le(lo, s) && pos_le(e, hi)
}
spec fn node_lo(n: RTreeNode) -> (u32, u32) { (n.start_chrom_idx, n.start_base) }
spec fn node_hi(n: RTreeNode) -> (u32, u32) { (n.end_chrom_idx, n.end_base) }
/// data sections arrive sorted by (chrom, start) -- what the writers' input validation guarantees
spec fn secs_sorted(s: Seq<Section>) -> bool {
    forall|i: int, j: int| 0 <= i <= j < s.len() ==> pos_le((#[trigger] s[i].chrom, s[i].start), (#[trigger] s[j].chrom, s[j].start))
}
spec fn nodes_sorted(s: Seq<RTreeNode>) -> bool {
    forall|i: int, j: int| 0 <= i <= j < s.len() ==> pos_le(node_lo(#[trigger] s[i]), node_lo(#[trigger] s[j]))
}
/// lexicographic maximum of the (chrom, end) pairs of the first n sections
spec fn max_end_secs(s: Seq<Section>, n: int) -> (u32, u32)
    decreases n
{
    if n <= 0 || n > s.len() { (0u32, 0u32) } else {
        let m = max_end_secs(s, n - 1);
        let e = (s[n - 1].chrom, s[n - 1].end);
        if n == 1 || pos_le(m, e) { e } else { m }
    }
}
spec fn max_end_nodes(s: Seq<RTreeNode>, n: int) -> (u32, u32)
    decreases n
{
    if n <= 0 || n > s.len() { (0u32, 0u32) } else {
        let m = max_end_nodes(s, n - 1);
        let e = node_hi(s[n - 1]);
        if n == 1 || pos_le(m, e) { e } else { m }
    }
}
proof fn lemma_max_secs(s: Seq<Section>, n: int)
    requires 0 < n <= s.len(),
    ensures
        forall|i: int| 0 <= i < n ==> pos_le((#[trigger] s[i].chrom, s[i].end), max_end_secs(s, n)),
        exists|i: int| 0 <= i < n && max_end_secs(s, n) == (#[trigger] s[i].chrom, s[i].end),
    decreases n
{
    if n > 1 {
        lemma_max_secs(s, n - 1);
        let w = choose|i: int| 0 <= i < n - 1 && max_end_secs(s, n - 1) == (#[trigger] s[i].chrom, s[i].end);
        assert(0 <= w < n);
    }
    assert(max_end_secs(s, n) == (s[n - 1].chrom, s[n - 1].end) || max_end_secs(s, n) == max_end_secs(s, n - 1));
}
proof fn lemma_max_nodes(s: Seq<RTreeNode>, n: int)
    requires 0 < n <= s.len(),
    ensures
        forall|i: int| 0 <= i < n ==> pos_le(node_hi(#[trigger] s[i]), max_end_nodes(s, n)),
        exists|i: int| 0 <= i < n && max_end_nodes(s, n) == node_hi(#[trigger] s[i]),
    decreases n
{
    if n > 1 {
        lemma_max_nodes(s, n - 1);
        let w = choose|i: int| 0 <= i < n - 1 && max_end_nodes(s, n - 1) == node_hi(#[trigger] s[i]);
        assert(0 <= w < n);
    }
    assert(max_end_nodes(s, n) == node_hi(s[n - 1]) || max_end_nodes(s, n) == max_end_nodes(s, n - 1));
}

// ---------------- stand-ins for the iterator-adaptor expressions of the closure ----------------
// ASSUMED (std): `.iter().map(|x| (a, b)).max()` is `Some(lexicographic maximum of the pairs)` on a
// non-empty slice and `None` on an empty one (Ord for tuples; of equal maxima the last is returned, which
// is the same pair); `.first()` is `Some(&v[0])` / `None`.  The stand-ins are VERIFIED loops with that spec;
// the assumption is that they agree with std.
fn pos_le_exec(a: (u32, u32), b: (u32, u32)) -> (r: bool)
    ensures r == pos_le(a, b),
{
    a.0 < b.0 || (a.0 == b.0 && a.1 <= b.1)
}
fn max_end_of_sections(v: &Vec<Section>) -> (r: Option<(u32, u32)>)
    ensures
        [[L: helper/max_of_section_ends_is_lexicographic_max]]
        v@.len() == 0 ==> r is None,
        v@.len() > 0 ==> r == Some(max_end_secs(v@, v@.len() as int)),
{
    if v.len() == 0 { return None; }
    let mut m: (u32, u32) = (v[0].chrom, v[0].end);
    let mut i: usize = 1;
    while i < v.len()
        invariant 1 <= i <= v.len(), m == max_end_secs(v@, i as int),
        decreases v.len() - i,
    {
        let e = (v[i].chrom, v[i].end);
        if pos_le_exec(m, e) { m = e; }
        i = i + 1;
    }
    Some(m)
}
fn max_end_of_children(v: &Vec<RTreeNode>) -> (r: Option<(u32, u32)>)
    ensures
        [[L: helper/max_of_child_ends_is_lexicographic_max]]
        v@.len() == 0 ==> r is None,
        v@.len() > 0 ==> r == Some(max_end_nodes(v@, v@.len() as int)),
{
    if v.len() == 0 { return None; }
    let mut m: (u32, u32) = (v[0].end_chrom_idx, v[0].end_base);
    let mut i: usize = 1;
    while i < v.len()
        invariant 1 <= i <= v.len(), m == max_end_nodes(v@, i as int),
        decreases v.len() - i,
    {
        let e = (v[i].end_chrom_idx, v[i].end_base);
        if pos_le_exec(m, e) { m = e; }
        i = i + 1;
    }
    Some(m)
}
/// foreign spellings an edit might use (`.last()`, `.min()`, any other `.iter().map(|x| ..).ADAPTOR()` over the
/// child list): accepted with NO postcondition (judged, not rejected)
#[verifier::external_body] fn last_end_of_sections(v: &Vec<Section>) -> (r: Option<(u32, u32)>) { unimplemented!() }
#[verifier::external_body] fn last_end_of_children(v: &Vec<RTreeNode>) -> (r: Option<(u32, u32)>) { unimplemented!() }
#[verifier::external_body] fn min_end_of_sections(v: &Vec<Section>) -> (r: Option<(u32, u32)>) { unimplemented!() }
#[verifier::external_body] fn min_end_of_children(v: &Vec<RTreeNode>) -> (r: Option<(u32, u32)>) { unimplemented!() }
fn first_section(v: &Vec<Section>) -> (r: Option<&Section>)
    ensures v@.len() == 0 ==> r is None, v@.len() > 0 ==> r == Some(&v@[0]),
{
    if v.len() == 0 { None } else { Some(&v[0]) }
}
fn first_child(v: &Vec<RTreeNode>) -> (r: Option<&RTreeNode>)
    ensures v@.len() == 0 ==> r is None, v@.len() > 0 ==> r == Some(&v@[0]),
{
    if v.len() == 0 { None } else { Some(&v[0]) }
}
/// `X.iter().max_by_key(|e| e.FIELD)` (not used by the code today): ASSUMED std contract -- an element whose key is
/// maximal (the last such element), None on an empty slice.  Present so that an edit using it is judged: a maximum
/// over the BASE alone is not the maximum over (chrom, base).
#[verifier::external_body] fn max_by_key_sections_end(v: &Vec<Section>) -> (r: Option<&Section>)
    ensures v@.len() == 0 ==> r is None,
        v@.len() > 0 ==> r is Some && v@.contains(*r->Some_0) && forall|i: int| 0 <= i < v@.len() ==> (#[trigger] v@[i]).end <= r->Some_0.end,
{ unimplemented!() }
#[verifier::external_body] fn max_by_key_children_end_base(v: &Vec<RTreeNode>) -> (r: Option<&RTreeNode>)
    ensures v@.len() == 0 ==> r is None,
        v@.len() > 0 ==> r is Some && v@.contains(*r->Some_0) && forall|i: int| 0 <= i < v@.len() ==> (#[trigger] v@[i]).end_base <= r->Some_0.end_base,
{ unimplemented!() }
/// any other key: some element, nothing else known
#[verifier::external_body] fn max_by_key_sections_other(v: &Vec<Section>) -> (r: Option<&Section>)
    ensures v@.len() > 0 ==> r is Some && v@.contains(*r->Some_0),
{ unimplemented!() }
#[verifier::external_body] fn max_by_key_children_other(v: &Vec<RTreeNode>) -> (r: Option<&RTreeNode>)
    ensures v@.len() > 0 ==> r is Some && v@.contains(*r->Some_0),
{ unimplemented!() }
/// `None.unwrap()`
fn unwrap_none_pair() -> (r: (u32, u32)) requires false { (0, 0) }
#[verifier::external_body] fn last_section(v: &Vec<Section>) -> (r: Option<&Section>) { unimplemented!() }
#[verifier::external_body] fn last_child(v: &Vec<RTreeNode>) -> (r: Option<&RTreeNode>) { unimplemented!() }

/// what the closure is given: a non-empty child produced by the level below (chunks are never empty;
/// the single possibly-empty leaf is the ROOT and is never passed here because the loop stops at len <= 1)
spec fn child_ok(c: RTreeChildren) -> bool {
    match c {
        RTreeChildren::DataSections(s) => s@.len() > 0 && secs_sorted(s@),
        RTreeChildren::Nodes(k) => k@.len() > 0 && nodes_sorted(k@),
    }
}
/// "spans contain everything beneath them", one level down
spec fn covers(n: RTreeNode) -> bool {
    match n.children {
        RTreeChildren::DataSections(s) =>
            forall|i: int| 0 <= i < s@.len() ==> contains(node_lo(n), node_hi(n), (#[trigger] s@[i].chrom, s@[i].start), (s@[i].chrom, s@[i].end)),
        RTreeChildren::Nodes(k) =>
            forall|i: int| 0 <= i < k@.len() ==> contains(node_lo(n), node_hi(n), node_lo(#[trigger] k@[i]), node_hi(k@[i])),
    }
}
/// ... and no wider than needed: both ends are attained beneath (tight spans keep the search selective;
/// C05 "reads no more than the blocks a linear scan selects" is about blocks, so tightness is stated
/// but only the two equalities below, not minimality of reads)
spec fn tight(n: RTreeNode) -> bool {
    match n.children {
        RTreeChildren::DataSections(s) =>
            s@.len() > 0 && node_lo(n) == (s@[0].chrom, s@[0].start)
            && exists|i: int| 0 <= i < s@.len() && node_hi(n) == (#[trigger] s@[i].chrom, s@[i].end),
        RTreeChildren::Nodes(k) =>
            k@.len() > 0 && node_lo(n) == node_lo(k@[0])
            && exists|i: int| 0 <= i < k@.len() && node_hi(n) == node_hi(#[trigger] k@[i]),
    }
}

// ================= code under contract =================
//@extract fn bigtools/src/bbi/bbiwrite.rs get_rtreeindex
//@rule R16
//@presub /\A.*?\n[ \t]*\.map\(\|c\| (match &c \{.*?\n[ \t]*\})\)\s*\.collect\(\),?\s*\)\s*\}\)\s*\.collect\(\)\s*\};.*\Z/ => fn node_of_child(c: RTreeChildren) -> RTreeNode {\n    \1\n} min=1 count=1
//@sub /(\w+)\s*\.iter\(\)\s*\.map\(\|s\| \(s\.chrom, s\.end\)\)\s*\.max\(\)/ => max_end_of_sections(\1) min=0
//@sub /(\w+)\s*\.iter\(\)\s*\.map\(\|n\| \(n\.end_chrom_idx, n\.end_base\)\)\s*\.max\(\)/ => max_end_of_children(\1) min=0
//@sub /(\w+)\s*\.iter\(\)\s*\.map\(\|s\| \(s\.chrom, s\.end\)\)\s*\.min\(\)/ => min_end_of_sections(\1) min=0
//@sub /(\w+)\s*\.iter\(\)\s*\.map\(\|n\| \(n\.end_chrom_idx, n\.end_base\)\)\s*\.min\(\)/ => min_end_of_children(\1) min=0
//@sub /(\w+)\s*\.iter\(\)\s*\.map\(\|s\| \(s\.chrom, s\.end\)\)\s*\.last\(\)/ => last_end_of_sections(\1) min=0
//@sub /(\w+)\s*\.iter\(\)\s*\.map\(\|n\| \(n\.end_chrom_idx, n\.end_base\)\)\s*\.last\(\)/ => last_end_of_children(\1) min=0
//@sub /\bsections\s*\.iter\(\)\s*\.max_by_key\(\|(\w+)\| \1\.end\)/ => max_by_key_sections_end(sections) min=0
//@sub /\bchildren\s*\.iter\(\)\s*\.max_by_key\(\|(\w+)\| \1\.end_base\)/ => max_by_key_children_end_base(children) min=0
//@sub /\bsections\s*\.iter\(\)\s*\.(?:max|min)_by_key\(\|(\w+)\| [^|;()]*\)/ => max_by_key_sections_other(sections) min=0
//@sub /\bchildren\s*\.iter\(\)\s*\.(?:max|min)_by_key\(\|(\w+)\| [^|;()]*\)/ => max_by_key_children_other(children) min=0
//@sub /(max_by_key_\w+\(\w+\))\s*\.map\(\|(\w+)\| (\([^()]*\))\)\s*\.unwrap\(\)/ => (match \1 { Some(\2) => \3, None => unwrap_none_pair() }) min=0
//@sub /\bsections\s*\.iter\(\)\s*\.map\(\|\w+\| [^|;]*?\)\s*\.\w+\(\)/ => unknown_adaptor_on_sections__refused(sections) min=0
//@sub /\bchildren\s*\.iter\(\)\s*\.map\(\|\w+\| [^|;]*?\)\s*\.\w+\(\)/ => unknown_adaptor_on_children__refused(children) min=0
//@sub /\bsections\.first\(\)/ => first_section(sections) min=0
//@sub /\bchildren\.first\(\)/ => first_child(children) min=0
//@sub /\bsections\.last\(\)/ => last_section(sections) min=0
//@sub /\bchildren\.last\(\)/ => last_child(children) min=0
//@ret node
//@sig
    requires
        [[L: pre_child_is_a_nonempty_sorted_chunk]]
        child_ok(c),
    ensures
        [[L: node_of_child/keeps_the_child_it_summarises]]
        node.children == c,
        [[L: node_of_child/node_span_covers_children]]
        covers(node),
        [[L: node_of_child/span_ends_are_attained_beneath]]
        tight(node),
//@open
    proof {
        match &c {
            RTreeChildren::DataSections(s) => { lemma_max_secs(s@, s@.len() as int); }
            RTreeChildren::Nodes(k) => { lemma_max_nodes(k@, k@.len() as int); }
        }
    }
//@end

// ---------------- corollary used by rt_search's precondition ----------------
/// a data interval stored in a block beneath `n` lies inside n's span; with rt_nodes'
/// `lemma_data_in_span_overlaps` this is "a query that intersects the interval visits n"
proof fn corollary_section_inside_parent(n: RTreeNode, i: int)
    requires covers(n), n.children is DataSections, 0 <= i < n.children->DataSections_0@.len(),
    ensures
        [[L: corollary/every_block_span_lies_inside_its_parent_span]]
        pos_le(node_lo(n), (n.children->DataSections_0@[i].chrom, n.children->DataSections_0@[i].start))
        && pos_le((n.children->DataSections_0@[i].chrom, n.children->DataSections_0@[i].end), node_hi(n)),
{
}

fn main() {}
} // verus!
