// Kani harnesses for unit cmp_k (compare_position, overlaps in bigtools/src/bbi/bbiread.rs).
// Included as `#[cfg(kani)] mod verif_kani_cmp_k` at the end of bbiread.rs in the scratch copy,
// so `super::` reaches the private functions.  The CONTRACTS are the attribute lines listed in
// kani.toml ([[contract]]), inserted immediately above the real fns (insert-only); the
// proof_for_contract harnesses below make Kani check them over full-width symbolic u32s.
// No assumptions: neither function has a precondition.

include!("spec.rs");

#[kani::proof_for_contract(super::compare_position)]
fn cmp_k_compare_position() {
    let c1: u32 = kani::any();
    let b1: u32 = kani::any();
    let c2: u32 = kani::any();
    let b2: u32 = kani::any();
    let _r = super::compare_position(c1, b1, c2, b2);
    kani::cover!(true, "reach_compare_position");
}

#[kani::proof_for_contract(super::overlaps)]
fn cmp_k_overlaps() {
    let q: u32 = kani::any();
    let qs: u32 = kani::any();
    let qe: u32 = kani::any();
    let b1: u32 = kani::any();
    let b1s: u32 = kani::any();
    let b2: u32 = kani::any();
    let b2e: u32 = kani::any();
    let _r = super::overlaps(q, qs, qe, b1, b1s, b2, b2e);
    kani::cover!(true, "reach_overlaps");
}

// Counterexample twins.  NOT deciding harnesses (kani.toml lists them only as `cex_harness`):
// when a contract harness above fails, the runner re-runs the plain twin with concrete playback
// to obtain values — playback through the contract instrumentation takes ~190 s for these
// functions, through a plain harness ~5 s.  Same inputs in the same order, same statement
// (spec.rs), real function.
#[kani::proof]
fn cmp_k_compare_position_cex() {
    let c1: u32 = kani::any();
    let b1: u32 = kani::any();
    let c2: u32 = kani::any();
    let b2: u32 = kani::any();
    kani::cover!(true, "reach_compare_position_cex");
    assert!(super::compare_position(c1, b1, c2, b2) == spec_compare_position(c1, b1, c2, b2), "compare_position is the sign of the lexicographic order");
}

#[kani::proof]
fn cmp_k_overlaps_cex() {
    let q: u32 = kani::any();
    let qs: u32 = kani::any();
    let qe: u32 = kani::any();
    let b1: u32 = kani::any();
    let b1s: u32 = kani::any();
    let b2: u32 = kani::any();
    let b2e: u32 = kani::any();
    kani::cover!(true, "reach_overlaps_cex");
    assert!(super::overlaps(q, qs, qe, b1, b1s, b2, b2e) == spec_overlaps(q, qs, qe, b1, b1s, b2, b2e), "overlaps iff query start <= block end and block start <= query end (lexicographic)");
}
