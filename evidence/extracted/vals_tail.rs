// bbiwrite::write_vals and bbiwrite::write_vals_no_zoom, WHOLE, as the complement of the existing carves: the pieces
// that other units put under contract are replaced by logged shims, every OTHER statement is verified as written:
//   zoom size list (chrom_ids `zoomlist/*`)                -> `single_pass_zoom_sizes(options)`
//   `make_zoom` + the BTreeMap collect (chrom_pipe `make_zoom/*`) -> `collect_zooms_map(&zoom_sizes, options)`
//   `setup_chrom`, `do_read` (chrom_ids), `advance` (sum_acc; its zoom-count part: THIS unit, below), and the
//   iteration `vals_iter.process_to_bbi(&runtime, &mut do_read, &mut advance)` (feed/procs)
//                                                           -> ONE call `vals_iter.process_to_bbi_*(.. the captured variables ..)`
//   the writer tasks (chrom_pipe)                           -> `write_chroms_with_zooms` / `write_chroms_without_zooms` logged futures
// What is proved is the WIRING and the TAIL: the pass starts from the empty id map / no summary / an empty channel;
// the writer task is spawned with THE file handed in, THE zoom map built from the zoom sizes and THE receiving end of
// the channel the processors send into; the sender is dropped BEFORE the writer task is awaited; the summary defaults
// to all zeros; a writer task error propagates; zoom infos are built in key (= resolution) order from the task's
// zoom map, each with its own staging file and section lists and its writer half dropped; every component of the
// returned tuple is in its slot.  These ARE the facts behind unit mutual's hand-written shims of the two functions
// (same file handle comes back, `summary` = the pass's, `max_uncompressed_buf_size` = the writer task's).
// Also: the `total_zoom_counts` table of write_vals_no_zoom and the per-chromosome fill loop of its `advance`.
use vstd::prelude::*;
verus! {

// =====================================================================================
// shims (R11): logged stand-ins for the pieces other units own, and for std/tokio/futures
// =====================================================================================
#[verifier::external_body] pub struct IoErr { _p: u8 }
#[verifier::external_body] pub struct SrcErr { _p: u8 }
/// BufWriter<W>
#[verifier::external_body] pub struct OutFile { _p: u8 }
/// HashMap<String, u32> (chrom sizes)
#[verifier::external_body] pub struct StrMap { _p: u8 }
impl StrMap { #[verifier::external_body] pub fn len(&self) -> usize { unimplemented!() } }
/// tokio Runtime
#[verifier::external_body] pub struct Runtime { _p: u8 }
/// TempFileBuffer<File> / TempFileBufferWriter<File>: the two halves of a level's staging file (`fid()`)
#[verifier::external_body] pub struct LevelBuf { _p: u8 }
#[verifier::external_body] pub struct ZoomWriter { _p: u8 }
impl LevelBuf { pub uninterp spec fn fid(&self) -> int; }
impl ZoomWriter { pub uninterp spec fn fid(&self) -> int; }
/// crossbeam IntoIter<Section> and the flattened stream of a list of them
#[verifier::external_body] pub struct SecIter { _p: u8 }
#[verifier::external_body] pub struct SecStream { _p: u8 }
impl SecStream { pub uninterp spec fn lists(&self) -> Seq<SecIter>; }
/// `lists.into_iter().flatten()`
#[verifier::external_body]
pub fn flatten_lists(v: Vec<SecIter>) -> (r: SecStream) ensures r.lists() == v@ { unimplemented!() }
/// per-chromosome messages (chrom_pipe `Data` / `DataWithoutzooms`): opaque here
#[verifier::external_body] pub struct Data { _p: u8 }
#[verifier::external_body] pub struct DataWithoutzooms { _p: u8 }

/// utils::idmap::IdMap (unit chrom_ids): opaque; `IdMap::default()` is the empty map
#[verifier::external_body] pub struct IdMap { _p: u8 }
pub uninterp spec fn empty_ids() -> IdMap;
impl IdMap {
    #[verifier::external_body]
    pub fn default() -> (r: IdMap) ensures r == empty_ids() { unimplemented!() }
}

#[derive(Copy, Clone)]
pub struct Summary {
    pub total_items: u64,
    pub bases_covered: u64,
    pub min_val: f64,
    pub max_val: f64,
    pub sum: f64,
    pub sum_squares: f64,
}
#[derive(Copy, Clone)]
pub enum InputSortType {
    ALL,
    START,
    // TODO
    //NONE,
}
pub struct BBIWriteOptions {
    pub compress: bool,
    pub items_per_slot: u32,
    pub block_size: u32,
    pub initial_zoom_size: u32,
    pub max_zooms: u32,
    pub manual_zoom_sizes: Option<Vec<u32>>,
    pub input_sort_type: InputSortType,
    pub channel_size: usize,
    pub inmemory: bool,
}
pub enum ProcessDataError {
    InvalidInput(String),
    InvalidChromosome(String),
    IoError(IoErr),
}
pub enum BBIProcessError {
    InvalidInput(String),
    InvalidChromosome(String),
    IoError(IoErr),
    SourceError(SrcErr),
}
/// the repository's `From<ProcessDataError> for BBIProcessError` behind `?`: converted value not modelled
impl From<ProcessDataError> for BBIProcessError { #[verifier::external_body] fn from(value: ProcessDataError) -> BBIProcessError { unimplemented!() } }
pub struct ZoomInfo {
    pub resolution: u32,
    pub data: LevelBuf,
    pub sections: SecStream,
}
pub type ZoomValue = (
    Vec<SecIter>,
    LevelBuf,
    Option<ZoomWriter>,
);

/// BTreeMap<u32, ZoomValue>: ghost `kv()` = its entries in KEY ORDER (what `into_iter()` yields, ASSUMED std)
#[verifier::external_body] pub struct ZMap { _p: u8 }
impl ZMap { pub uninterp spec fn kv(&self) -> Seq<(u32, ZoomValue)>; }
/// `btree_map::IntoIter` (and `.rev()` of it) seen through the items still to come
#[verifier::external_body] pub struct KVIter { _p: u8 }
impl KVIter {
    pub uninterp spec fn rest(&self) -> Seq<(u32, ZoomValue)>;
    #[verifier::external_body]
    pub fn rev(self) -> (r: KVIter) ensures r.rest() == self.rest().reverse() { unimplemented!() }
    #[verifier::external_body]
    pub fn next(&mut self) -> (r: Option<(u32, ZoomValue)>)
        ensures
            old(self).rest().len() == 0 ==> r.is_none() && final(self).rest() == old(self).rest(),
            old(self).rest().len() > 0 ==> r == Some(old(self).rest()[0]) && final(self).rest() == old(self).rest().drop_first(),
    { unimplemented!() }
}
impl ZMap {
    #[verifier::external_body]
    pub fn into_iter(self) -> (r: KVIter) ensures r.rest() == self.kv() { unimplemented!() }
}

/// chrom_ids `write_vals/zoomlist/*`: the level list is a function of the options (strictly increasing, no zero)
pub uninterp spec fn zlist(o: BBIWriteOptions) -> Seq<u32>;
#[verifier::external_body]
pub fn single_pass_zoom_sizes(options: &BBIWriteOptions) -> (r: Vec<u32>) ensures r@ == zlist(*options) { unimplemented!() }
/// `zoom_sizes.iter().copied().map(make_zoom).collect()` (chrom_pipe `make_zoom/*` + BTreeMap collect, ASSUMED): one fresh
/// entry per size; a function of the list and the options
pub uninterp spec fn zmap0(sizes: Seq<u32>, o: BBIWriteOptions) -> ZMap;
#[verifier::external_body]
pub fn collect_zooms_map(zoom_sizes: &Vec<u32>, options: &BBIWriteOptions) -> (r: ZMap) ensures r == zmap0(zoom_sizes@, *options) { unimplemented!() }

/// futures mpsc unbounded channel: `cid()` = which channel, `sent()` = the log of the sending end
#[verifier::external_body]
#[verifier::reject_recursive_types(M)]
pub struct ChromTx<M> { _p: core::marker::PhantomData<M> }
#[verifier::external_body]
#[verifier::reject_recursive_types(M)]
pub struct ChromRx<M> { _p: core::marker::PhantomData<M> }
impl<M> ChromTx<M> { pub uninterp spec fn cid(&self) -> int; pub uninterp spec fn sent(&self) -> Seq<M>; }
impl<M> ChromRx<M> { pub uninterp spec fn cid(&self) -> int; }
#[verifier::external_body]
pub fn unbounded<M>() -> (r: (ChromTx<M>, ChromRx<M>)) ensures r.0.cid() == r.1.cid(), r.0.sent().len() == 0 { unimplemented!() }
/// Which senders have been DROPPED so far (and with which log).  The writer task's `receiver.next()` returns `None`
/// only when every sender is gone: awaiting the task before that never returns.  `drop(send)` is routed here.
#[verifier::external_body]
#[verifier::reject_recursive_types(M)]
pub struct ChanLog<M> { _p: core::marker::PhantomData<M> }
impl<M> ChanLog<M> {
    pub uninterp spec fn closed(&self, cid: int) -> Option<Seq<M>>;
    #[verifier::external_body]
    pub fn new() -> (r: ChanLog<M>) ensures forall|c: int| r.closed(c) is None { unimplemented!() }
    #[verifier::external_body]
    pub fn sender_dropped(&mut self, s: ChromTx<M>)
        ensures final(self).closed(s.cid()) == Some(s.sent()), forall|c: int| c != s.cid() ==> final(self).closed(c) == old(self).closed(c),
    { unimplemented!() }
}

/// The writer tasks (unit chrom_pipe): logged futures.  `wt_result(file, zooms, msgs)` is what chrom_pipe's contract
/// describes (file + staged bytes, max over all results, section lists, the levels' writers/lists).
pub uninterp spec fn wt_result(file: OutFile, zooms: ZMap, msgs: Seq<Data>) -> Result<(OutFile, usize, Vec<SecIter>, ZMap), ProcessDataError>;
pub uninterp spec fn wt0_result(file: OutFile, msgs: Seq<DataWithoutzooms>) -> Result<(OutFile, usize, Vec<SecIter>), ProcessDataError>;
#[verifier::external_body] pub struct WriteFut { _p: u8 }
#[verifier::external_body] pub struct WriteFut0 { _p: u8 }
impl WriteFut { pub uninterp spec fn file(&self) -> OutFile; pub uninterp spec fn zooms(&self) -> ZMap; pub uninterp spec fn rx(&self) -> int; }
impl WriteFut0 { pub uninterp spec fn file(&self) -> OutFile; pub uninterp spec fn rx(&self) -> int; }
#[verifier::external_body]
pub fn write_chroms_with_zooms(file: OutFile, zooms_map: ZMap, receiver: ChromRx<Data>) -> (r: WriteFut)
    ensures r.file() == file, r.zooms() == zooms_map, r.rx() == receiver.cid(),
{ unimplemented!() }
#[verifier::external_body]
pub fn write_chroms_without_zooms(file: OutFile, receiver: ChromRx<DataWithoutzooms>) -> (r: WriteFut0)
    ensures r.file() == file, r.rx() == receiver.cid(),
{ unimplemented!() }
#[verifier::external_body] pub struct WriteTask { _p: u8 }
#[verifier::external_body] pub struct WriteTask0 { _p: u8 }
impl WriteTask { pub uninterp spec fn fut(&self) -> WriteFut; }
impl WriteTask0 { pub uninterp spec fn fut(&self) -> WriteFut0; }
/// `runtime.block_on(handle)` -> Result<T, JoinError>; `.unwrap()` panics on a PANICKED task (not modelled)
pub struct Joined { pub res: Result<(OutFile, usize, Vec<SecIter>, ZMap), ProcessDataError> }
pub struct Joined0 { pub res: Result<(OutFile, usize, Vec<SecIter>), ProcessDataError> }
impl Joined { pub fn unwrap(self) -> (r: Result<(OutFile, usize, Vec<SecIter>, ZMap), ProcessDataError>) ensures r == self.res { self.res } }
impl Joined0 { pub fn unwrap(self) -> (r: Result<(OutFile, usize, Vec<SecIter>), ProcessDataError>) ensures r == self.res { self.res } }
impl Runtime {
    #[verifier::external_body]
    pub fn spawn(&self, f: WriteFut) -> (r: WriteTask) ensures r.fut() == f { unimplemented!() }
    #[verifier::external_body]
    pub fn spawn0(&self, f: WriteFut0) -> (r: WriteTask0) ensures r.fut() == f { unimplemented!() }
    #[verifier::external_body]
    pub fn block_on(&self, t: WriteTask, log: &ChanLog<Data>) -> (r: Joined)
        requires
            
            log.closed(t.fut().rx()) is Some,
        ensures r.res == wt_result(t.fut().file(), t.fut().zooms(), log.closed(t.fut().rx())->Some_0),
    { unimplemented!() }
    #[verifier::external_body]
    pub fn block_on0(&self, t: WriteTask0, log: &ChanLog<DataWithoutzooms>) -> (r: Joined0)
        requires
            
            log.closed(t.fut().rx()) is Some,
        ensures r.res == wt0_result(t.fut().file(), log.closed(t.fut().rx())->Some_0),
    { unimplemented!() }
}

/// BTreeMap<u64, u64> (resolution -> number of zoom records): ghost `view()`
#[verifier::external_body] pub struct CountMap { _p: u8 }
/// `Option<&T>::copied` (no vstd specification)
pub assume_specification<'a, T: Copy>[ Option::<&'a T>::copied ](o: Option<&'a T>) -> (r: Option<T>)
    ensures r == (match o { Some(x) => Some(*x), None => None::<T> });
impl CountMap {
    pub uninterp spec fn view(&self) -> Map<u64, u64>;
    /// BTreeMap::from_iter over (key, value) pairs (ASSUMED std): the keys of the pairs; with pairwise distinct keys
    /// every key maps to its own value
    #[verifier::external_body]
    pub fn from_iter(v: Vec<(u64, u64)>) -> (r: CountMap)
        ensures
            forall|x: u64| r@.dom().contains(x) <==> (exists|i: int| 0 <= i < v@.len() && (#[trigger] v@[i]).0 == x),
            (forall|a: int, b: int| 0 <= a < b < v@.len() ==> v@[a].0 != v@[b].0) ==> forall|i: int| 0 <= i < v@.len() ==> r@[(#[trigger] v@[i]).0] == v@[i].1,
    { unimplemented!() }
    #[verifier::external_body]
    pub fn get(&self, k: &u64) -> (r: Option<&u64>)
        ensures r == (if self@.dom().contains(*k) { Some(&self@[*k]) } else { None::<&u64> }),
    { unimplemented!() }
    /// the keys, ascending (what `iter_mut()` visits, ASSUMED std): every key once
    #[verifier::external_body]
    pub fn keys_vec(&self) -> (r: Vec<u64>)
        ensures
            forall|x: u64| self@.dom().contains(x) <==> r@.contains(x),
            forall|a: int, b: int| 0 <= a < b < r@.len() ==> r@[a] < r@[b],
    { unimplemented!() }
    /// one item of `iter_mut()`: (&key, &mut value) of an existing entry; only that value can change
    #[verifier::external_body]
    pub fn entry_mut(&mut self, k: u64) -> (r: (&u64, &mut u64))
        requires old(self)@.dom().contains(k),
        ensures *r.0 == k, *r.1 == old(self)@[k], final(self)@ == old(self)@.insert(k, *final(r.1)),
    { unimplemented!() }
}

/// `V: BBIDataSource` and ONE whole pass `vals_iter.process_to_bbi(&runtime, &mut do_read, &mut advance)` with the
/// closures of write_vals: `do_read` captures chrom_sizes, chrom_ids, send, options, runtime, zoom_sizes (unit chrom_ids),
/// `advance` captures summary (unit sum_acc).  The captured variables become arguments.  `pass_out` = what the pass
/// leaves behind, as a function of the source and the read-only inputs -- PROVIDED it starts from the empty id map, no
/// summary and an empty channel (the labelled preconditions: that is the wiring this unit checks).
#[verifier::external_body] pub struct Vals { _p: u8 }
pub ghost struct PassOut { pub ids: IdMap, pub summary: Option<Summary>, pub msgs: Seq<Data> }
pub uninterp spec fn pass_out(v: Vals, sizes: StrMap, o: BBIWriteOptions, zooms: Seq<u32>) -> PassOut;
pub ghost struct PassOut0 { pub ids: IdMap, pub summary: Option<Summary>, pub msgs: Seq<DataWithoutzooms>, pub counts: Map<u64, u64> }
pub uninterp spec fn pass_out0(v: Vals, sizes: StrMap, o: BBIWriteOptions, counts0: Map<u64, u64>) -> PassOut0;
impl Vals {
    #[verifier::external_body]
    pub fn process_to_bbi_vals(&mut self, runtime: &Runtime, chrom_sizes: &StrMap, chrom_ids: &mut IdMap, send: &mut ChromTx<Data>,
            options: &BBIWriteOptions, zoom_sizes: &Vec<u32>, summary: &mut Option<Summary>) -> (r: Result<(), BBIProcessError>)
        requires
            
            *old(chrom_ids) == empty_ids(),
            
            *old(summary) is None,
            
            old(send).sent().len() == 0,
        ensures
            final(send).cid() == old(send).cid(),
            r is Ok ==> *final(chrom_ids) == pass_out(*old(self), *chrom_sizes, *options, zoom_sizes@).ids
                && *final(summary) == pass_out(*old(self), *chrom_sizes, *options, zoom_sizes@).summary
                && final(send).sent() == pass_out(*old(self), *chrom_sizes, *options, zoom_sizes@).msgs,
    { unimplemented!() }
    #[verifier::external_body]
    pub fn process_to_bbi_no_zoom(&mut self, runtime: &Runtime, chrom_sizes: &StrMap, chrom_ids: &mut IdMap, send: &mut ChromTx<DataWithoutzooms>,
            options: &BBIWriteOptions, summary: &mut Option<Summary>, total_zoom_counts: &mut CountMap) -> (r: Result<(), BBIProcessError>)
        requires
            
            *old(chrom_ids) == empty_ids(),
            
            *old(summary) is None,
            
            old(send).sent().len() == 0,
        ensures
            final(send).cid() == old(send).cid(),
            r is Ok ==> *final(chrom_ids) == pass_out0(*old(self), *chrom_sizes, *options, old(total_zoom_counts)@).ids
                && *final(summary) == pass_out0(*old(self), *chrom_sizes, *options, old(total_zoom_counts)@).summary
                && final(send).sent() == pass_out0(*old(self), *chrom_sizes, *options, old(total_zoom_counts)@).msgs
                && final(total_zoom_counts)@ == pass_out0(*old(self), *chrom_sizes, *options, old(total_zoom_counts)@).counts,
    { unimplemented!() }
}
/// `drop(x)` of anything else
fn vdrop<T>(_x: T) {}
/// `drop(zoom.2)`: the level's writer half (if still there) is dropped -- recorded per staging file
#[verifier::external_body]
pub struct DropLog { _p: u8 }
impl DropLog {
    pub uninterp spec fn dropped(&self, fid: int) -> bool;
    #[verifier::external_body]
    pub fn new() -> (r: DropLog) ensures forall|f: int| !r.dropped(f) { unimplemented!() }
    #[verifier::external_body]
    pub fn writer_dropped(&mut self, w: Option<ZoomWriter>)
        ensures forall|f: int| final(self).dropped(f) == (old(self).dropped(f) || (w matches Some(x) && x.fid() == f)),
    { unimplemented!() }
}

// =====================================================================================
// specification vocabulary
// =====================================================================================
pub open spec fn zero_summary() -> Summary {
    Summary { total_items: 0, bases_covered: 0, min_val: 0.0f64, max_val: 0.0f64, sum: 0.0f64, sum_squares: 0.0f64 }
}
pub open spec fn summary_or_zero(s: Option<Summary>) -> Summary { if s is Some { s->Some_0 } else { zero_summary() } }
/// zoom info k is built from entry k of the task's zoom map: its key, its staging file, its section lists
pub open spec fn info_of(z: ZoomInfo, e: (u32, ZoomValue)) -> bool {
    z.resolution == e.0 && z.data == e.1.1 && z.sections.lists() == e.1.0@
}
pub open spec fn infos_of(zs: Seq<ZoomInfo>, kv: Seq<(u32, ZoomValue)>) -> bool {
    zs.len() == kv.len() && forall|k: int| 0 <= k < kv.len() ==> info_of(#[trigger] zs[k], kv[k])
}
pub open spec fn writers_dropped(d: DropLog, kv: Seq<(u32, ZoomValue)>, n: int) -> bool {
    forall|k: int| 0 <= k < n ==> ((#[trigger] kv[k]).1.2 matches Some(w) ==> d.dropped(w.fid()))
}

// =====================================================================================
// write_vals
// =====================================================================================
#[verifier::loop_isolation(false)]
pub fn write_vals(mut vals_iter: Vals, file: OutFile, options: &BBIWriteOptions, runtime: Runtime, chrom_sizes: &StrMap) -> (r: Result<(IdMap, Summary, OutFile, SecStream, Vec<ZoomInfo>, usize), BBIProcessError>)
    ensures
        
        r is Ok ==> wt_result(file, zmap0(zlist(*options), *options), pass_out(vals_iter, *chrom_sizes, *options, zlist(*options)).msgs) is Ok,
        
        r matches Ok(t) ==> t.0 == pass_out(vals_iter, *chrom_sizes, *options, zlist(*options)).ids,
        
        r matches Ok(t) ==> t.1 == summary_or_zero(pass_out(vals_iter, *chrom_sizes, *options, zlist(*options)).summary),
        
        r matches Ok(t) ==> t.2 == wt_result(file, zmap0(zlist(*options), *options), pass_out(vals_iter, *chrom_sizes, *options, zlist(*options)).msgs)->Ok_0.0,
        
        r matches Ok(t) ==> t.3.lists() == wt_result(file, zmap0(zlist(*options), *options), pass_out(vals_iter, *chrom_sizes, *options, zlist(*options)).msgs)->Ok_0.2@,
        
        r matches Ok(t) ==> infos_of(t.4@, wt_result(file, zmap0(zlist(*options), *options), pass_out(vals_iter, *chrom_sizes, *options, zlist(*options)).msgs)->Ok_0.3.kv()),
        
        r matches Ok(t) ==> t.5 == wt_result(file, zmap0(zlist(*options), *options), pass_out(vals_iter, *chrom_sizes, *options, zlist(*options)).msgs)->Ok_0.1,
{
    let mut chan_log__: ChanLog<Data> = ChanLog::new();
    let mut drop_log__ = DropLog::new();

let zoom_sizes: Vec<u32> = single_pass_zoom_sizes(options);
    let zooms_map: ZMap = collect_zooms_map(&zoom_sizes, options);

    let mut chrom_ids = IdMap::default();

    let mut summary: Option<Summary> = None;
    let (mut send, recv) = unbounded();
    let write_fut = write_chroms_with_zooms(file, zooms_map, recv);

    
    assert(write_fut.file() == file && write_fut.zooms() == zmap0(zlist(*options), *options) && write_fut.rx() == send.cid());
    let write_fut_handle = runtime.spawn(write_fut);



    vals_iter.process_to_bbi_vals(&runtime, chrom_sizes, &mut chrom_ids, &mut send, options, &zoom_sizes, &mut summary)?;

    chan_log__.sender_dropped(send);

    let summary_complete = summary.unwrap_or(Summary {
        total_items: 0,
        bases_covered: 0,
        min_val: 0.0,
        max_val: 0.0,
        sum: 0.0,
        sum_squares: 0.0,
    });

    let (file, max_uncompressed_buf_size, section_iter, zooms_map) =
        runtime.block_on(write_fut_handle, &chan_log__).unwrap()?;


    let ghost zooms_map_kv__ = zooms_map.kv();
    let zoom_infos: Vec<ZoomInfo> = { let mut it__ = zooms_map.into_iter(); let mut out__: Vec<ZoomInfo> = Vec::new();
        loop 
            invariant
                
                out__@.len() + it__.rest().len() == zooms_map_kv__.len(),
                it__.rest() == zooms_map_kv__.subrange(out__@.len() as int, zooms_map_kv__.len() as int),
                forall|k: int| 0 <= k < out__@.len() ==> info_of(#[trigger] out__@[k], zooms_map_kv__[k]),
                
                writers_dropped(drop_log__, zooms_map_kv__, out__@.len() as int),
            decreases
                
                it__.rest().len(),
{

            proof {
                let a = out__@.len() as int;
                if a < zooms_map_kv__.len() {
                    assert(zooms_map_kv__.subrange(a, zooms_map_kv__.len() as int)[0] == zooms_map_kv__[a]);
                    assert(zooms_map_kv__.subrange(a, zooms_map_kv__.len() as int).drop_first() =~= zooms_map_kv__.subrange(a + 1, zooms_map_kv__.len() as int));
                }
            }
            let (size, zoom) = match it__.next() { Some(x__) => x__, None => break };
            let item__ = {
            drop_log__.writer_dropped(zoom.2);
            let sections = flatten_lists(zoom.0);
            ZoomInfo {
                resolution: size,
                data: zoom.1,
                sections,
            }
            };
            out__.push(item__);
        }
        out__ };
    let section_iter = flatten_lists(section_iter);

    
    assert(writers_dropped(drop_log__, zooms_map_kv__, zooms_map_kv__.len() as int));
    Ok((
        chrom_ids,
        summary_complete,
        file,
        section_iter,
        zoom_infos,
        max_uncompressed_buf_size,
    ))
}

// =====================================================================================
// write_vals_no_zoom
// =====================================================================================
/// resolution k of the zoom-count table: 10 * 4^k (as in unit create)
pub open spec fn res_at(k: nat) -> int
    decreases k
{ if k == 0 { 10 } else { 4 * res_at((k - 1) as nat) } }
pub proof fn lemma_res_mono(a: nat, b: nat)
    requires a <= b,
    ensures res_at(a) <= res_at(b), a < b ==> res_at(a) < res_at(b), res_at(a) >= 10,
    decreases b
{
    if a < b { lemma_res_mono(a, (b - 1) as nat); }
    if a > 0 { lemma_res_mono(0, (a - 1) as nat); }
    if b > 0 { lemma_res_mono(0, (b - 1) as nat); }
}
/// the table the first pass starts from: every resolution 10*4^k below u64::MAX, each with count 0
pub open spec fn is_count_table(m: Map<u64, u64>) -> bool {
    &&& forall|x: u64| m.dom().contains(x) <==> (exists|k: nat| res_at(k) == x as int && res_at(k) < u64::MAX)
    &&& forall|x: u64| m.dom().contains(x) ==> #[trigger] m[x] == 0
}

pub fn write_vals_no_zoom(mut vals_iter: Vals, file: OutFile, options: &BBIWriteOptions, runtime: &Runtime, chrom_sizes: &StrMap) -> (r: Result<(IdMap, Summary, CountMap, OutFile, SecStream, usize), BBIProcessError>)
    ensures
        
        r is Ok ==> (exists|c0: Map<u64, u64>| is_count_table(c0) && (#[trigger] wt0_result(file, pass_out0(vals_iter, *chrom_sizes, *options, c0).msgs)) is Ok),
        
        r matches Ok(t) ==> (exists|c0: Map<u64, u64>| is_count_table(c0) && ret0_ok(t, file, #[trigger] pass_out0(vals_iter, *chrom_sizes, *options, c0))),
{
    let mut chan_log__: ChanLog<DataWithoutzooms> = ChanLog::new();

    let total_zoom_counts = { let mut out__: Vec<(u64, u64)> = Vec::new(); let mut next__: Option<u64> = Some(10);
        loop 
            invariant
                
                next__ matches Some(v) && v as int == (if res_at(out__@.len()) <= u64::MAX { res_at(out__@.len()) } else { u64::MAX as int }),
                
                forall|k: int| 0 <= k < out__@.len() ==> (#[trigger] out__@[k]).0 as int == res_at(k as nat) && out__@[k].1 == 0 && res_at(k as nat) < u64::MAX,
            ensures
                
                res_at(out__@.len()) >= u64::MAX,
            decreases
                
                u64::MAX - next__->Some_0,
{
            let item__: u64 = match next__ { Some(v__) => v__, None => { break; } };

            proof { lemma_res_mono(0, out__@.len()); }
            next__ = { let z = &item__; Some((*z).saturating_mul(4)) };
            if !({ let z = &item__; *z < u64::MAX }) { break; }
            out__.push({ let z = item__; (z, 0) });
        }
        out__ };

    let ghost total_zoom_counts_list__ = total_zoom_counts@;
    let mut total_zoom_counts: CountMap = CountMap::from_iter(total_zoom_counts);


    proof {
        let v = total_zoom_counts_list__;
        
        assert(is_count_table(total_zoom_counts@)) by {
            assert forall|a: int, b: int| 0 <= a < b < v.len() implies v[a].0 != v[b].0 by { lemma_res_mono(a as nat, b as nat); }
            assert forall|x: u64| total_zoom_counts@.dom().contains(x) <==> (exists|k: nat| res_at(k) == x as int && res_at(k) < u64::MAX) by {
                if total_zoom_counts@.dom().contains(x) {
                    let i = choose|i: int| 0 <= i < v.len() && (#[trigger] v[i]).0 == x;
                    assert(res_at(i as nat) == x as int && res_at(i as nat) < u64::MAX);
                }
                if exists|k: nat| res_at(k) == x as int && res_at(k) < u64::MAX {
                    let k = choose|k: nat| res_at(k) == x as int && res_at(k) < u64::MAX;
                    if k >= v.len() { lemma_res_mono(v.len() as nat, k); }
                    assert(v[k as int].0 == x);
                }
            }
            assert forall|x: u64| total_zoom_counts@.dom().contains(x) implies #[trigger] total_zoom_counts@[x] == 0 by {
                let i = choose|i: int| 0 <= i < v.len() && (#[trigger] v[i]).0 == x;
                assert(total_zoom_counts@[v[i].0] == v[i].1);
            }
        }
    }
    let ghost c0__ = total_zoom_counts@;
    let mut chrom_ids = IdMap::default();

    let mut summary: Option<Summary> = None;
    let (mut send, recv) = unbounded();
    let write_fut = write_chroms_without_zooms(file, recv);

    
    assert(write_fut.file() == file && write_fut.rx() == send.cid());
    let write_fut_handle = runtime.spawn0(write_fut);



    vals_iter.process_to_bbi_no_zoom(&runtime, chrom_sizes, &mut chrom_ids, &mut send, options, &mut summary, &mut total_zoom_counts)?;

    chan_log__.sender_dropped(send);

    let summary_complete = summary.unwrap_or(Summary {
        total_items: 0,
        bases_covered: 0,
        min_val: 0.0,
        max_val: 0.0,
        sum: 0.0,
        sum_squares: 0.0,
    });

    let (file, max_uncompressed_buf_size, section_iter) =
        runtime.block_on0(write_fut_handle, &chan_log__).unwrap()?;

    let section_iter = flatten_lists(section_iter);

    proof { assert(is_count_table(c0__)); }
    Ok((
        chrom_ids,
        summary_complete,
        total_zoom_counts,
        file,
        section_iter,
        max_uncompressed_buf_size,
    ))
}
/// every component of write_vals_no_zoom's result in its slot
pub open spec fn ret0_ok(t: (IdMap, Summary, CountMap, OutFile, SecStream, usize), file: OutFile, p: PassOut0) -> bool {
    &&& t.0 == p.ids
    &&& t.1 == summary_or_zero(p.summary)
    &&& t.2@ == p.counts
    &&& wt0_result(file, p.msgs) matches Ok(w) && t.3 == w.0 && t.4.lists() == w.2@ && t.5 == w.1
}

// ---- the zoom-count part of write_vals_no_zoom's `advance` (the summary part: unit sum_acc) ----
#[verifier::loop_isolation(false)]
fn advance_zoom_counts(zoom_counts: Vec<(u64, u64)>, total_zoom_counts: &mut CountMap)
    requires
        
        forall|a: int, b: int| 0 <= a < b < zoom_counts@.len() ==> zoom_counts@[a].0 != zoom_counts@[b].0,
        
        forall|x: u64| old(total_zoom_counts)@.dom().contains(x) ==> (#[trigger] old(total_zoom_counts)@[x]) as int + chrom_count(zoom_counts@, x) <= u64::MAX,
    ensures
        
        final(total_zoom_counts)@.dom() == old(total_zoom_counts)@.dom(),
        
        forall|x: u64| old(total_zoom_counts)@.dom().contains(x) ==> (#[trigger] final(total_zoom_counts)@[x]) as int == old(total_zoom_counts)@[x] as int + chrom_count(zoom_counts@, x),
{
    let ghost t0 = total_zoom_counts@;
    let ghost zc = zoom_counts@;
    let ghost mut kg: Seq<u64> = Seq::empty();

        

        let zoom_count_map = CountMap::from_iter(zoom_counts);
        let keys__ = total_zoom_counts.keys_vec();
        proof { kg = keys__@; }
        let mut i__: usize = 0;
        while i__ < keys__.len()
            invariant
                kg == keys__@, i__ <= keys__@.len(),
                 total_zoom_counts@.dom() =~= t0.dom() && (forall|x: u64| t0.dom().contains(x) <==> keys__@.contains(x)) && (forall|a: int, b: int| 0 <= a < b < keys__@.len() ==> keys__@[a] < keys__@[b]),
                 forall|j: int| 0 <= j < keys__@.len() ==> (#[trigger] total_zoom_counts@[keys__@[j]]) as int == t0[keys__@[j]] as int + (if j < i__ { chrom_count(zc, keys__@[j]) } else { 0 }),
            decreases
                 keys__@.len() - i__,
        {
            proof { assert(keys__@.contains(keys__@[i__ as int])); lemma_chrom_count(zc, zoom_count_map@, keys__@[i__ as int]); }
            let zoom_count = total_zoom_counts.entry_mut(keys__[i__]); i__ = i__ + 1;
            let chrom_zoom_count = zoom_count_map.get(&zoom_count.0).copied().unwrap_or(1);
            *zoom_count.1 = *zoom_count.1 + (chrom_zoom_count);
        }
    
    proof {
        
        assert forall|x: u64| t0.dom().contains(x) implies (#[trigger] total_zoom_counts@[x]) as int == t0[x] as int + chrom_count(zc, x) by {
            assert(kg.contains(x));
            let j = choose|j: int| 0 <= j < kg.len() && kg[j] == x;
            assert(total_zoom_counts@[kg[j]] as int == t0[kg[j]] as int + chrom_count(zc, kg[j]));
        }
    }
}
/// what chromosome `zc` contributes to resolution x: its own count, or 1 if it reports none
pub open spec fn chrom_count(zc: Seq<(u64, u64)>, x: u64) -> int {
    if exists|i: int| 0 <= i < zc.len() && (#[trigger] zc[i]).0 == x { zc[choose|i: int| 0 <= i < zc.len() && (#[trigger] zc[i]).0 == x].1 as int } else { 1 }
}
pub proof fn lemma_chrom_count(zc: Seq<(u64, u64)>, m: Map<u64, u64>, x: u64)
    requires
        forall|y: u64| m.dom().contains(y) <==> (exists|i: int| 0 <= i < zc.len() && (#[trigger] zc[i]).0 == y),
        forall|i: int| 0 <= i < zc.len() ==> m[(#[trigger] zc[i]).0] == zc[i].1,
    ensures chrom_count(zc, x) == (if m.dom().contains(x) { m[x] as int } else { 1 }),
{
    if m.dom().contains(x) {
        let i = choose|i: int| 0 <= i < zc.len() && (#[trigger] zc[i]).0 == x;
        assert(m[zc[i].0] == zc[i].1);
    }
}

} // verus!
fn main() {}

