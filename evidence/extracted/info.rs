// bbiread::read_zoom_headers and the fixed-header part of bbiread::read_info.
// C10: a well-formed file is read correctly in either byte order: the (file type, byte order) pair
// is the one whose magic encoding the file starts with, every header field is the integer stored
// at its published offset in that byte order, the zoom directory is decoded entry by entry, and a
// file that starts with none of the four magic encodings is refused with UnknownMagic.
use vstd::prelude::*;
use vstd::std_specs::ops::*;
use vstd::std_specs::convert::FromSpec;
verus! {
// ---- shared float prelude -------------------------------------------------
// Rust float operators are total; Verus models their results as uninterpreted
// functions (`add_spec`, `mul_spec`, `from_spec`, ...).  The axioms below say
// only (1) the operators have no precondition and (2) the exec operator returns
// the value of its spec function (determinism).  Nothing numerical is assumed.
mod float_ax {
use vstd::prelude::*;
use vstd::std_specs::ops::*;
use vstd::std_specs::convert::FromSpec;
pub broadcast axiom fn ax_f64_mul_total(a: f64, b: f64) ensures #[trigger] a.mul_req(b);
pub broadcast axiom fn ax_f64_add_total(a: f64, b: f64) ensures #[trigger] a.add_req(b);
pub broadcast axiom fn ax_f64_sub_total(a: f64, b: f64) ensures #[trigger] a.sub_req(b);
pub broadcast axiom fn ax_f64_div_total(a: f64, b: f64) ensures #[trigger] a.div_req(b);
pub broadcast axiom fn ax_f32_add_total(a: f32, b: f32) ensures #[trigger] a.add_req(b);
pub broadcast axiom fn ax_f32_sub_total(a: f32, b: f32) ensures #[trigger] a.sub_req(b);
pub broadcast group float_total { ax_f64_mul_total, ax_f64_add_total, ax_f64_sub_total, ax_f64_div_total, ax_f32_add_total, ax_f32_sub_total }
pub axiom fn float_det()
    ensures
        <f64 as AddSpec<f64>>::obeys_add_spec(), <f64 as MulSpec<f64>>::obeys_mul_spec(),
        <f64 as SubSpec<f64>>::obeys_sub_spec(), <f64 as DivSpec<f64>>::obeys_div_spec(),
        <f32 as AddSpec<f32>>::obeys_add_spec(), <f32 as SubSpec<f32>>::obeys_sub_spec(),
        <f64 as FromSpec<u32>>::obeys_from_spec(), <f64 as FromSpec<f32>>::obeys_from_spec();
}
broadcast use float_ax::float_total;
pub uninterp spec fn fmin(a: f64, b: f64) -> f64;
pub uninterp spec fn fmax(a: f64, b: f64) -> f64;
pub assume_specification [f64::min] (a: f64, b: f64) -> (r: f64) ensures r == fmin(a, b);
pub assume_specification [f64::max] (a: f64, b: f64) -> (r: f64) ensures r == fmax(a, b);
// float constants (rule R12c): Verus has no model of core::f64 associated consts; each is an
// uninterpreted spec constant, distinct names so that swapping two of them is visible.
pub uninterp spec fn spec_f64_max() -> f64;
pub uninterp spec fn spec_f64_min() -> f64;
pub uninterp spec fn spec_f64_min_positive() -> f64;
pub uninterp spec fn spec_f64_nan() -> f64;
pub uninterp spec fn spec_f64_infinity() -> f64;
pub uninterp spec fn spec_f64_neg_infinity() -> f64;
pub uninterp spec fn spec_f64_epsilon() -> f64;
#[verifier::external_body] pub fn fconst_f64_max() -> (r: f64) ensures r == spec_f64_max() { f64::MAX }
#[verifier::external_body] pub fn fconst_f64_min() -> (r: f64) ensures r == spec_f64_min() { f64::MIN }
#[verifier::external_body] pub fn fconst_f64_min_positive() -> (r: f64) ensures r == spec_f64_min_positive() { f64::MIN_POSITIVE }
#[verifier::external_body] pub fn fconst_f64_nan() -> (r: f64) ensures r == spec_f64_nan() { f64::NAN }
#[verifier::external_body] pub fn fconst_f64_infinity() -> (r: f64) ensures r == spec_f64_infinity() { f64::INFINITY }
#[verifier::external_body] pub fn fconst_f64_neg_infinity() -> (r: f64) ensures r == spec_f64_neg_infinity() { f64::NEG_INFINITY }
#[verifier::external_body] pub fn fconst_f64_epsilon() -> (r: f64) ensures r == spec_f64_epsilon() { f64::EPSILON }
// ---- shared byte-level prelude ---------------------------------------------
// Format vocabulary written from the published BBI layout (Kent et al. 2010),
// as arithmetic on byte values - not as calls to from_le_bytes/to_le_bytes.
/// k-th base-256 digit of x (opaque: the div/mod arithmetic is only unfolded inside the codec lemmas)
#[verifier::opaque]
pub open spec fn byte_of(x: int, k: int) -> u8 {
    if k == 0 { (x % 256) as u8 } else if k == 1 { (x / 256 % 256) as u8 } else if k == 2 { (x / 65536 % 256) as u8 }
    else if k == 3 { (x / 16777216 % 256) as u8 } else if k == 4 { (x / 4294967296 % 256) as u8 }
    else if k == 5 { (x / 1099511627776 % 256) as u8 } else if k == 6 { (x / 281474976710656 % 256) as u8 }
    else { (x / 72057594037927936 % 256) as u8 }
}
pub open spec fn le16(x: u16) -> Seq<u8> { seq![byte_of(x as int, 0), byte_of(x as int, 1)] }
pub open spec fn le32(x: u32) -> Seq<u8> { seq![byte_of(x as int, 0), byte_of(x as int, 1), byte_of(x as int, 2), byte_of(x as int, 3)] }
pub open spec fn le64(x: u64) -> Seq<u8> {
    seq![byte_of(x as int, 0), byte_of(x as int, 1), byte_of(x as int, 2), byte_of(x as int, 3),
         byte_of(x as int, 4), byte_of(x as int, 5), byte_of(x as int, 6), byte_of(x as int, 7)]
}
pub open spec fn be16(x: u16) -> Seq<u8> { seq![byte_of(x as int, 1), byte_of(x as int, 0)] }
pub open spec fn be32(x: u32) -> Seq<u8> { seq![byte_of(x as int, 3), byte_of(x as int, 2), byte_of(x as int, 1), byte_of(x as int, 0)] }
pub open spec fn be64(x: u64) -> Seq<u8> {
    seq![byte_of(x as int, 7), byte_of(x as int, 6), byte_of(x as int, 5), byte_of(x as int, 4),
         byte_of(x as int, 3), byte_of(x as int, 2), byte_of(x as int, 1), byte_of(x as int, 0)]
}
// decode: value of the little-/big-endian integer stored at s[i..]
pub open spec fn dle16(s: Seq<u8>, i: int) -> int { s[i] as int + 256 * (s[i + 1] as int) }
pub open spec fn dle32(s: Seq<u8>, i: int) -> int {
    s[i] as int + 256 * (s[i + 1] as int) + 65536 * (s[i + 2] as int) + 16777216 * (s[i + 3] as int)
}
pub open spec fn dle64(s: Seq<u8>, i: int) -> int { dle32(s, i) + 4294967296 * dle32(s, i + 4) }
pub open spec fn dbe16(s: Seq<u8>, i: int) -> int { 256 * (s[i] as int) + s[i + 1] as int }
pub open spec fn dbe32(s: Seq<u8>, i: int) -> int {
    16777216 * (s[i] as int) + 65536 * (s[i + 1] as int) + 256 * (s[i + 2] as int) + s[i + 3] as int
}
pub open spec fn dbe64(s: Seq<u8>, i: int) -> int { 4294967296 * dbe32(s, i) + dbe32(s, i + 4) }
/// integer at s[i..] in byte order `big`
pub open spec fn d16(big: bool, s: Seq<u8>, i: int) -> int { if big { dbe16(s, i) } else { dle16(s, i) } }
pub open spec fn d32(big: bool, s: Seq<u8>, i: int) -> int { if big { dbe32(s, i) } else { dle32(s, i) } }
pub open spec fn d64(big: bool, s: Seq<u8>, i: int) -> int { if big { dbe64(s, i) } else { dle64(s, i) } }
pub open spec fn e16(big: bool, x: u16) -> Seq<u8> { if big { be16(x) } else { le16(x) } }
pub open spec fn e32(big: bool, x: u32) -> Seq<u8> { if big { be32(x) } else { le32(x) } }
pub open spec fn e64(big: bool, x: u64) -> Seq<u8> { if big { be64(x) } else { le64(x) } }

// Floats on disk: IEEE bit patterns.  `to_bits`/`from_bits` are uninterpreted; the only
// assumed fact is that they are inverse (true of Rust's f32::to_bits/from_bits bit-for-bit).
pub uninterp spec fn f32_bits(x: f32) -> u32;
pub uninterp spec fn f32_of_bits(b: u32) -> f32;
pub uninterp spec fn f64_bits(x: f64) -> u64;
pub uninterp spec fn f64_of_bits(b: u64) -> f64;
pub broadcast axiom fn ax_f32_bits_inv(x: f32) ensures #[trigger] f32_of_bits(f32_bits(x)) == x;
pub broadcast axiom fn ax_f64_bits_inv(x: f64) ensures #[trigger] f64_of_bits(f64_bits(x)) == x;

#[verifier::external_body]
#[derive(Debug)]
pub struct IoError { _p: u8 }

#[verifier::external_body]
pub fn vpanic() -> !
    requires false
{ panic!() }

// ---- Sink: append-only in-memory writer (`Vec<u8>` used through byteorder::WriteBytesExt / io::Write).
// Assumed contracts: NativeEndian == LittleEndian (x86-64 / aarch64 targets); writes to a Vec never
// fail, the io::Result plumbing is kept so that `?` in the code typechecks.
pub struct Sink { pub bytes: Vec<u8> }
impl Sink {
    pub open spec fn view(&self) -> Seq<u8> { self.bytes@ }
    #[verifier::external_body]
    pub fn with_capacity(n: usize) -> (r: Sink) ensures r@.len() == 0 { Sink { bytes: Vec::with_capacity(n) } }
    pub fn len(&self) -> (r: usize) ensures r == self@.len() { self.bytes.len() }
    #[verifier::external_body]
    pub fn put_u8(&mut self, v: u8) -> (r: Result<(), IoError>)
        ensures r.is_ok(), final(self)@ == old(self)@.push(v) { unimplemented!() }
    #[verifier::external_body]
    pub fn put_u16(&mut self, v: u16) -> (r: Result<(), IoError>)
        ensures r.is_ok(), final(self)@ == old(self)@ + le16(v) { unimplemented!() }
    #[verifier::external_body]
    pub fn put_u32(&mut self, v: u32) -> (r: Result<(), IoError>)
        ensures r.is_ok(), final(self)@ == old(self)@ + le32(v) { unimplemented!() }
    #[verifier::external_body]
    pub fn put_u64(&mut self, v: u64) -> (r: Result<(), IoError>)
        ensures r.is_ok(), final(self)@ == old(self)@ + le64(v) { unimplemented!() }
    #[verifier::external_body]
    pub fn put_f32(&mut self, v: f32) -> (r: Result<(), IoError>)
        ensures r.is_ok(), final(self)@ == old(self)@ + le32(f32_bits(v)) { unimplemented!() }
    #[verifier::external_body]
    pub fn put_f64(&mut self, v: f64) -> (r: Result<(), IoError>)
        ensures r.is_ok(), final(self)@ == old(self)@ + le64(f64_bits(v)) { unimplemented!() }
    #[verifier::external_body]
    pub fn put_bytes(&mut self, b: &[u8]) -> (r: Result<(), IoError>)
        ensures r.is_ok(), final(self)@ == old(self)@ + b@ { unimplemented!() }
}

// ---- FSink: seekable destination (`BufWriter<W: Write + Seek>`).  Ghost image `data()` and
// position `pos()`.  A put at `pos` overwrites/extends the image; any operation may fail, in
// which case nothing is promised about the image (callers must propagate the error).
#[verifier::external_body]
pub struct FSink { _p: u8 }
pub open spec fn splice(d: Seq<u8>, at: int, b: Seq<u8>) -> Seq<u8>
    recommends 0 <= at <= d.len()
{
    if at + b.len() >= d.len() { d.subrange(0, at) + b } else { d.subrange(0, at) + b + d.subrange(at + b.len(), d.len() as int) }
}
impl FSink {
    pub uninterp spec fn data(&self) -> Seq<u8>;
    pub uninterp spec fn pos(&self) -> int;
    pub open spec fn wf(&self) -> bool { 0 <= self.pos() <= self.data().len() }
    #[verifier::external_body]
    pub fn tell(&mut self) -> (r: Result<u64, IoError>)
        requires old(self).wf(), old(self).pos() <= u64::MAX
        ensures final(self).data() == old(self).data(), final(self).pos() == old(self).pos(), r.is_ok() ==> r.unwrap() == old(self).pos()
    { unimplemented!() }
    #[verifier::external_body]
    pub fn seek_start(&mut self, p: u64) -> (r: Result<u64, IoError>)
        requires old(self).wf(), p <= old(self).data().len()
        ensures final(self).data() == old(self).data(), r.is_ok() ==> (final(self).pos() == p && r.unwrap() == p), final(self).wf()
    { unimplemented!() }
    #[verifier::external_body]
    pub fn seek_end0(&mut self) -> (r: Result<u64, IoError>)
        requires old(self).wf()
        ensures final(self).data() == old(self).data(), r.is_ok() ==> (final(self).pos() == old(self).data().len() && r.unwrap() == old(self).data().len()), final(self).wf()
    { unimplemented!() }
    #[verifier::external_body]
    pub fn put(&mut self, b: &[u8]) -> (r: Result<(), IoError>)
        requires old(self).wf()
        ensures r.is_ok() ==> (final(self).data() == splice(old(self).data(), old(self).pos(), b@) && final(self).pos() == old(self).pos() + b@.len()), final(self).wf()
    { unimplemented!() }
    #[verifier::external_body]
    pub fn put_u8(&mut self, v: u8) -> (r: Result<(), IoError>)
        requires old(self).wf()
        ensures r.is_ok() ==> (final(self).data() == splice(old(self).data(), old(self).pos(), seq![v]) && final(self).pos() == old(self).pos() + 1), final(self).wf()
    { unimplemented!() }
    #[verifier::external_body]
    pub fn put_u16(&mut self, v: u16) -> (r: Result<(), IoError>)
        requires old(self).wf()
        ensures r.is_ok() ==> (final(self).data() == splice(old(self).data(), old(self).pos(), le16(v)) && final(self).pos() == old(self).pos() + 2), final(self).wf()
    { unimplemented!() }
    #[verifier::external_body]
    pub fn put_u32(&mut self, v: u32) -> (r: Result<(), IoError>)
        requires old(self).wf()
        ensures r.is_ok() ==> (final(self).data() == splice(old(self).data(), old(self).pos(), le32(v)) && final(self).pos() == old(self).pos() + 4), final(self).wf()
    { unimplemented!() }
    #[verifier::external_body]
    pub fn put_u64(&mut self, v: u64) -> (r: Result<(), IoError>)
        requires old(self).wf()
        ensures r.is_ok() ==> (final(self).data() == splice(old(self).data(), old(self).pos(), le64(v)) && final(self).pos() == old(self).pos() + 8), final(self).wf()
    { unimplemented!() }
    #[verifier::external_body]
    pub fn put_f64(&mut self, v: f64) -> (r: Result<(), IoError>)
        requires old(self).wf()
        ensures r.is_ok() ==> (final(self).data() == splice(old(self).data(), old(self).pos(), le64(f64_bits(v))) && final(self).pos() == old(self).pos() + 8), final(self).wf()
    { unimplemented!() }
}

// ---- Cur: consuming reader over a byte buffer (`bytes::BytesMut` used through `bytes::Buf`).
// `rem()` = bytes not yet consumed.  The `requires` are the real panics of the `bytes` crate
// (reading past the end / split_to past the end).
#[verifier::external_body]
pub struct Cur { _p: u8 }
impl Cur {
    pub uninterp spec fn rem(&self) -> Seq<u8>;
    #[verifier::external_body]
    pub fn from_vec(v: &Vec<u8>) -> (r: Cur) ensures r.rem() == v@ { unimplemented!() }
    #[verifier::external_body]
    pub fn len(&self) -> (r: usize) ensures r == self.rem().len() { unimplemented!() }
    #[verifier::external_body]
    pub fn split_to(&mut self, n: usize) -> (r: Cur)
        requires n <= old(self).rem().len()
        ensures r.rem() == old(self).rem().subrange(0, n as int), final(self).rem() == old(self).rem().subrange(n as int, old(self).rem().len() as int)
    { unimplemented!() }
    #[verifier::external_body]
    pub fn advance(&mut self, n: usize)
        requires n <= old(self).rem().len()
        ensures final(self).rem() == old(self).rem().subrange(n as int, old(self).rem().len() as int)
    { unimplemented!() }
    #[verifier::external_body]
    pub fn get_u8(&mut self) -> (r: u8)
        requires old(self).rem().len() >= 1
        ensures r == old(self).rem()[0], final(self).rem() == old(self).rem().subrange(1, old(self).rem().len() as int)
    { unimplemented!() }
    #[verifier::external_body]
    pub fn get_u16(&mut self) -> (r: u16)
        requires old(self).rem().len() >= 2
        ensures r == dbe16(old(self).rem(), 0), final(self).rem() == old(self).rem().subrange(2, old(self).rem().len() as int)
    { unimplemented!() }
    #[verifier::external_body]
    pub fn get_u16_le(&mut self) -> (r: u16)
        requires old(self).rem().len() >= 2
        ensures r == dle16(old(self).rem(), 0), final(self).rem() == old(self).rem().subrange(2, old(self).rem().len() as int)
    { unimplemented!() }
    #[verifier::external_body]
    pub fn get_u32(&mut self) -> (r: u32)
        requires old(self).rem().len() >= 4
        ensures r == dbe32(old(self).rem(), 0), final(self).rem() == old(self).rem().subrange(4, old(self).rem().len() as int)
    { unimplemented!() }
    #[verifier::external_body]
    pub fn get_u32_le(&mut self) -> (r: u32)
        requires old(self).rem().len() >= 4
        ensures r == dle32(old(self).rem(), 0), final(self).rem() == old(self).rem().subrange(4, old(self).rem().len() as int)
    { unimplemented!() }
    #[verifier::external_body]
    pub fn get_u64(&mut self) -> (r: u64)
        requires old(self).rem().len() >= 8
        ensures r == dbe64(old(self).rem(), 0), final(self).rem() == old(self).rem().subrange(8, old(self).rem().len() as int)
    { unimplemented!() }
    #[verifier::external_body]
    pub fn get_u64_le(&mut self) -> (r: u64)
        requires old(self).rem().len() >= 8
        ensures r == dle64(old(self).rem(), 0), final(self).rem() == old(self).rem().subrange(8, old(self).rem().len() as int)
    { unimplemented!() }
    #[verifier::external_body]
    pub fn get_f32(&mut self) -> (r: f32)
        requires old(self).rem().len() >= 4
        ensures r == f32_of_bits(dbe32(old(self).rem(), 0) as u32), final(self).rem() == old(self).rem().subrange(4, old(self).rem().len() as int)
    { unimplemented!() }
    #[verifier::external_body]
    pub fn get_f32_le(&mut self) -> (r: f32)
        requires old(self).rem().len() >= 4
        ensures r == f32_of_bits(dle32(old(self).rem(), 0) as u32), final(self).rem() == old(self).rem().subrange(4, old(self).rem().len() as int)
    { unimplemented!() }
}
// `uN::from_{le,be}_bytes([..])` (rule R4) with arithmetic contracts
#[verifier::external_body]
pub fn u32_from_le(b: [u8; 4]) -> (r: u32) ensures r == dle32(b@, 0) { u32::from_le_bytes(b) }
#[verifier::external_body]
pub fn u32_from_be(b: [u8; 4]) -> (r: u32) ensures r == dbe32(b@, 0) { u32::from_be_bytes(b) }
#[verifier::external_body]
pub fn u64_from_le(b: [u8; 8]) -> (r: u64) ensures r == dle64(b@, 0) { u64::from_le_bytes(b) }
#[verifier::external_body]
pub fn u64_from_be(b: [u8; 8]) -> (r: u64) ensures r == dbe64(b@, 0) { u64::from_be_bytes(b) }
#[verifier::external_body]
pub fn f32_from_le(b: [u8; 4]) -> (r: f32) ensures r == f32_of_bits(dle32(b@, 0) as u32) { f32::from_le_bytes(b) }
#[verifier::external_body]
pub fn f32_from_be(b: [u8; 4]) -> (r: f32) ensures r == f32_of_bits(dbe32(b@, 0) as u32) { f32::from_be_bytes(b) }

/// shim for byteordered::Endianness (external crate, a plain 2-variant enum)
#[derive(Clone, Copy)]
pub enum Endianness { Big, Little }
pub open spec fn is_big(e: Endianness) -> bool { e is Big }

pub const BIGWIG_MAGIC: u32 = 0x888F_FC26;
pub const BIGBED_MAGIC: u32 = 0x8789_F2EB;
#[derive(Copy, Clone)]
pub enum BBIFile {
    BigWig,
    BigBed,
}
#[derive(Copy, Clone)]
pub struct ZoomHeader {
    pub reduction_level: u32,
    pub data_offset: u64,
    pub index_offset: u64,
    pub index_tree_offset: Option<u64>,
}
#[derive(Copy, Clone)]
pub struct BBIHeader {
    pub endianness: Endianness,
    pub version: u16,
    pub field_count: u16,
    pub defined_field_count: u16,

    pub zoom_levels: u16,
    pub chromosome_tree_offset: u64,
    pub full_data_offset: u64,
    pub full_index_offset: u64,
    pub full_index_tree_offset: Option<u64>,
    pub auto_sql_offset: u64,
    pub total_summary_offset: u64,
    pub uncompress_buf_size: u32,
}
// thiserror derive: `#[error(..)]` display strings dropped, `#[from] io::Error` -> IoError; the
// From impl that `#[from]` generates is written out below (it wraps, nothing else).
pub enum BBIFileReadInfoError {
        UnknownMagic,
        InvalidChroms,
        IoError(IoError),
}
impl vstd::std_specs::convert::FromSpecImpl<IoError> for BBIFileReadInfoError {
    open spec fn obeys_from_spec() -> bool { true }
    open spec fn from_spec(e: IoError) -> BBIFileReadInfoError { BBIFileReadInfoError::IoError(e) }
}
impl From<IoError> for BBIFileReadInfoError {
    fn from(e: IoError) -> (r: BBIFileReadInfoError) { BBIFileReadInfoError::IoError(e) }
}

// ---- host byte order: ASSUMED little-endian (x86-64 / aarch64), as for NativeEndian in the writers ----
/// the u32 whose little-endian bytes are the big-endian bytes of x
pub open spec fn bswap32(x: u32) -> u32 { dbe32(le32(x), 0) as u32 }
pub assume_specification [u32::to_le] (x: u32) -> (r: u32) ensures r == x;
pub assume_specification [u32::to_be] (x: u32) -> (r: u32) ensures r == bswap32(x);

// ---- reader shim: `R: SeekableRead` / `BBIFileRead::raw_reader()` (Read + Seek over the file) ----
#[verifier::external_body]
pub struct VRead { _p: u8 }
impl VRead {
    pub uninterp spec fn content(&self) -> Seq<u8>;
    pub uninterp spec fn pos(&self) -> int;
    /// ghost: some call on this reader has returned Err (Verus does not carry the value of a `?`-converted
    /// error, so "no I/O error happened" is stated through this flag)
    pub uninterp spec fn failed(&self) -> bool;
    /// `let mut b = BytesMut::zeroed(n); file.read_exact(&mut b)?;` : Ok only if n bytes were available;
    /// then the buffer holds exactly content[pos..pos+n].  May fail for any other reason too.
    #[verifier::external_body]
    pub fn read_cur(&mut self, n: usize) -> (r: Result<Cur, IoError>)
        requires 0 <= old(self).pos()
        ensures
            final(self).content() == old(self).content(),
            final(self).failed() == (old(self).failed() || r is Err),
            r is Ok ==> old(self).pos() + n <= old(self).content().len()
                && r->Ok_0.rem() == old(self).content().subrange(old(self).pos(), old(self).pos() + n)
                && final(self).pos() == old(self).pos() + n,
    { unimplemented!() }
}

// ---- format spec (published layout) ----
/// zoom-directory entry i (24 bytes): reductionLevel u32, reserved u32, dataOffset u64, indexOffset u64
pub open spec fn zh_at(big: bool, s: Seq<u8>, i: int) -> ZoomHeader {
    ZoomHeader {
        reduction_level: d32(big, s, 24 * i) as u32,
        data_offset: d64(big, s, 24 * i + 8) as u64,
        index_offset: d64(big, s, 24 * i + 16) as u64,
        index_tree_offset: None,
    }
}
pub open spec fn zoom_dir_dec(big: bool, s: Seq<u8>, n: int) -> Seq<ZoomHeader>
    decreases n
{
    if n <= 0 { Seq::empty() } else { zoom_dir_dec(big, s, n - 1).push(zh_at(big, s, n - 1)) }
}
pub proof fn lemma_zoom_dir_dec(big: bool, s: Seq<u8>, n: int)
    requires 0 <= n,
    ensures zoom_dir_dec(big, s, n).len() == n,
        forall|i: int| 0 <= i < n ==> #[trigger] zoom_dir_dec(big, s, n)[i] == zh_at(big, s, i),
    decreases n
{
    if n > 0 { lemma_zoom_dir_dec(big, s, n - 1); }
}
pub open spec fn magic_of(t: BBIFile) -> u32 { match t { BBIFile::BigWig => BIGWIG_MAGIC, BBIFile::BigBed => BIGBED_MAGIC } }
/// the file starts (at m) with none of the four magic encodings
pub open spec fn no_known_magic(m: Seq<u8>) -> bool {
    m != be32(BIGWIG_MAGIC) && m != le32(BIGWIG_MAGIC) && m != be32(BIGBED_MAGIC) && m != le32(BIGBED_MAGIC)
}
/// the fixed header fields, each decoded at its published offset (relative to the header start) in byte order `big`
pub open spec fn header_at(big: bool, e: Endianness, s: Seq<u8>) -> BBIHeader {
    BBIHeader {
        endianness: e,
        version: d16(big, s, 4) as u16,
        zoom_levels: d16(big, s, 6) as u16,
        chromosome_tree_offset: d64(big, s, 8) as u64,
        full_data_offset: d64(big, s, 16) as u64,
        full_index_offset: d64(big, s, 24) as u64,
        full_index_tree_offset: None,
        field_count: d16(big, s, 32) as u16,
        defined_field_count: d16(big, s, 34) as u16,
        auto_sql_offset: d64(big, s, 36) as u64,
        total_summary_offset: d64(big, s, 44) as u64,
        uncompress_buf_size: d32(big, s, 52) as u32,
    }
}

// ---- lemmas ----
/// decoding is injective: the 4 bytes at s[k..] are the big-endian encoding of the value they decode to
pub proof fn lemma_be32_of_dbe32(s: Seq<u8>, k: int)
    requires 0 <= k, k + 4 <= s.len(),
    ensures s.subrange(k, k + 4) == be32(dbe32(s, k) as u32), 0 <= dbe32(s, k) <= u32::MAX,
{
    let a = s[k] as int; let b = s[k + 1] as int; let c = s[k + 2] as int; let d = s[k + 3] as int;
    let x = dbe32(s, k);
    assert(x == 256 * (65536 * a + 256 * b + c) + d);
    assert(x % 256 == d && x / 256 == 65536 * a + 256 * b + c);
    assert(x == 65536 * (256 * a + b) + (256 * c + d));
    assert(x / 65536 == 256 * a + b);
    assert(x == 16777216 * a + (65536 * b + 256 * c + d));
    assert(x / 16777216 == a);
    assert((65536 * a + 256 * b + c) % 256 == c);
    assert((256 * a + b) % 256 == b);
    reveal(byte_of);
    assert(s.subrange(k, k + 4) =~= be32(x as u32));
}
/// the four magic encodings, byte by byte (0x888FFC26 bigWig, 0x8789F2EB bigBed)
pub proof fn lemma_magic_consts()
    ensures
        be32(BIGWIG_MAGIC) == seq![0x88u8, 0x8F, 0xFC, 0x26], le32(BIGWIG_MAGIC) == seq![0x26u8, 0xFC, 0x8F, 0x88],
        be32(BIGBED_MAGIC) == seq![0x87u8, 0x89, 0xF2, 0xEB], le32(BIGBED_MAGIC) == seq![0xEBu8, 0xF2, 0x89, 0x87],
        bswap32(BIGWIG_MAGIC) == 0x26FC_8F88u32, bswap32(BIGBED_MAGIC) == 0xEBF2_8987u32,
{
    reveal(byte_of);
    assert(be32(BIGWIG_MAGIC) =~= seq![0x88u8, 0x8F, 0xFC, 0x26]);
    assert(le32(BIGWIG_MAGIC) =~= seq![0x26u8, 0xFC, 0x8F, 0x88]);
    assert(be32(BIGBED_MAGIC) =~= seq![0x87u8, 0x89, 0xF2, 0xEB]);
    assert(le32(BIGBED_MAGIC) =~= seq![0xEBu8, 0xF2, 0x89, 0x87]);
}
/// what the value of the first four bytes, read big-endian, says about those bytes
pub proof fn lemma_magic_table(m: Seq<u8>)
    requires m.len() == 4,
    ensures
        dbe32(m, 0) == BIGWIG_MAGIC <==> m == be32(BIGWIG_MAGIC),
        dbe32(m, 0) == bswap32(BIGWIG_MAGIC) <==> m == le32(BIGWIG_MAGIC),
        dbe32(m, 0) == BIGBED_MAGIC <==> m == be32(BIGBED_MAGIC),
        dbe32(m, 0) == bswap32(BIGBED_MAGIC) <==> m == le32(BIGBED_MAGIC),
{
    lemma_magic_consts();
    lemma_be32_of_dbe32(m, 0);
    assert(m.subrange(0, 4) =~= m);
    // m == [a,b,c,d]  <==>  its four bytes are a,b,c,d
    assert(m =~= seq![m[0], m[1], m[2], m[3]]);
    if dbe32(m, 0) == BIGWIG_MAGIC { assert(m == be32(BIGWIG_MAGIC)); }
    if dbe32(m, 0) == BIGBED_MAGIC { assert(m == be32(BIGBED_MAGIC)); }
    if dbe32(m, 0) == 0x26FC_8F88 { reveal(byte_of); assert(be32(0x26FC_8F88u32) =~= le32(BIGWIG_MAGIC)); }
    if dbe32(m, 0) == 0xEBF2_8987 { reveal(byte_of); assert(be32(0xEBF2_8987u32) =~= le32(BIGBED_MAGIC)); }
}

fn read_zoom_headers(file: &mut VRead,
    header: &BBIHeader,
) -> (r: Result<Vec<ZoomHeader>, IoError>)
    requires
        
        0 <= old(file).pos(),
    ensures
        
        final(file).content() == old(file).content(),
        
        final(file).failed() == (old(file).failed() || r is Err),
        
        old(file).pos() + 24 * header.zoom_levels > old(file).content().len() ==> r is Err,
        
        r is Ok ==> final(file).pos() == old(file).pos() + 24 * header.zoom_levels,
        
        r is Ok ==> r->Ok_0@ == zoom_dir_dec(is_big(header.endianness),
            old(file).content().subrange(old(file).pos(), old(file).pos() + 24 * header.zoom_levels), header.zoom_levels as int),
        
        r is Ok ==> r->Ok_0@.len() == header.zoom_levels
            && forall|i: int| 0 <= i < header.zoom_levels ==> #[trigger] r->Ok_0@[i] == zh_at(is_big(header.endianness),
                old(file).content().subrange(old(file).pos(), old(file).pos() + 24 * header.zoom_levels), i),
{
    let endianness = header.endianness;
    let mut header_data = file.read_cur((header.zoom_levels as usize) * 24)?;


    let ghost dir = old(file).content().subrange(old(file).pos(), old(file).pos() + 24 * header.zoom_levels);
    let mut zoom_headers = vec![];
    match endianness {
        Endianness::Big => {
            for k__ in 0..header.zoom_levels 
                invariant
                    
                    header_data.rem() == dir.subrange(24 * k__ as int, dir.len() as int), dir.len() == 24 * header.zoom_levels,
                    
                    zoom_headers@ == zoom_dir_dec(true, dir, k__ as int),
{
                let reduction_level = header_data.get_u32();
                let _reserved = header_data.get_u32();
                let data_offset = header_data.get_u64();
                let index_offset = header_data.get_u64();


                proof {
                    
                    assert(header_data.rem() =~= dir.subrange(24 * (k__ + 1), dir.len() as int));
                    
                    assert(reduction_level == zh_at(true, dir, k__ as int).reduction_level && data_offset == zh_at(true, dir, k__ as int).data_offset
                        && index_offset == zh_at(true, dir, k__ as int).index_offset);
                }
                zoom_headers.push(ZoomHeader {
                    reduction_level,
                    data_offset,
                    index_offset,
                    index_tree_offset: None,
                });
            }
        }
        Endianness::Little => {
            for k__ in 0..header.zoom_levels 
                invariant
                    
                    header_data.rem() == dir.subrange(24 * k__ as int, dir.len() as int), dir.len() == 24 * header.zoom_levels,
                    
                    zoom_headers@ == zoom_dir_dec(false, dir, k__ as int),
{
                let reduction_level = header_data.get_u32_le();
                let _reserved = header_data.get_u32_le();
                let data_offset = header_data.get_u64_le();
                let index_offset = header_data.get_u64_le();


                proof {
                    
                    assert(header_data.rem() =~= dir.subrange(24 * (k__ + 1), dir.len() as int));
                    
                    assert(reduction_level == zh_at(false, dir, k__ as int).reduction_level && data_offset == zh_at(false, dir, k__ as int).data_offset
                        && index_offset == zh_at(false, dir, k__ as int).index_offset);
                }
                zoom_headers.push(ZoomHeader {
                    reduction_level,
                    data_offset,
                    index_offset,
                    index_tree_offset: None,
                });
            }
        }
    };


    proof { lemma_zoom_dir_dec(is_big(header.endianness), dir, header.zoom_levels as int); }
    Ok(zoom_headers)
}

// read_info, CUT after `let zoom_headers = read_zoom_headers(file, &header)?;`: everything from the seek to the
// chromosome tree to the end (chromosome-tree header, read_chrom_tree_block, BBIFileInfo construction) is
// replaced by returning (filetype, header, zoom_headers).
pub fn read_info(file: &mut VRead) -> (r: Result<(BBIFile, BBIHeader, Vec<ZoomHeader>), BBIFileReadInfoError>)
    requires
        
        0 <= old(file).pos(),
    ensures
        
        final(file).content() == old(file).content(),
        
        r is Ok ==> old(file).pos() + 64 <= old(file).content().len()
            && old(file).content().subrange(old(file).pos(), old(file).pos() + 4) == e32(is_big(r->Ok_0.1.endianness), magic_of(r->Ok_0.0)),
        
        r is Ok ==> ({
            let m = old(file).content().subrange(old(file).pos(), old(file).pos() + 4);
            let t = r->Ok_0.0; let e = r->Ok_0.1.endianness;
            &&& (m == be32(BIGWIG_MAGIC) ==> t is BigWig && e is Big)
            &&& (m == le32(BIGWIG_MAGIC) ==> t is BigWig && e is Little)
            &&& (m == be32(BIGBED_MAGIC) ==> t is BigBed && e is Big)
            &&& (m == le32(BIGBED_MAGIC) ==> t is BigBed && e is Little)
        }),
        
        no_known_magic(old(file).content().subrange(old(file).pos(), old(file).pos() + 4)) ==> r is Err,
        
        !old(file).failed() && !final(file).failed() && r is Err ==> r->Err_0 is UnknownMagic
            && old(file).pos() + 64 <= old(file).content().len()
            && no_known_magic(old(file).content().subrange(old(file).pos(), old(file).pos() + 4)),
        
        !old(file).failed() && final(file).failed() ==> r is Err,
        
        r is Ok ==> r->Ok_0.1 == header_at(is_big(r->Ok_0.1.endianness), r->Ok_0.1.endianness,
            old(file).content().subrange(old(file).pos(), old(file).pos() + 64)),
        
        r is Ok ==> r->Ok_0.2@ == zoom_dir_dec(is_big(r->Ok_0.1.endianness),
            old(file).content().subrange(old(file).pos() + 64, old(file).pos() + 64 + 24 * r->Ok_0.1.zoom_levels), r->Ok_0.1.zoom_levels as int),
        
        r is Ok ==> final(file).pos() == old(file).pos() + 64 + 24 * r->Ok_0.1.zoom_levels,
{
    
    let mut header_data = file.read_cur(64)?;


    let ghost h = old(file).content().subrange(old(file).pos(), old(file).pos() + 64);
    let ghost m4 = old(file).content().subrange(old(file).pos(), old(file).pos() + 4);
    proof {
        
        assert(header_data.rem() == h);
        assert(m4 =~= h.subrange(0, 4));
        lemma_magic_table(m4);
        lemma_magic_consts();
        assert(dbe32(h, 0) == dbe32(m4, 0));
    }
    let magic = header_data.get_u32();
    let (filetype, endianness) = match magic {
        _ if magic == BIGWIG_MAGIC.to_le() => (BBIFile::BigWig, Endianness::Big),
        _ if magic == BIGWIG_MAGIC.to_be() => (BBIFile::BigWig, Endianness::Little),
        _ if magic == BIGBED_MAGIC.to_le() => (BBIFile::BigBed, Endianness::Big),
        _ if magic == BIGBED_MAGIC.to_be() => (BBIFile::BigBed, Endianness::Little),
        _ => return Err(BBIFileReadInfoError::UnknownMagic),
    };

    let (
        version,
        zoom_levels,
        chromosome_tree_offset,
        full_data_offset,
        full_index_offset,
        field_count,
        defined_field_count,
        auto_sql_offset,
        total_summary_offset,
        uncompress_buf_size,
    ) = match endianness {
        Endianness::Big => {
            let version = header_data.get_u16();
            let zoom_levels = header_data.get_u16();
            let chromosome_tree_offset = header_data.get_u64();
            let full_data_offset = header_data.get_u64();
            let full_index_offset = header_data.get_u64();
            let field_count = header_data.get_u16();
            let defined_field_count = header_data.get_u16();
            let auto_sql_offset = header_data.get_u64();
            let total_summary_offset = header_data.get_u64();
            let uncompress_buf_size = header_data.get_u32();
            let _reserved = header_data.get_u64();

            (
                version,
                zoom_levels,
                chromosome_tree_offset,
                full_data_offset,
                full_index_offset,
                field_count,
                defined_field_count,
                auto_sql_offset,
                total_summary_offset,
                uncompress_buf_size,
            )
        }
        Endianness::Little => {
            let version = header_data.get_u16_le();
            let zoom_levels = header_data.get_u16_le();
            let chromosome_tree_offset = header_data.get_u64_le();
            let full_data_offset = header_data.get_u64_le();
            let full_index_offset = header_data.get_u64_le();
            let field_count = header_data.get_u16_le();
            let defined_field_count = header_data.get_u16_le();
            let auto_sql_offset = header_data.get_u64_le();
            let total_summary_offset = header_data.get_u64_le();
            let uncompress_buf_size = header_data.get_u32_le();
            let _reserved = header_data.get_u64_le();

            (
                version,
                zoom_levels,
                chromosome_tree_offset,
                full_data_offset,
                full_index_offset,
                field_count,
                defined_field_count,
                auto_sql_offset,
                total_summary_offset,
                uncompress_buf_size,
            )
        }
    };


    proof {
        
        assert(m4 == e32(is_big(endianness), magic_of(filetype)));
        
        assert(version == d16(is_big(endianness), h, 4) && zoom_levels == d16(is_big(endianness), h, 6)
            && chromosome_tree_offset == d64(is_big(endianness), h, 8) && full_data_offset == d64(is_big(endianness), h, 16)
            && full_index_offset == d64(is_big(endianness), h, 24) && field_count == d16(is_big(endianness), h, 32)
            && defined_field_count == d16(is_big(endianness), h, 34) && auto_sql_offset == d64(is_big(endianness), h, 36)
            && total_summary_offset == d64(is_big(endianness), h, 44) && uncompress_buf_size == d32(is_big(endianness), h, 52));
    }
    let header = BBIHeader {
        endianness,
        version,
        zoom_levels,
        chromosome_tree_offset,
        full_data_offset,
        full_index_offset,
        full_index_tree_offset: None,
        field_count,
        defined_field_count,
        auto_sql_offset,
        total_summary_offset,
        uncompress_buf_size,
    };

    let zoom_headers = read_zoom_headers(file, &header)?;

    // TODO: could instead store this as an Option and only read when needed
    Ok((filetype, header, zoom_headers))
}

} // verus!
fn main() {}

