//! FileView window semantics (C18) and autoSql parser totality (C19).
use crate::rng::Rng;
use crate::Args;
use bigtools::utils::file::file_view::FileView;
use std::io::{Read, Seek, SeekFrom, Write};

/// args: n=<file len> a=<view start> b=<view end> ops=S<k>|C<k>|E<k>|R<n>;...
pub fn run_fileview(a: &Args) -> Result<(), String> {
    let n: u64 = a.get("n").ok_or("n")?.parse().unwrap();
    let va: u64 = a.get("a").ok_or("a")?.parse().unwrap();
    let vb: u64 = a.get("b").ok_or("b")?.parse().unwrap();
    let ops = a.get("ops").cloned().unwrap_or_default();
    let mut tf = tempfile::NamedTempFile::new().map_err(|e| e.to_string())?;
    let data: Vec<u8> = (0..n).map(|i| (i % 251) as u8).collect();
    tf.write_all(&data).unwrap();
    tf.flush().unwrap();
    let f = std::fs::File::open(tf.path()).unwrap();
    let ops2 = ops.clone();
    let res = std::panic::catch_unwind(move || -> Result<(), String> {
        let mut v = FileView::new(f, va, vb).map_err(|e| e.to_string())?;
        // reference: the slice data[va..min(vb,n)] with a cursor
        let hi = vb.min(n);
        let win = &data[va as usize..hi as usize];
        let mut cur: i64 = 0;
        let wl = win.len() as i64;
        for op in ops2.split(';').filter(|s| !s.is_empty()) {
            let k: i128 = op[1..].parse().unwrap();
            match &op[0..1] {
                "S" => { let got = v.seek(SeekFrom::Start(k as u64)).map_err(|e| e.to_string())?; cur = (k as u64 as i128).min(wl as i128) as i64; if got as i64 != cur { return Err(format!("seek(Start({})) -> {} expected {}", k, got, cur)); } }
                "C" => { let got = v.seek(SeekFrom::Current(k as i64)).map_err(|e| e.to_string())?; cur = (cur as i128 + k).max(0).min(wl as i128) as i64; if got as i64 != cur { return Err(format!("seek(Current({})) -> {} expected {}", k, got, cur)); } }
                "E" => { let got = v.seek(SeekFrom::End(k as i64)).map_err(|e| e.to_string())?; cur = (wl as i128 + k.min(0)).max(0).min(wl as i128) as i64; if got as i64 != cur { return Err(format!("seek(End({})) -> {} expected {}", k, got, cur)); } }
                "R" => {
                    let k = k as i64;
                    let mut buf = vec![0u8; k as usize];
                    let got = v.read(&mut buf).map_err(|e| e.to_string())?;
                    let avail = (wl - cur) as usize;
                    if got > avail { return Err(format!("read({}) returned {} bytes, only {} left in window", k, got, avail)); }
                    if buf[..got] != win[cur as usize..cur as usize + got] { return Err(format!("read({}) returned bytes that are not the window's at {}", k, cur)); }
                    if got == 0 && k > 0 && avail > 0 { return Err(format!("read({}) returned 0 with {} bytes left", k, avail)); }
                    cur += got as i64;
                }
                _ => return Err("bad op".into()),
            }
        }
        Ok(())
    });
    match res {
        Ok(r) => r,
        Err(p) => Err(format!("panicked: {}", p.downcast_ref::<String>().cloned().or_else(|| p.downcast_ref::<&str>().map(|s| s.to_string())).unwrap_or_default())),
    }
}
pub fn gen_fileview(r: &mut Rng) -> String {
    let n = r.range(0, 40);
    let a = r.below(n + 1);
    let b = r.range(a, n + 5);
    let mut ops = vec![];
    for _ in 0..r.range(1, 5) {
        ops.push(match r.below(4) {
            0 => if r.below(8) == 0 { format!("S{}", u64::MAX - r.below(40)) } else { format!("S{}", r.below(50)) },
            1 => if r.below(8) == 0 { format!("C{}", i64::MAX - r.below(40) as i64) } else { format!("C{}", r.below(60) as i64 - 30) },
            2 => format!("E{}", r.below(80) as i64 - 60),
            _ => format!("R{}", r.below(20)),
        });
    }
    format!("n={} a={} b={} ops={}", n, a, b, ops.join(";"))
}

/// args: hex=<schema text as hex>   (runs the parser in a thread with a 3 s budget)
pub fn run_autosql(a: &Args) -> Result<(), String> {
    let hex = a.get("hex").cloned().unwrap_or_default();
    let bytes: Vec<u8> = (0..hex.len() / 2).map(|i| u8::from_str_radix(&hex[2 * i..2 * i + 2], 16).unwrap()).collect();
    let text = String::from_utf8(bytes).map_err(|_| "not utf8".to_string())?;
    let (tx, rx) = std::sync::mpsc::channel();
    let t2 = text.clone();
    std::thread::spawn(move || {
        let r = std::panic::catch_unwind(|| bigtools::bed::autosql::parse::parse_autosql(&t2).is_ok());
        let _ = tx.send(r.is_ok());
    });
    match rx.recv_timeout(std::time::Duration::from_secs(3)) {
        Ok(true) => Ok(()),
        Ok(false) => Err(format!("parse_autosql panicked on {:?}", text)),
        Err(_) => Err(format!("parse_autosql did not return within 3 s on {:?}", text)),
    }
}
pub fn gen_autosql(r: &mut Rng) -> String {
    let toks = ["table", " ", "t", "\"c\"", "(", ")", "enum", "set", "a", ",", ";", "[", "]", "uint", "x", "string", "3", "\n"];
    let mut s = String::from("table t \"c\" ( ");
    for _ in 0..r.range(0, 8) { s.push_str(r.pick(&toks)); s.push(' '); }
    let hex: String = s.bytes().map(|b| format!("{:02x}", b)).collect();
    format!("hex={}", hex)
}

/// C10: a well-formed file whose LAST structure is a non-leaf R-tree node (node placement is free in the
/// format: nodes are found through pointers).  Built by relocating the last level-1 node of a file written
/// by bigtools to the end of the file and patching its parent's pointer.
/// args: n=<number of values, >=5>
pub fn run_nonleaf_at_eof(a: &Args) -> Result<(), String> {
    use bigtools::BigWigRead;
    let n: u32 = a.get("n").map(|s| s.parse().unwrap()).unwrap_or(5);
    let vals: Vec<(u32, u32, f32)> = (0..n).map(|i| (i * 10, i * 10 + 5, 1.0 + i as f32)).collect();
    let tf = crate::bw::write_bw(&vals, n * 10 + 10, 1, 2, Some(vec![]), false, false)?;
    let mut bytes = std::fs::read(tf.path()).map_err(|e| e.to_string())?;
    let rd64 = |b: &Vec<u8>, at: usize| u64::from_le_bytes(b[at..at + 8].try_into().unwrap());
    let rd16 = |b: &Vec<u8>, at: usize| u16::from_le_bytes(b[at..at + 2].try_into().unwrap());
    let index = rd64(&bytes, 24) as usize;
    let root = index + 48;
    if bytes[root] != 0 { return Err("test setup: root is a leaf; need more values".into()); }
    let rc = rd16(&bytes, root + 2) as usize;
    let ptr_at = root + 4 + 24 * (rc - 1) + 16;
    let child = rd64(&bytes, ptr_at) as usize;
    if bytes[child] != 0 { return Err("test setup: root's children are leaves; need >= 5 values with block_size 2".into()); }
    let cc = rd16(&bytes, child + 2) as usize;
    let node: Vec<u8> = bytes[child..child + 4 + 24 * cc].to_vec();
    let new_pos = bytes.len() as u64;
    bytes.extend_from_slice(&node);
    bytes[ptr_at..ptr_at + 8].copy_from_slice(&new_pos.to_le_bytes());
    let mut out = tempfile::NamedTempFile::new().map_err(|e| e.to_string())?;
    out.write_all(&bytes).unwrap();
    out.flush().unwrap();
    let mut r = BigWigRead::open_file(out.path()).map_err(|e| format!("open: {}", e))?;
    let last = vals[vals.len() - 1];
    let got: Vec<_> = r.get_interval("chr1", last.0, last.1).map_err(|e| format!("query of a well-formed file whose last structure is a non-leaf node failed: {}", e))?
        .collect::<Result<Vec<_>, _>>().map_err(|e| format!("read: {}", e))?;
    if got.len() != 1 || got[0].start != last.0 || got[0].end != last.1 { return Err(format!("expected the last value {:?}, got {:?}", last, got)); }
    Ok(())
}
pub fn gen_nonleaf_at_eof(r: &mut Rng) -> String { format!("n={}", r.range(5, 12)) }

/// C18: index_chroms == offsets of the first line of each chromosome run (or None when not grouped).
/// args: lines=<chrom>:<startlen>,...  each item is "<chrom letter><padding digits count>", e.g. lines=a1,a1,b3,c1  nl=1
pub fn run_indexer(a: &Args) -> Result<(), String> {
    let spec = a.get("lines").cloned().unwrap_or_default();
    let final_nl = a.get("nl").map(|s| s == "1").unwrap_or(true);
    let mut text = String::new();
    let mut want: Vec<(u64, String)> = vec![];
    let items: Vec<&str> = spec.split(',').filter(|s| !s.is_empty()).collect();
    for (i, it) in items.iter().enumerate() {
        let chrom = format!("chr{}", &it[0..1]);
        let width: usize = it[1..].parse().unwrap_or(1);
        if want.last().map(|w| w.1 != chrom).unwrap_or(true) { want.push((text.len() as u64, chrom.clone())); }
        let start = format!("{:0width$}", i * 10, width = width);
        text.push_str(&format!("{}\t{}\t{}\t1.0", chrom, start, i * 10 + 5));
        if i + 1 < items.len() || final_nl { text.push('\n'); }
    }
    let grouped = { let mut names: Vec<&String> = want.iter().map(|w| &w.1).collect(); let n = names.len(); names.sort(); names.dedup(); names.len() == n };
    let mut tf = tempfile::NamedTempFile::new().map_err(|e| e.to_string())?;
    tf.write_all(text.as_bytes()).unwrap(); tf.flush().unwrap();
    let f = std::fs::File::open(tf.path()).unwrap();
    let got = std::panic::catch_unwind(|| bigtools::bed::indexer::index_chroms(f)).map_err(|_| "index_chroms panicked".to_string())?.map_err(|e| format!("index_chroms error: {}", e))?;
    match (grouped, got) {
        (true, Some(g)) => if g != want { return Err(format!("index {:?} but the runs start at {:?}", g, want)); },
        (true, None) => return Err(format!("grouped file reported as not grouped; runs start at {:?}", want)),
        (false, Some(g)) => return Err(format!("file is NOT grouped (runs {:?}) but an index was returned: {:?}", want, g)),
        (false, None) => {}
    }
    Ok(())
}
pub fn gen_indexer(r: &mut Rng) -> String {
    let nchrom = r.range(1, 4);
    let mut items = vec![];
    for c in 0..nchrom {
        for _ in 0..r.range(1, 4) { items.push(format!("{}{}", (b'a' + c as u8) as char, if r.below(4) == 0 { r.range(8, 30) } else { 1 })); }
    }
    if r.below(4) == 0 && nchrom >= 2 {
        // make it ungrouped: append another run of the first chromosome
        for _ in 0..r.range(1, 3) { items.push(format!("a{}", 1)); }
    }
    format!("nl={} lines={}", r.below(2), items.join(","))
}

/// C19: the tool given BED on stdin and no schema.  args: cols=<number of columns, >=3>
/// (spawns this binary again as `stdin_autosql child <sizes> <out>` with the BED text on its stdin)
pub fn run_stdin_autosql(a: &Args) -> Result<(), String> {
    use std::process::{Command, Stdio};
    let cols: usize = a.get("cols").map(|s| s.parse().unwrap()).unwrap_or(6);
    let dir = tempfile::tempdir().map_err(|e| e.to_string())?;
    let sizes = dir.path().join("chrom.sizes");
    std::fs::write(&sizes, "chr1\t1000\n").unwrap();
    let out = dir.path().join("out.bb");
    let mut text = String::new();
    for i in 0..3 { let mut l = format!("chr1\t{}\t{}", i * 10, i * 10 + 5); for c in 3..cols { l.push_str(&format!("\tx{}", c)); } l.push('\n'); text.push_str(&l); }
    let mut child = Command::new(std::env::current_exe().unwrap()).args(["stdin_autosql", "child", sizes.to_str().unwrap(), out.to_str().unwrap()])
        .stdin(Stdio::piped()).stdout(Stdio::null()).stderr(Stdio::null()).spawn().map_err(|e| e.to_string())?;
    child.stdin.take().unwrap().write_all(text.as_bytes()).unwrap();
    let st = child.wait().map_err(|e| e.to_string())?;
    if !st.success() { return Err("bedtobigbed on stdin failed".into()); }
    let r = bigtools::BigBedRead::open_file(&out).map_err(|e| format!("open: {}", e))?;
    let fc = r.info().header.field_count as usize;
    if fc != cols { return Err(format!("rows have {} columns but the stored schema/header declares {} fields", cols, fc)); }
    Ok(())
}
pub fn stdin_autosql_child(sizes: &str, out: &str) {
    use bigtools::utils::cli::bedtobigbed::{bedtobigbed, BedToBigBedArgs};
    use bigtools::utils::cli::BBIWriteArgs;
    let args = BedToBigBedArgs { bed: "-".to_string(), chromsizes: sizes.to_string(), output: out.to_string(), parallel: "no".to_string(), single_pass: true, autosql: None,
        write_args: BBIWriteArgs { nthreads: 1, nzooms: 2, zooms: None, uncompressed: true, sorted: "all".to_string(), block_size: 4, items_per_slot: 4, inmemory: true } };
    if bedtobigbed(args).is_err() { std::process::exit(3); }
}
pub fn gen_stdin_autosql(r: &mut Rng) -> String { format!("cols={}", r.range(3, 9)) }

/// C16 (UCSC flag spellings): `compat_args` must turn `<ucsc>=<value>` into `<native>=<value>` with the VALUE unchanged.
/// args: tool=<binary name> flag=<ucsc flag without value, e.g. -chrom> native=<expected native flag> value=<text>
pub fn run_compat(a: &Args) -> Result<(), String> {
    use std::ffi::OsString;
    let tool = a.get("tool").cloned().unwrap_or_else(|| "bigbedtobed".to_string());
    let flag = a.get("flag").cloned().unwrap_or_else(|| "-chrom".to_string());
    let native = a.get("native").cloned().unwrap_or_else(|| "--chrom".to_string());
    let value = a.get("value").cloned().unwrap_or_else(|| "chr1".to_string());
    let input = vec![OsString::from(tool.clone()), OsString::from("in.bb"), OsString::from("out.bed"), OsString::from(format!("{}={}", flag, value))];
    let got: Vec<OsString> = bigtools::utils::cli::compat_args(input.into_iter()).collect();
    let want = format!("{}={}", native, value);
    match got.last().and_then(|s| s.to_str()) {
        Some(s) if s == want && got.len() == 4 => Ok(()),
        other => Err(format!("`{} … {}={}` is handed to the argument parser as {:?}, expected {:?} (all arguments: {:?})", tool, flag, value, other, want, got)),
    }
}
pub fn gen_compat(r: &mut Rng) -> String {
    let pairs = [("-chrom", "--chrom"), ("-start", "--start"), ("-end", "--end"), ("-blockSize", "--block-size"), ("-as", "--autosql"), ("-itemsPerSlot", "--items-per-slot")];
    let (f, n) = pairs[r.range(0, pairs.len() as u64 - 1) as usize];
    let vals = ["chr1", "12", "x-chrom1", "my-assembly.as", "a-start-b", "chr-end", "v"];
    let v = vals[r.range(0, vals.len() as u64 - 1) as usize];
    format!("tool=bigbedtobed flag={} native={} value={}", f, n, v)
}
