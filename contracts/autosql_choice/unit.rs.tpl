//@unit autosql_choice
//@serves C19
//@backend verus
// bedtobigbed (CLI), file-input branch: which autoSql text is handed to the writer.  Carved out of the
// 160-line `bedtobigbed` by one whole-text //@presub (see NOTES.md) are exactly the two statements
//     let autosql = match args.autosql.as_ref() { None => { open bedpath; first line; bed_autosql(rest) }
//                                                 Some(file) => Some(std::fs::read_to_string(file)?), };
//     outb.autosql = autosql;
// Everything around them (argument handling, chrom sizes, runtime, the stdin branch, parallel/single-pass
// dispatch, the write itself) is NOT covered.
//   C19: "When the BED-to-bigBed tool is given no schema, the schema it generates from the first BED line
//         declares exactly three plus the number of extra columns fields ...; a schema supplied to the tool
//         ... is stored and returned verbatim"
// Here: no schema given => the stored text is bed_autosql(rest of the FIRST line of the file named `bedpath`),
// whatever --single-pass / --parallel / -t say; schema given => the stored text is the content of THAT file.
// (That bed_autosql declares 3 + extra-columns fields: unit asql_loops; that write_pre stores the text and
// derives the field count: unit write_pre.)
use vstd::prelude::*;
verus! {

// ---------------- opaque stand-ins (R11) ----------------
/// `String` (paths, option values, file contents, the rest of a BED line: ONE stand-in, as in the repository,
/// so that an edit that stores/reads the wrong string still type-checks and is judged by the contract)
#[verifier::external_body] pub struct Str { _p: u8 }
impl Str {
    // what a plausible edit might call: no postconditions
    #[verifier::external_body] pub fn clone(&self) -> Str { unimplemented!() }
    #[verifier::external_body] pub fn is_empty(&self) -> bool { unimplemented!() }
    #[verifier::external_body] pub fn len(&self) -> usize { unimplemented!() }
    #[verifier::external_body] pub fn as_str(&self) -> &Str { unimplemented!() }
    #[verifier::external_body] pub fn to_string(&self) -> Str { unimplemented!() }
    #[verifier::external_body] pub fn to_owned(&self) -> Str { unimplemented!() }
    #[verifier::external_body] pub fn trim_end(&self) -> &Str { unimplemented!() }
    #[verifier::external_body] pub fn trim(&self) -> &Str { unimplemented!() }
    #[verifier::external_body] pub fn eq_lit(&self, lit: &str) -> bool { unimplemented!() }
}
/// anyhow::Error / io::Error (which error: lost behind `?`)
#[verifier::external_body] #[derive(Debug)] pub struct AnyErr { _p: u8 }
/// `W` of BigBedWrite<W>
#[verifier::external_body] pub struct Out { _p: u8 }
/// HashMap<String, u32>
#[verifier::external_body] pub struct StrMap { _p: u8 }
/// BedValueError
#[verifier::external_body] pub struct BedValueError { _p: u8 }

//@extract struct bigtools/src/bbi.rs BedEntry
//@rule R8
//@sub /#\[derive\(Clone\)\]\n/ => ""
//@sub /rest: String/ => rest: Str
//@end
//@extract enum bigtools/src/bbi/bbiwrite.rs InputSortType
//@rule R8
//@end
//@extract struct bigtools/src/bbi/bbiwrite.rs BBIWriteOptions
//@rule R8
//@sub /#\[derive\(Clone\)\]\n/ => ""
//@end
//@extract struct bigtools/src/bbi/bigbedwrite.rs BigBedWrite
//@rule R8
//@sub /<W: Write \+ Seek \+ Send \+ 'static>/ => "" min=1
//@sub /out: W,/ => pub out: Out, min=1
//@sub /chrom_sizes: HashMap<String, u32>,/ => pub chrom_sizes: StrMap, min=1
//@sub /Option<String>/ => Option<Str> min=1
//@end
// the tool's arguments (clap attributes dropped)
//@extract struct bigtools/src/utils/cli.rs BBIWriteArgs
//@rule R8
//@sub /#\[derive\(Clone\)\]\n/ => "" min=0
//@sub /[ \t]*#\[arg\([^\n]*\)\]\n/ => "" min=0
//@sub /\bString\b/ => Str min=0
//@end
//@extract struct bigtools/src/utils/cli/bedtobigbed.rs BedToBigBedArgs
//@rule R8
//@sub /#\[derive\(Clone\)\]\n/ => "" min=0
//@sub /#\[command\(.*?\n\)\]\n/ => "" min=0
//@sub /[ \t]*#\[(?:arg|command)\([^\n]*\)\]\n/ => "" min=0
//@sub /\bString\b/ => Str min=0
//@end

// ---------------- the file system, as far as this code sees it ----------------
/// one `next()` result of the BED stream: Result<(&str, BedEntry), BedValueError>
#[verifier::external_body] pub struct LineRes { _p: u8 }
impl LineRes {
    pub uninterp spec fn parsed(&self) -> Result<(Str, BedEntry), BedValueError>;
    /// `Result::unwrap`: PANICS on Err (no precondition here: a panic returns nothing, so the postcondition
    /// only speaks about the Ok case; see NOTES.md "malformed first line")
    #[verifier::external_body]
    pub fn unwrap(self) -> (r: (Str, BedEntry))
        ensures self.parsed() == Ok::<(Str, BedEntry), BedValueError>(r)
    { unimplemented!() }
    #[verifier::external_body]
    pub fn expect(self, msg: &str) -> (r: (Str, BedEntry))
        ensures self.parsed() == Ok::<(Str, BedEntry), BedValueError>(r)
    { unimplemented!() }
    #[verifier::external_body] pub fn is_ok(&self) -> (r: bool) ensures r == (self.parsed() is Ok) { unimplemented!() }
    #[verifier::external_body] pub fn is_err(&self) -> (r: bool) ensures r == (self.parsed() is Err) { unimplemented!() }
    #[verifier::external_body] pub fn ok(self) -> (r: Option<(Str, BedEntry)>)
        ensures self.parsed() is Err ==> r is None, r matches Some(v) ==> self.parsed() == Ok::<(Str, BedEntry), BedValueError>(v)
    { unimplemented!() }
}
/// can the file named p be opened / read as text right now (deterministic file system: assumption)
pub uninterp spec fn fs_can_open(p: Str) -> bool;
pub uninterp spec fn fs_can_read(p: Str) -> bool;
/// the whole text of the file named p (`std::fs::read_to_string`)
pub uninterp spec fn fs_content(p: Str) -> Str;
/// the i-th item a BedFileStream over the file named p yields (None: past the end)
pub uninterp spec fn fs_bed_line(p: Str, i: nat) -> Option<LineRes>;
/// the text bed_autosql generates for the extra columns `rest` (unit asql_loops: 3 + columns(rest) fields)
pub uninterp spec fn gen_spec(rest: Str) -> Str;

/// std::fs::File opened for reading
#[verifier::external_body] pub struct File { _p: u8 }
impl File {
    pub uninterp spec fn path(&self) -> Str;
    /// `infile.metadata()?.len()`-style calls of a plausible edit: no contract
    #[verifier::external_body] pub fn size_hint(&self) -> u64 { unimplemented!() }
}
/// ghost record of the file-system calls (threaded through by the substitutions below)
#[verifier::external_body] pub struct Env { _p: u8 }
impl Env {
    /// names passed to File::open, in order
    pub uninterp spec fn opened(&self) -> Seq<Str>;
    /// names passed to read_to_string, in order
    pub uninterp spec fn read(&self) -> Seq<Str>;
    /// `File::open(p)` (+ `.with_context(..)`: message dropped)
    #[verifier::external_body]
    pub fn open(&mut self, p: &Str) -> (r: Result<File, AnyErr>)
        ensures
            final(self).opened() == old(self).opened().push(*p), final(self).read() == old(self).read(),
            r is Ok <==> fs_can_open(*p),
            r matches Ok(f) ==> f.path() == *p,
    { unimplemented!() }
    /// `std::fs::read_to_string(p)`
    #[verifier::external_body]
    pub fn read_to_string(&mut self, p: &Str) -> (r: Result<Str, AnyErr>)
        ensures
            final(self).read() == old(self).read().push(*p), final(self).opened() == old(self).opened(),
            r is Ok <==> fs_can_read(*p),
            r matches Ok(t) ==> t == fs_content(*p),
    { unimplemented!() }
}
/// bed::bedparser::BedFileStream<BedEntry, BufReader<File>>: a cursor over the parsed lines of one file
#[verifier::external_body] pub struct BedFileStream { _p: u8 }
impl BedFileStream {
    pub uninterp spec fn path(&self) -> Str;
    pub uninterp spec fn pos(&self) -> nat;
    #[verifier::external_body]
    pub fn from_bed_file(file: File) -> (r: BedFileStream)
        ensures r.path() == file.path(), r.pos() == 0
    { unimplemented!() }
    /// StreamingBedValues::next
    #[verifier::external_body]
    pub fn next(&mut self) -> (r: Option<LineRes>)
        ensures r == fs_bed_line(old(self).path(), old(self).pos()),
            final(self).path() == old(self).path(), final(self).pos() == old(self).pos() + 1,
    { unimplemented!() }
    // plausible foreign calls: no postcondition
    #[verifier::external_body] pub fn nth(&mut self, n: usize) -> Option<LineRes> { unimplemented!() }
    #[verifier::external_body] pub fn last(&mut self) -> Option<LineRes> { unimplemented!() }
}
/// `crate::bed::autosql::bed_autosql` resolves to this module of the generated file (no substitution needed)
pub mod bed { pub mod autosql {
    use super::super::*;
    #[verifier::external_body]
    pub fn bed_autosql(rest: &Str) -> (r: Str)
        ensures r == gen_spec(*rest)
    { unimplemented!() }
} }

// ---------------- specification (C19) ----------------
/// the schema the tool must generate when none is given: from the FIRST line of the BED file; none for an empty file
pub open spec fn first_line_schema(bedpath: Str) -> Option<Str> {
    match fs_bed_line(bedpath, 0) {
        None => None,
        Some(l) => Some(gen_spec(l.parsed()->Ok_0.1.rest)),
    }
}

//@extract fn bigtools/src/utils/cli/bedtobigbed.rs bedtobigbed
//@rule R16
//@presub /\A.*?\n([ \t]*let autosql = .*?)\n\s*let infile = File::open\(&bedpath\)[^;]*;\s*let \(parallel, parallel_required\).*\Z/ => fn choose_autosql(args: &BedToBigBedArgs, bedpath: Str, nthreads: usize, outb: &mut BigBedWrite, env: &mut Env) -> Result<(), AnyErr> {\n\1\n    Ok(())\n} min=1 count=1
//@sub /\bFile::open\(/ => env.open( min=0
//@sub /\s*\.with_context\(\|\|\s*format!\([^;]*?\)\)(?=\?)/ => "" min=0
//@sub /std::fs::read_to_string\(/ => env.read_to_string( min=0
//@sub /(\w+)\s*\.(next|nth|last)\(([^()]*)\)\s*\.map\(\|(\w+)\|\s*([^\n]*)\)[ \t]*$/ => (match \1.\2(\3) { Some(\4) => Some(\5), None => None }) min=0
//@ret r
//@sig
    ensures
        [[L: no_schema_given/generated_from_first_line_of_bedpath]]
        args.autosql is None ==> (r is Ok ==> final(outb).autosql == first_line_schema(bedpath)),
        [[L: no_schema_given/fails_only_if_bed_cannot_be_opened]]
        args.autosql is None ==> (r is Ok <==> fs_can_open(bedpath)),
        [[L: no_schema_given/opens_bedpath_reads_nothing_else]]
        args.autosql is None ==> final(env).opened() == old(env).opened().push(bedpath) && final(env).read() == old(env).read(),
        [[L: schema_given/content_of_that_file_stored_verbatim]]
        args.autosql matches Some(f) ==> (r is Ok ==> final(outb).autosql == Some(fs_content(f))),
        [[L: schema_given/fails_only_if_schema_cannot_be_read]]
        args.autosql matches Some(f) ==> (r is Ok <==> fs_can_read(f)),
        [[L: schema_given/reads_that_file_opens_nothing]]
        args.autosql matches Some(f) ==> final(env).read() == old(env).read().push(f) && final(env).opened() == old(env).opened(),
        [[L: err_stores_nothing]]
        r is Err ==> final(outb).autosql == old(outb).autosql,
        [[L: writer_otherwise_untouched]]
        final(outb).options == old(outb).options && final(outb).out == old(outb).out && final(outb).chrom_sizes == old(outb).chrom_sizes,
//@end

// ---- stdin branch (`-`, `stdin`, `/dev/stdin`): the statements between the branch head and `let stdin = std::io::stdin().lock();` ----
// Only the schema-GIVEN case is stated.  With stdin input and no schema the code generates NOTHING (the
// writer's default, the three-field BED schema, is stored whatever the rows carry): see NOTES.md
// "Suspected defect"; no clause is written for that case (maintainer's decision pending).
//@extract fn bigtools/src/utils/cli/bedtobigbed.rs bedtobigbed
//@rule R16
//@presub /\A.*?if bedpath == "-" \|\| bedpath == "stdin" \|\| bedpath == "/dev/stdin" \{\n(.*?)\n\s*let stdin = std::io::stdin\(\)\.lock\(\);.*\Z/ => fn stdin_autosql(args: &BedToBigBedArgs, bedpath: Str, nthreads: usize, outb: &mut BigBedWrite, env: &mut Env) -> Result<(), AnyErr> {\n\1\n    Ok(())\n} min=1 count=1
//@sub /\bFile::open\(/ => env.open( min=0
//@sub /\s*\.with_context\(\|\|\s*format!\([^;]*?\)\)(?=\?)/ => "" min=0
//@sub /std::fs::read_to_string\(/ => env.read_to_string( min=0
//@sub /(\w+)\s*\.(next|nth|last)\(([^()]*)\)\s*\.map\(\|(\w+)\|\s*([^\n]*)\)[ \t]*$/ => (match \1.\2(\3) { Some(\4) => Some(\5), None => None }) min=0
//@ret r
//@sig
    ensures
        [[L: stdin/schema_given/content_of_that_file_stored_verbatim]]
        args.autosql matches Some(f) ==> (r is Ok ==> final(outb).autosql == Some(fs_content(f))),
        [[L: stdin/schema_given/fails_only_if_schema_cannot_be_read]]
        args.autosql matches Some(f) ==> (r is Ok <==> fs_can_read(f)),
        [[L: stdin/schema_given/reads_that_file_opens_nothing]]
        args.autosql matches Some(f) ==> final(env).read() == old(env).read().push(f) && final(env).opened() == old(env).opened(),
        [[L: stdin/err_stores_nothing]]
        r is Err ==> final(outb).autosql == old(outb).autosql,
        [[L: stdin/writer_otherwise_untouched]]
        final(outb).options == old(outb).options && final(outb).out == old(outb).out && final(outb).chrom_sizes == old(outb).chrom_sizes,
//@end

} // verus!
fn main() {}
