// bbiread::CachedBBIFileRead: get_block_data, blocks_for_cir_tree_node (impl BBIFileRead) and reopen
// (impl Reopen).  Property clause (C03, C04, C10): "The answer is the same through the caching reader,
// through a reopened reader, and after any sequence of earlier queries."
// Data-structure invariant (DESIGN 6, C03 "B cache"): every memoised index node equals the node stored
// at that offset of the (immutable) file, every memoised block equals what read_block_data returns for
// that block; it is preserved by every method (also on Err), by the 5000-entry clear and by reopen.
// Hence each answer equals the uncached reader's answer whatever was asked before.
use vstd::prelude::*;
use std::collections::HashMap;
use vstd::std_specs::hash::obeys_key_model;
verus! {

// Block: cut with ALL its derives (Hash/Eq are needed for the HashMap key), only pub(crate) -> pub.
#[derive(Copy, Clone, Debug, PartialEq, Eq, Hash)]
pub struct Block {
    pub offset: u64,
    pub size: u64,
}
#[derive(Copy, Clone)]
pub struct CirTreeNodeLeaf {
    start_chrom_ix: u32,
    start_base: u32,
    end_chrom_ix: u32,
    end_base: u32,
    data_offset: u64,
    data_size: u64,
}
#[derive(Copy, Clone)]
pub struct CirTreeNodeNonLeaf {
    start_chrom_ix: u32,
    start_base: u32,
    end_chrom_ix: u32,
    end_base: u32,
    node_offset: u64,
}

// ---------------- specification vocabulary shared by rt_nodes and rt_search ----------------
// Written from the property texts (C05: "finds every block whose span intersects the query and
// returns the blocks in file order"; C04: "every stored entry whose span overlaps the range").
// Included AFTER the extracted structs CirTreeNodeLeaf, CirTreeNodeNonLeaf, Block.

/// strict lexicographic order on (chromosome index, base)
spec fn pos_lt(a: (u32, u32), b: (u32, u32)) -> bool {
    a.0 < b.0 || (a.0 == b.0 && a.1 < b.1)
}
/// non-strict lexicographic order on (chromosome index, base)
spec fn pos_le(a: (u32, u32), b: (u32, u32)) -> bool {
    a.0 < b.0 || (a.0 == b.0 && a.1 <= b.1)
}
/// A span is the closed range of positions from (b1, b1s) to (b2, b2e) in (chrom, base) order; the
/// query is chromosome q, bases [qs, qe].  They intersect iff neither lies wholly before the other.
spec fn overlaps_spec(q: u32, qs: u32, qe: u32, b1: u32, b1s: u32, b2: u32, b2e: u32) -> bool {
    pos_le((q, qs), (b2, b2e)) && pos_le((b1, b1s), (q, qe))
}
spec fn leaf_hit(c: CirTreeNodeLeaf, q: u32, qs: u32, qe: u32) -> bool {
    overlaps_spec(q, qs, qe, c.start_chrom_ix, c.start_base, c.end_chrom_ix, c.end_base)
}
spec fn nonleaf_hit(c: CirTreeNodeNonLeaf, q: u32, qs: u32, qe: u32) -> bool {
    overlaps_spec(q, qs, qe, c.start_chrom_ix, c.start_base, c.end_chrom_ix, c.end_base)
}
spec fn leaf_block(c: CirTreeNodeLeaf) -> Block {
    Block { offset: c.data_offset, size: c.data_size }
}
/// order-preserving filter+map of the first n leaf items: the blocks (offset, size) of the items
/// whose span intersects the query, in stored order
spec fn filter_blocks(items: Seq<CirTreeNodeLeaf>, q: u32, qs: u32, qe: u32, n: int) -> Seq<Block>
    decreases n
{
    if n <= 0 { Seq::empty() }
    else {
        let prev = filter_blocks(items, q, qs, qe, n - 1);
        if leaf_hit(items[n - 1], q, qs, qe) { prev.push(leaf_block(items[n - 1])) } else { prev }
    }
}
/// order-preserving filter+map of the first n non-leaf items: the child node offsets of the items
/// whose span intersects the query, in stored order
spec fn filter_children(items: Seq<CirTreeNodeNonLeaf>, q: u32, qs: u32, qe: u32, n: int) -> Seq<u64>
    decreases n
{
    if n <= 0 { Seq::empty() }
    else {
        let prev = filter_children(items, q, qs, qe, n - 1);
        if nonleaf_hit(items[n - 1], q, qs, qe) { prev.push(items[n - 1].node_offset) } else { prev }
    }
}

// the per-node filter, with its contracts, exactly as verified in unit rt_nodes (same include file)
// ---- shared by rt_nodes and rt_search (included): CirTreeNodeIterator, compare_position, overlaps,
// ---- nodes_overlapping with their contracts.  Needs spec.rs and the three structs before it.
// iterator -> Vec: the two generic parameters lose their `Iterator` bound and default; the unit
// instantiates them with Vec<CirTreeNodeLeaf> / Vec<CirTreeNodeNonLeaf> (drops laziness only).
pub enum CirTreeNodeIterator<
    L,
    N,
> {
    Leaf(L),
    NonLeaf(N),
}

// std methods a "branchless" rewrite of compare_position reaches for (0 hits on /repo), with their REAL
// contracts, so that such an edit is judged by the labels below instead of being refused by the front end:
// `iN::signum` = -1 / 0 / 1 by sign (total, no overflow); `u32::wrapping_sub` has a vstd specification
// (difference mod 2^32); `X.wrapping_sub(Y) as i32` is the two's-complement reinterpretation of the u32
// (Verus leaves an out-of-range exec cast unspecified, so the cast is routed through `u32_as_i32`).
pub assume_specification[i8::signum](x: i8) -> (r: i8)
    ensures r == (if x > 0 { 1i8 } else if x < 0 { -1i8 } else { 0i8 });
pub assume_specification[i32::signum](x: i32) -> (r: i32)
    ensures r == (if x > 0 { 1i32 } else if x < 0 { -1i32 } else { 0i32 });
pub assume_specification[i64::signum](x: i64) -> (r: i64)
    ensures r == (if x > 0 { 1i64 } else if x < 0 { -1i64 } else { 0i64 });
/// `x as i32` for `x: u32` (Rust reference: integer casts between same-size types are a no-op on the bits)
#[verifier::external_body]
fn u32_as_i32(x: u32) -> (r: i32)
    ensures r as int == (if x < 0x8000_0000u32 { x as int } else { x as int - 0x1_0000_0000 }),
{ x as i32 }

fn compare_position(chrom1: u32, chrom1_base: u32, chrom2: u32, chrom2_base: u32) -> (r: i8)
    ensures
        
        r == -1 || r == 0 || r == 1,
        
        r == -1 <==> pos_lt((chrom1, chrom1_base), (chrom2, chrom2_base)),
        
        r == 0 <==> (chrom1 == chrom2 && chrom1_base == chrom2_base),
        
        r == 1 <==> pos_lt((chrom2, chrom2_base), (chrom1, chrom1_base)),
{
    if chrom1 < chrom2 {
        -1
    } else if chrom1 > chrom2 {
        1
    } else if chrom1_base < chrom2_base {
        -1
    } else if chrom1_base > chrom2_base {
        1
    } else {
        0
    }
}

fn overlaps(
    chromq: u32,
    chromq_start: u32,
    chromq_end: u32,
    chromb1: u32,
    chromb1_start: u32,
    chromb2: u32,
    chromb2_end: u32,
) -> (r: bool)
    ensures
        
        r == overlaps_spec(chromq, chromq_start, chromq_end, chromb1, chromb1_start, chromb2, chromb2_end),
{
    compare_position(chromq, chromq_start, chromb2, chromb2_end) <= 0
        && compare_position(chromq, chromq_end, chromb1, chromb1_start) >= 0
}

// nodes_overlapping: iterator parameters -> Vec (R11, drops laziness only); SmallVec<[T; 4]> -> Vec<T>,
// smallvec![] -> Vec::new(); `for child in iter` -> index loop (R7).
fn nodes_overlapping(
    iter: CirTreeNodeIterator<Vec<CirTreeNodeLeaf>, Vec<CirTreeNodeNonLeaf>>,
    chrom_ix: u32,
    start: u32,
    end: u32,
) -> (r: (Vec<u64>, Vec<Block>))
    ensures
        
        iter matches CirTreeNodeIterator::Leaf(items) ==>
            r.1@ == filter_blocks(items@, chrom_ix, start, end, items@.len() as int),
        
        iter matches CirTreeNodeIterator::Leaf(items) ==> r.0@.len() == 0,
        
        iter matches CirTreeNodeIterator::NonLeaf(items) ==>
            r.0@ == filter_children(items@, chrom_ix, start, end, items@.len() as int),
        
        iter matches CirTreeNodeIterator::NonLeaf(items) ==> r.1@.len() == 0,
{
    match iter {
        CirTreeNodeIterator::Leaf(iter) => {
            let mut blocks: Vec<_> = Vec::new();
            for i__1 in 0..iter.len() 
                invariant
                    
                    blocks@ == filter_blocks(iter@, chrom_ix, start, end, i__1 as int),
                decreases
                    
                    iter.len() - i__1,
{ let child = &iter[i__1];
                let block_overlaps = overlaps(
                    chrom_ix,
                    start,
                    end,
                    child.start_chrom_ix,
                    child.start_base,
                    child.end_chrom_ix,
                    child.end_base,
                );
                if block_overlaps {
                    blocks.push(Block {
                        offset: child.data_offset,
                        size: child.data_size,
                    });
                }
            }
            (Vec::new(), blocks)
        }
        CirTreeNodeIterator::NonLeaf(iter) => {
            let mut new_childblocks: Vec<_> = Vec::new();
            for i__2 in 0..iter.len() 
                invariant
                    
                    new_childblocks@ == filter_children(iter@, chrom_ix, start, end, i__2 as int),
                decreases
                    
                    iter.len() - i__2,
{ let child = &iter[i__2];
                let block_overlaps = overlaps(
                    chrom_ix,
                    start,
                    end,
                    child.start_chrom_ix,
                    child.start_base,
                    child.end_chrom_ix,
                    child.end_base,
                );
                if block_overlaps {
                    new_childblocks.push(child.node_offset);
                }
            }
            (new_childblocks, Vec::new())
        }
    }
}

// ---------------- shims (assumed; listed in NOTES.md) ----------------
/// shim for std::io::Error (opaque)
pub struct IoError { _p: u8 }
/// shim for byteordered::Endianness (external crate; only compared and passed through)
#[derive(Clone, Copy)]
pub enum Endianness { Big, Little }
/// shim for itertools::Either (external crate): the same two variants
pub enum Either<L, R> { Left(L), Right(R) }
impl<L: Clone, R: Clone> Clone for Either<L, R> {
    fn clone(&self) -> (r: Self)
        ensures
            *self is Left ==> r is Left && cloned::<L>(self->Left_0, r->Left_0),
            *self is Right ==> r is Right && cloned::<R>(self->Right_0, r->Right_0),
    {
        match self {
            Either::Left(a) => Either::Left(a.clone()),
            Either::Right(a) => Either::Right(a.clone()),
        }
    }
}

// BBIFileInfo is only handed through to read_block_data; its types are cut from /repo so that the
// precondition "info is this file's header" can name the real field.
#[derive(Copy, Clone)]
pub enum BBIFile {
    BigWig,
    BigBed,
}
#[derive(Copy, Clone)]
pub struct ZoomHeader {
    pub reduction_level: u32,
    pub data_offset: u64,
    pub index_offset: u64,
    pub index_tree_offset: Option<u64>,
}
#[derive(Copy, Clone)]
pub struct BBIHeader {
    pub endianness: Endianness,
    pub version: u16,
    pub field_count: u16,
    pub defined_field_count: u16,

    pub zoom_levels: u16,
    pub chromosome_tree_offset: u64,
    pub full_data_offset: u64,
    pub full_index_offset: u64,
    pub full_index_tree_offset: Option<u64>,
    pub auto_sql_offset: u64,
    pub total_summary_offset: u64,
    pub uncompress_buf_size: u32,
}
#[derive(Clone)]
pub struct ChromInfo {
    pub name: String,
    pub length: u32,
    pub id: u32,
}
#[derive(Clone)]
pub struct BBIFileInfo {
    pub filetype: BBIFile,
    pub header: BBIHeader,
    pub zoom_headers: Vec<ZoomHeader>,
    pub chrom_info: Vec<ChromInfo>,
}

/// ghost content of one R-tree node (same vocabulary as unit rt_search)
pub enum Node {
    Leaf(Seq<CirTreeNodeLeaf>),
    NonLeaf(Seq<CirTreeNodeNonLeaf>),
}
/// what `nodes_overlapping` returns for a node (unit rt_nodes proves exactly this of the real function):
/// .0 = child offsets, .1 = blocks
spec fn node_kids(n: Node, q: u32, qs: u32, qe: u32) -> Seq<u64> {
    match n {
        Node::Leaf(items) => Seq::empty(),
        Node::NonLeaf(items) => filter_children(items, q, qs, qe, items.len() as int),
    }
}
spec fn node_blocks(n: Node, q: u32, qs: u32, qe: u32) -> Seq<Block> {
    match n {
        Node::Leaf(items) => filter_blocks(items, q, qs, qe, items.len() as int),
        Node::NonLeaf(items) => Seq::empty(),
    }
}
/// the ghost node an (iterator -> Vec) CirTreeNodeIterator stands for
spec fn node_of(it: CirTreeNodeIterator<Vec<CirTreeNodeLeaf>, Vec<CirTreeNodeNonLeaf>>) -> Node {
    match it {
        CirTreeNodeIterator::Leaf(v) => Node::Leaf(v@),
        CirTreeNodeIterator::NonLeaf(v) => Node::NonLeaf(v@),
    }
}

/// The immutable file as the reader sees it:
///  tree        node offset -> node, decoded in the file's own byte order (the ghost R-tree of rt_search)
///  endianness  the file's byte order (header magic)
///  ubs         the file's header.uncompress_buf_size (0 = blocks stored raw)
///  blocks      what `read_block_data` yields for a block (seek, read size bytes, inflate iff ubs > 0)
pub ghost struct FileImg {
    pub tree: Map<u64, Node>,
    pub endianness: Endianness,
    pub ubs: u32,
    pub blocks: spec_fn(Block) -> Seq<u8>,
}
/// one physical read of the inner reader: (is a node read, offset, size [0 for nodes], succeeded)
pub ghost struct ReadOp { pub node: bool, pub offset: u64, pub size: u64, pub ok: bool }

/// R11 shim for the inner reader `S: SeekableRead (+ Reopen)`: ghost file image (never changes) plus a
/// ghost log of the physical reads performed through this handle.
#[verifier::external_body]
pub struct VFileIdx { _p: u8 }
impl VFileIdx {
    pub uninterp spec fn img(&self) -> FileImg;
    pub uninterp spec fn log(&self) -> Seq<ReadOp>;
    pub open spec fn tree(&self) -> Map<u64, Node> { self.img().tree }
    pub open spec fn block_bytes(&self, b: Block) -> Seq<u8> { (self.img().blocks)(b) }

    /// ASSUMED contract of `S::reopen` (trait Reopen: "reopening should be independent with respect to
    /// seeks and reads from the original object"): may fail; the new handle denotes the SAME immutable
    /// file.  (For ReopenableFile this is "the path still names the same, unmodified file".)
    #[verifier::external_body]
    pub fn reopen(&self) -> (r: Result<VFileIdx, IoError>)
        ensures r matches Ok(f) ==> f.img() == self.img(),
    { unimplemented!() }
}

// ASSUMED contract of `read_node` (signature cut from /repo, body skipped; the decoding itself is the
// business of units rt_readnode / rt_items): may fail at any time (I/O); if it succeeds, is asked in the
// file's own byte order and node_offset is a node of the ghost tree, it yields that node's items in
// stored order.  Nothing is promised for offsets outside the ghost tree or for the other byte order.
// The file content does not change; one log entry per call.
#[verifier::external_body]
fn read_node(
    file: &mut VFileIdx,
    node_offset: u64,
    endianness: Endianness,
) -> (r: Result<CirTreeNodeIterator<Vec<CirTreeNodeLeaf>, Vec<CirTreeNodeNonLeaf>>, IoError>)
    ensures
        final(file).img() == old(file).img(),
        final(file).log() == old(file).log().push(ReadOp { node: true, offset: node_offset, size: 0, ok: r is Ok }),
        r is Ok && endianness == old(file).img().endianness && old(file).tree().contains_key(node_offset)
            ==> node_of(r->Ok_0) == old(file).tree()[node_offset],
{ unimplemented!() }

// Contract of `read_block_data` — PROVED in unit blk_read (labels read_block_data/*) under the named precondition that the
// advertised inflate buffer covers the block; here the signature is cut from /repo and the body skipped: seek + read_exact +
// libdeflater): may fail (I/O); if it succeeds and `info` carries the file's own uncompress_buf_size it
// yields THE bytes of that block -- a function of the immutable file and the block only (deterministic
// inflate).  The file content does not change; one log entry per call.
#[verifier::external_body]
fn read_block_data(
    info: &BBIFileInfo,
    read: &mut VFileIdx,
    block: &Block,
) -> (r: Result<Vec<u8>, IoError>)
    ensures
        final(read).img() == old(read).img(),
        final(read).log() == old(read).log().push(ReadOp { node: false, offset: block.offset, size: block.size, ok: r is Ok }),
        r is Ok && info.header.uncompress_buf_size == old(read).img().ubs ==> r->Ok_0@ == old(read).block_bytes(*block),
{ unimplemented!() }

/// ASSUMPTION (DESIGN 6 C03): `Block`'s derived Hash/PartialEq/Eq obey vstd's hash-table key model
/// (equal keys hash equally, `==` is structural equality) -- true of any #[derive]d impl over two u64.
/// u64 keys and std's RandomState are covered by vstd's own axioms.
#[verifier::external_body]
proof fn block_obeys_key_model()
    ensures obeys_key_model::<Block>(),
{}

// ---- stand-ins that only matter for CHANGED code (0 hits on /repo): they let an edit that filters or
// ---- slices the node items reach the verifier instead of dying as an unsupported construct.  Each is
// ---- the weakest contract: "some Vec / some index"; nothing is known about the result.
pub trait UnknownOps<T> {
    /// `.filter(|x| ..)` / `.skip_while(|x| ..)` / `.take_while(|x| ..)` with an uninterpreted closure
    fn unknown_filter(self) -> Vec<T>;
    /// `.retain(|x| ..)` with an uninterpreted closure
    fn unknown_retain(&mut self);
    /// `.partition_point(|x| ..)` / `.binary_search_by(..)`: some index <= len
    fn unknown_index(&self) -> (r: usize);
}
impl<T> UnknownOps<T> for Vec<T> {
    #[verifier::external_body]
    fn unknown_filter(self) -> Vec<T> { unimplemented!() }
    #[verifier::external_body]
    fn unknown_retain(&mut self) { unimplemented!() }
    #[verifier::external_body]
    fn unknown_index(&self) -> (r: usize) { unimplemented!() }
}
pub assume_specification<T: Clone>[<[T]>::to_vec](s: &[T]) -> (r: Vec<T>)
    ensures r@.len() == s@.len(), forall|i: int| 0 <= i < s@.len() ==> cloned::<T>(#[trigger] s@[i], r@[i]);

pub assume_specification<T: Default, E>[Result::<T, E>::unwrap_or_default](x: Result<T, E>) -> (v: T)
    ensures x matches Ok(y) ==> v == y;

// ---------------- the invariant (written from the property / DESIGN, not from the code) ----------------
/// the ghost node a cache entry stands for: Left = leaf items, Right = non-leaf items, in order
spec fn entry_node(e: Either<Vec<CirTreeNodeLeaf>, Vec<CirTreeNodeNonLeaf>>) -> Node {
    match e {
        Either::Left(v) => Node::Leaf(v@),
        Either::Right(v) => Node::NonLeaf(v@),
    }
}
/// every memoised node is THE node stored at its key: same kind, the whole item sequence, same order
spec fn nodes_ok(m: Map<u64, Either<Vec<CirTreeNodeLeaf>, Vec<CirTreeNodeNonLeaf>>>, img: FileImg) -> bool {
    forall|k: u64| #[trigger] m.contains_key(k) && img.tree.contains_key(k) ==> entry_node(m[k]) == img.tree[k]
}
/// every memoised block is THE data of its key
spec fn blocks_ok(m: Map<Block, Vec<u8>>, img: FileImg) -> bool {
    forall|b: Block| #[trigger] m.contains_key(b) ==> m[b]@ == (img.blocks)(b)
}

pub struct CachedBBIFileRead {
    read: VFileIdx,
    cir_tree_node_map: HashMap<u64, Either<Vec<CirTreeNodeLeaf>, Vec<CirTreeNodeNonLeaf>>>,
    block_data: HashMap<Block, Vec<u8>>,
}

spec fn cache_ok(c: CachedBBIFileRead) -> bool {
    nodes_ok(c.cir_tree_node_map@, c.read.img()) && blocks_ok(c.block_data@, c.read.img())
}

// Trait dispatch is dropped: the methods of `impl<S: SeekableRead> BBIFileRead for CachedBBIFileRead<S>` and
// `impl<R: Reopen + SeekableRead> Reopen for CachedBBIFileRead<R>` become inherent methods with S = VFileIdx.
impl CachedBBIFileRead {

fn get_block_data(&mut self, info: &BBIFileInfo, block: &Block) -> (r: Result<Vec<u8>, IoError>)
        requires
            
            cache_ok(*old(self)),
            
            info.header.uncompress_buf_size == old(self).read.img().ubs,
        ensures
            
            cache_ok(*final(self)),
            
            final(self).read.img() == old(self).read.img(),
            
            r matches Ok(d) ==> d@ == old(self).read.block_bytes(*block),
            
            old(self).block_data@.contains_key(*block) ==> r is Ok && final(self).read.log() == old(self).read.log()
                && final(self).block_data@ == old(self).block_data@,
            
            !old(self).block_data@.contains_key(*block) ==> final(self).read.log() == old(self).read.log().push(
                ReadOp { node: false, offset: block.offset, size: block.size, ok: r is Ok }),
            
            final(self).cir_tree_node_map@ == old(self).cir_tree_node_map@,
{
        proof { block_obeys_key_model(); }

        if let Some(data) = self.block_data.get(block) {
            return Ok(data.clone());
        }
        if self.block_data.len() >= 5000 {
            self.block_data.clear();
        }
        let data = read_block_data(info, &mut self.read, block)?;
        self.block_data.insert(*block, data.clone());
        Ok(data)
    }

// The entry API (`Entry::Occupied/Vacant`, no vstd spec) is rewritten to get/insert on the same map and key:
//   `match self.cir_tree_node_map.entry(K) {` -> `let key__ = K; match self.cir_tree_node_map.get(&key__) {`
//   `Entry::Occupied(node) =>` -> `Some(node) =>`      `node.get()` -> `node`
//   `Entry::Vacant(e) =>`     -> `None =>`             `e.insert(X)` -> `self.cir_tree_node_map.insert(key__, X)`
// iterator -> Vec (as in rt_nodes): `.into_iter()` and `.collect()` dropped.  Every other token is /repo's.
// The substitutions after `.collect()` have 0 hits on /repo: they map iterator adaptors with closures
// (unsupported by Verus) to the `unknown_*` stand-ins so that an edit using them is judged by the contract.
fn blocks_for_cir_tree_node(
        &mut self,
        endianness: Endianness,
        node_offset: u64,
        chrom_ix: u32,
        start: u32,
        end: u32,
    ) -> (r: Result<(Vec<u64>, Vec<Block>), IoError>)
        requires
            
            cache_ok(*old(self)),
            
            endianness == old(self).read.img().endianness,
        ensures
            
            cache_ok(*final(self)),
            
            final(self).read.img() == old(self).read.img(),
            
            r is Ok && old(self).read.tree().contains_key(node_offset) ==> {
                &&& r->Ok_0.0@ == node_kids(old(self).read.tree()[node_offset], chrom_ix, start, end)
                &&& r->Ok_0.1@ == node_blocks(old(self).read.tree()[node_offset], chrom_ix, start, end)
            },
            
            old(self).cir_tree_node_map@.contains_key(node_offset) ==> r is Ok && final(self).read.log() == old(self).read.log()
                && final(self).cir_tree_node_map@ == old(self).cir_tree_node_map@,
            
            !old(self).cir_tree_node_map@.contains_key(node_offset) ==> final(self).read.log() == old(self).read.log().push(
                ReadOp { node: true, offset: node_offset, size: 0, ok: r is Ok }),
            
            final(self).block_data@ == old(self).block_data@,
{
        let key__ = node_offset; match self.cir_tree_node_map.get(&key__) {
            Some(node) => {
                let iter = match node {
                    Either::Left(v) => CirTreeNodeIterator::Leaf(v.clone()),
                    Either::Right(v) => CirTreeNodeIterator::NonLeaf(v.clone()),
                };
                Ok(nodes_overlapping(iter, chrom_ix, start, end))
            }
            None => {
                let iter = match read_node(&mut self.read, node_offset, endianness) {
                    Ok(d) => d,
                    Err(e) => return Err(e),
                };
                let iter = match iter {
                    CirTreeNodeIterator::Leaf(v) => {
                        let v: Vec<_> = v;
                        self.cir_tree_node_map.insert(key__,Either::Left(v.clone()));
                        CirTreeNodeIterator::Leaf(v)
                    }
                    CirTreeNodeIterator::NonLeaf(v) => {
                        let v: Vec<_> = v;
                        self.cir_tree_node_map.insert(key__,Either::Right(v.clone()));
                        CirTreeNodeIterator::NonLeaf(v)
                    }
                };

                Ok(nodes_overlapping(iter, chrom_ix, start, end))
            }
        }
    }

fn reopen(&self) -> (r: Result<Self, IoError>)
        requires
            
            cache_ok(*self),
        ensures
            
            r matches Ok(c) ==> cache_ok(c) && c.read.img() == self.read.img(),
            
            r matches Ok(c) ==> c.cir_tree_node_map@.dom() == self.cir_tree_node_map@.dom()
                && forall|k: u64| #[trigger] self.cir_tree_node_map@.contains_key(k) ==> entry_node(c.cir_tree_node_map@[k]) == entry_node(self.cir_tree_node_map@[k]),
            
            r matches Ok(c) ==> c.block_data@.dom() == self.block_data@.dom()
                && forall|b: Block| #[trigger] self.block_data@.contains_key(b) ==> c.block_data@[b]@ == self.block_data@[b]@,
{
        proof { block_obeys_key_model(); }

        Ok(Self {
            read: self.read.reopen()?,
            cir_tree_node_map: self.cir_tree_node_map.clone(),
            block_data: self.block_data.clone(),
        })
    }

// `new` (impl<S: SeekableRead> CachedBBIFileRead<S>): a fresh caching reader is coherent (both caches empty).
fn new(read: VFileIdx) -> (r: Self)
        ensures
            
            cache_ok(r) && r.read == read && r.cir_tree_node_map@.len() == 0 && r.block_data@.len() == 0,
{
        proof { block_obeys_key_model(); }

        CachedBBIFileRead {
            read,
            cir_tree_node_map: HashMap::new(),
            block_data: HashMap::new(),
        }
    }

} // impl CachedBBIFileRead

// ---------------- the UNCACHED reader, for comparison ----------------
// `impl<S: SeekableRead> BBIFileRead for S` with S = VFileIdx (R11, by placing the methods in `impl VFileIdx`):
// the same extraction as in unit rt_search, the contract stated in the same terms.
impl VFileIdx {
fn blocks_for_cir_tree_node(
        &mut self,
        endianness: Endianness,
        node_offset: u64,
        chrom_ix: u32,
        start: u32,
        end: u32,
    ) -> (r: Result<(Vec<u64>, Vec<Block>), IoError>)
        ensures
            
            final(self).img() == old(self).img(),
            
            final(self).log() == old(self).log().push(ReadOp { node: true, offset: node_offset, size: 0, ok: r is Ok }),
            
            r is Ok && endianness == old(self).img().endianness && old(self).tree().contains_key(node_offset) ==> {
                &&& r->Ok_0.0@ == node_kids(old(self).tree()[node_offset], chrom_ix, start, end)
                &&& r->Ok_0.1@ == node_blocks(old(self).tree()[node_offset], chrom_ix, start, end)
            },
{
        let iter = match read_node(self, node_offset, endianness) {
            Ok(d) => d,
            Err(e) => return Err(e),
        };

        Ok(nodes_overlapping(iter, chrom_ix, start, end))
    }

fn get_block_data(&mut self, info: &BBIFileInfo, block: &Block) -> (r: Result<Vec<u8>, IoError>)
        ensures
            
            final(self).img() == old(self).img(),
            
            r is Ok && info.header.uncompress_buf_size == old(self).img().ubs ==> r->Ok_0@ == old(self).block_bytes(*block),
{
        read_block_data(info, self, block)
    }
} // impl VFileIdx

// ---------------- "after any sequence of earlier queries", "through a reopened reader" ----------------
// The drivers below call the extracted methods above (nothing is re-implemented) with a symbolic history.
/// one earlier operation on the caching reader
pub enum Op {
    /// an index-node query (any offset, any range)
    Nodes { node_offset: u64, chrom_ix: u32, start: u32, end: u32 },
    /// a block fetch (any block)
    Data { block: Block },
    /// continue on `reopen()` of the reader (if reopening fails, continue on the old one)
    Reopen,
}

/// run an arbitrary history on a caching reader; results are discarded, errors ignored
fn replay(c: &mut CachedBBIFileRead, info: &BBIFileInfo, endianness: Endianness, ops: &Vec<Op>)
    requires
        cache_ok(*old(c)),
        endianness == old(c).read.img().endianness,
        info.header.uncompress_buf_size == old(c).read.img().ubs,
    ensures
        
        cache_ok(*final(c)) && final(c).read.img() == old(c).read.img(),
{
    let mut i: usize = 0;
    while i < ops.len()
        invariant
            
            cache_ok(*c) && c.read.img() == old(c).read.img(),
            endianness == c.read.img().endianness,
            info.header.uncompress_buf_size == c.read.img().ubs,
        decreases
            
            ops.len() - i,
    {
        match &ops[i] {
            Op::Nodes { node_offset, chrom_ix, start, end } => {
                let _ = c.blocks_for_cir_tree_node(endianness, *node_offset, *chrom_ix, *start, *end);
            }
            Op::Data { block } => {
                let _ = c.get_block_data(info, block);
            }
            Op::Reopen => {
                match c.reopen() {
                    Ok(c2) => { *c = c2; }
                    Err(_) => {}
                }
            }
        }
        i = i + 1;
    }
}

/// A fresh caching reader over `read`, ANY history, then the index-node query q: the answer equals the
/// answer of the uncached reader `plain` (another handle on the same immutable file) to the same query.
fn driver_node_query_after_any_history(read: VFileIdx, plain: &mut VFileIdx, info: &BBIFileInfo, endianness: Endianness,
    ops: &Vec<Op>, node_offset: u64, chrom_ix: u32, start: u32, end: u32)
    -> (r: (Result<(Vec<u64>, Vec<Block>), IoError>, Result<(Vec<u64>, Vec<Block>), IoError>))
    requires
        old(plain).img() == read.img(),
        endianness == read.img().endianness,
        info.header.uncompress_buf_size == read.img().ubs,
    ensures
        
        r.0 is Ok && r.1 is Ok && read.tree().contains_key(node_offset) ==>
            r.0->Ok_0.0@ == r.1->Ok_0.0@ && r.0->Ok_0.1@ == r.1->Ok_0.1@,
{
    let mut c = CachedBBIFileRead::new(read);
    replay(&mut c, info, endianness, ops);
    let a = c.blocks_for_cir_tree_node(endianness, node_offset, chrom_ix, start, end);
    let b = plain.blocks_for_cir_tree_node(endianness, node_offset, chrom_ix, start, end);
    (a, b)
}

/// ... then the block fetch: the data equals what the uncached reader returns for the same block.
fn driver_block_fetch_after_any_history(read: VFileIdx, plain: &mut VFileIdx, info: &BBIFileInfo, endianness: Endianness,
    ops: &Vec<Op>, block: &Block)
    -> (r: (Result<Vec<u8>, IoError>, Result<Vec<u8>, IoError>))
    requires
        old(plain).img() == read.img(),
        endianness == read.img().endianness,
        info.header.uncompress_buf_size == read.img().ubs,
    ensures
        
        r.0 is Ok && r.1 is Ok ==> r.0->Ok_0@ == r.1->Ok_0@,
{
    let mut c = CachedBBIFileRead::new(read);
    replay(&mut c, info, endianness, ops);
    let a = c.get_block_data(info, block);
    let b = plain.get_block_data(info, block);
    (a, b)
}

} // verus!
fn main() {}

