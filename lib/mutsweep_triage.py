#!/usr/bin/env python3
"""mutsweep_triage.py [results.json]: sorts the survivors of lib/mutsweep.py into the classes of notes/MUTSWEEP_TRIAGE.md
(pattern rules written after reading every survivor once; a survivor no rule matches is listed under Z)."""
import collections, json, re, sys
res = json.load(open(sys.argv[1] if len(sys.argv) > 1 else '/var/tmp/mutsweep.json'))
surv = [r for r in res if r[0] == 0]
RULES = [
 ('A not code (`<`, `>`, `+`, `||` inside a type, a generic bound, a turbofish or a closure header: the mutant does not compile; the line is substituted away before Verus sees it)',
  lambda k, c, d: bool(re.search(r'(Option<\w+>,|HashMap<String, u32>,|^\) -> Result<|\+ Send|parse::<|chrom_ids: &HashMap|: Vec<|ArrayViewMut<)', c)) or (k == 'or->and' and bool(re.search(r'\|\| (\{|crate|io::)|\(\|\| ', c))) or (k == 'delete-stmt' and bool(re.search(r'^\.\w+\(.*\)\??;$', c)))),
 ('B capacity / size hints, and split limits beyond the fields used (same result for every input)',
  lambda k, c, d: bool(re.search(r'with_capacity|max_sections \+= 1|splitn\(|channel_size|\[_; 4\]|vec!\[0; uncompress_buf_size\]', c))),
 ('C autoSql parser (re-run with unit asql_parse enabled: 51 of 52 sites of the autoSql units are killed)', lambda k, c, d: 'autosql.rs' in d),
 ('D block read path (closed by unit blk_read)', lambda k, c, d: bool(re.search(r'bbiread.rs:(130[0-9]|131[0-9])|extend_from_slice', d))),
 ('E cache policy (what is cached, when the cache is flushed: unit cache proves cached == uncached)', lambda k, c, d: bool(re.search(r'block_data\.(len|clear|insert)|e\.insert\(Either', c))),
 ('F binned Python fillers: float bin arithmetic / accumulation (NOT decided in Verus, stated in MANIFEST; bounded Kani lane py_bins)', lambda k, c, d: 'pylib.rs' in d),
 ('G FileView: weakened `assert!`s and the `current == None` recovery branch after an I/O error (outside C18, stated)', lambda k, c, d: 'file_view.rs' in d),
 ('H ValueIter: overlap branch of `insert_into_queue` is dead at its only call site (call-site precondition proved); held-back last run only decides whether two equal adjacent runs are merged', lambda k, c, d: bool(re.search(r'merge.rs:(4[0-9][0-9])', d))),
 ('I indexer (triaged one by one in contracts/index/NOTES.md: equivalent probe gating, dead `linear_index`, not code)', lambda k, c, d: 'indexer.rs' in d),
 ('J which of two equivalent paths runs (serial/parallel, single/multi-threaded, prefetch depth, fd chunking): descriptive `doc/` labels by design', lambda k, c, d: bool(re.search(r'nthreads|"no"\)|"yes"\)|"auto"\)|200_000_000|queued_reads|remaining|max_bw_fds|parallel = ', c))),
 ('K default option values (every property holds for all option values in the proved ranges; unit ctors pins only that the defaults lie inside them) and zoom-size candidate bounds (which levels are built is not prescribed)', lambda k, c, d: bool(re.search(r'compress: true|inmemory: false|max_zooms|initial_zoom_size|DEFAULT_|MAX_ZOOM|u64::MAX / 4', c))),
 ('L initial field values that are overwritten before use', lambda k, c, d: bool(re.search(r'total_items: 0|bases_covered: 0|start: 0|bases: 0', c))),
 ('M converters: `--zoom` mode and overlap-BED mode (NOT decided, stated in MANIFEST C16)', lambda k, c, d: bool(re.search(r'bigbedtobed.rs:(1[3-5][0-9]|2[89][0-9]|30[0-9])|bigwigtobedgraph.rs:(2[3-6][0-9])', d))),
 ('N blocking / drop order / channel sends (a consumer that blocks or panics on a closed channel: scheduling, not modelled; C11 not claimed)', lambda k, c, d: bool(re.search(r'^drop\(|\.send\(', c))),
 ('O num_with_commas variants proved equal to the grouped decimal digits for all u64 (unit info_tools)', lambda k, c, d: bool(re.search(r'num > 1000|num -= remainder', c))),
]
cls = collections.OrderedDict()
for rc, desc, vs in surv:
    code = desc.split('`')[1] if '`' in desc else ''
    kind = desc.split(' ')[0]
    for name, f in RULES:
        if f(kind, code, desc): cls.setdefault(name, []).append((desc, vs)); break
    else: cls.setdefault('Z remaining', []).append((desc, vs))
for k in sorted(cls): print('## %s — %d\n' % (k, len(cls[k]))); [print('* %s  — units: %s' % (d, ', '.join(v[0] for v in vs))) for d, vs in cls[k]]; print()
