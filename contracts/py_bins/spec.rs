// Plain-Rust statement of C20 for the binned fillers, written from the property text (not from the code).
// Shared verbatim by the Kani harnesses (harness.rs) and the cargo-test replays.
//
//   "With N bins in exact mode each bin reports the mean, minimum or maximum over the covered bases of its
//    span and `missing` when none is covered, never NaN for finite data and finite `missing`; requested
//    portions outside the chromosome are filled with the out-of-bounds value."
//
// A layout is a fixed-size array + a count (no allocation: cheap for CBMC).

pub const MAXN: usize = 3;

#[derive(Clone, Copy, Debug, PartialEq)]
pub enum Stat {
    Mean,
    Min,
    Max,
}

/// bigWig: the stored value at base p (`vals[..n]` = (start, end, value), pairwise disjoint)
pub fn bw_at(vals: &[(u32, u32, f32); MAXN], n: usize, p: i64) -> Option<f64> {
    let mut k = 0;
    while k < n {
        if (vals[k].0 as i64) <= p && p < (vals[k].1 as i64) {
            return Some(vals[k].2 as f64);
        }
        k += 1;
    }
    None
}

/// bigBed: the value at base p = number of entries covering it; "no data" when that number is 0
pub fn bb_at(ents: &[(u32, u32); MAXN], n: usize, p: i64) -> Option<f64> {
    let mut c = 0u32;
    let mut k = 0;
    while k < n {
        if (ents[k].0 as i64) <= p && p < (ents[k].1 as i64) {
            c += 1;
        }
        k += 1;
    }
    if c == 0 {
        None
    } else {
        Some(c as f64)
    }
}

/// Span of bin b when the width (end - start) / bins is integral: [start + b*w, start + (b+1)*w).
pub fn bin_span(start: i32, end: i32, bins: usize, b: usize) -> (i64, i64) {
    let w = ((end - start) as i64) / (bins as i64);
    let lo = start as i64 + (b as i64) * w;
    (lo, lo + w)
}

/// Fold of the statistic over the covered bases of [lo, hi): None when no base is covered.
/// `at(p)` is the per-base value (None = no data); bases outside [0, length) carry no data.
pub fn fold_span(stat: Stat, lo: i64, hi: i64, length: i64, at: &dyn Fn(i64) -> Option<f64>) -> Option<f64> {
    let mut acc: Option<f64> = None;
    let mut cnt: u32 = 0;
    let mut p = lo;
    while p < hi {
        if p >= 0 && p < length {
            if let Some(x) = at(p) {
                cnt += 1;
                acc = Some(match (stat, acc) {
                    (_, None) => x,
                    (Stat::Mean, Some(a)) => a + x,
                    (Stat::Min, Some(a)) => if x < a { x } else { a },
                    (Stat::Max, Some(a)) => if x > a { x } else { a },
                });
            }
        }
        p += 1;
    }
    match (stat, acc) {
        (Stat::Mean, Some(a)) => Some(a / cnt as f64),
        (_, a) => a,
    }
}

/// equal up to 1e-9 relative (the code sums width*value per interval, the oracle sums per base)
pub fn close(a: f64, b: f64) -> bool {
    if a == b {
        return true;
    }
    let d = if a > b { a - b } else { b - a };
    let ma = if a < 0.0 { -a } else { a };
    let mb = if b < 0.0 { -b } else { b };
    let m = if ma > mb { ma } else { mb };
    d <= 1e-9 * m
}

/// What the reader hands to the bigWig fillers for request [start, end) on a chromosome of `length`:
/// values sorted, non-empty, pairwise disjoint, clipped to [max(start,0), min(end,length)).
pub fn bw_layout_ok(vals: &[(u32, u32, f32); MAXN], n: usize, start: i32, end: i32, length: i32) -> bool {
    let qs = if start > 0 { start as i64 } else { 0 };
    let qe = if end < length { end as i64 } else { length as i64 };
    let mut prev_end = qs;
    let mut k = 0;
    while k < n {
        let (s, e) = (vals[k].0 as i64, vals[k].1 as i64);
        if !(prev_end <= s && s < e && e <= qe) {
            return false;
        }
        prev_end = e;
        k += 1;
    }
    true
}

/// What the reader hands to the bigBed fillers: entries inside the chromosome, non-empty, sorted by start,
/// each TOUCHING the query [max(start,0), min(end,length)] (`e.end >= qs && e.start <= qe`), NOT clipped.
pub fn bb_layout_ok(ents: &[(u32, u32); MAXN], n: usize, start: i32, end: i32, length: i32) -> bool {
    let qs = if start > 0 { start as i64 } else { 0 };
    let qe = if end < length { end as i64 } else { length as i64 };
    let mut prev_start = 0i64;
    let mut k = 0;
    while k < n {
        let (s, e) = (ents[k].0 as i64, ents[k].1 as i64);
        if !(prev_start <= s && s < e && e <= length as i64 && e >= qs && s <= qe) {
            return false;
        }
        prev_start = s;
        k += 1;
    }
    true
}
