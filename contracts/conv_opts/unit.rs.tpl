//@unit conv_opts
//@serves C16
//@backend verus
// bedgraphtobigwig / bedtobigbed (CLI): option plumbing and the mode matrix -- the "converting ..." half of C16.
//   C16: "Converting bedGraph to bigWig ..., or BED to bigBed ..., with the command-line tools returns the original
//         records ... This holds for any thread count, parallel mode and pass mode ..." quantified over
//         "-t in 1..16, --parallel in {auto,yes,no}, --single-pass on/off, --inmemory, --uncompressed, --block-size,
//          --zooms".
// Here, per call, on the WHOLE text of the two functions cut from /repo on every run (two carve-outs each: the
// chrom.sizes parser expression and the `|| { .. }` arguments of write_multipass, see NOTES.md): whatever the
// options, the tool makes AT MOST ONE write call; that call gets the file named by the FIRST argument (or stdin)
// as its source, the output path and the sizes of the chrom.sizes file as its destination, and each writer option
// from ITS command-line argument.  Which writer entry / source kind a configuration selects, and the documented
// cancellations, are stated under `doc/` labels (descriptive: every choice round-trips).
// Device: the file system and the writer are shims; every `write` / `write_multipass` call appends one event
// (destination, options, source description, entry, runtime) to the ghost log `Env::writes()`.
// NOT covered: clap parsing, compat_args, the writers themselves, the sources (bedparse, chunks, feed, ...).
use vstd::prelude::*;
// messages on stderr are not modelled
#[allow(unused_macros)]
macro_rules! eprintln {
    ($($t:tt)*) => { () };
}
verus! {

// =====================================================================================
// opaque stand-ins (R11)
// =====================================================================================
/// `String` (paths, option values): opaque; `text()` is its content as a string constant
#[verifier::external_body] pub struct Str { _p: u8 }
impl Str {
    pub uninterp spec fn text(&self) -> &str;
    /// `String::as_ref()` / `as_str()`: the text
    #[verifier::external_body] pub fn as_ref(&self) -> (r: &str) ensures r == self.text(), { unimplemented!() }
    #[verifier::external_body] pub fn as_str(&self) -> (r: &str) ensures r == self.text(), { unimplemented!() }
    /// `s == "literal"`
    #[verifier::external_body] pub fn eq_lit(&self, lit: &str) -> (r: bool) ensures r == (self.text() == lit), { unimplemented!() }
    // plausible foreign calls: nothing promised
    #[verifier::external_body] pub fn is_empty(&self) -> bool { unimplemented!() }
    #[verifier::external_body] pub fn len(&self) -> usize { unimplemented!() }
    #[verifier::external_body] pub fn to_lowercase(&self) -> Str { unimplemented!() }
}
impl Clone for Str {
    #[verifier::external_body] fn clone(&self) -> (r: Str) ensures r == *self, { unimplemented!() }
}
/// `PathBuf::from(s)`: the same path
pub struct PathBuf {}
impl PathBuf {
    #[verifier::external_body] pub fn from(s: Str) -> (r: Str) ensures r == s, { unimplemented!() }
}
/// `impl AsRef<Path>` arguments: a String or a reference to one
pub trait PathArg: Sized { spec fn name(&self) -> Str; }
impl PathArg for Str { open spec fn name(&self) -> Str { *self } }
impl PathArg for &Str { open spec fn name(&self) -> Str { **self } }
/// io::Error
#[verifier::external_body] pub struct IoErr { _p: u8 }
/// BBIProcessError<..> of the writers
#[verifier::external_body] pub struct WriteErr { _p: u8 }
/// Box<dyn Error> / anyhow::Error (which error: lost behind `?`)
#[verifier::external_body] pub struct AnyErr { _p: u8 }
impl From<IoErr> for AnyErr { #[verifier::external_body] fn from(e: IoErr) -> AnyErr { unimplemented!() } }
impl From<WriteErr> for AnyErr { #[verifier::external_body] fn from(e: WriteErr) -> AnyErr { unimplemented!() } }
/// HashMap<String, u32> parsed from the chrom.sizes file
#[verifier::external_body] pub struct SizeMap { _p: u8 }
/// the per-chromosome offsets `index_chroms` returns
#[verifier::external_body] pub struct Index { _p: u8 }
impl Clone for Index {
    #[verifier::external_body] fn clone(&self) -> (r: Index) ensures r == *self, { unimplemented!() }
}
/// the output `File` inside the writer
#[verifier::external_body] pub struct OutFile { _p: u8 }
impl OutFile { pub uninterp spec fn path(&self) -> Str; }

// =====================================================================================
// the repository's types
// =====================================================================================
//@extract enum bigtools/src/bbi/bbiwrite.rs InputSortType
//@rule R8
//@end
//@extract struct bigtools/src/bbi/bbiwrite.rs BBIWriteOptions
//@rule R8
//@sub /#\[derive\(Clone\)\]\n/ => "" min=0
//@end
//@extract struct bigtools/src/bbi/bigwigwrite.rs BigWigWrite
//@rule R8
//@sub /<W: Write \+ Seek \+ Send \+ 'static>/ => "" min=1
//@sub /out: W,/ => pub out: OutFile, min=1
//@sub /chrom_sizes: HashMap<String, u32>,/ => pub chrom_sizes: SizeMap, min=1
//@end
//@extract struct bigtools/src/bbi/bigbedwrite.rs BigBedWrite
//@rule R8
//@sub /<W: Write \+ Seek \+ Send \+ 'static>/ => "" min=1
//@sub /out: W,/ => pub out: OutFile, min=1
//@sub /chrom_sizes: HashMap<String, u32>,/ => pub chrom_sizes: SizeMap, min=1
//@sub /Option<String>/ => Option<Str> min=1
//@end
// the tools' arguments (clap attributes dropped)
//@extract struct bigtools/src/utils/cli.rs BBIWriteArgs
//@rule R8
//@sub /#\[derive\(Clone\)\]\n/ => "" min=0
//@sub /[ \t]*#\[arg\([^\n]*\)\]\n/ => "" min=0
//@sub /\bString\b/ => Str min=0
//@end
//@extract struct bigtools/src/utils/cli/bedgraphtobigwig.rs BedGraphToBigWigArgs
//@rule R8
//@sub /#\[derive\(Clone\)\]\n/ => "" min=0
//@sub /#\[command\(.*?\n\)\]\n/ => "" min=0
//@sub /[ \t]*#\[(?:arg|command)\([^\n]*\)\]\n/ => "" min=0
//@sub /\bString\b/ => Str min=0
//@end
//@extract struct bigtools/src/utils/cli/bedtobigbed.rs BedToBigBedArgs
//@rule R8
//@sub /#\[derive\(Clone\)\]\n/ => "" min=0
//@sub /#\[command\(.*?\n\)\]\n/ => "" min=0
//@sub /[ \t]*#\[(?:arg|command)\([^\n]*\)\]\n/ => "" min=0
//@sub /\bString\b/ => Str min=0
//@end

// =====================================================================================
// the file system, the sources, the runtime, the writers -- as far as this code sees them
// =====================================================================================
pub ghost enum Where { Stdin, Path(Str) }
pub enum Fmt { BedGraph, Bed }
/// deterministic file system (ASSUMED)
pub uninterp spec fn fs_can_open(p: Str) -> bool;
pub uninterp spec fn fs_len(p: Str) -> u64;
/// what `index_chroms` finds in the file named p: Ok(None) = not sorted by chromosome (no index)
pub uninterp spec fn fs_index(p: Str) -> Result<Option<Index>, IoErr>;
/// the table the chrom.sizes parser builds from the file
pub uninterp spec fn sizes_of(w: Where) -> SizeMap;
pub uninterp spec fn fs_content(p: Str) -> Str;
/// the writer options `create_file` starts from (BBIWriteOptions::default())
pub uninterp spec fn default_options() -> BBIWriteOptions;

/// `File` opened for reading / `StdinLock`
#[verifier::external_body] pub struct InFile { _p: u8 }
#[verifier::external_body] pub struct Meta { _p: u8 }
impl InFile {
    pub uninterp spec fn from(&self) -> Where;
    /// may fail (nothing promised about when)
    #[verifier::external_body]
    pub fn metadata(&self) -> (r: Result<Meta, IoErr>) ensures r matches Ok(m) ==> m.of() == self.from(), { unimplemented!() }
}
impl Meta {
    pub uninterp spec fn of(&self) -> Where;
    #[verifier::external_body]
    pub fn len(&self) -> (r: u64) ensures self.of() matches Where::Path(p) ==> r == fs_len(p), { unimplemented!() }
}
/// `crate::bed::indexer::index_chroms(file)`
#[verifier::external_body]
pub fn index_chroms(f: InFile) -> (r: Result<Option<Index>, IoErr>)
    ensures f.from() matches Where::Path(p) ==> r == fs_index(p),
{ unimplemented!() }

/// what a source reads and how: the description the write event records
pub ghost enum SrcSpec {
    /// BedParserStreamingIterator::from_{bedgraph,bed}_file(file, allow_out_of_order_chroms)
    Serial { from: Where, allow: bool, fmt: Fmt },
    /// BedParserParallelStreamingIterator::new(index, allow_out_of_order_chroms, path, parser)
    Parallel { index: Index, allow: bool, path: Str, fmt: Fmt },
}
#[verifier::external_body] pub struct Src { _p: u8 }
impl Src { pub uninterp spec fn desc(&self) -> SrcSpec; }
pub struct BedParserStreamingIterator {}
impl BedParserStreamingIterator {
    #[verifier::external_body]
    pub fn from_bedgraph_file(f: InFile, allow_out_of_order_chroms: bool) -> (r: Src)
        ensures r.desc() == (SrcSpec::Serial { from: f.from(), allow: allow_out_of_order_chroms, fmt: Fmt::BedGraph }),
    { unimplemented!() }
    #[verifier::external_body]
    pub fn from_bed_file(f: InFile, allow_out_of_order_chroms: bool) -> (r: Src)
        ensures r.desc() == (SrcSpec::Serial { from: f.from(), allow: allow_out_of_order_chroms, fmt: Fmt::Bed }),
    { unimplemented!() }
}
pub struct BedParserParallelStreamingIterator {}
impl BedParserParallelStreamingIterator {
    #[verifier::external_body]
    pub fn new(index: Index, allow_out_of_order_chroms: bool, path: Str, parser: Fmt) -> (r: Src)
        ensures r.desc() == (SrcSpec::Parallel { index, allow: allow_out_of_order_chroms, path, fmt: parser }),
    { unimplemented!() }
}

/// tokio runtime: current-thread, or multi-thread with that many workers (None: tokio's default)
pub ghost enum RtKind { Current, Multi(Option<usize>) }
#[verifier::external_body] pub struct Runtime { _p: u8 }
impl Runtime { pub uninterp spec fn kind(&self) -> RtKind; }
pub mod runtime {
    use super::*;
    #[verifier::external_body] pub struct Builder { _p: u8 }
    #[verifier::external_body] pub struct BuildRes { _p: u8 }
    impl Builder {
        pub uninterp spec fn kind(&self) -> RtKind;
        #[verifier::external_body] pub fn new_current_thread() -> (r: Builder) ensures r.kind() == RtKind::Current, { unimplemented!() }
        #[verifier::external_body] pub fn new_multi_thread() -> (r: Builder) ensures r.kind() == RtKind::Multi(None), { unimplemented!() }
        /// real signature: `&mut self -> &mut Self`
        #[verifier::external_body]
        pub fn worker_threads(self, n: usize) -> (r: Builder)
            ensures self.kind() is Multi ==> r.kind() == RtKind::Multi(Some(n)), self.kind() is Current ==> r.kind() == RtKind::Current,
        { unimplemented!() }
        #[verifier::external_body] pub fn enable_all(self) -> (r: Builder) ensures r.kind() == self.kind(), { unimplemented!() }
        #[verifier::external_body] pub fn build(self) -> (r: BuildRes) ensures r.kind() == self.kind(), { unimplemented!() }
    }
    impl BuildRes {
        pub uninterp spec fn kind(&self) -> RtKind;
        /// a failing build PANICS (not modelled)
        #[verifier::external_body] pub fn unwrap(self) -> (r: Runtime) ensures r.kind() == self.kind(), { unimplemented!() }
    }
}

/// one call of a writer entry: everything it was given
pub ghost struct WriteEv {
    pub out: Str,
    pub sizes: SizeMap,
    pub options: BBIWriteOptions,
    pub autosql: Option<Str>,
    pub src: SrcSpec,
    /// false: `write` (single pass), true: `write_multipass` (the source is built once per pass)
    pub multipass: bool,
    pub rt: RtKind,
}
/// ghost record of the writer calls + handle on the file system
#[verifier::external_body] pub struct Env { _p: u8 }
impl Env {
    pub uninterp spec fn writes(&self) -> Seq<WriteEv>;
    /// `File::open(p)` (p: `String` or `&String`)
    #[verifier::external_body]
    pub fn open<P: PathArg>(&mut self, p: P) -> (r: Result<InFile, IoErr>)
        ensures final(self).writes() == old(self).writes(), r is Ok <==> fs_can_open(p.name()), r matches Ok(f) ==> f.from() == Where::Path(p.name()),
    { unimplemented!() }
    /// `std::io::stdin().lock()`
    #[verifier::external_body]
    pub fn stdin_lock(&mut self) -> (r: InFile) ensures final(self).writes() == old(self).writes(), r.from() == Where::Stdin, { unimplemented!() }
    /// `std::fs::read_to_string(p)`
    #[verifier::external_body]
    pub fn read_to_string(&mut self, p: &Str) -> (r: Result<Str, IoErr>)
        ensures final(self).writes() == old(self).writes(), r matches Ok(t) ==> t == fs_content(*p),
    { unimplemented!() }
    /// the chrom.sizes parser: `BufReader::new(FILE).lines().filter(non-empty).map(split_whitespace ..).collect()`
    /// (iterator adaptors: outside Verus).  ASSUMED: a function of the file.  It PANICS on a malformed line
    /// (`expect("Missing size")`, `parse::<u32>().unwrap()`): a panic returns nothing -- see NOTES.
    #[verifier::external_body]
    pub fn parse_chrom_sizes(&mut self, f: InFile) -> (r: SizeMap)
        ensures final(self).writes() == old(self).writes(), r == sizes_of(f.from()),
    { unimplemented!() }
}
/// bedtobigbed's choice of the autoSql text for file input (`let autosql = match args.autosql.as_ref() { .. };`):
/// unit autosql_choice; here a stub that writes nothing
#[verifier::external_body]
pub fn autosql_choice(env: &mut Env, given: &Option<Str>, bedpath: &Str) -> (r: Result<Option<Str>, AnyErr>)
    ensures final(env).writes() == old(env).writes(),
{ unimplemented!() }

impl BigWigWrite {
    /// `BigWigWrite::create_file(path, chrom_sizes)`: creates (truncates) the output file, default options
    #[verifier::external_body]
    pub fn create_file(path: Str, chrom_sizes: SizeMap) -> (r: Result<BigWigWrite, IoErr>)
        ensures r matches Ok(w) ==> w.out.path() == path && w.chrom_sizes == chrom_sizes && w.options == default_options(),
    { unimplemented!() }
    #[verifier::external_body]
    pub fn write(self, env: &mut Env, vals: Src, rt: Runtime) -> (r: Result<(), WriteErr>)
        ensures final(env).writes() == old(env).writes().push(WriteEv { out: self.out.path(), sizes: self.chrom_sizes, options: self.options,
            autosql: None, src: vals.desc(), multipass: false, rt: rt.kind() }),
    { unimplemented!() }
    /// `write_multipass(|| { BODY }, runtime)`: the closure is called once per pass (twice).  Here (presub, see NOTES)
    /// BODY is evaluated ONCE at the call site and its result is passed in.
    #[verifier::external_body]
    pub fn write_multipass(self, make_vals: Result<Src, AnyErr>, rt: Runtime, env: &mut Env) -> (r: Result<(), WriteErr>)
        ensures
            make_vals matches Ok(vals) ==> final(env).writes() == old(env).writes().push(WriteEv { out: self.out.path(), sizes: self.chrom_sizes,
                options: self.options, autosql: None, src: vals.desc(), multipass: true, rt: rt.kind() }),
            make_vals is Err ==> final(env).writes() == old(env).writes() && r is Err,
    { unimplemented!() }
}
impl BigBedWrite {
    #[verifier::external_body]
    pub fn create_file(path: Str, chrom_sizes: SizeMap) -> (r: Result<BigBedWrite, IoErr>)
        ensures r matches Ok(w) ==> w.out.path() == path && w.chrom_sizes == chrom_sizes && w.options == default_options() && w.autosql is None,
    { unimplemented!() }
    #[verifier::external_body]
    pub fn write(self, env: &mut Env, vals: Src, rt: Runtime) -> (r: Result<(), WriteErr>)
        ensures final(env).writes() == old(env).writes().push(WriteEv { out: self.out.path(), sizes: self.chrom_sizes, options: self.options,
            autosql: self.autosql, src: vals.desc(), multipass: false, rt: rt.kind() }),
    { unimplemented!() }
    #[verifier::external_body]
    pub fn write_multipass(self, make_vals: Result<Src, AnyErr>, rt: Runtime, env: &mut Env) -> (r: Result<(), WriteErr>)
        ensures
            make_vals matches Ok(vals) ==> final(env).writes() == old(env).writes().push(WriteEv { out: self.out.path(), sizes: self.chrom_sizes,
                options: self.options, autosql: self.autosql, src: vals.desc(), multipass: true, rt: rt.kind() }),
            make_vals is Err ==> final(env).writes() == old(env).writes() && r is Err,
    { unimplemented!() }
}

// =====================================================================================
// specification vocabulary
// =====================================================================================
/// `--sorted`: all / start; anything else (including the declared `none`) is refused
pub open spec fn sort_of(s: &str) -> Option<InputSortType> {
    if s == "all" { Some(InputSortType::ALL) } else if s == "start" { Some(InputSortType::START) } else { None }
}
pub open spec fn is_stdin(p: Str) -> bool { p.text() == "-" || p.text() == "stdin" || p.text() == "/dev/stdin" }
/// the input: the FIRST positional argument, or stdin for its three spellings
pub open spec fn input_of(p: Str) -> Where { if is_stdin(p) { Where::Stdin } else { Where::Path(p) } }
/// doc: is a parallel read attempted (-t 1 and `no`: never; `yes`: always; `auto` and any other word: files >= 200 MB)
pub open spec fn par_wanted(nthreads: usize, par: &str, len: u64) -> bool {
    if nthreads == 1 || par == "no" { false } else if par == "yes" { true } else { len >= 200_000_000 }
}
pub open spec fn par_required(nthreads: usize, par: &str) -> bool { nthreads != 1 && par != "no" && par == "yes" }
/// doc: the parallel source is used iff it is wanted and the file has a chromosome index (is sorted)
pub open spec fn uses_parallel(path: Str, nthreads: usize, par: &str) -> bool {
    !is_stdin(path) && par_wanted(nthreads, par, fs_len(path)) && (fs_index(path) matches Ok(Some(_)))
}
/// doc: the two documented cancellations (message, Ok(()), no write)
pub open spec fn cancelled(path: Str, nthreads: usize, par: &str, sorted: &str) -> bool {
    sort_of(sorted) is None
    || (!is_stdin(path) && par_required(nthreads, par) && fs_index(path) == Ok::<Option<Index>, IoErr>(None))
}
/// the source's own view of which file / flag / format it reads
pub open spec fn src_from(s: SrcSpec) -> Where { match s { SrcSpec::Serial { from, .. } => from, SrcSpec::Parallel { path, .. } => Where::Path(path) } }
pub open spec fn src_allow(s: SrcSpec) -> bool { match s { SrcSpec::Serial { allow, .. } => allow, SrcSpec::Parallel { allow, .. } => allow } }
pub open spec fn src_fmt(s: SrcSpec) -> Fmt { match s { SrcSpec::Serial { fmt, .. } => fmt, SrcSpec::Parallel { fmt, .. } => fmt } }
/// exactly one more write than before, and it is w
pub open spec fn one_write(before: Seq<WriteEv>, after: Seq<WriteEv>) -> bool { after.len() == before.len() + 1 && after.drop_last() =~= before }


// ---------------- bedgraphtobigwig ----------------
//@extract fn bigtools/src/utils/cli/bedgraphtobigwig.rs bedgraphtobigwig
//@rule R16
//@presub /let chrom_map: HashMap<String, u32> = BufReader::new\(([^\n]*?)\)\s*\.lines\(\).*?\.collect\(\);/ => let sizes_file__ = \1; let chrom_map: SizeMap = env.parse_chrom_sizes(sizes_file__); min=1 count=1
//@presub /\|\| \{\n(.*?)\n(\s*)\},\n(\s*)runtime,/ => {\n\1\n\2},\n\3runtime, env, min=2
//@sub /Box<dyn Error>/ => AnyErr min=1
//@sub /args: BedGraphToBigWigArgs/ => args: BedGraphToBigWigArgs, env: &mut Env min=1
//@sub /\s*\.with_context\(\|\|\s*format!\([^;]*?\)\)(?=\?)/ => "" min=0
//@sub /\bFile::open\(/ => env.open( min=0
//@sub /std::io::stdin\(\)\.lock\(\)/ => env.stdin_lock() min=0
//@sub /std::fs::read_to_string\(/ => env.read_to_string( min=0
//@sub /\.write\(/ => .write(env, min=0
//@sub /(\w+) == ("(?:[^"\\]|\\.)*")/ => \1.eq_lit(\2) min=0
//@sub /(\w+) != ("(?:[^"\\]|\\.)*")/ => !\1.eq_lit(\2) min=0
//@sub /\bparse_bedgraph,/ => Fmt::BedGraph, min=0
//@sub /\bparse_bed,/ => Fmt::Bed, min=0
//@ret r
//@sig
    ensures
        [[L: at_most_one_write_call_earlier_events_untouched]]
        final(env).writes() == old(env).writes() || one_write(old(env).writes(), final(env).writes()),
        [[L: ok_and_not_cancelled_means_exactly_one_write_call]]
        r is Ok && !cancelled(args.bedgraph, args.write_args.nthreads, args.parallel.text(), args.write_args.sorted.text())
            ==> one_write(old(env).writes(), final(env).writes()),
        [[L: src/the_write_reads_the_first_argument_or_stdin_for_its_three_spellings]]
        one_write(old(env).writes(), final(env).writes()) ==> src_from(final(env).writes().last().src) == input_of(args.bedgraph),
        [[L: src/parsed_as_BedGraph]]
        one_write(old(env).writes(), final(env).writes()) ==> src_fmt(final(env).writes().last().src) == Fmt::BedGraph,
        [[L: out/destination_is_the_output_argument_with_the_table_parsed_from_the_chromsizes_argument]]
        one_write(old(env).writes(), final(env).writes()) ==> final(env).writes().last().out == args.output
            && final(env).writes().last().sizes == sizes_of(Where::Path(args.chromsizes)),
        [[L: opt/nzooms_lands_in_max_zooms]]
        one_write(old(env).writes(), final(env).writes()) ==> final(env).writes().last().options.max_zooms == args.write_args.nzooms,
        [[L: opt/zooms_lands_in_manual_zoom_sizes]]
        one_write(old(env).writes(), final(env).writes()) ==> final(env).writes().last().options.manual_zoom_sizes == args.write_args.zooms,
        [[L: opt/compress_is_not_uncompressed]]
        one_write(old(env).writes(), final(env).writes()) ==> final(env).writes().last().options.compress == !args.write_args.uncompressed,
        [[L: opt/sorted_all_or_start_lands_in_input_sort_type]]
        one_write(old(env).writes(), final(env).writes()) ==> Some(final(env).writes().last().options.input_sort_type) == sort_of(args.write_args.sorted.text()),
        [[L: opt/inmemory_lands_in_inmemory]]
        one_write(old(env).writes(), final(env).writes()) ==> final(env).writes().last().options.inmemory == args.write_args.inmemory,
        [[L: opt/one_thread_means_channel_size_0_and_a_current_thread_runtime]]
        one_write(old(env).writes(), final(env).writes()) && args.write_args.nthreads == 1 ==> final(env).writes().last().options.channel_size == 0
            && final(env).writes().last().rt == RtKind::Current,
        [[L: opt/more_threads_means_that_many_workers_and_the_default_channel_size]]
        one_write(old(env).writes(), final(env).writes()) && args.write_args.nthreads != 1 ==> final(env).writes().last().options.channel_size == default_options().channel_size
            && final(env).writes().last().rt == RtKind::Multi(Some(args.write_args.nthreads)),
        [[L: opt/block_size_lands_in_block_size]]
        one_write(old(env).writes(), final(env).writes()) ==> final(env).writes().last().options.block_size == args.write_args.block_size,
        [[L: doc/opt/items_per_slot_is_NOT_plumbed_and_initial_zoom_size_has_no_flag_both_stay_default]]
        one_write(old(env).writes(), final(env).writes()) ==> final(env).writes().last().options.items_per_slot == default_options().items_per_slot
            && final(env).writes().last().options.initial_zoom_size == default_options().initial_zoom_size,
        [[L: doc/sorted_none_or_unknown_word_is_refused_ok_nothing_written]]
        sort_of(args.write_args.sorted.text()) is None ==> r is Ok && final(env).writes() == old(env).writes(),
        [[L: doc/cancelled_writes_nothing]]
        cancelled(args.bedgraph, args.write_args.nthreads, args.parallel.text(), args.write_args.sorted.text()) ==> final(env).writes() == old(env).writes(),
        [[L: doc/allow_out_of_order_chroms_iff_sort_type_is_not_all]]
        one_write(old(env).writes(), final(env).writes()) ==> src_allow(final(env).writes().last().src) == (args.write_args.sorted.text() != "all"),
        [[L: doc/mode/stdin_is_read_serially_in_a_single_pass]]
        one_write(old(env).writes(), final(env).writes()) && is_stdin(args.bedgraph) ==> final(env).writes().last().src is Serial && !final(env).writes().last().multipass,
        [[L: doc/mode/parallel_source_iff_wanted_and_the_file_has_an_index]]
        one_write(old(env).writes(), final(env).writes()) && !is_stdin(args.bedgraph) ==> (final(env).writes().last().src is Parallel
            <==> uses_parallel(args.bedgraph, args.write_args.nthreads, args.parallel.text())),
        [[L: doc/mode/parallel_source_gets_the_index_of_the_input_file]]
        one_write(old(env).writes(), final(env).writes()) ==> (final(env).writes().last().src matches SrcSpec::Parallel { index, .. }
            ==> fs_index(args.bedgraph) == Ok::<Option<Index>, IoErr>(Some(index))),
        [[L: doc/mode/single_pass_flag_selects_write_otherwise_write_multipass]]
        one_write(old(env).writes(), final(env).writes()) && !is_stdin(args.bedgraph) ==> final(env).writes().last().multipass == !args.single_pass,
//@end


// ---------------- bedtobigbed ----------------
//@extract fn bigtools/src/utils/cli/bedtobigbed.rs bedtobigbed
//@rule R16
//@presub /let chrom_map: HashMap<String, u32> = BufReader::new\(([^\n]*?)\)\s*\.lines\(\).*?\.collect\(\);/ => let sizes_file__ = \1; let chrom_map: SizeMap = env.parse_chrom_sizes(sizes_file__); min=1 count=1
//@presub /\|\| \{\n(.*?)\n(\s*)\},\n(\s*)runtime,/ => {\n\1\n\2},\n\3runtime, env, min=2
//@presub /let autosql = match args\.autosql\.as_ref\(\) \{.*?\n        \};\n/ => let autosql = autosql_choice(env, &args.autosql, &bedpath)?;\n min=1 count=1
//@sub /anyhow::Result<\(\)>/ => Result<(), AnyErr> min=1
//@sub /args: BedToBigBedArgs/ => args: BedToBigBedArgs, env: &mut Env min=1
//@sub /\s*\.with_context\(\|\|\s*format!\([^;]*?\)\)(?=\?)/ => "" min=0
//@sub /\bFile::open\(/ => env.open( min=0
//@sub /std::io::stdin\(\)\.lock\(\)/ => env.stdin_lock() min=0
//@sub /std::fs::read_to_string\(/ => env.read_to_string( min=0
//@sub /\.write\(/ => .write(env, min=0
//@sub /(\w+) == ("(?:[^"\\]|\\.)*")/ => \1.eq_lit(\2) min=0
//@sub /(\w+) != ("(?:[^"\\]|\\.)*")/ => !\1.eq_lit(\2) min=0
//@sub /\bparse_bedgraph,/ => Fmt::BedGraph, min=0
//@sub /\bparse_bed,/ => Fmt::Bed, min=0
//@ret r
//@sig
    ensures
        [[L: at_most_one_write_call_earlier_events_untouched]]
        final(env).writes() == old(env).writes() || one_write(old(env).writes(), final(env).writes()),
        [[L: ok_and_not_cancelled_means_exactly_one_write_call]]
        r is Ok && !cancelled(args.bed, args.write_args.nthreads, args.parallel.text(), args.write_args.sorted.text())
            ==> one_write(old(env).writes(), final(env).writes()),
        [[L: src/the_write_reads_the_first_argument_or_stdin_for_its_three_spellings]]
        one_write(old(env).writes(), final(env).writes()) ==> src_from(final(env).writes().last().src) == input_of(args.bed),
        [[L: src/parsed_as_Bed]]
        one_write(old(env).writes(), final(env).writes()) ==> src_fmt(final(env).writes().last().src) == Fmt::Bed,
        [[L: out/destination_is_the_output_argument_with_the_table_parsed_from_the_chromsizes_argument]]
        one_write(old(env).writes(), final(env).writes()) ==> final(env).writes().last().out == args.output
            && final(env).writes().last().sizes == sizes_of(Where::Path(args.chromsizes)),
        [[L: opt/nzooms_lands_in_max_zooms]]
        one_write(old(env).writes(), final(env).writes()) ==> final(env).writes().last().options.max_zooms == args.write_args.nzooms,
        [[L: opt/zooms_lands_in_manual_zoom_sizes]]
        one_write(old(env).writes(), final(env).writes()) ==> final(env).writes().last().options.manual_zoom_sizes == args.write_args.zooms,
        [[L: opt/compress_is_not_uncompressed]]
        one_write(old(env).writes(), final(env).writes()) ==> final(env).writes().last().options.compress == !args.write_args.uncompressed,
        [[L: opt/sorted_all_or_start_lands_in_input_sort_type]]
        one_write(old(env).writes(), final(env).writes()) ==> Some(final(env).writes().last().options.input_sort_type) == sort_of(args.write_args.sorted.text()),
        [[L: opt/inmemory_lands_in_inmemory]]
        one_write(old(env).writes(), final(env).writes()) ==> final(env).writes().last().options.inmemory == args.write_args.inmemory,
        [[L: opt/one_thread_means_channel_size_0_and_a_current_thread_runtime]]
        one_write(old(env).writes(), final(env).writes()) && args.write_args.nthreads == 1 ==> final(env).writes().last().options.channel_size == 0
            && final(env).writes().last().rt == RtKind::Current,
        [[L: opt/more_threads_means_that_many_workers_and_the_default_channel_size]]
        one_write(old(env).writes(), final(env).writes()) && args.write_args.nthreads != 1 ==> final(env).writes().last().options.channel_size == default_options().channel_size
            && final(env).writes().last().rt == RtKind::Multi(Some(args.write_args.nthreads)),
        [[L: doc/opt/block_size_is_NOT_plumbed_stays_default]]
        one_write(old(env).writes(), final(env).writes()) ==> final(env).writes().last().options.block_size == default_options().block_size,
        [[L: doc/opt/items_per_slot_is_NOT_plumbed_and_initial_zoom_size_has_no_flag_both_stay_default]]
        one_write(old(env).writes(), final(env).writes()) ==> final(env).writes().last().options.items_per_slot == default_options().items_per_slot
            && final(env).writes().last().options.initial_zoom_size == default_options().initial_zoom_size,
        [[L: doc/sorted_none_or_unknown_word_is_refused_ok_nothing_written]]
        sort_of(args.write_args.sorted.text()) is None ==> r is Ok && final(env).writes() == old(env).writes(),
        [[L: doc/cancelled_writes_nothing]]
        cancelled(args.bed, args.write_args.nthreads, args.parallel.text(), args.write_args.sorted.text()) ==> final(env).writes() == old(env).writes(),
        [[L: doc/allow_out_of_order_chroms_iff_sort_type_is_not_all]]
        one_write(old(env).writes(), final(env).writes()) ==> src_allow(final(env).writes().last().src) == (args.write_args.sorted.text() != "all"),
        [[L: doc/mode/stdin_is_read_serially_in_a_single_pass]]
        one_write(old(env).writes(), final(env).writes()) && is_stdin(args.bed) ==> final(env).writes().last().src is Serial && !final(env).writes().last().multipass,
        [[L: doc/mode/parallel_source_iff_wanted_and_the_file_has_an_index]]
        one_write(old(env).writes(), final(env).writes()) && !is_stdin(args.bed) ==> (final(env).writes().last().src is Parallel
            <==> uses_parallel(args.bed, args.write_args.nthreads, args.parallel.text())),
        [[L: doc/mode/parallel_source_gets_the_index_of_the_input_file]]
        one_write(old(env).writes(), final(env).writes()) ==> (final(env).writes().last().src matches SrcSpec::Parallel { index, .. }
            ==> fs_index(args.bed) == Ok::<Option<Index>, IoErr>(Some(index))),
        [[L: doc/mode/single_pass_flag_selects_write_otherwise_write_multipass]]
        one_write(old(env).writes(), final(env).writes()) && !is_stdin(args.bed) ==> final(env).writes().last().multipass == !args.single_pass,
//@end


} // verus!
fn main() {}
