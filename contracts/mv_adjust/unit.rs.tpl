//@unit mv_adjust
//@serves C15
//@backend verus
// bigwigmerge: the per-value post-processing of `MergingValues::new` -- the two closures handed to
// `.map(..)` and `.filter(..)` on the merged stream.
//   C15: "The merge tool applies clip, adjust and threshold to that per-base sum":
//        value' = min(clip, sum) + adjust  (clip FIRST, then adjust; no clip => sum + adjust),
//        the value is kept iff value' > threshold, start/end untouched, errors pass through.
// NOT covered: the iterator plumbing around the closures (`merge_sections_many(iters).map(..).filter(..)`,
// `Box<dyn Iterator>`, `.peekable()`, the `Iterator for MergingValues` impl) -- see NOTES.md.
use vstd::prelude::*;
use vstd::std_specs::ops::*;
use vstd::std_specs::convert::FromSpec;
verus! {
//@include ../_shared/floats.rs

//@extract struct bigtools/src/bbi.rs Value
//@rule R8
//@end

// ---------------- shims (assumed; listed in NOTES.md) ----------------
/// `f32::min`: result uninterpreted (shape only), deterministic.
pub uninterp spec fn fmin32(a: f32, b: f32) -> f32;
pub uninterp spec fn fmax32(a: f32, b: f32) -> f32;
pub assume_specification [f32::min] (a: f32, b: f32) -> (r: f32) ensures r == fmin32(a, b);
pub assume_specification [f32::max] (a: f32, b: f32) -> (r: f32) ensures r == fmax32(a, b);
/// float comparisons: Verus leaves the result of `a > b` on floats unconstrained; each comparison
/// operator goes to its own helper with its own uninterpreted spec predicate, so that the contract
/// can say "the strict greater-than test of the value against the threshold" and nothing numerical.
pub uninterp spec fn fgt32(a: f32, b: f32) -> bool;
pub uninterp spec fn fge32(a: f32, b: f32) -> bool;
pub uninterp spec fn flt32(a: f32, b: f32) -> bool;
pub uninterp spec fn fle32(a: f32, b: f32) -> bool;
#[verifier::external_body] fn f32_gt(a: f32, b: f32) -> (r: bool) ensures r == fgt32(a, b) { a > b }
#[verifier::external_body] fn f32_ge(a: f32, b: f32) -> (r: bool) ensures r == fge32(a, b) { a >= b }
#[verifier::external_body] fn f32_lt(a: f32, b: f32) -> (r: bool) ensures r == flt32(a, b) { a < b }
#[verifier::external_body] fn f32_le(a: f32, b: f32) -> (r: bool) ensures r == fle32(a, b) { a <= b }
/// Plausible foreign call (`Option::map_or` with a closure, e.g. `clip.map_or(x, |c| c.min(x))`): accepted
/// with NO postcondition, so an edit that routes the computation through it is judged (and fails), not rejected.
#[verifier::external_body] fn opt_map_or_unknown(o: Option<f32>, d: f32) -> (r: f32) { unimplemented!() }

// ---------------- specification vocabulary (from the property text) ----------------
/// clip first (upper bound `min(clip, sum)`), then add the adjustment
pub open spec fn adjusted(sum: f32, clip: Option<f32>, adjust: f32) -> f32 {
    (match clip { Some(c) => fmin32(c, sum), None => sum }).add_spec(adjust)
}

// (1) the `.map(..)` closure: body of `x.map(|mut v| { .. })`
//@extract method bigtools/src/utils/cli/bigwigmerge.rs new "impl MergingValues"
//@rule R16
//@presub /\A.*?\.map\(move \|x\| \{\s*x\.map\(\|mut v\| \{(.*?)\n[ \t]*\}\)\s*\}\)\s*\.filter\(.*\Z/ => fn adjust_value(mut v: Value, clip: Option<f32>, adjust: f32) -> Value {\1\n} min=1 count=1
//@rule R5 min=1
//@sub /\b(\w+)\.map_or\(\s*([\w\.]+)\s*,\s*\|[^|]*\|[^;]*\);/ => opt_map_or_unknown(\1, \2); min=0
//@ret r
//@sig
    ensures
        [[L: start_end_untouched]]
        r.start == v.start && r.end == v.end,
        [[L: clip_first_then_adjust]]
        r.value == adjusted(v.value, clip, adjust),
//@open
    proof { float_ax::float_det(); }
//@end

// (2) the `.filter(..)` closure: the test applied to an Ok value.  Two spellings of the closure are carved: the
// repository's `x.as_ref().map_or(D, |v| TEST)` and `matches!(x, Ok(v) if TEST)`; TEST is what is judged here, what
// happens to an Err item (D resp. `false`: `matches!` is false for everything the pattern does not match) is (4).
//@extract method bigtools/src/utils/cli/bigwigmerge.rs new "impl MergingValues"
//@rule R16
//@presub /\A.*?\.filter\(move \|x\| (?:x\.as_ref\(\)\.map_or\(\w+, \|v\| (.*?)\)|matches!\(x, Ok\(v\) if (.*?)\))\),?\s*\);\s*MergingValues \{.*\Z/ => fn keep_value(v: &Value, threshold: f32) -> bool {\n    \1\2\n} min=1 count=1
//@sub /([\w\.]+) > ([\w\.]+)/ => f32_gt(\1, \2) min=0
//@sub /([\w\.]+) >= ([\w\.]+)/ => f32_ge(\1, \2) min=0
//@sub /([\w\.]+) < ([\w\.]+)/ => f32_lt(\1, \2) min=0
//@sub /([\w\.]+) <= ([\w\.]+)/ => f32_le(\1, \2) min=0
//@ret keep
//@sig
    ensures
        [[L: kept_iff_strictly_above_threshold]]
        keep == fgt32(v.value, threshold),
//@end

// ---------------- (3)+(4): the closures WITH their Result plumbing ----------------
// Error type of the stream: opaque (the real enum carries thiserror attributes and io::Error).
#[verifier::external_body]
pub struct MergingValuesError { _p: u8 }
/// `Result::map_or(self, default, f)` (std): Ok(t) => f(t), Err(_) => default.  (`Result::map` has a vstd spec.)
pub assume_specification<T, E, U, F: FnOnce(T) -> U> [Result::<T, E>::map_or] (s: Result<T, E>, d: U, f: F) -> (r: U)
    requires s matches Ok(t) ==> f.requires((t,)),
    ensures s matches Ok(t) ==> f.ensures((t,), r),
        s.is_err() ==> r == d;

// (3) whole body of the `.map(move |x| { .. })` closure: `x.map(|mut v| { .. })`.  The inner closure gets its
// parameter type and a contract (Verus closures have no inferred postcondition) by //@sub; that contract is
// the same as adjust_value's and is proved for the closure body again.
//@extract method bigtools/src/utils/cli/bigwigmerge.rs new "impl MergingValues"
//@rule R16
//@presub /\A.*?\.map\(move \|x\| \{(.*?)\n[ \t]*\}\)\s*\.filter\(.*\Z/ => fn adjust_item(x: Result<Value, MergingValuesError>, clip: Option<f32>, adjust: f32) -> Result<Value, MergingValuesError> {\1\n} min=1 count=1
//@rule R5 min=1
//@sub /\b(\w+)\.map_or\(\s*([\w\.]+)\s*,\s*\|[^|]*\|[^;]*\);/ => opt_map_or_unknown(\1, \2); min=0
//@sub /\|mut v\| \{/ => |mut v: Value| -> (w: Value) ensures w.start == v.start && w.end == v.end && w.value == adjusted(v.value, clip, adjust) { proof { float_ax::float_det(); } min=0 count=1
//@ret r
//@sig
    ensures
        [[L: item/errors_pass_through]]
        x matches Err(e) ==> r matches Err(e2) && e2 == e,
        [[L: item/ok_stays_ok_start_end_untouched]]
        x matches Ok(v) ==> r matches Ok(w) && w.start == v.start && w.end == v.end,
        [[L: item/clip_first_then_adjust]]
        x matches Ok(v) ==> r matches Ok(w) && w.value == adjusted(v.value, clip, adjust),
//@end

// (4) whole body of the `.filter(move |x| ..)` closure, whatever its spelling (`matches!(x, Ok(v) if TEST)` is
// accepted by Verus with its real meaning: true iff the pattern matches AND the guard holds, so false on Err)
//@extract method bigtools/src/utils/cli/bigwigmerge.rs new "impl MergingValues"
//@rule R16
//@presub /\A.*?\.filter\(move \|x\| (.*?)\),?\s*\);\s*MergingValues \{.*\Z/ => fn keep_item(x: &Result<Value, MergingValuesError>, threshold: f32) -> bool {\n    \1\n} min=1 count=1
//@sub /([\w\.]+) > ([\w\.]+)/ => f32_gt(\1, \2) min=0
//@sub /([\w\.]+) >= ([\w\.]+)/ => f32_ge(\1, \2) min=0
//@sub /([\w\.]+) < ([\w\.]+)/ => f32_lt(\1, \2) min=0
//@sub /([\w\.]+) <= ([\w\.]+)/ => f32_le(\1, \2) min=0
//@sub /\|v\| (.*)\)\s*\}\s*\Z/ => |v: &Value| -> (k: bool) ensures k == fgt32(v.value, threshold) { \1 })\n} min=0 count=1
//@ret keep
//@sig
    ensures
        [[L: item/errors_are_kept]]
        x.is_err() ==> keep,
        [[L: item/kept_iff_strictly_above_threshold]]
        x matches Ok(v) ==> keep == fgt32(v.value, threshold),
//@end

} // verus!
fn main() {}
