// ---- value_iter: shims, specification vocabulary and lemmas (included by unit.rs.tpl) ----------
// Expects `Value` and `DATA_SIZE` (both extracted from /repo) in scope.

// ---------------- shims (assumed; listed in NOTES.md) ----------------
/// the generic error type `E` of the input streams (opaque)
#[verifier::external_body]
pub struct MergeError { _p: u8 }

/// R11 shim for the generic input stream `I: Iterator<Item = Result<Value, E>>`: ghost `rest()` = the
/// items it will still yield.  `next` yields the head and advances; when exhausted it yields None and
/// stays exhausted (a *fused* iterator: ValueIter calls `next` again in every later window).
#[verifier::external_body]
pub struct VIter { _p: u8 }
impl VIter {
    pub uninterp spec fn rest(&self) -> Seq<Result<Value, MergeError>>;
    #[verifier::external_body]
    pub fn next(&mut self) -> (r: Option<Result<Value, MergeError>>)
        ensures
            old(self).rest().len() == 0 ==> r is None && final(self).rest() == old(self).rest(),
            old(self).rest().len() > 0 ==> r == Some(old(self).rest()[0]) && final(self).rest() == old(self).rest().subrange(1, old(self).rest().len() as int),
    { unimplemented!() }
}

/// `v as f64` for an f32 (exact widening; uninterpreted here)
pub uninterp spec fn f64_of(x: f32) -> f64;
#[verifier::external_body]
pub fn f64_of_f32(x: f32) -> (r: f64) ensures r == f64_of(x) { x as f64 }
/// `x as f32` for an f64 (rounding; uninterpreted)
pub uninterp spec fn f32_of(x: f64) -> f32;
/// float `==` on doubles (uninterpreted but deterministic); `!=` is its negation (IEEE 754)
pub uninterp spec fn feq(a: f64, b: f64) -> bool;

/// The element type of the work window is taken from the real text (`vec![0f64; DATA_SIZE]`).  C15: the
/// per-base sum is computed in double precision and narrowed once at the end, so the whole vocabulary is
/// written over f64 cells; `c64`/`e64` read a window / a cell as doubles.  For f64 both are the identity.
/// The f32 instance only exists so that an edit changing the accumulator type is JUDGED (its sums are
/// f32 additions, which are not the f64 fold the contract demands) instead of being rejected by rustc.
pub trait Cell: Sized {
    spec fn seq64(s: Seq<Self>) -> Seq<f64>;
    spec fn elt64(x: Self) -> f64;
    spec fn narrow(x: Self) -> f32;
}
impl Cell for f64 {
    open spec fn seq64(s: Seq<f64>) -> Seq<f64> { s }
    open spec fn elt64(x: f64) -> f64 { x }
    open spec fn narrow(x: f64) -> f32 { f32_of(x) }
}
impl Cell for f32 {
    open spec fn seq64(s: Seq<f32>) -> Seq<f64> { Seq::new(s.len(), |i: int| f64_of(s[i])) }
    open spec fn elt64(x: f32) -> f64 { f64_of(x) }
    open spec fn narrow(x: f32) -> f32 { x }
}
pub open spec fn c64<T: Cell>(s: Seq<T>) -> Seq<f64> { T::seq64(s) }
pub open spec fn e64<T: Cell>(x: T) -> f64 { T::elt64(x) }
/// `a == b` / `a != b` on cells; `x as f32` on a cell
#[verifier::external_body]
pub fn cell_eq<T: Cell>(a: T, b: T) -> (r: bool) ensures r == feq(e64(a), e64(b)) { unimplemented!() }
#[verifier::external_body]
pub fn cell_ne<T: Cell>(a: T, b: T) -> (r: bool) ensures r == !feq(e64(a), e64(b)) { unimplemented!() }
#[verifier::external_body]
pub fn cell_to_f32<T: Cell>(a: T) -> (r: f32) ensures r == T::narrow(a) { unimplemented!() }

/// `&mut data[a..b]`: the slice expression panics unless a <= b <= len
pub fn slice_bounds<T>(d: &Vec<T>, a: usize, b: usize)
    requires a <= b <= d@.len(),
{ }
/// one element of `&mut data[a..b]` handed out by the slice iterator
#[verifier::external_body]
pub fn cell_mut<T>(data: &mut Vec<T>, i: usize) -> (r: &mut T)
    requires i < old(data)@.len(),
    ensures *r == old(data)@[i as int], final(data)@ == old(data)@.update(i as int, *final(r)),
{ &mut data[i] }
/// `u32::wrapping_add` (real semantics, so that an edit using it is judged)
#[verifier::external_body]
pub fn u32_wrapping_add(a: u32, b: u32) -> (r: u32)
    ensures r as int == (if a as int + b as int > u32::MAX as int { a as int + b as int - 0x1_0000_0000 } else { a as int + b as int }),
{ a.wrapping_add(b) }
spec fn umax() -> int { u32::MAX as int }
/// start of the window after [cs, cs + DATA_SIZE): saturates at u32::MAX
spec fn next_cs(cs: int) -> int { imin(cs + DATA_SIZE as int, u32::MAX as int) }

// ---------------- vocabulary: the window ----------------
spec fn imax(a: int, b: int) -> int { if a >= b { a } else { b } }
spec fn imin(a: int, b: int) -> int { if a <= b { a } else { b } }
spec fn opt_seq(o: Option<Value>) -> Seq<Result<Value, MergeError>> {
    if o is Some { seq![Ok::<Value, MergeError>(o->Some_0)] } else { Seq::empty() }
}
/// what one section will still deliver: the parked value (if any), then the rest of its stream
spec fn pend(last: Option<Value>, it: VIter) -> Seq<Result<Value, MergeError>> { opt_seq(last) + it.rest() }

/// input assumption of C15 on one stream, relative to the window start `cs`: every value has
/// start <= end, values are sorted and disjoint, and nothing pending ends before the window starts.
/// (The last conjunct is the invariant maintained from window to window; at cs == 0 it is trivial.)
#[verifier::opaque]
spec fn sec_ok(p: Seq<Result<Value, MergeError>>, cs: int) -> bool {
    &&& forall|i: int| 0 <= i < p.len() && (#[trigger] p[i]) is Ok ==> p[i]->Ok_0.start <= p[i]->Ok_0.end
    &&& forall|i: int, j: int| 0 <= i < j < p.len() && (#[trigger] p[i]) is Ok && (#[trigger] p[j]) is Ok ==> p[i]->Ok_0.end <= p[j]->Ok_0.start
    &&& forall|i: int| 0 <= i < p.len() && (#[trigger] p[i]) is Ok ==> cs <= p[i]->Ok_0.end
}
/// k = where the section stops in this window: the first item that is an error or a value reaching
/// the window end `wend` (everything before it ends strictly inside the window and is used up)
spec fn is_stop(p: Seq<Result<Value, MergeError>>, k: int, wend: int) -> bool {
    &&& 0 <= k <= p.len()
    &&& forall|i: int| 0 <= i < k ==> (#[trigger] p[i]) is Ok && p[i]->Ok_0.end < wend
    &&& k < p.len() ==> (p[k] is Err || p[k]->Ok_0.end >= wend)
}
spec fn stop_is_err(p: Seq<Result<Value, MergeError>>, k: int) -> bool { k < p.len() && p[k] is Err }
/// the first n items as values
spec fn oks(p: Seq<Result<Value, MergeError>>, n: int) -> Seq<Value> { Seq::new(n as nat, |i: int| p[i]->Ok_0) }
/// number of values the section looks at in this window: those before the stop, and the stop value itself
spec fn n_taken(p: Seq<Result<Value, MergeError>>, k: int) -> int { if k < p.len() && p[k] is Ok { k + 1 } else { k } }
spec fn taken(p: Seq<Result<Value, MergeError>>, k: int) -> Seq<Value> { oks(p, n_taken(p, k)) }

spec fn covers(v: Value, b: int) -> bool { v.start <= b < v.end }
/// C15: a value is added once to exactly the window cells of its bases (cell c = base cs + c)
spec fn add_val(d: Seq<f64>, v: Value, cs: int) -> Seq<f64> {
    Seq::new(d.len(), |c: int| if covers(v, cs + c) { d[c].add_spec(f64_of(v.value)) } else { d[c] })
}
/// ... for a sequence of values, in the order they are taken
#[verifier::opaque]
spec fn add_vals(d: Seq<f64>, s: Seq<Value>, cs: int) -> Seq<f64>
    decreases s.len()
{
    if s.len() == 0 { d } else { add_val(add_vals(d, s.drop_last(), cs), s.last(), cs) }
}
/// the cells [a, b) each get one `+ x`
spec fn add_range(d: Seq<f64>, a: int, b: int, x: f64) -> Seq<f64> {
    Seq::new(d.len(), |c: int| if a <= c < b { d[c].add_spec(x) } else { d[c] })
}
/// largest in-window end touched: only values that start inside the window count
spec fn touch_end(m: int, v: Value, cs: int) -> int {
    if v.start < cs + DATA_SIZE as int { imax(m, imin(v.end - cs, DATA_SIZE as int)) } else { m }
}
#[verifier::opaque]
spec fn touch_ends(m: int, s: Seq<Value>, cs: int) -> int
    decreases s.len()
{
    if s.len() == 0 { m } else { touch_end(touch_ends(m, s.drop_last(), cs), s.last(), cs) }
}

// ---------------- lemmas (A) ----------------
/// the two folds, one step (the only place where they are unfolded)
proof fn lemma_fold_empty(d: Seq<f64>, m: int, cs: int)
    ensures add_vals(d, Seq::<Value>::empty(), cs) == d, touch_ends(m, Seq::<Value>::empty(), cs) == m,
{
    reveal_with_fuel(add_vals, 1); reveal_with_fuel(touch_ends, 1);
}
proof fn lemma_fold_push(d: Seq<f64>, m: int, s: Seq<Value>, v: Value, cs: int)
    ensures
        add_vals(d, s.push(v), cs) == add_val(add_vals(d, s, cs), v, cs),
        touch_ends(m, s.push(v), cs) == touch_end(touch_ends(m, s, cs), v, cs),
{
    reveal_with_fuel(add_vals, 1); reveal_with_fuel(touch_ends, 1);
    assert(s.push(v).drop_last() =~= s);
}
proof fn lemma_fold_step(d: Seq<f64>, m: int, p: Seq<Result<Value, MergeError>>, j: int, cs: int)
    requires 0 <= j < p.len(),
    ensures
        add_vals(d, oks(p, j + 1), cs) == add_val(add_vals(d, oks(p, j), cs), p[j]->Ok_0, cs),
        touch_ends(m, oks(p, j + 1), cs) == touch_end(touch_ends(m, oks(p, j), cs), p[j]->Ok_0, cs),
{
    lemma_oks_push(p, j);
    lemma_fold_push(d, m, oks(p, j), p[j]->Ok_0, cs);
}
/// what sec_ok gives for one item
proof fn lemma_sec_ok_item(p: Seq<Result<Value, MergeError>>, cs: int, j: int)
    requires sec_ok(p, cs), 0 <= j < p.len(), p[j] is Ok,
    ensures p[j]->Ok_0.start <= p[j]->Ok_0.end, cs <= p[j]->Ok_0.end,
{
    reveal(sec_ok);
}
/// the window-to-window invariant: what is still pending after the stop lies beyond the window end
proof fn lemma_sec_ok_suffix(p: Seq<Result<Value, MergeError>>, cs: int, k: int, wend: int)
    requires sec_ok(p, cs), is_stop(p, k, wend), !stop_is_err(p, k),
    ensures sec_ok(p.subrange(k, p.len() as int), wend),
{
    reveal(sec_ok);
    let s = p.subrange(k, p.len() as int);
    assert forall|i: int| 0 <= i < s.len() && (#[trigger] s[i]) is Ok implies wend <= s[i]->Ok_0.end && s[i]->Ok_0.start <= s[i]->Ok_0.end by {
        assert(s[i] == p[k + i]);
        assert(s[0] == p[k]);
        if i > 0 { assert(p[k]->Ok_0.end <= p[k + i]->Ok_0.start); }
    }
    assert forall|i: int, j: int| 0 <= i < j < s.len() && (#[trigger] s[i]) is Ok && (#[trigger] s[j]) is Ok implies s[i]->Ok_0.end <= s[j]->Ok_0.start by {
        assert(s[i] == p[k + i]); assert(s[j] == p[k + j]);
    }
}
proof fn lemma_oks_push(p: Seq<Result<Value, MergeError>>, j: int)
    requires 0 <= j < p.len(),
    ensures oks(p, j + 1) == oks(p, j).push(p[j]->Ok_0), oks(p, j + 1).drop_last() == oks(p, j), oks(p, j + 1).last() == p[j]->Ok_0,
{
    assert(oks(p, j + 1) =~= oks(p, j).push(p[j]->Ok_0));
    assert(oks(p, j + 1).drop_last() =~= oks(p, j));
}
/// the code's cell range [ds, de) is exactly the set of window cells whose base lies in the value
proof fn lemma_range_is_val(d: Seq<f64>, v: Value, cs: int, ds: int, de: int)
    requires
        d.len() == DATA_SIZE, cs <= v.end, v.start <= v.end,
        ds == imax(cs, v.start as int) - cs, ds < DATA_SIZE, de == imin(DATA_SIZE as int, v.end - cs),
    ensures add_range(d, ds, de, f64_of(v.value)) == add_val(d, v, cs),
{
    assert(add_range(d, ds, de, f64_of(v.value)) =~= add_val(d, v, cs));
}
proof fn lemma_no_cell(d: Seq<f64>, v: Value, cs: int)
    requires d.len() == DATA_SIZE, v.start >= cs + DATA_SIZE,
    ensures add_val(d, v, cs) == d,
{
    assert(add_val(d, v, cs) =~= d);
}

// ---------------- vocabulary: run-length encoding (B) ----------------
/// [a, b) is a maximal stretch of cells whose sum equals (float `==`) the sum of its first cell
spec fn run_ok(d: Seq<f64>, a: int, b: int, n: int) -> bool {
    &&& 0 <= a < b <= n
    &&& forall|j: int| a < j < b ==> feq(d[a], #[trigger] d[j])
    &&& b < n ==> !feq(d[a], d[b])
}
/// the runs tile [0, upto): first starts at 0, each starts where the previous ended, last ends at upto
spec fn runs_tile(runs: Seq<(int, int)>, upto: int) -> bool {
    &&& runs.len() == 0 ==> upto == 0
    &&& runs.len() > 0 ==> runs[0].0 == 0 && runs.last().1 == upto
    &&& forall|q: int| 0 <= q < runs.len() - 1 ==> (#[trigger] runs[q]).1 == runs[q + 1].0
    &&& forall|q: int| 0 <= q < runs.len() ==> (#[trigger] runs[q]).0 < runs[q].1
}
spec fn run_value(r: (int, int), d: Seq<f64>, cs: int) -> Value {
    Value { start: (cs + r.0) as u32, end: (cs + r.1) as u32, value: f32_of(d[r.0]) }
}
/// C15: a run whose sum is zero is absent; every other run appears once, in order, with the run's sum
#[verifier::opaque]
spec fn emit(runs: Seq<(int, int)>, d: Seq<f64>, cs: int) -> Seq<Value>
    decreases runs.len()
{
    if runs.len() == 0 { Seq::empty() }
    else {
        let o = emit(runs.drop_last(), d, cs);
        if !feq(d[runs.last().0], 0.0f64) { o.push(run_value(runs.last(), d, cs)) } else { o }
    }
}
/// sorted, pairwise disjoint, non-empty values inside [lo, hi)
#[verifier::opaque]
spec fn sorted_in(o: Seq<Value>, lo: int, hi: int) -> bool {
    &&& forall|i: int| 0 <= i < o.len() ==> lo <= (#[trigger] o[i]).start < o[i].end <= hi
    &&& forall|i: int, j: int| 0 <= i < j < o.len() ==> (#[trigger] o[i]).end <= (#[trigger] o[j]).start
}
proof fn lemma_emit_empty(d: Seq<f64>, cs: int)
    ensures emit(Seq::<(int, int)>::empty(), d, cs) == Seq::<Value>::empty(),
{
    reveal_with_fuel(emit, 1);
}
/// closing the run r = [a, b) behind output that lies before cell a
proof fn lemma_emit_push(runs: Seq<(int, int)>, r: (int, int), d: Seq<f64>, cs: int, n: int)
    requires
        0 <= r.0 < r.1 <= n <= DATA_SIZE, 0 <= cs, cs + n <= u32::MAX as int,
        sorted_in(emit(runs, d, cs), cs, cs + r.0),
    ensures
        emit(runs.push(r), d, cs) == (if !feq(d[r.0], 0.0f64) { emit(runs, d, cs).push(run_value(r, d, cs)) } else { emit(runs, d, cs) }),
        sorted_in(emit(runs.push(r), d, cs), cs, cs + r.1),
{
    reveal_with_fuel(emit, 1); reveal(sorted_in);
    assert(runs.push(r).drop_last() =~= runs);
    let o = emit(runs, d, cs);
    let o2 = emit(runs.push(r), d, cs);
    if !feq(d[r.0], 0.0f64) {
        let v = run_value(r, d, cs);
        assert forall|i: int| 0 <= i < o2.len() implies cs <= (#[trigger] o2[i]).start < o2[i].end <= cs + r.1 by {
            if i < o.len() { assert(o2[i] == o[i]); }
        }
        assert forall|i: int, j: int| 0 <= i < j < o2.len() implies (#[trigger] o2[i]).end <= (#[trigger] o2[j]).start by {
            assert(o2[i] == o[i]);
            if j < o.len() { assert(o2[j] == o[j]); }
        }
    }
}
proof fn lemma_tile_push(runs: Seq<(int, int)>, a: int, b: int)
    requires runs_tile(runs, a), 0 <= a < b,
    ensures runs_tile(runs.push((a, b)), b),
{
    let r2 = runs.push((a, b));
    assert forall|q: int| 0 <= q < r2.len() - 1 implies (#[trigger] r2[q]).1 == r2[q + 1].0 by {
        if q < runs.len() - 1 { assert(r2[q] == runs[q]); assert(r2[q + 1] == runs[q + 1]); }
        else { assert(r2[q] == runs[q]); assert(runs[q] == runs.last()); }
    }
    assert forall|q: int| 0 <= q < r2.len() implies (#[trigger] r2[q]).0 < r2[q].1 by {
        if q < runs.len() { assert(r2[q] == runs[q]); }
    }
    if runs.len() > 0 { assert(r2[0] == runs[0]); }
}

/// what closing run r does to the output: appended iff its sum is not zero
spec fn close_run(o: Seq<Value>, r: (int, int), d: Seq<f64>, cs: int) -> Seq<Value> {
    if !feq(d[r.0], 0.0f64) { o.push(run_value(r, d, cs)) } else { o }
}
/// the quantified part of the RLE loop invariant after `idx` cells (opaque to the loop body):
/// closed runs tile [0, s), are maximal, have been emitted; the open run [s, idx) has equal sums
#[verifier::opaque]
spec fn rle_deep(runs: Seq<(int, int)>, o: Seq<Value>, d: Seq<f64>, cs: int, n: int, s: int, idx: int) -> bool {
    &&& 0 <= idx <= n <= DATA_SIZE && d.len() == DATA_SIZE && 0 <= cs && cs + n <= u32::MAX as int
    &&& idx == 0 ==> s == 0
    &&& idx > 0 ==> 0 <= s < idx
    &&& runs_tile(runs, s)
    &&& forall|q: int| 0 <= q < runs.len() ==> run_ok(d, (#[trigger] runs[q]).0, runs[q].1, n)
    &&& o == emit(runs, d, cs)
    &&& sorted_in(o, cs, cs + s)
    &&& forall|j: int| s < j < idx ==> feq(d[s], #[trigger] d[j])
}
proof fn lemma_rle_init(d: Seq<f64>, cs: int, n: int)
    requires 0 <= n <= DATA_SIZE, d.len() == DATA_SIZE, 0 <= cs, cs + n <= u32::MAX as int,
    ensures rle_deep(Seq::<(int, int)>::empty(), Seq::<Value>::empty(), d, cs, n, 0, 0),
{
    reveal(rle_deep); reveal(sorted_in);
    lemma_emit_empty(d, cs);
}
proof fn lemma_rle_first(runs: Seq<(int, int)>, o: Seq<Value>, d: Seq<f64>, cs: int, n: int)
    requires rle_deep(runs, o, d, cs, n, 0, 0), n > 0,
    ensures rle_deep(runs, o, d, cs, n, 0, 1),
{
    reveal(rle_deep);
}
proof fn lemma_rle_extend(runs: Seq<(int, int)>, o: Seq<Value>, d: Seq<f64>, cs: int, n: int, s: int, idx: int)
    requires rle_deep(runs, o, d, cs, n, s, idx), 0 < idx < n, feq(d[s], d[idx]),
    ensures rle_deep(runs, o, d, cs, n, s, idx + 1),
{
    reveal(rle_deep);
}
proof fn lemma_run_push(runs: Seq<(int, int)>, d: Seq<f64>, n: int, r: (int, int))
    requires forall|q: int| 0 <= q < runs.len() ==> run_ok(d, (#[trigger] runs[q]).0, runs[q].1, n), run_ok(d, r.0, r.1, n),
    ensures forall|q: int| 0 <= q < runs.push(r).len() ==> run_ok(d, (#[trigger] runs.push(r)[q]).0, runs.push(r)[q].1, n),
{
    assert forall|q: int| 0 <= q < runs.push(r).len() implies run_ok(d, (#[trigger] runs.push(r)[q]).0, runs.push(r)[q].1, n) by {
        if q < runs.len() { assert(runs.push(r)[q] == runs[q]); }
    }
}
proof fn lemma_rle_close(runs: Seq<(int, int)>, o: Seq<Value>, d: Seq<f64>, cs: int, n: int, s: int, idx: int)
    requires rle_deep(runs, o, d, cs, n, s, idx), 0 < idx < n, !feq(d[s], d[idx]),
    ensures rle_deep(runs.push((s, idx)), close_run(o, (s, idx), d, cs), d, cs, n, idx, idx + 1),
{
    reveal(rle_deep);
    lemma_emit_push(runs, (s, idx), d, cs, n);
    lemma_tile_push(runs, s, idx);
    lemma_run_push(runs, d, n, (s, idx));
}
/// after the loop: the open run [s, n) is closed by the final flush
proof fn lemma_rle_close_last(runs: Seq<(int, int)>, o: Seq<Value>, d: Seq<f64>, cs: int, n: int, s: int)
    requires rle_deep(runs, o, d, cs, n, s, n), n > 0,
    ensures
        runs_tile(runs.push((s, n)), n),
        forall|q: int| 0 <= q < runs.push((s, n)).len() ==> run_ok(d, (#[trigger] runs.push((s, n))[q]).0, runs.push((s, n))[q].1, n),
        close_run(o, (s, n), d, cs) == emit(runs.push((s, n)), d, cs),
        sorted_in(close_run(o, (s, n), d, cs), cs, cs + n),
{
    reveal(rle_deep);
    lemma_emit_push(runs, (s, n), d, cs, n);
    lemma_tile_push(runs, s, n);
    lemma_run_push(runs, d, n, (s, n));
}
proof fn lemma_rle_none(runs: Seq<(int, int)>, o: Seq<Value>, d: Seq<f64>, cs: int, n: int, s: int)
    requires rle_deep(runs, o, d, cs, n, s, n), n == 0,
    ensures
        runs_tile(runs, 0),
        forall|q: int| 0 <= q < runs.len() ==> run_ok(d, (#[trigger] runs[q]).0, runs[q].1, n),
        o == emit(runs, d, cs),
        sorted_in(o, cs, cs),
{
    reveal(rle_deep);
}

// ---------------- shims for the skeleton of `next` (D) ----------------
/// R11 shim for `Box<dyn Iterator<Item = Value> + Send>` built from `next_sections.into_iter()`:
/// a queue handing out the Vec's values in order (fused)
#[verifier::external_body]
pub struct VQueue { _p: u8 }
impl VQueue {
    pub uninterp spec fn view(&self) -> Seq<Value>;
    #[verifier::external_body]
    pub fn from_vec(v: Vec<Value>) -> (r: VQueue)
        ensures r@ == v@,
    { unimplemented!() }
    #[verifier::external_body]
    pub fn next(&mut self) -> (r: Option<Value>)
        ensures
            old(self)@.len() == 0 ==> r is None && final(self)@ == old(self)@,
            old(self)@.len() > 0 ==> r == Some(old(self)@[0]) && final(self)@ == old(self)@.subrange(1, old(self)@.len() as int),
    { unimplemented!() }
}
/// `.map(Result::Ok)` on an Option<Value>
pub fn map_ok(o: Option<Value>) -> (r: Option<Result<Value, MergeError>>)
    ensures o is None ==> r is None, o is Some ==> r == Some(Ok::<Value, MergeError>(o->Some_0)),
{ match o { Some(v) => Some(Ok(v)), None => None } }

// ---------------- ghost history: windows computed so far, values handed out so far ----------------
pub struct Win {
    pub cs: int,                                     // window start
    pub pre: Seq<Seq<Result<Value, MergeError>>>,    // what every section still had to deliver before this window
    pub ks: Seq<int>,                                // where each section stopped
    pub data: Seq<f64>,                              // the 50 000 sums
    pub mdl: int,                                    // max_data_len handed to the encoder
    pub runs: Seq<(int, int)>,                       // all runs of [0, mdl)
    pub out: Seq<Value>,                             // the non-zero runs as values
}
pub struct Hist {
    pub wins: Seq<Win>,
    pub emitted: Seq<Value>,
}
spec fn zeros() -> Seq<f64> { Seq::new(DATA_SIZE as nat, |i: int| 0.0f64) }
spec fn pends(s: Seq<(VIter, Option<Value>)>) -> Seq<Seq<Result<Value, MergeError>>> {
    Seq::new(s.len(), |i: int| pend(s[i].1, s[i].0))
}
/// what the sections still have to deliver after a window in which section i stopped at ks[i]
spec fn next_pends(pre: Seq<Seq<Result<Value, MergeError>>>, ks: Seq<int>) -> Seq<Seq<Result<Value, MergeError>>> {
    Seq::new(pre.len(), |i: int| pre[i].subrange(ks[i], pre[i].len() as int))
}
spec fn stops_ok(pre: Seq<Seq<Result<Value, MergeError>>>, ks: Seq<int>, wend: int) -> bool {
    &&& ks.len() == pre.len()
    &&& forall|i: int| 0 <= i < pre.len() ==> is_stop(#[trigger] pre[i], ks[i], wend) && !stop_is_err(pre[i], ks[i])
}
/// the window after the first i sections: section 0's values first, then section 1's, ...
#[verifier::opaque]
spec fn win_data(pre: Seq<Seq<Result<Value, MergeError>>>, ks: Seq<int>, i: int, d0: Seq<f64>, cs: int) -> Seq<f64>
    decreases i
{
    if i <= 0 { d0 } else { add_vals(win_data(pre, ks, i - 1, d0, cs), taken(pre[i - 1], ks[i - 1]), cs) }
}
#[verifier::opaque]
spec fn win_mdl(pre: Seq<Seq<Result<Value, MergeError>>>, ks: Seq<int>, i: int, m0: int, cs: int) -> int
    decreases i
{
    if i <= 0 { m0 } else { touch_ends(win_mdl(pre, ks, i - 1, m0, cs), taken(pre[i - 1], ks[i - 1]), cs) }
}
spec fn none_taken(pre: Seq<Seq<Result<Value, MergeError>>>, ks: Seq<int>) -> bool {
    forall|i: int| 0 <= i < pre.len() ==> taken(#[trigger] pre[i], ks[i]).len() == 0
}
spec fn total_len(ps: Seq<Seq<Result<Value, MergeError>>>) -> int
    decreases ps.len()
{
    if ps.len() == 0 { 0 } else { total_len(ps.drop_last()) + ps.last().len() }
}
spec fn all_sec_ok(ps: Seq<Seq<Result<Value, MergeError>>>, cs: int) -> bool {
    forall|i: int| 0 <= i < ps.len() ==> sec_ok(#[trigger] ps[i], cs)
}
spec const MAXHALF: int = 0x7fff_ffff_ffff_ffff;

// ---------------- the fold of piece A over the sections (proved: `accumulate_sections` in unit.rs.tpl) ----------------
/// where a section stops in the window ending at `wend`: the first item at or after j that is an error or
/// a value reaching `wend` (the whole length when there is none)
spec fn first_stop(p: Seq<Result<Value, MergeError>>, wend: int, j: int) -> int
    decreases p.len() - j
{
    if j < 0 || j >= p.len() { p.len() as int }
    else if p[j] is Err || p[j]->Ok_0.end >= wend { j }
    else { first_stop(p, wend, j + 1) }
}
#[verifier::opaque]
spec fn stop_of(p: Seq<Result<Value, MergeError>>, wend: int) -> int { first_stop(p, wend, 0) }
/// the stop index of every section (a function of what the sections had pending before the window)
spec fn stops_of(pre: Seq<Seq<Result<Value, MergeError>>>, wend: int) -> Seq<int> {
    Seq::new(pre.len(), |i: int| stop_of(pre[i], wend))
}
proof fn lemma_first_stop(p: Seq<Result<Value, MergeError>>, wend: int, j: int)
    requires 0 <= j <= p.len(), forall|i: int| 0 <= i < j ==> (#[trigger] p[i]) is Ok && p[i]->Ok_0.end < wend,
    ensures is_stop(p, first_stop(p, wend, j), wend),
    decreases p.len() - j,
{
    if j < p.len() && !(p[j] is Err || p[j]->Ok_0.end >= wend) { lemma_first_stop(p, wend, j + 1); }
}
/// every section has a stop index (the ghost argument `k` of next_section exists)
proof fn lemma_stop_of(p: Seq<Result<Value, MergeError>>, wend: int)
    ensures is_stop(p, stop_of(p, wend), wend),
{
    reveal(stop_of);
    lemma_first_stop(p, wend, 0);
}
/// a section that stops without an error looks at no more values than it has pending
proof fn lemma_n_taken_le(p: Seq<Result<Value, MergeError>>, k: int, wend: int)
    requires is_stop(p, k, wend),
    ensures 0 <= n_taken(p, k) <= p.len(),
{ }
/// the window folds, one section (the only place where they are unfolded)
proof fn lemma_win_zero(pre: Seq<Seq<Result<Value, MergeError>>>, ks: Seq<int>, d0: Seq<f64>, m0: int, cs: int)
    ensures win_data(pre, ks, 0, d0, cs) == d0, win_mdl(pre, ks, 0, m0, cs) == m0,
{
    reveal_with_fuel(win_data, 1); reveal_with_fuel(win_mdl, 1);
}
proof fn lemma_win_step(pre: Seq<Seq<Result<Value, MergeError>>>, ks: Seq<int>, i: int, d0: Seq<f64>, m0: int, cs: int)
    requires 0 <= i,
    ensures
        win_data(pre, ks, i + 1, d0, cs) == add_vals(win_data(pre, ks, i, d0, cs), taken(pre[i], ks[i]), cs),
        win_mdl(pre, ks, i + 1, m0, cs) == touch_ends(win_mdl(pre, ks, i, m0, cs), taken(pre[i], ks[i]), cs),
{
    reveal_with_fuel(win_data, 1); reveal_with_fuel(win_mdl, 1);
}
/// total_len over a prefix: one more section; never more than the whole
proof fn lemma_total_len_take(ps: Seq<Seq<Result<Value, MergeError>>>, i: int)
    requires 0 <= i < ps.len(),
    ensures total_len(ps.subrange(0, i + 1)) == total_len(ps.subrange(0, i)) + ps[i].len(),
{
    assert(ps.subrange(0, i + 1).drop_last() =~= ps.subrange(0, i));
    assert(ps.subrange(0, i + 1).last() == ps[i]);
}
proof fn lemma_total_len_mono(ps: Seq<Seq<Result<Value, MergeError>>>, i: int)
    requires 0 <= i <= ps.len(),
    ensures 0 <= total_len(ps.subrange(0, i)) <= total_len(ps),
    decreases ps.len() - i,
{
    if i < ps.len() {
        lemma_total_len_take(ps, i);
        lemma_total_len_mono(ps, i + 1);
        lemma_total_len_nonneg(ps.subrange(0, i));
    } else {
        assert(ps.subrange(0, i) =~= ps);
        lemma_total_len_nonneg(ps);
    }
}
proof fn lemma_total_len_nonneg(ps: Seq<Seq<Result<Value, MergeError>>>)
    ensures 0 <= total_len(ps),
    decreases ps.len(),
{
    if ps.len() > 0 { lemma_total_len_nonneg(ps.drop_last()); }
}
/// no section among the first i looked at a value
spec fn none_taken_upto(pre: Seq<Seq<Result<Value, MergeError>>>, ks: Seq<int>, i: int) -> bool {
    forall|j: int| 0 <= j < i ==> taken(#[trigger] pre[j], ks[j]).len() == 0
}

// ---------------- the state invariant of ValueIter, in pieces ----------------
spec fn opt_v(o: Option<Value>) -> Seq<Value> { if o is Some { seq![o->Some_0] } else { Seq::empty() } }
/// all window outputs, in order
#[verifier::opaque]
spec fn flat(ws: Seq<Win>) -> Seq<Value>
    decreases ws.len()
{
    if ws.len() == 0 { Seq::empty() } else { flat(ws.drop_last()) + ws.last().out }
}
/// one window: its sums are the fold of the inputs' values, its output is the RLE of the sums
spec fn win_ok(w: Win) -> bool {
    &&& 0 <= w.cs <= u32::MAX as int
    &&& stops_ok(w.pre, w.ks, w.cs + DATA_SIZE as int)
    &&& w.data == win_data(w.pre, w.ks, w.pre.len() as int, zeros(), w.cs)
    &&& 0 <= w.mdl <= DATA_SIZE && w.cs + w.mdl <= u32::MAX as int
    &&& w.mdl == win_mdl(w.pre, w.ks, w.pre.len() as int, 0, w.cs)   // (iii) the largest in-window end touched in THIS window
    &&& runs_tile(w.runs, w.mdl)
    &&& forall|q: int| 0 <= q < w.runs.len() ==> run_ok(w.data, (#[trigger] w.runs[q]).0, w.runs[q].1, w.mdl)
    &&& w.out == emit(w.runs, w.data, w.cs)
}
#[verifier::opaque]
spec fn windows_ok(ws: Seq<Win>) -> bool { forall|i: int| 0 <= i < ws.len() ==> win_ok(#[trigger] ws[i]) }
/// windows follow each other: starts advance by exactly DATA_SIZE (saturating at u32::MAX), each window
/// starts from what the previous one left pending, the sections now hold what the last one left pending
#[verifier::opaque]
spec fn chain_ok(ws: Seq<Win>, ns: int, cur: Seq<Seq<Result<Value, MergeError>>>) -> bool {
    &&& forall|i: int| 0 <= i < ws.len() - 1 ==> (#[trigger] ws[i + 1]).cs == next_cs(ws[i].cs)
    &&& ws.len() > 0 ==> ns == next_cs(ws.last().cs)
    &&& forall|i: int| 0 <= i < ws.len() - 1 ==> (#[trigger] ws[i + 1]).pre == next_pends(ws[i].pre, ws[i].ks)
    &&& ws.len() > 0 ==> cur == next_pends(ws.last().pre, ws.last().ks)
}
/// C15: everything handed out so far followed by everything computed but not yet handed out is
/// exactly the concatenation of the window outputs: nothing dropped, nothing emitted twice
spec fn conserved(h: Hist, pending_out: Seq<Value>) -> bool { h.emitted + pending_out == flat(h.wins) }
/// C15: the whole output stream is sorted, disjoint, non-empty values; all of it lies before `ns`
#[verifier::opaque]
spec fn stream_sorted(ws: Seq<Win>, ns: int) -> bool { sorted_in(flat(ws), 0, ns) }
#[verifier::opaque]
spec fn inputs_ok(ps: Seq<Seq<Result<Value, MergeError>>>, ns: int) -> bool {
    &&& all_sec_ok(ps, ns)
    &&& total_len(ps) <= MAXHALF
}
spec fn all_empty(ps: Seq<Seq<Result<Value, MergeError>>>) -> bool { forall|i: int| 0 <= i < ps.len() ==> (#[trigger] ps[i]).len() == 0 }

// ---------------- lemmas (D) ----------------
proof fn lemma_flat_push(ws: Seq<Win>, w: Win)
    ensures flat(ws.push(w)) == flat(ws) + w.out,
{
    reveal_with_fuel(flat, 1);
    assert(ws.push(w).drop_last() =~= ws);
}
proof fn lemma_sorted_concat(a: Seq<Value>, b: Seq<Value>, lo: int, mid: int, hi: int)
    requires sorted_in(a, lo, mid), sorted_in(b, mid, hi), lo <= mid <= hi,
    ensures sorted_in(a + b, lo, hi),
{
    reveal(sorted_in);
    let c = a + b;
    assert forall|i: int| 0 <= i < c.len() implies lo <= (#[trigger] c[i]).start < c[i].end <= hi by {
        if i < a.len() { assert(c[i] == a[i]); } else { assert(c[i] == b[i - a.len()]); }
    }
    assert forall|i: int, j: int| 0 <= i < j < c.len() implies (#[trigger] c[i]).end <= (#[trigger] c[j]).start by {
        if i < a.len() { assert(c[i] == a[i]); } else { assert(c[i] == b[i - a.len()]); }
        if j < a.len() { assert(c[j] == a[j]); } else { assert(c[j] == b[j - a.len()]); }
    }
}
proof fn lemma_total_len_suffix(pre: Seq<Seq<Result<Value, MergeError>>>, ks: Seq<int>)
    requires ks.len() == pre.len(), forall|i: int| 0 <= i < pre.len() ==> 0 <= #[trigger] ks[i] <= pre[i].len(),
    ensures total_len(next_pends(pre, ks)) <= total_len(pre),
    decreases pre.len(),
{
    if pre.len() > 0 {
        lemma_total_len_suffix(pre.drop_last(), ks.drop_last());
        assert(next_pends(pre, ks).drop_last() =~= next_pends(pre.drop_last(), ks.drop_last()));
        assert(next_pends(pre, ks).last() == pre.last().subrange(ks.last(), pre.last().len() as int));
    }
}
/// one more window, part 1: the output stream.  The held back value (if any) is the last value of the
/// stream so far, so it ends at or before the new window's start and goes in front of the new runs.
proof fn lemma_step_stream(h: Hist, lv: Option<Value>, w: Win)
    requires
        conserved(h, opt_v(lv)), stream_sorted(h.wins, w.cs),
        0 <= w.cs, 0 <= w.mdl <= DATA_SIZE, w.cs + w.mdl <= u32::MAX as int,
        sorted_in(w.out, w.cs, w.cs + w.mdl),
    ensures
        conserved(Hist { wins: h.wins.push(w), emitted: h.emitted }, opt_v(lv) + w.out),
        stream_sorted(h.wins.push(w), next_cs(w.cs)),
        queue_sorted(w.out),
        lv is Some ==> lv->Some_0.start < lv->Some_0.end && lv->Some_0.end <= w.cs,
        w.out.len() > 0 ==> w.cs <= w.out[0].start,
{
    reveal(stream_sorted); reveal(sorted_in); reveal(queue_sorted);
    lemma_flat_push(h.wins, w);
    lemma_sorted_concat(flat(h.wins), w.out, 0, w.cs, w.cs + w.mdl);
    lemma_sorted_widen(flat(h.wins) + w.out, 0, w.cs + w.mdl, next_cs(w.cs));
    assert(h.emitted + (opt_v(lv) + w.out) =~= (h.emitted + opt_v(lv)) + w.out);
    let f = flat(h.wins);
    if lv is Some {
        assert(f[f.len() - 1] == (h.emitted + opt_v(lv))[f.len() - 1]);
        assert(f[f.len() - 1] == lv->Some_0);
    }
}
/// part 2: the window records
proof fn lemma_step_windows(ws: Seq<Win>, w: Win)
    requires windows_ok(ws), win_ok(w),
    ensures windows_ok(ws.push(w)),
{
    reveal(windows_ok);
    let ws2 = ws.push(w);
    assert forall|i: int| 0 <= i < ws2.len() implies win_ok(#[trigger] ws2[i]) by {
        if i < ws.len() { assert(ws2[i] == ws[i]); }
    }
}
/// part 3: the chain of windows
proof fn lemma_step_chain(ws: Seq<Win>, w: Win, cur: Seq<Seq<Result<Value, MergeError>>>, post: Seq<Seq<Result<Value, MergeError>>>)
    requires chain_ok(ws, w.cs, cur), w.pre == cur, post == next_pends(cur, w.ks),
    ensures chain_ok(ws.push(w), next_cs(w.cs), post),
{
    reveal(chain_ok);
    let ws2 = ws.push(w);
    assert forall|i: int| 0 <= i < ws2.len() - 1 implies (#[trigger] ws2[i + 1]).cs == next_cs(ws2[i].cs) by {
        assert(ws2[i] == ws[i]);
        if i + 1 < ws.len() { assert(ws2[i + 1] == ws[i + 1]); } else { assert(ws[i] == ws.last()); }
    }
    assert forall|i: int| 0 <= i < ws2.len() - 1 implies (#[trigger] ws2[i + 1]).pre == next_pends(ws2[i].pre, ws2[i].ks) by {
        assert(ws2[i] == ws[i]);
        if i + 1 < ws.len() { assert(ws2[i + 1] == ws[i + 1]); } else { assert(ws[i] == ws.last()); }
    }
}
/// part 4: the inputs still pending keep their bounds (the next window starts at or before this one's end)
proof fn lemma_step_inputs(cur: Seq<Seq<Result<Value, MergeError>>>, ks: Seq<int>, cs: int, post: Seq<Seq<Result<Value, MergeError>>>)
    requires
        inputs_ok(cur, cs), stops_ok(cur, ks, cs + DATA_SIZE as int),
        post == next_pends(cur, ks), all_sec_ok(post, cs + DATA_SIZE as int),
    ensures inputs_ok(post, next_cs(cs)),
{
    reveal(inputs_ok);
    assert forall|i: int| 0 <= i < cur.len() implies 0 <= #[trigger] ks[i] <= cur[i].len() by {
        assert(is_stop(cur[i], ks[i], cs + DATA_SIZE as int));
    }
    assert forall|i: int| 0 <= i < post.len() implies sec_ok(#[trigger] post[i], next_cs(cs)) by {
        assert(sec_ok(post[i], cs + DATA_SIZE as int));
        reveal(sec_ok);
    }
    lemma_total_len_suffix(cur, ks);
}
proof fn lemma_sorted_widen(o: Seq<Value>, lo: int, hi: int, hi2: int)
    requires sorted_in(o, lo, hi), hi <= hi2,
    ensures sorted_in(o, lo, hi2),
{
    reveal(sorted_in);
}
/// the saturated window (its end lies beyond u32::MAX) drains every section: no u32 end reaches its end
proof fn lemma_saturated_drains(ps: Seq<Seq<Result<Value, MergeError>>>, ks: Seq<int>, wend: int)
    requires stops_ok(ps, ks, wend), wend > u32::MAX as int,
    ensures all_empty(next_pends(ps, ks)), [[L: spec/saturated_window_parks_nothing_and_drains_every_section]]
{
    assert forall|i: int| 0 <= i < ps.len() implies (#[trigger] next_pends(ps, ks)[i]).len() == 0 by {
        assert(is_stop(ps[i], ks[i], wend) && !stop_is_err(ps[i], ks[i]));
    }
}
/// when nothing is pending no section sees a value
proof fn lemma_empty_none_taken(ps: Seq<Seq<Result<Value, MergeError>>>, ks: Seq<int>, wend: int)
    requires stops_ok(ps, ks, wend), all_empty(ps),
    ensures none_taken(ps, ks),
{
    assert forall|i: int| 0 <= i < ps.len() implies taken(#[trigger] ps[i], ks[i]).len() == 0 by {
        assert(is_stop(ps[i], ks[i], wend));
        assert(ps[i].len() == 0);
    }
}
/// a window in which no section saw a value leaves every section exhausted
proof fn lemma_none_taken_exhausted(ps: Seq<Seq<Result<Value, MergeError>>>, ks: Seq<int>, wend: int)
    requires stops_ok(ps, ks, wend), none_taken(ps, ks),
    ensures all_empty(next_pends(ps, ks)),
{
    assert forall|i: int| 0 <= i < ps.len() implies (#[trigger] next_pends(ps, ks)[i]).len() == 0 by {
        assert(taken(ps[i], ks[i]).len() == 0);
        assert(is_stop(ps[i], ks[i], wend));
    }
}

// ---------------- shims for insert_into_queue (C) ----------------
#[verifier::external_body]
pub fn vpanic() -> !
    requires false
{ panic!() }
/// `std::mem::replace(queued, v)` where `queued` is the element idx of the queue handed out by iter_mut
pub fn replace_at(q: &mut Vec<Value>, i: usize, v: Value) -> (r: Value)
    requires i < old(q)@.len(),
    ensures r == old(q)@[i as int], final(q)@ == old(q)@.update(i as int, v),
{ let r = q[i]; q.set(i, v); r }
/// utils::merge::merge_into — proved by the Kani unit `merge_into` (contracts/merge_into): under PRE
/// (both non-empty, sharing at least one base; finiteness of the values is not expressible here) the
/// pieces tile [min start, max end) without gap or overlap.  Only PRE is used by this unit.
#[verifier::external_body]
pub fn merge_into(one: Value, two: Value) -> (r: (Value, Option<Value>, Option<Value>, Option<Value>))
    requires one.start < one.end, two.start < two.end, one.end > two.start, two.end > one.start,
    ensures
        r.0.start == (if one.start <= two.start { one.start } else { two.start }),
        r.0.start < r.0.end,
{ unimplemented!() }
/// sorted, disjoint, non-empty
#[verifier::opaque]
spec fn queue_sorted(o: Seq<Value>) -> bool {
    &&& forall|i: int| 0 <= i < o.len() ==> (#[trigger] o[i]).start < o[i].end
    &&& forall|i: int, j: int| 0 <= i < j < o.len() ==> (#[trigger] o[i]).end <= (#[trigger] o[j]).start
}

/// max_sections handed to the encoder stays far below usize::MAX / 2
proof fn lemma_total_len_suffix_bound(pre: Seq<Seq<Result<Value, MergeError>>>, ms: int)
    requires total_len(pre) <= MAXHALF, ms <= total_len(pre),
    ensures ms <= usize::MAX / 2,
{ }

/// what insert_into_queue needs of a sorted queue: its first value is non-empty and ends no later than its last
proof fn lemma_queue_front_back(q: Seq<Value>)
    requires queue_sorted(q), q.len() > 0,
    ensures q[0].start < q[0].end <= q.last().end,
{
    reveal(queue_sorted);
    let _ = q[0]; let _ = q[q.len() - 1];
}

// ---------------- per-base reading of the window sums (C15 "the value at every base is the sum") ----------------
/// the sum cell `b` holds after the values `s` (in this order): one `+ value` for each value covering base b
spec fn cell_sum(x: f64, s: Seq<Value>, b: int) -> f64
    decreases s.len()
{
    if s.len() == 0 { x } else {
        let y = cell_sum(x, s.drop_last(), b);
        if covers(s.last(), b) { y.add_spec(f64_of(s.last().value)) } else { y }
    }
}
proof fn lemma_cell_is_ordered_sum(d: Seq<f64>, s: Seq<Value>, cs: int, c: int)
    requires 0 <= c < d.len(),
    ensures
        add_vals(d, s, cs).len() == d.len(),
        add_vals(d, s, cs)[c] == cell_sum(d[c], s, cs + c), [[L: spec/cell_is_ordered_sum_of_the_values_covering_its_base]]
    decreases s.len(),
{
    reveal_with_fuel(add_vals, 1);
    if s.len() > 0 {
        lemma_cell_is_ordered_sum(d, s.drop_last(), cs, c);
    }
}
/// ... over the sections in order
spec fn win_cell(pre: Seq<Seq<Result<Value, MergeError>>>, ks: Seq<int>, i: int, x: f64, b: int) -> f64
    decreases i
{
    if i <= 0 { x } else { cell_sum(win_cell(pre, ks, i - 1, x, b), taken(pre[i - 1], ks[i - 1]), b) }
}
proof fn lemma_win_cell(pre: Seq<Seq<Result<Value, MergeError>>>, ks: Seq<int>, i: int, d0: Seq<f64>, cs: int, c: int)
    requires 0 <= c < d0.len(), 0 <= i,
    ensures
        win_data(pre, ks, i, d0, cs).len() == d0.len(),
        win_data(pre, ks, i, d0, cs)[c] == win_cell(pre, ks, i, d0[c], cs + c), [[L: spec/window_cell_is_ordered_sum_over_sections_in_order]]
    decreases i,
{
    reveal_with_fuel(win_data, 1);
    if i > 0 {
        lemma_win_cell(pre, ks, i - 1, d0, cs, c);
        lemma_cell_is_ordered_sum(win_data(pre, ks, i - 1, d0, cs), taken(pre[i - 1], ks[i - 1]), cs, c);
    }
}
/// values a section does not take in a window have no base in it: those used up earlier ended before the
/// window start (sec_ok), those behind the stop value start at or after the window end
proof fn lemma_untaken_do_not_cover(p: Seq<Result<Value, MergeError>>, cs: int, k: int, wend: int, j: int, b: int)
    requires sec_ok(p, cs), is_stop(p, k, wend), !stop_is_err(p, k), n_taken(p, k) <= j < p.len(), p[j] is Ok, b < wend,
    ensures !covers(p[j]->Ok_0, b), [[L: spec/values_left_pending_have_no_base_in_the_window]]
{
    reveal(sec_ok);
    let _ = p[k];
}

// ---------------- constructor shim ----------------
spec fn streams(s: Seq<VIter>) -> Seq<Seq<Result<Value, MergeError>>> { Seq::new(s.len(), |i: int| s[i].rest()) }
/// `sections.into_iter().map(|s| (s, None)).collect()`: every stream paired with an empty parking slot, in order
#[verifier::external_body]
fn pair_with_none(sections: Vec<VIter>) -> (r: Vec<(VIter, Option<Value>)>)
    ensures r@.len() == sections@.len(), forall|i: int| 0 <= i < r@.len() ==> (#[trigger] r@[i]).0 == sections@[i] && r@[i].1 is None,
{ unimplemented!() }
proof fn lemma_initial_state(secs: Seq<(VIter, Option<Value>)>, ss: Seq<VIter>)
    requires secs.len() == ss.len(), forall|i: int| 0 <= i < secs.len() ==> (#[trigger] secs[i]).0 == ss[i] && secs[i].1 is None,
    ensures
        pends(secs) == streams(ss),
        flat(Seq::<Win>::empty()) == Seq::<Value>::empty(),
        stream_sorted(Seq::<Win>::empty(), 0), windows_ok(Seq::<Win>::empty()), chain_ok(Seq::<Win>::empty(), 0, pends(secs)),
{
    reveal_with_fuel(flat, 1); reveal(stream_sorted); reveal(sorted_in); reveal(windows_ok); reveal(chain_ok);
    assert forall|i: int| 0 <= i < secs.len() implies pends(secs)[i] == streams(ss)[i] by {
        assert(opt_seq(secs[i].1) + secs[i].0.rest() =~= ss[i].rest());
    }
    assert(pends(secs) =~= streams(ss));
}
