#!/bin/sh
# Offline setup: pre-build the replay drivers' dependency artifacts (cache only; every check
# rebuilds the bigtools crate itself from /repo's current working tree).
set -e
cd /verif/replay
cp /repo/Cargo.lock . 2>/dev/null || true
mkdir -p /verif/.cache
CARGO_NET_OFFLINE=true CARGO_TARGET_DIR=/verif/.cache/replay-target cargo build --offline >/verif/.cache/setup.log 2>&1 || { tail -20 /verif/.cache/setup.log; echo "replay driver build failed (checks still run; replay search will be skipped)"; }
exit 0
