// bigwigmerge: the per-value post-processing of `MergingValues::new` -- the two closures handed to
// `.map(..)` and `.filter(..)` on the merged stream.
//   C15: "The merge tool applies clip, adjust and threshold to that per-base sum":
//        value' = min(clip, sum) + adjust  (clip FIRST, then adjust; no clip => sum + adjust),
//        the value is kept iff value' > threshold, start/end untouched, errors pass through.
// NOT covered: the iterator plumbing around the closures (`merge_sections_many(iters).map(..).filter(..)`,
// `Box<dyn Iterator>`, `.peekable()`, the `Iterator for MergingValues` impl) -- see NOTES.md.
use vstd::prelude::*;
use vstd::std_specs::ops::*;
use vstd::std_specs::convert::FromSpec;
verus! {
// ---- shared float prelude -------------------------------------------------
// Rust float operators are total; Verus models their results as uninterpreted
// functions (`add_spec`, `mul_spec`, `from_spec`, ...).  The axioms below say
// only (1) the operators have no precondition and (2) the exec operator returns
// the value of its spec function (determinism).  Nothing numerical is assumed.
mod float_ax {
use vstd::prelude::*;
use vstd::std_specs::ops::*;
use vstd::std_specs::convert::FromSpec;
pub broadcast axiom fn ax_f64_mul_total(a: f64, b: f64) ensures #[trigger] a.mul_req(b);
pub broadcast axiom fn ax_f64_add_total(a: f64, b: f64) ensures #[trigger] a.add_req(b);
pub broadcast axiom fn ax_f64_sub_total(a: f64, b: f64) ensures #[trigger] a.sub_req(b);
pub broadcast axiom fn ax_f64_div_total(a: f64, b: f64) ensures #[trigger] a.div_req(b);
pub broadcast axiom fn ax_f32_add_total(a: f32, b: f32) ensures #[trigger] a.add_req(b);
pub broadcast axiom fn ax_f32_sub_total(a: f32, b: f32) ensures #[trigger] a.sub_req(b);
pub broadcast group float_total { ax_f64_mul_total, ax_f64_add_total, ax_f64_sub_total, ax_f64_div_total, ax_f32_add_total, ax_f32_sub_total }
pub axiom fn float_det()
    ensures
        <f64 as AddSpec<f64>>::obeys_add_spec(), <f64 as MulSpec<f64>>::obeys_mul_spec(),
        <f64 as SubSpec<f64>>::obeys_sub_spec(), <f64 as DivSpec<f64>>::obeys_div_spec(),
        <f32 as AddSpec<f32>>::obeys_add_spec(), <f32 as SubSpec<f32>>::obeys_sub_spec(),
        <f64 as FromSpec<u32>>::obeys_from_spec(), <f64 as FromSpec<f32>>::obeys_from_spec();
}
broadcast use float_ax::float_total;
pub uninterp spec fn fmin(a: f64, b: f64) -> f64;
pub uninterp spec fn fmax(a: f64, b: f64) -> f64;
pub assume_specification [f64::min] (a: f64, b: f64) -> (r: f64) ensures r == fmin(a, b);
pub assume_specification [f64::max] (a: f64, b: f64) -> (r: f64) ensures r == fmax(a, b);
// float constants (rule R12c): Verus has no model of core::f64 associated consts; each is an
// uninterpreted spec constant, distinct names so that swapping two of them is visible.
pub uninterp spec fn spec_f64_max() -> f64;
pub uninterp spec fn spec_f64_min() -> f64;
pub uninterp spec fn spec_f64_min_positive() -> f64;
pub uninterp spec fn spec_f64_nan() -> f64;
pub uninterp spec fn spec_f64_infinity() -> f64;
pub uninterp spec fn spec_f64_neg_infinity() -> f64;
pub uninterp spec fn spec_f64_epsilon() -> f64;
#[verifier::external_body] pub fn fconst_f64_max() -> (r: f64) ensures r == spec_f64_max() { f64::MAX }
#[verifier::external_body] pub fn fconst_f64_min() -> (r: f64) ensures r == spec_f64_min() { f64::MIN }
#[verifier::external_body] pub fn fconst_f64_min_positive() -> (r: f64) ensures r == spec_f64_min_positive() { f64::MIN_POSITIVE }
#[verifier::external_body] pub fn fconst_f64_nan() -> (r: f64) ensures r == spec_f64_nan() { f64::NAN }
#[verifier::external_body] pub fn fconst_f64_infinity() -> (r: f64) ensures r == spec_f64_infinity() { f64::INFINITY }
#[verifier::external_body] pub fn fconst_f64_neg_infinity() -> (r: f64) ensures r == spec_f64_neg_infinity() { f64::NEG_INFINITY }
#[verifier::external_body] pub fn fconst_f64_epsilon() -> (r: f64) ensures r == spec_f64_epsilon() { f64::EPSILON }

#[derive(Copy, Clone)]
pub struct Value {
    pub start: u32,
    pub end: u32,
    pub value: f32,
}

// ---------------- shims (assumed; listed in NOTES.md) ----------------
/// `f32::min`: result uninterpreted (shape only), deterministic.
pub uninterp spec fn fmin32(a: f32, b: f32) -> f32;
pub uninterp spec fn fmax32(a: f32, b: f32) -> f32;
pub assume_specification [f32::min] (a: f32, b: f32) -> (r: f32) ensures r == fmin32(a, b);
pub assume_specification [f32::max] (a: f32, b: f32) -> (r: f32) ensures r == fmax32(a, b);
/// float comparisons: Verus leaves the result of `a > b` on floats unconstrained; each comparison
/// operator goes to its own helper with its own uninterpreted spec predicate, so that the contract
/// can say "the strict greater-than test of the value against the threshold" and nothing numerical.
pub uninterp spec fn fgt32(a: f32, b: f32) -> bool;
pub uninterp spec fn fge32(a: f32, b: f32) -> bool;
pub uninterp spec fn flt32(a: f32, b: f32) -> bool;
pub uninterp spec fn fle32(a: f32, b: f32) -> bool;
#[verifier::external_body] fn f32_gt(a: f32, b: f32) -> (r: bool) ensures r == fgt32(a, b) { a > b }
#[verifier::external_body] fn f32_ge(a: f32, b: f32) -> (r: bool) ensures r == fge32(a, b) { a >= b }
#[verifier::external_body] fn f32_lt(a: f32, b: f32) -> (r: bool) ensures r == flt32(a, b) { a < b }
#[verifier::external_body] fn f32_le(a: f32, b: f32) -> (r: bool) ensures r == fle32(a, b) { a <= b }
/// Plausible foreign call (`Option::map_or` with a closure, e.g. `clip.map_or(x, |c| c.min(x))`): accepted
/// with NO postcondition, so an edit that routes the computation through it is judged (and fails), not rejected.
#[verifier::external_body] fn opt_map_or_unknown(o: Option<f32>, d: f32) -> (r: f32) { unimplemented!() }

// ---------------- specification vocabulary (from the property text) ----------------
/// clip first (upper bound `min(clip, sum)`), then add the adjustment
pub open spec fn adjusted(sum: f32, clip: Option<f32>, adjust: f32) -> f32 {
    (match clip { Some(c) => fmin32(c, sum), None => sum }).add_spec(adjust)
}

// (1) the `.map(..)` closure: body of `x.map(|mut v| { .. })`
fn adjust_value(mut v: Value, clip: Option<f32>, adjust: f32) -> (r: Value)
    ensures
        
        r.start == v.start && r.end == v.end,
        
        r.value == adjusted(v.value, clip, adjust),
{
    proof { float_ax::float_det(); }

                        if let Some(clip) = clip {
                            v.value = clip.min(v.value);
                        }
                        v.value = v.value + (adjust);
                        v
}

// (2) the `.filter(..)` closure: the test applied to an Ok value.  Two spellings of the closure are carved: the
// repository's `x.as_ref().map_or(D, |v| TEST)` and `matches!(x, Ok(v) if TEST)`; TEST is what is judged here, what
// happens to an Err item (D resp. `false`: `matches!` is false for everything the pattern does not match) is (4).
fn keep_value(v: &Value, threshold: f32) -> (keep: bool)
    ensures
        
        keep == fgt32(v.value, threshold),
{
    f32_gt(v.value, threshold)
}

// ---------------- (3)+(4): the closures WITH their Result plumbing ----------------
// Error type of the stream: opaque (the real enum carries thiserror attributes and io::Error).
#[verifier::external_body]
pub struct MergingValuesError { _p: u8 }
/// `Result::map_or(self, default, f)` (std): Ok(t) => f(t), Err(_) => default.  (`Result::map` has a vstd spec.)
pub assume_specification<T, E, U, F: FnOnce(T) -> U> [Result::<T, E>::map_or] (s: Result<T, E>, d: U, f: F) -> (r: U)
    requires s matches Ok(t) ==> f.requires((t,)),
    ensures s matches Ok(t) ==> f.ensures((t,), r),
        s.is_err() ==> r == d;

// (3) whole body of the `.map(move |x| { .. })` closure: `x.map(|mut v| { .. })`.  The inner closure gets its
// parameter type and a contract (Verus closures have no inferred postcondition) by //@sub; that contract is
// the same as adjust_value's and is proved for the closure body again.
fn adjust_item(x: Result<Value, MergingValuesError>, clip: Option<f32>, adjust: f32) -> (r: Result<Value, MergingValuesError>)
    ensures
        
        x matches Err(e) ==> r matches Err(e2) && e2 == e,
        
        x matches Ok(v) ==> r matches Ok(w) && w.start == v.start && w.end == v.end,
        
        x matches Ok(v) ==> r matches Ok(w) && w.value == adjusted(v.value, clip, adjust),
{
                    x.map(|mut v: Value| -> (w: Value) ensures w.start == v.start && w.end == v.end && w.value == adjusted(v.value, clip, adjust) { proof { float_ax::float_det(); }
                        if let Some(clip) = clip {
                            v.value = clip.min(v.value);
                        }
                        v.value = v.value + (adjust);
                        v
                    })
}

// (4) whole body of the `.filter(move |x| ..)` closure, whatever its spelling (`matches!(x, Ok(v) if TEST)` is
// accepted by Verus with its real meaning: true iff the pattern matches AND the guard holds, so false on Err)
fn keep_item(x: &Result<Value, MergingValuesError>, threshold: f32) -> (keep: bool)
    ensures
        
        x.is_err() ==> keep,
        
        x matches Ok(v) ==> keep == fgt32(v.value, threshold),
{
    x.as_ref().map_or(true, |v: &Value| -> (k: bool) ensures k == fgt32(v.value, threshold) { f32_gt(v.value, threshold) })
}

} // verus!
fn main() {}

