// ---- COPY of the writer-side format spec of unit chrom_tree (contracts/chrom_tree/unit.rs.tpl, prelude:
// ---- `Chrom`, `imax`, `zeros`, `pad`, `max_key`, `put_tree_header`, `put_node_header`, `put_item`,
// ---- `items_from`, `fmt_chrom_tree_from`, `item_bytes`, `item_off` and the lemmas `lemma_max_key_bounds`,
// ---- `lemma_items_len`, `lemma_item_off`, `lemma_item_off_mono`, `lemma_item_at`), text unchanged.
// ---- It is a COPY (chrom_tree keeps its spec inside its template, so it cannot be `//@include`d): if
// ---- chrom_tree's spec changes this file must follow.  `write_chrom_tree` is proved there to append exactly
// ---- `fmt_chrom_tree_from(old, chroms)`.

/// one chromosome as the replaced prologue hands it to the writing code: (name bytes, id, length)
pub type Chrom = (Vec<u8>, u32, u32);

pub open spec fn imax(a: int, b: int) -> int { if a >= b { a } else { b } }
pub open spec fn zeros(n: int) -> Seq<u8> { Seq::new(n as nat, |i: int| 0u8) }
/// key field: the name followed by NULs up to keySize bytes
pub open spec fn pad(name: Seq<u8>, n: int) -> Seq<u8> { name + zeros(n - name.len()) }
/// keySize = the longest name
pub open spec fn max_key(c: Seq<Chrom>) -> int
    decreases c.len()
{
    if c.len() == 0 { 0 } else { imax(max_key(c.drop_last()), c.last().0@.len() as int) }
}
/// tree header, 32 bytes: magic 0x78CA8C91, blockSize u32, keySize u32, valSize u32 (= 8), itemCount u64, reserved u64 (= 0)
pub open spec fn put_tree_header(b: Seq<u8>, n: int, key: int) -> Seq<u8> {
    b + le32(0x78CA8C91u32) + le32(imax(256, n) as u32) + le32(key as u32) + le32(8u32) + le64(n as u64) + le64(0u64)
}
/// node header, 4 bytes: isLeaf u8 (= 1), reserved u8 (= 0), count u16
pub open spec fn put_node_header(b: Seq<u8>, n: int) -> Seq<u8> {
    b.push(1u8).push(0u8) + le16(n as u16)
}
/// leaf item: key (keySize bytes), chromId u32, chromSize u32
pub open spec fn put_item(b: Seq<u8>, c: Chrom, key: int) -> Seq<u8> {
    b + pad(c.0@, key) + le32(c.1) + le32(c.2)
}
pub open spec fn items_from(b: Seq<u8>, c: Seq<Chrom>, key: int) -> Seq<u8>
    decreases c.len()
{
    if c.len() == 0 { b } else { put_item(items_from(b, c.drop_last(), key), c.last(), key) }
}
/// `b` followed by the whole chromosome tree of `c`
pub open spec fn fmt_chrom_tree_from(b: Seq<u8>, c: Seq<Chrom>) -> Seq<u8> {
    items_from(put_node_header(put_tree_header(b, c.len() as int, max_key(c)), c.len() as int), c, max_key(c))
}

pub proof fn lemma_max_key_bounds(c: Seq<Chrom>, i: int)
    requires 0 <= i < c.len(),
    ensures c[i].0@.len() <= max_key(c), 0 <= max_key(c),
    decreases c.len(),
{
    if i < c.len() - 1 { lemma_max_key_bounds(c.drop_last(), i); }
    else if c.len() > 1 { lemma_max_key_bounds(c.drop_last(), 0); }
}
pub proof fn lemma_items_len(b: Seq<u8>, c: Seq<Chrom>, key: int)
    requires forall|i: int| 0 <= i < c.len() ==> (#[trigger] c[i]).0@.len() <= key,
    ensures items_from(b, c, key).len() == b.len() + c.len() * (key + 8),
    decreases c.len(),
{
    if c.len() > 0 {
        let d = c.drop_last();
        assert forall|i: int| 0 <= i < d.len() implies (#[trigger] d[i]).0@.len() <= key by { assert(d[i] == c[i]); }
        lemma_items_len(b, d, key);
        assert(c.len() * (key + 8) == d.len() * (key + 8) + (key + 8)) by (nonlinear_arith) requires c.len() == d.len() + 1;
    }
}

/// leaf item i as an independent decoder finds it: key, chromId, chromSize
pub open spec fn item_bytes(c: Chrom, key: int) -> Seq<u8> { pad(c.0@, key) + le32(c.1) + le32(c.2) }
/// byte offset of item i behind the node header (items are key + 8 bytes each)
pub open spec fn item_off(i: int, key: int) -> int { i * (key + 8) }
pub proof fn lemma_item_off(i: int, key: int)
    ensures item_off(i + 1, key) == item_off(i, key) + key + 8, item_off(0, key) == 0,
{
    assert((i + 1) * (key + 8) == i * (key + 8) + (key + 8)) by (nonlinear_arith);
}
pub proof fn lemma_item_off_mono(i: int, j: int, key: int)
    requires 0 <= i <= j, 0 <= key,
    ensures item_off(i, key) <= item_off(j, key),
{
    assert(i * (key + 8) <= j * (key + 8)) by (nonlinear_arith) requires 0 <= i <= j, 0 <= key;
}
/// the fixed-size items sit one after the other: item i occupies [item_off(i), item_off(i + 1)) behind `b`
pub proof fn lemma_item_at(b: Seq<u8>, c: Seq<Chrom>, key: int, i: int)
    requires 0 <= i < c.len(), 0 <= key, forall|j: int| 0 <= j < c.len() ==> (#[trigger] c[j]).0@.len() <= key,
    ensures items_from(b, c, key).subrange(b.len() + item_off(i, key), b.len() + item_off(i + 1, key)) == item_bytes(c[i], key),
    decreases c.len(),
{
    let d = c.drop_last();
    assert forall|j: int| 0 <= j < d.len() implies (#[trigger] d[j]).0@.len() <= key by { assert(d[j] == c[j]); }
    lemma_items_len(b, d, key);
    lemma_item_off(i, key);
    let g = items_from(b, d, key);
    let f = items_from(b, c, key);
    let o = b.len() + item_off(i, key);
    assert(g.len() == b.len() + item_off(d.len() as int, key));
    if i == c.len() - 1 {
        assert(f.subrange(o, o + key + 8) =~= item_bytes(c.last(), key));
    } else {
        lemma_item_at(b, d, key, i);
        lemma_item_off_mono(i + 1, d.len() as int, key);
        assert(f.subrange(o, o + key + 8) =~= g.subrange(o, o + key + 8));
    }
}
