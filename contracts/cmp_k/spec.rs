// Plain-Rust statement of the position order used by the R-tree search (no Kani items).
// Shared by the counterexample twins in kani_harness.rs and by the replay tests that run on the
// real code (kani.toml: replay_template).  A position is (chromosome index, base).

/// (c1, b1) < (c2, b2) in lexicographic order, written out.
fn lex_lt(c1: u32, b1: u32, c2: u32, b2: u32) -> bool {
    c1 < c2 || (c1 == c2 && b1 < b2)
}

/// (c1, b1) <= (c2, b2) in lexicographic order, written out.
fn lex_le(c1: u32, b1: u32, c2: u32, b2: u32) -> bool {
    c1 < c2 || (c1 == c2 && b1 <= b2)
}

/// sign of the lexicographic comparison: -1, 0, 1
fn spec_compare_position(c1: u32, b1: u32, c2: u32, b2: u32) -> i8 {
    if lex_lt(c1, b1, c2, b2) {
        -1
    } else if lex_lt(c2, b2, c1, b1) {
        1
    } else {
        0
    }
}

/// query [ (q,qs), (q,qe) ] meets block span [ (b1,b1s), (b2,b2e) ], both ends inclusive:
/// query start <= block end  and  block start <= query end.
fn spec_overlaps(q: u32, qs: u32, qe: u32, b1: u32, b1s: u32, b2: u32, b2e: u32) -> bool {
    lex_le(q, qs, b2, b2e) && lex_le(b1, b1s, q, qe)
}
