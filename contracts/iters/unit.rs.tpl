//@unit iters
//@serves C03 C04 C07 C10
//@backend verus
// The three `Iterator::next` state machines that turn "blocks found by the index search" into a stream of values:
//   bigwigread.rs: BigWigIntervalIter::next   (decoder get_block_values:      Result<Option<values>>)
//   bigbedread.rs: BigBedIntervalIter::next   (decoder get_block_entries:     Result<entries>)
//   bbiread.rs:    ZoomIntervalIter::next     (decoder get_zoom_block_values: Result<records>)
// C03/C04/C07 ("precisely the stored values that overlap .. in ascending order and with nothing else",
// "every stored entry .. each once and in stored order", "a zoom range query returns every record"): the
// iterator adds nothing, drops nothing and reorders nothing relative to the per-block decoders: the sequence
// of results is the concatenation, IN BLOCK ORDER, of what the decoder returned per block; every block the
// search found is decoded EXACTLY ONCE with (chrom, start, end) unchanged; iteration ends (None) only when
// all blocks are consumed and all decoded values handed out; `next` terminates.
// What the code does with a decoder error (stated exactly): it is handed out ONCE as Some(Err(e)), the block
// is consumed, and the next call continues with the following block.
// Device: the decoders are `//@skipbody` shims that append (block, chrom, start, end, result) to a ghost log
// carried by the file handle inside the iterator.
use vstd::prelude::*;
use std::collections::VecDeque;
verus! {

//@extract struct bigtools/src/bbi/bbiread.rs Block
//@rule R8
//@end
//@extract struct bigtools/src/bbi.rs Summary
//@rule R8
//@end
//@extract struct bigtools/src/bbi.rs Value
//@rule R8
//@end
//@extract struct bigtools/src/bbi.rs ZoomRecord
//@rule R8
//@end
// R11: `rest: String` -> `rest: Vec<u8>` (never inspected here)
//@extract struct bigtools/src/bbi.rs BedEntry
//@rule R8
//@sub /#\[derive\(Clone\)\]\n/ => ""
//@sub /rest: String/ => rest: Vec<u8>
//@end
// thiserror attributes dropped; io::Error -> opaque IoError; BedValueError -> opaque; String -> opaque Name
//@extract enum bigtools/src/bbi/bbiread.rs BBIReadError
//@rule R8
//@sub /[ \t]*#\[error\([^\n]*\)\]\n/ => "" min=5
//@sub /#\[from\] io::Error/ => IoError
//@sub /#\[from\] BedValueError/ => BedValueError
//@sub /String/ => Name min=2
//@end

// ---------------- shims (each one is a listed assumption) ----------------
#[verifier::external_body]
pub struct IoError { _p: u8 }
#[verifier::external_body]
pub struct BedValueError { _p: u8 }
#[verifier::external_body]
pub struct Name { _p: u8 }

/// one decoder call: the block, the query it was given, and what it returned
/// (Ok(Some(vs)) = these values; Ok(None) = "nothing for this query" (bigWig: block of another chromosome); Err)
pub ghost struct Call<T> {
    pub block: Block, pub chrom: u32, pub start: u32, pub end: u32,
    pub result: Result<Option<Seq<T>>, BBIReadError>,
}
/// R11 shims for the file handle `B: BorrowMut<BigWigRead<R>>` / `BorrowMut<BigBedRead<R>>` / `BorrowMut<R: BBIRead>`
/// (owned case): opaque, only a ghost log of the decoder calls made through it
#[verifier::external_body]
pub struct VFileW { _p: u8 }
impl VFileW { pub uninterp spec fn log(&self) -> Seq<Call<Value>>; }
#[verifier::external_body]
pub struct VFileB { _p: u8 }
impl VFileB { pub uninterp spec fn log(&self) -> Seq<Call<BedEntry>>; }
#[verifier::external_body]
pub struct VFileZ { _p: u8 }
impl VFileZ { pub uninterp spec fn log(&self) -> Seq<Call<ZoomRecord>>; }

pub open spec fn view_opt<T>(r: Result<Option<VecDeque<T>>, BBIReadError>) -> Result<Option<Seq<T>>, BBIReadError> {
    match r { Ok(Some(v)) => Ok(Some(v@)), Ok(None) => Ok(None), Err(e) => Err(e) }
}
pub open spec fn view_all<T>(r: Result<VecDeque<T>, BBIReadError>) -> Result<Option<Seq<T>>, BBIReadError> {
    match r { Ok(v) => Ok(Some(v@)), Err(e) => Err(e) }
}

// the per-block decoders (units bw_dec / bb_dec / zoom_dec verify their loops): signatures cut from /repo, bodies
// skipped.  ASSUMED: may fail, may return anything, may set known_offset to anything; ONE logged call with exactly
// its arguments and its result.  `std::vec::IntoIter<T>` -> `VecDeque<T>` (remaining elements, front first).
//@extract fn bigtools/src/bbi/bigwigread.rs get_block_values
//@rule R16
//@skipbody
//@sub /get_block_values<R: BBIFileRead>/ => get_block_values min=1
//@sub /&mut BigWigRead<R>/ => &mut VFileW min=1
//@sub /std::vec::IntoIter<(\w+)>/ => VecDeque<\1> min=1
//@ret r
//@sig
    ensures
        final(bigwig).log() == old(bigwig).log().push(Call { block, chrom, start, end, result: view_opt(r) }),
//@end
//@extract fn bigtools/src/bbi/bigbedread.rs get_block_entries
//@rule R16
//@skipbody
//@sub /get_block_entries<R: BBIFileRead>/ => get_block_entries min=1
//@sub /&mut BigBedRead<R>/ => &mut VFileB min=1
//@sub /std::vec::IntoIter<(\w+)>/ => VecDeque<\1> min=1
//@ret r
//@sig
    ensures
        final(bigbed).log() == old(bigbed).log().push(Call { block, chrom: expected_chrom, start, end, result: view_all(r) }),
//@end
//@extract fn bigtools/src/bbi/bbiread.rs get_zoom_block_values
//@rule R16
//@skipbody
//@sub /pub\(crate\) fn/ => fn
//@sub /get_zoom_block_values<B: BBIRead>/ => get_zoom_block_values min=1
//@sub /&mut B\b/ => &mut VFileZ min=1
//@sub /std::vec::IntoIter<(\w+)>/ => VecDeque<\1> min=1
//@ret r
//@sig
    ensures
        final(bbifile).log() == old(bbifile).log().push(Call { block, chrom, start, end, result: view_all(r) }),
//@end

// ---------------- specification vocabulary (from the property texts) ----------------
/// values handed out as results
pub open spec fn oks<T>(s: Seq<T>) -> Seq<Result<T, BBIReadError>> {
    Seq::new(s.len(), |i: int| Ok(s[i]))
}
/// what one decoder call contributes to the stream: its values in order; nothing; or its error, once
pub open spec fn yield_of<T>(c: Call<T>) -> Seq<Result<T, BBIReadError>> {
    match c.result {
        Ok(Some(vs)) => oks(vs),
        Ok(None) => Seq::empty(),
        Err(e) => seq![Err(e)],
    }
}
/// the stream a sequence of decoder calls stands for: concatenation in call order (left-associated)
pub open spec fn events<T>(calls: Seq<Call<T>>) -> Seq<Result<T, BBIReadError>>
    decreases calls.len()
{
    if calls.len() == 0 { Seq::empty() } else { events(calls.drop_last()) + yield_of(calls.last()) }
}
/// the calls decode exactly the first calls.len() of `blocks`, in order, each with the query (chrom, start, end)
pub open spec fn calls_match<T>(calls: Seq<Call<T>>, blocks: Seq<Block>, chrom: u32, start: u32, end: u32) -> bool {
    &&& calls.len() <= blocks.len()
    &&& forall|j: int| 0 <= j < calls.len() ==> (#[trigger] calls[j]).block == blocks[j] && calls[j].chrom == chrom
            && calls[j].start == start && calls[j].end == end
}
/// decoded values not yet handed out
pub open spec fn pend<T>(vals: Option<VecDeque<T>>) -> Seq<T> {
    match vals { Some(v) => v@, None => Seq::empty() }
}
pub open spec fn pend_measure<T>(vals: Option<VecDeque<T>>) -> nat {
    match vals { Some(v) => v@.len() + 1, None => 0 }
}
/// the calls appended to log `l` since it had length n0
pub open spec fn since<T>(l: Seq<Call<T>>, n0: int) -> Seq<Call<T>> { l.subrange(n0, l.len() as int) }

proof fn lemma_events_push<T>(calls: Seq<Call<T>>, c: Call<T>)
    ensures events(calls.push(c)) == events(calls) + yield_of(c),
{
    assert(calls.push(c).drop_last() =~= calls);
    assert(calls.push(c).last() == c);
}
proof fn lemma_events_concat<T>(a: Seq<Call<T>>, b: Seq<Call<T>>)
    ensures events(a + b) == events(a) + events(b),
    decreases b.len(),
{
    if b.len() == 0 {
        assert(a + b =~= a);
        assert(events(a) + events(b) =~= events(a));
    } else {
        lemma_events_concat(a, b.drop_last());
        assert((a + b).drop_last() =~= a + b.drop_last());
        assert((a + b).last() == b.last());
        assert(events(a + b) =~= events(a) + events(b));
    }
}
proof fn lemma_oks_front<T>(s: Seq<T>, v: T, rest: Seq<T>)
    requires s.len() > 0, v == s[0], rest == s.subrange(1, s.len() as int),
    ensures oks(s) == seq![Ok::<T, BBIReadError>(v)] + oks(rest),
{
    assert(oks(s) =~= seq![Ok::<T, BBIReadError>(v)] + oks(rest));
}
proof fn lemma_oks_empty<T>()
    ensures oks(Seq::<T>::empty()) == Seq::<Result<T, BBIReadError>>::empty(),
{
    assert(oks(Seq::<T>::empty()) =~= Seq::<Result<T, BBIReadError>>::empty());
}

// =====================================================================================
// BigWigIntervalIter: PhantomData dropped, B -> VFileW, IntoIter -> VecDeque
//@extract struct bigtools/src/bbi/bigwigread.rs BigWigIntervalIter
//@rule R8
//@sub /<R, B>/ => "" min=1
//@sub /[ \t]*r: std::marker::PhantomData<R>,\n/ => "" min=1
//@sub /bigwig: B,/ => bigwig: VFileW, min=1
//@sub /std::vec::IntoIter<(\w+)>/ => VecDeque<\1> min=2
//@sub /^    (\w+):/ => pub \1: min=0
//@end

impl BigWigIntervalIter {
// `impl Iterator for ..` -> inherent method; `Self::Item` written out (`type Item = Result<Value, BBIReadError>`);
// IntoIter::next -> VecDeque::pop_front; `.borrow_mut()` on the owned handle -> `&mut`; the decoder call is bound
// to a local before the `match` (same evaluation order) so that the ghost bookkeeping can be spliced after it.
//@extract method bigtools/src/bbi/bigwigread.rs next "Iterator for BigWigIntervalIter"
//@rule R16
//@sub /Option<Self::Item>/ => Option<Result<Value, BBIReadError>> min=1
//@sub /(\w)\.next\(\)/ => \1.pop_front() min=0
//@sub /(\w)\.next_back\(\)/ => \1.pop_back() min=0
//@sub /self\.(\w+)\.borrow_mut\(\)/ => &mut self.\1 min=0
//@sub /match (get_block_values\((?:[^()]|\([^()]*\))*\)) \{/ => let res__ = \1;\n                    match res__ { min=1
//@ret r
//@sig
    ensures
        [[L: bw/query_unchanged]]
        final(self).chrom == old(self).chrom, final(self).start == old(self).start, final(self).end == old(self).end,
        [[L: bw/earlier_calls_untouched]]
        old(self).bigwig.log().len() <= final(self).bigwig.log().len(),
        final(self).bigwig.log().subrange(0, old(self).bigwig.log().len() as int) == old(self).bigwig.log(),
        [[L: bw/each_consumed_block_is_decoded_exactly_once_in_order_with_chrom_start_end_unchanged]]
        calls_match(since(final(self).bigwig.log(), old(self).bigwig.log().len() as int), old(self).blocks@, old(self).chrom, old(self).start, old(self).end),
        final(self).blocks@ == old(self).blocks@.subrange(since(final(self).bigwig.log(), old(self).bigwig.log().len() as int).len() as int, old(self).blocks@.len() as int),
        [[L: bw/result_is_the_next_element_of_pending_values_then_per_block_results_in_block_order]]
        r matches Some(x) ==> oks(pend(old(self).vals)) + events(since(final(self).bigwig.log(), old(self).bigwig.log().len() as int))
            == seq![x] + oks(pend(final(self).vals)),
        [[L: bw/none_only_when_blocks_exhausted_and_values_drained_and_nothing_was_skipped]]
        r is None ==> final(self).blocks@.len() == 0 && pend(final(self).vals).len() == 0
            && oks(pend(old(self).vals)) + events(since(final(self).bigwig.log(), old(self).bigwig.log().len() as int)) == Seq::<Result<Value, BBIReadError>>::empty(),
        [[L: bw/after_an_error_the_next_call_continues_with_the_next_block]]
        r matches Some(Err(e)) ==> final(self).vals is None,
//@open
        let ghost mut calls: Seq<Call<Value>> = Seq::empty();
        let ghost log0 = self.bigwig.log();
        proof {
            assert(log0 + calls =~= log0);
            assert(self.blocks@.subrange(0, self.blocks@.len() as int) =~= self.blocks@);
            lemma_oks_empty::<Value>();
            assert(oks(pend(self.vals)) + events(calls) =~= oks(pend(self.vals)));
        }
//@loop 1
            invariant
                [[L: bw/loop/frame]]
                self.chrom == old(self).chrom, self.start == old(self).start, self.end == old(self).end,
                log0 == old(self).bigwig.log(),
                self.bigwig.log() == log0 + calls,
                [[L: bw/loop/blocks_consumed_front_to_back_one_call_each]]
                calls_match(calls, old(self).blocks@, old(self).chrom, old(self).start, old(self).end),
                self.blocks@ == old(self).blocks@.subrange(calls.len() as int, old(self).blocks@.len() as int),
                [[L: bw/loop/nothing_handed_out_yet_pending_is_the_stream_so_far]]
                oks(pend(old(self).vals)) + events(calls) == oks(pend(self.vals)),
            ensures
                false,
            decreases
                [[L: bw/loop/termination]]
                self.blocks@.len(), pend_measure(self.vals),
//@at /return Some\(Ok\(v\)\);/ before
                        proof {
                            let s = pend(old_vals__);
                            lemma_oks_front(s, v, pend(self.vals)); [[L: bw/loop/front_value_is_handed_out]]
                            assert(since(self.bigwig.log(), log0.len() as int) =~= calls);
                            assert(self.bigwig.log().subrange(0, log0.len() as int) =~= log0);
                        }
//@at /match &mut self\.vals \{/ before
            let ghost old_vals__ = self.vals;
//@at /let current_block = / before
                    proof {
                        assert(since(self.bigwig.log(), log0.len() as int) =~= calls);
                        assert(self.bigwig.log().subrange(0, log0.len() as int) =~= log0);
                        lemma_oks_empty::<Value>();
                    }
//@at /match res__ \{/ before
                    proof {
                        let c = self.bigwig.log().last();
                        lemma_events_push(calls, c); [[L: bw/loop/one_more_block_decoded]]
                        assert(log0 + calls.push(c) =~= (log0 + calls).push(c));
                        lemma_oks_empty::<Value>();
                        assert(oks(pend(old(self).vals)) + (events(calls) + yield_of(c)) =~= (oks(pend(old(self).vals)) + events(calls)) + yield_of(c));
                        assert(Seq::<Result<Value, BBIReadError>>::empty() + yield_of(c) =~= yield_of(c));
                        calls = calls.push(c);
                        assert(since(self.bigwig.log(), log0.len() as int) =~= calls);
                        assert(self.bigwig.log().subrange(0, log0.len() as int) =~= log0);
                    }
//@end
}

/// Consume the iterator to the end (what `for x in it` / `.collect()` do) and collect every result: the
/// whole-iteration statement, proved from the contract of `next` alone (nothing re-implemented).
fn drain_bw(it: &mut BigWigIntervalIter) -> (out: Vec<Result<Value, BBIReadError>>)
    ensures
        [[L: drain_bw/query_unchanged_and_earlier_calls_untouched]]
        final(it).chrom == old(it).chrom, final(it).start == old(it).start, final(it).end == old(it).end,
        old(it).bigwig.log().len() <= final(it).bigwig.log().len(),
        final(it).bigwig.log().subrange(0, old(it).bigwig.log().len() as int) == old(it).bigwig.log(),
        [[L: drain_bw/every_block_is_decoded_exactly_once_in_block_order_with_chrom_start_end_unchanged]]
        since(final(it).bigwig.log(), old(it).bigwig.log().len() as int).len() == old(it).blocks@.len(),
        calls_match(since(final(it).bigwig.log(), old(it).bigwig.log().len() as int), old(it).blocks@, old(it).chrom, old(it).start, old(it).end),
        [[L: drain_bw/results_are_the_pending_values_then_the_per_block_results_concatenated_in_block_order]]
        out@ == oks(pend(old(it).vals)) + events(since(final(it).bigwig.log(), old(it).bigwig.log().len() as int)),
        [[L: drain_bw/iterator_is_exhausted]]
        final(it).blocks@.len() == 0, pend(final(it).vals).len() == 0,
{
    let mut out: Vec<Result<Value, BBIReadError>> = Vec::new();
    let ghost mut all: Seq<Call<Value>> = Seq::empty();
    let ghost log0 = it.bigwig.log();
    let ghost blocks0 = it.blocks@;
    let ghost p0 = oks(pend(it.vals));
    proof {
        assert(log0 + all =~= log0);
        assert(blocks0.subrange(0, blocks0.len() as int) =~= blocks0);
        assert(p0 + events(all) =~= out@ + p0);
    }
    loop
        invariant
            [[L: drain_bw/loop/frame]]
            it.chrom == old(it).chrom, it.start == old(it).start, it.end == old(it).end,
            log0 == old(it).bigwig.log(), blocks0 == old(it).blocks@, p0 == oks(pend(old(it).vals)),
            it.bigwig.log() == log0 + all,
            [[L: drain_bw/loop/blocks_consumed_front_to_back_one_call_each]]
            calls_match(all, blocks0, it.chrom, it.start, it.end),
            it.blocks@ == blocks0.subrange(all.len() as int, blocks0.len() as int),
            [[L: drain_bw/loop/collected_results_plus_pending_are_the_stream_so_far]]
            p0 + events(all) == out@ + oks(pend(it.vals)),
        ensures
            [[L: drain_bw/loop/ends_only_when_exhausted]]
            it.blocks@.len() == 0, pend(it.vals).len() == 0,
        decreases
            [[L: drain_bw/loop/termination]]
            it.blocks@.len(), pend(it.vals).len(),
    {
        let ghost pre = *it;
        let ghost out0 = out@;
        let ghost all0 = all;
        let nx = it.next();
        let ghost step = since(it.bigwig.log(), pre.bigwig.log().len() as int);
        proof {
            let step_ = since(it.bigwig.log(), pre.bigwig.log().len() as int);
            assert(it.bigwig.log() =~= it.bigwig.log().subrange(0, pre.bigwig.log().len() as int) + step);
            all = all0 + step;
            assert(log0 + (all0 + step) =~= (log0 + all0) + step);
            assert forall|j: int| 0 <= j < all.len() implies (#[trigger] all[j]).block == blocks0[j] && all[j].chrom == it.chrom
                && all[j].start == it.start && all[j].end == it.end by {
                if j < all0.len() { assert(all[j] == all0[j]); } else {
                    assert(all[j] == step[j - all0.len()]);
                    assert(pre.blocks@[j - all0.len()] == blocks0[j]);
                }
            }
            assert(it.blocks@ =~= blocks0.subrange(all.len() as int, blocks0.len() as int));
            lemma_events_concat(all0, step);
            assert(p0 + (events(all0) + events(step)) =~= (p0 + events(all0)) + events(step));
            assert((out0 + oks(pend(pre.vals))) + events(step) =~= out0 + (oks(pend(pre.vals)) + events(step)));
            if step.len() == 0 { assert(events(step) =~= Seq::<Result<Value, BBIReadError>>::empty()); }
        }
        match nx {
            None => {
                proof {
                    assert(out0 + Seq::<Result<Value, BBIReadError>>::empty() =~= out0);
                    lemma_oks_empty::<Value>();
                    assert(oks(pend(it.vals)) =~= Seq::<Result<Value, BBIReadError>>::empty());
                    assert(out0 + oks(pend(it.vals)) =~= out0);
                }
                break;
            }
            Some(x) => {
                out.push(x);
                proof {
                    assert(out0 + (seq![x] + oks(pend(it.vals))) =~= out0.push(x) + oks(pend(it.vals)));
                    if step.len() == 0 {
                        assert(oks(pend(pre.vals)) + Seq::<Result<Value, BBIReadError>>::empty() =~= oks(pend(pre.vals)));
                        assert((seq![x] + oks(pend(it.vals))).len() == 1 + pend(it.vals).len());
                        assert(oks(pend(pre.vals)).len() == pend(pre.vals).len());
                    }
                }
            }
        }
    }
    proof {
        assert(since(it.bigwig.log(), log0.len() as int) =~= all);
        assert(it.bigwig.log().subrange(0, log0.len() as int) =~= log0);
        lemma_oks_empty::<Value>();
        assert(oks(pend(it.vals)) =~= Seq::<Result<Value, BBIReadError>>::empty());
        assert(out@ + oks(pend(it.vals)) =~= out@);
    }
    out
}

// =====================================================================================
// BigBedIntervalIter: PhantomData dropped, B -> VFileB, IntoIter -> VecDeque
//@extract struct bigtools/src/bbi/bigbedread.rs BigBedIntervalIter
//@rule R8
//@sub /<R, B>/ => "" min=1
//@sub /[ \t]*r: std::marker::PhantomData<R>,\n/ => "" min=1
//@sub /bigbed: B,/ => bigbed: VFileB, min=1
//@sub /std::vec::IntoIter<(\w+)>/ => VecDeque<\1> min=2
//@sub /^    (\w+):/ => pub \1: min=0
//@end

impl BigBedIntervalIter {
// `impl Iterator for ..` -> inherent method; `Self::Item` written out (`type Item = Result<BedEntry, BBIReadError>`);
// IntoIter::next -> VecDeque::pop_front; `.borrow_mut()` on the owned handle -> `&mut`; the decoder call is bound
// to a local before the `match` (same evaluation order) so that the ghost bookkeeping can be spliced after it.
//@extract method bigtools/src/bbi/bigbedread.rs next "Iterator for BigBedIntervalIter"
//@rule R16
//@sub /Option<Self::Item>/ => Option<Result<BedEntry, BBIReadError>> min=1
//@sub /(\w)\.next\(\)/ => \1.pop_front() min=0
//@sub /(\w)\.next_back\(\)/ => \1.pop_back() min=0
//@sub /self\.(\w+)\.borrow_mut\(\)/ => &mut self.\1 min=0
//@sub /match (get_block_entries\((?:[^()]|\([^()]*\))*\)) \{/ => let res__ = \1;\n                    match res__ { min=1
//@ret r
//@sig
    ensures
        [[L: bb/query_unchanged]]
        final(self).expected_chrom == old(self).expected_chrom, final(self).start == old(self).start, final(self).end == old(self).end,
        [[L: bb/earlier_calls_untouched]]
        old(self).bigbed.log().len() <= final(self).bigbed.log().len(),
        final(self).bigbed.log().subrange(0, old(self).bigbed.log().len() as int) == old(self).bigbed.log(),
        [[L: bb/each_consumed_block_is_decoded_exactly_once_in_order_with_chrom_start_end_unchanged]]
        calls_match(since(final(self).bigbed.log(), old(self).bigbed.log().len() as int), old(self).blocks@, old(self).expected_chrom, old(self).start, old(self).end),
        final(self).blocks@ == old(self).blocks@.subrange(since(final(self).bigbed.log(), old(self).bigbed.log().len() as int).len() as int, old(self).blocks@.len() as int),
        [[L: bb/result_is_the_next_element_of_pending_values_then_per_block_results_in_block_order]]
        r matches Some(x) ==> oks(pend(old(self).vals)) + events(since(final(self).bigbed.log(), old(self).bigbed.log().len() as int))
            == seq![x] + oks(pend(final(self).vals)),
        [[L: bb/none_only_when_blocks_exhausted_and_values_drained_and_nothing_was_skipped]]
        r is None ==> final(self).blocks@.len() == 0 && pend(final(self).vals).len() == 0
            && oks(pend(old(self).vals)) + events(since(final(self).bigbed.log(), old(self).bigbed.log().len() as int)) == Seq::<Result<BedEntry, BBIReadError>>::empty(),
        [[L: bb/after_an_error_the_next_call_continues_with_the_next_block]]
        r matches Some(Err(e)) ==> final(self).vals is None,
//@open
        let ghost mut calls: Seq<Call<BedEntry>> = Seq::empty();
        let ghost log0 = self.bigbed.log();
        proof {
            assert(log0 + calls =~= log0);
            assert(self.blocks@.subrange(0, self.blocks@.len() as int) =~= self.blocks@);
            lemma_oks_empty::<BedEntry>();
            assert(oks(pend(self.vals)) + events(calls) =~= oks(pend(self.vals)));
        }
//@loop 1
            invariant
                [[L: bb/loop/frame]]
                self.expected_chrom == old(self).expected_chrom, self.start == old(self).start, self.end == old(self).end,
                log0 == old(self).bigbed.log(),
                self.bigbed.log() == log0 + calls,
                [[L: bb/loop/blocks_consumed_front_to_back_one_call_each]]
                calls_match(calls, old(self).blocks@, old(self).expected_chrom, old(self).start, old(self).end),
                self.blocks@ == old(self).blocks@.subrange(calls.len() as int, old(self).blocks@.len() as int),
                [[L: bb/loop/nothing_handed_out_yet_pending_is_the_stream_so_far]]
                oks(pend(old(self).vals)) + events(calls) == oks(pend(self.vals)),
            ensures
                false,
            decreases
                [[L: bb/loop/termination]]
                self.blocks@.len(), pend_measure(self.vals),
//@at /return Some\(Ok\(v\)\);/ before
                        proof {
                            let s = pend(old_vals__);
                            lemma_oks_front(s, v, pend(self.vals)); [[L: bb/loop/front_value_is_handed_out]]
                            assert(since(self.bigbed.log(), log0.len() as int) =~= calls);
                            assert(self.bigbed.log().subrange(0, log0.len() as int) =~= log0);
                        }
//@at /match &mut self\.vals \{/ before
            let ghost old_vals__ = self.vals;
//@at /let current_block = / before
                    proof {
                        assert(since(self.bigbed.log(), log0.len() as int) =~= calls);
                        assert(self.bigbed.log().subrange(0, log0.len() as int) =~= log0);
                        lemma_oks_empty::<BedEntry>();
                    }
//@at /match res__ \{/ before
                    proof {
                        let c = self.bigbed.log().last();
                        lemma_events_push(calls, c); [[L: bb/loop/one_more_block_decoded]]
                        assert(log0 + calls.push(c) =~= (log0 + calls).push(c));
                        lemma_oks_empty::<BedEntry>();
                        assert(oks(pend(old(self).vals)) + (events(calls) + yield_of(c)) =~= (oks(pend(old(self).vals)) + events(calls)) + yield_of(c));
                        assert(Seq::<Result<BedEntry, BBIReadError>>::empty() + yield_of(c) =~= yield_of(c));
                        calls = calls.push(c);
                        assert(since(self.bigbed.log(), log0.len() as int) =~= calls);
                        assert(self.bigbed.log().subrange(0, log0.len() as int) =~= log0);
                    }
//@end
}


/// Consume the iterator to the end (what `for x in it` / `.collect()` do) and collect every result: the
/// whole-iteration statement, proved from the contract of `next` alone (nothing re-implemented).
fn drain_bb(it: &mut BigBedIntervalIter) -> (out: Vec<Result<BedEntry, BBIReadError>>)
    ensures
        [[L: drain_bb/query_unchanged_and_earlier_calls_untouched]]
        final(it).expected_chrom == old(it).expected_chrom, final(it).start == old(it).start, final(it).end == old(it).end,
        old(it).bigbed.log().len() <= final(it).bigbed.log().len(),
        final(it).bigbed.log().subrange(0, old(it).bigbed.log().len() as int) == old(it).bigbed.log(),
        [[L: drain_bb/every_block_is_decoded_exactly_once_in_block_order_with_chrom_start_end_unchanged]]
        since(final(it).bigbed.log(), old(it).bigbed.log().len() as int).len() == old(it).blocks@.len(),
        calls_match(since(final(it).bigbed.log(), old(it).bigbed.log().len() as int), old(it).blocks@, old(it).expected_chrom, old(it).start, old(it).end),
        [[L: drain_bb/results_are_the_pending_values_then_the_per_block_results_concatenated_in_block_order]]
        out@ == oks(pend(old(it).vals)) + events(since(final(it).bigbed.log(), old(it).bigbed.log().len() as int)),
        [[L: drain_bb/iterator_is_exhausted]]
        final(it).blocks@.len() == 0, pend(final(it).vals).len() == 0,
{
    let mut out: Vec<Result<BedEntry, BBIReadError>> = Vec::new();
    let ghost mut all: Seq<Call<BedEntry>> = Seq::empty();
    let ghost log0 = it.bigbed.log();
    let ghost blocks0 = it.blocks@;
    let ghost p0 = oks(pend(it.vals));
    proof {
        assert(log0 + all =~= log0);
        assert(blocks0.subrange(0, blocks0.len() as int) =~= blocks0);
        assert(p0 + events(all) =~= out@ + p0);
    }
    loop
        invariant
            [[L: drain_bb/loop/frame]]
            it.expected_chrom == old(it).expected_chrom, it.start == old(it).start, it.end == old(it).end,
            log0 == old(it).bigbed.log(), blocks0 == old(it).blocks@, p0 == oks(pend(old(it).vals)),
            it.bigbed.log() == log0 + all,
            [[L: drain_bb/loop/blocks_consumed_front_to_back_one_call_each]]
            calls_match(all, blocks0, it.expected_chrom, it.start, it.end),
            it.blocks@ == blocks0.subrange(all.len() as int, blocks0.len() as int),
            [[L: drain_bb/loop/collected_results_plus_pending_are_the_stream_so_far]]
            p0 + events(all) == out@ + oks(pend(it.vals)),
        ensures
            [[L: drain_bb/loop/ends_only_when_exhausted]]
            it.blocks@.len() == 0, pend(it.vals).len() == 0,
        decreases
            [[L: drain_bb/loop/termination]]
            it.blocks@.len(), pend(it.vals).len(),
    {
        let ghost pre = *it;
        let ghost out0 = out@;
        let ghost all0 = all;
        let nx = it.next();
        let ghost step = since(it.bigbed.log(), pre.bigbed.log().len() as int);
        proof {
            let step_ = since(it.bigbed.log(), pre.bigbed.log().len() as int);
            assert(it.bigbed.log() =~= it.bigbed.log().subrange(0, pre.bigbed.log().len() as int) + step);
            all = all0 + step;
            assert(log0 + (all0 + step) =~= (log0 + all0) + step);
            assert forall|j: int| 0 <= j < all.len() implies (#[trigger] all[j]).block == blocks0[j] && all[j].chrom == it.expected_chrom
                && all[j].start == it.start && all[j].end == it.end by {
                if j < all0.len() { assert(all[j] == all0[j]); } else {
                    assert(all[j] == step[j - all0.len()]);
                    assert(pre.blocks@[j - all0.len()] == blocks0[j]);
                }
            }
            assert(it.blocks@ =~= blocks0.subrange(all.len() as int, blocks0.len() as int));
            lemma_events_concat(all0, step);
            assert(p0 + (events(all0) + events(step)) =~= (p0 + events(all0)) + events(step));
            assert((out0 + oks(pend(pre.vals))) + events(step) =~= out0 + (oks(pend(pre.vals)) + events(step)));
            if step.len() == 0 { assert(events(step) =~= Seq::<Result<BedEntry, BBIReadError>>::empty()); }
        }
        match nx {
            None => {
                proof {
                    assert(out0 + Seq::<Result<BedEntry, BBIReadError>>::empty() =~= out0);
                    lemma_oks_empty::<BedEntry>();
                    assert(oks(pend(it.vals)) =~= Seq::<Result<BedEntry, BBIReadError>>::empty());
                    assert(out0 + oks(pend(it.vals)) =~= out0);
                }
                break;
            }
            Some(x) => {
                out.push(x);
                proof {
                    assert(out0 + (seq![x] + oks(pend(it.vals))) =~= out0.push(x) + oks(pend(it.vals)));
                    if step.len() == 0 {
                        assert(oks(pend(pre.vals)) + Seq::<Result<BedEntry, BBIReadError>>::empty() =~= oks(pend(pre.vals)));
                        assert((seq![x] + oks(pend(it.vals))).len() == 1 + pend(it.vals).len());
                        assert(oks(pend(pre.vals)).len() == pend(pre.vals).len());
                    }
                }
            }
        }
    }
    proof {
        assert(since(it.bigbed.log(), log0.len() as int) =~= all);
        assert(it.bigbed.log().subrange(0, log0.len() as int) =~= log0);
        lemma_oks_empty::<BedEntry>();
        assert(oks(pend(it.vals)) =~= Seq::<Result<BedEntry, BBIReadError>>::empty());
        assert(out@ + oks(pend(it.vals)) =~= out@);
    }
    out
}

// =====================================================================================
// ZoomIntervalIter: PhantomData dropped, B -> VFileZ, IntoIter -> VecDeque
//@extract struct bigtools/src/bbi/bbiread.rs ZoomIntervalIter
//@rule R8
//@sub /<R, B>/ => "" min=1
//@sub /[ \t]*_r: std::marker::PhantomData<R>,\n/ => "" min=1
//@sub /bbifile: B,/ => bbifile: VFileZ, min=1
//@sub /std::vec::IntoIter<(\w+)>/ => VecDeque<\1> min=2
//@sub /^    (\w+):/ => pub \1: min=0
//@end

impl ZoomIntervalIter {
// `impl Iterator for ..` -> inherent method; `Self::Item` written out (`type Item = Result<ZoomRecord, BBIReadError>`);
// IntoIter::next -> VecDeque::pop_front; `.borrow_mut()` on the owned handle -> `&mut`; the decoder call is bound
// to a local before the `match` (same evaluation order) so that the ghost bookkeeping can be spliced after it.
//@extract method bigtools/src/bbi/bbiread.rs next "Iterator for ZoomIntervalIter"
//@rule R16
//@sub /Option<Self::Item>/ => Option<Result<ZoomRecord, BBIReadError>> min=1
//@sub /(\w)\.next\(\)/ => \1.pop_front() min=0
//@sub /(\w)\.next_back\(\)/ => \1.pop_back() min=0
//@sub /self\.(\w+)\.borrow_mut\(\)/ => &mut self.\1 min=0
//@sub /match (get_zoom_block_values\((?:[^()]|\([^()]*\))*\)) \{/ => let res__ = \1;\n                    match res__ { min=1
//@ret r
//@sig
    ensures
        [[L: zoom/query_unchanged]]
        final(self).chrom == old(self).chrom, final(self).start == old(self).start, final(self).end == old(self).end,
        [[L: zoom/earlier_calls_untouched]]
        old(self).bbifile.log().len() <= final(self).bbifile.log().len(),
        final(self).bbifile.log().subrange(0, old(self).bbifile.log().len() as int) == old(self).bbifile.log(),
        [[L: zoom/each_consumed_block_is_decoded_exactly_once_in_order_with_chrom_start_end_unchanged]]
        calls_match(since(final(self).bbifile.log(), old(self).bbifile.log().len() as int), old(self).blocks@, old(self).chrom, old(self).start, old(self).end),
        final(self).blocks@ == old(self).blocks@.subrange(since(final(self).bbifile.log(), old(self).bbifile.log().len() as int).len() as int, old(self).blocks@.len() as int),
        [[L: zoom/result_is_the_next_element_of_pending_values_then_per_block_results_in_block_order]]
        r matches Some(x) ==> oks(pend(old(self).vals)) + events(since(final(self).bbifile.log(), old(self).bbifile.log().len() as int))
            == seq![x] + oks(pend(final(self).vals)),
        [[L: zoom/none_only_when_blocks_exhausted_and_values_drained_and_nothing_was_skipped]]
        r is None ==> final(self).blocks@.len() == 0 && pend(final(self).vals).len() == 0
            && oks(pend(old(self).vals)) + events(since(final(self).bbifile.log(), old(self).bbifile.log().len() as int)) == Seq::<Result<ZoomRecord, BBIReadError>>::empty(),
        [[L: zoom/after_an_error_the_next_call_continues_with_the_next_block]]
        r matches Some(Err(e)) ==> final(self).vals is None,
//@open
        let ghost mut calls: Seq<Call<ZoomRecord>> = Seq::empty();
        let ghost log0 = self.bbifile.log();
        proof {
            assert(log0 + calls =~= log0);
            assert(self.blocks@.subrange(0, self.blocks@.len() as int) =~= self.blocks@);
            lemma_oks_empty::<ZoomRecord>();
            assert(oks(pend(self.vals)) + events(calls) =~= oks(pend(self.vals)));
        }
//@loop 1
            invariant
                [[L: zoom/loop/frame]]
                self.chrom == old(self).chrom, self.start == old(self).start, self.end == old(self).end,
                log0 == old(self).bbifile.log(),
                self.bbifile.log() == log0 + calls,
                [[L: zoom/loop/blocks_consumed_front_to_back_one_call_each]]
                calls_match(calls, old(self).blocks@, old(self).chrom, old(self).start, old(self).end),
                self.blocks@ == old(self).blocks@.subrange(calls.len() as int, old(self).blocks@.len() as int),
                [[L: zoom/loop/nothing_handed_out_yet_pending_is_the_stream_so_far]]
                oks(pend(old(self).vals)) + events(calls) == oks(pend(self.vals)),
            ensures
                false,
            decreases
                [[L: zoom/loop/termination]]
                self.blocks@.len(), pend_measure(self.vals),
//@at /return Some\(Ok\(v\)\);/ before
                        proof {
                            let s = pend(old_vals__);
                            lemma_oks_front(s, v, pend(self.vals)); [[L: zoom/loop/front_value_is_handed_out]]
                            assert(since(self.bbifile.log(), log0.len() as int) =~= calls);
                            assert(self.bbifile.log().subrange(0, log0.len() as int) =~= log0);
                        }
//@at /match &mut self\.vals \{/ before
            let ghost old_vals__ = self.vals;
//@at /let current_block = / before
                    proof {
                        assert(since(self.bbifile.log(), log0.len() as int) =~= calls);
                        assert(self.bbifile.log().subrange(0, log0.len() as int) =~= log0);
                        lemma_oks_empty::<ZoomRecord>();
                    }
//@at /match res__ \{/ before
                    proof {
                        let c = self.bbifile.log().last();
                        lemma_events_push(calls, c); [[L: zoom/loop/one_more_block_decoded]]
                        assert(log0 + calls.push(c) =~= (log0 + calls).push(c));
                        lemma_oks_empty::<ZoomRecord>();
                        assert(oks(pend(old(self).vals)) + (events(calls) + yield_of(c)) =~= (oks(pend(old(self).vals)) + events(calls)) + yield_of(c));
                        assert(Seq::<Result<ZoomRecord, BBIReadError>>::empty() + yield_of(c) =~= yield_of(c));
                        calls = calls.push(c);
                        assert(since(self.bbifile.log(), log0.len() as int) =~= calls);
                        assert(self.bbifile.log().subrange(0, log0.len() as int) =~= log0);
                    }
//@end
}


/// Consume the iterator to the end (what `for x in it` / `.collect()` do) and collect every result: the
/// whole-iteration statement, proved from the contract of `next` alone (nothing re-implemented).
fn drain_zoom(it: &mut ZoomIntervalIter) -> (out: Vec<Result<ZoomRecord, BBIReadError>>)
    ensures
        [[L: drain_zoom/query_unchanged_and_earlier_calls_untouched]]
        final(it).chrom == old(it).chrom, final(it).start == old(it).start, final(it).end == old(it).end,
        old(it).bbifile.log().len() <= final(it).bbifile.log().len(),
        final(it).bbifile.log().subrange(0, old(it).bbifile.log().len() as int) == old(it).bbifile.log(),
        [[L: drain_zoom/every_block_is_decoded_exactly_once_in_block_order_with_chrom_start_end_unchanged]]
        since(final(it).bbifile.log(), old(it).bbifile.log().len() as int).len() == old(it).blocks@.len(),
        calls_match(since(final(it).bbifile.log(), old(it).bbifile.log().len() as int), old(it).blocks@, old(it).chrom, old(it).start, old(it).end),
        [[L: drain_zoom/results_are_the_pending_values_then_the_per_block_results_concatenated_in_block_order]]
        out@ == oks(pend(old(it).vals)) + events(since(final(it).bbifile.log(), old(it).bbifile.log().len() as int)),
        [[L: drain_zoom/iterator_is_exhausted]]
        final(it).blocks@.len() == 0, pend(final(it).vals).len() == 0,
{
    let mut out: Vec<Result<ZoomRecord, BBIReadError>> = Vec::new();
    let ghost mut all: Seq<Call<ZoomRecord>> = Seq::empty();
    let ghost log0 = it.bbifile.log();
    let ghost blocks0 = it.blocks@;
    let ghost p0 = oks(pend(it.vals));
    proof {
        assert(log0 + all =~= log0);
        assert(blocks0.subrange(0, blocks0.len() as int) =~= blocks0);
        assert(p0 + events(all) =~= out@ + p0);
    }
    loop
        invariant
            [[L: drain_zoom/loop/frame]]
            it.chrom == old(it).chrom, it.start == old(it).start, it.end == old(it).end,
            log0 == old(it).bbifile.log(), blocks0 == old(it).blocks@, p0 == oks(pend(old(it).vals)),
            it.bbifile.log() == log0 + all,
            [[L: drain_zoom/loop/blocks_consumed_front_to_back_one_call_each]]
            calls_match(all, blocks0, it.chrom, it.start, it.end),
            it.blocks@ == blocks0.subrange(all.len() as int, blocks0.len() as int),
            [[L: drain_zoom/loop/collected_results_plus_pending_are_the_stream_so_far]]
            p0 + events(all) == out@ + oks(pend(it.vals)),
        ensures
            [[L: drain_zoom/loop/ends_only_when_exhausted]]
            it.blocks@.len() == 0, pend(it.vals).len() == 0,
        decreases
            [[L: drain_zoom/loop/termination]]
            it.blocks@.len(), pend(it.vals).len(),
    {
        let ghost pre = *it;
        let ghost out0 = out@;
        let ghost all0 = all;
        let nx = it.next();
        let ghost step = since(it.bbifile.log(), pre.bbifile.log().len() as int);
        proof {
            let step_ = since(it.bbifile.log(), pre.bbifile.log().len() as int);
            assert(it.bbifile.log() =~= it.bbifile.log().subrange(0, pre.bbifile.log().len() as int) + step);
            all = all0 + step;
            assert(log0 + (all0 + step) =~= (log0 + all0) + step);
            assert forall|j: int| 0 <= j < all.len() implies (#[trigger] all[j]).block == blocks0[j] && all[j].chrom == it.chrom
                && all[j].start == it.start && all[j].end == it.end by {
                if j < all0.len() { assert(all[j] == all0[j]); } else {
                    assert(all[j] == step[j - all0.len()]);
                    assert(pre.blocks@[j - all0.len()] == blocks0[j]);
                }
            }
            assert(it.blocks@ =~= blocks0.subrange(all.len() as int, blocks0.len() as int));
            lemma_events_concat(all0, step);
            assert(p0 + (events(all0) + events(step)) =~= (p0 + events(all0)) + events(step));
            assert((out0 + oks(pend(pre.vals))) + events(step) =~= out0 + (oks(pend(pre.vals)) + events(step)));
            if step.len() == 0 { assert(events(step) =~= Seq::<Result<ZoomRecord, BBIReadError>>::empty()); }
        }
        match nx {
            None => {
                proof {
                    assert(out0 + Seq::<Result<ZoomRecord, BBIReadError>>::empty() =~= out0);
                    lemma_oks_empty::<ZoomRecord>();
                    assert(oks(pend(it.vals)) =~= Seq::<Result<ZoomRecord, BBIReadError>>::empty());
                    assert(out0 + oks(pend(it.vals)) =~= out0);
                }
                break;
            }
            Some(x) => {
                out.push(x);
                proof {
                    assert(out0 + (seq![x] + oks(pend(it.vals))) =~= out0.push(x) + oks(pend(it.vals)));
                    if step.len() == 0 {
                        assert(oks(pend(pre.vals)) + Seq::<Result<ZoomRecord, BBIReadError>>::empty() =~= oks(pend(pre.vals)));
                        assert((seq![x] + oks(pend(it.vals))).len() == 1 + pend(it.vals).len());
                        assert(oks(pend(pre.vals)).len() == pend(pre.vals).len());
                    }
                }
            }
        }
    }
    proof {
        assert(since(it.bbifile.log(), log0.len() as int) =~= all);
        assert(it.bbifile.log().subrange(0, log0.len() as int) =~= log0);
        lemma_oks_empty::<ZoomRecord>();
        assert(oks(pend(it.vals)) =~= Seq::<Result<ZoomRecord, BBIReadError>>::empty());
        assert(out@ + oks(pend(it.vals)) =~= out@);
    }
    out
}

} // verus!
fn main() {}
