//@unit sec_offsets
//@serves C01 C02 C09
//@backend verus
// bbiwrite::write_data: the per-chromosome writer task that receives encoded sections in
// submission order, appends their bytes to the data file and reports, for each, a `Section`
// record (chrom, start, end, offset, size) to the index builder.  C01/C02/C09: data bytes are
// the concatenation of the blocks, offsets are the running sum of the sizes (contiguous blocks),
// every block is reported exactly once in order, the advertised uncompressed buffer size is the
// maximum over the blocks, an encoder/IO error is returned (not swallowed).
// Also the two `map` closures that rebase section offsets onto the file position
// (write_mid / write_zooms): contiguity is preserved.
use vstd::prelude::*;
verus! {
//@include ../_shared/bytes.rs

//@extract struct bigtools/src/bbi/bbiwrite.rs SectionData
//@rule R8
//@end
//@extract struct bigtools/src/bbi/bbiwrite.rs Section
//@rule R8
//@end

#[derive(Debug)]
pub struct ProcessDataError { pub e: IoError }
pub open spec fn sd_view(s: SectionData) -> (u32, u32, u32, Seq<u8>) { (s.chrom, s.start, s.end, s.data@) }

// The receiving end of the section channel (futures mpsc of tokio JoinHandles, awaited in order):
// assumed contract = a finite queue of encoder results delivered in submission order.
#[verifier::external_body]
pub struct SecRx { _p: u8 }
pub struct Job { pub res: Result<(SectionData, usize), IoError> }
impl Job {
    // `handle.await.unwrap()?`: a panicked encoder task propagates the panic (not modelled); otherwise its result
    pub fn unwrap(self) -> (r: Result<(SectionData, usize), IoError>) ensures r == self.res { self.res }
}
impl SecRx {
    pub uninterp spec fn queue(&self) -> Seq<Job>;
    #[verifier::external_body]
    pub fn next(&mut self) -> (r: Option<Job>)
        ensures
            old(self).queue().len() == 0 ==> r.is_none() && final(self).queue() == old(self).queue(),
            old(self).queue().len() > 0 ==> r == Some(old(self).queue()[0]) && final(self).queue() == old(self).queue().drop_first(),
    { unimplemented!() }
}
// crossbeam unbounded sender: assumed to append to the receiver's queue in order
#[verifier::external_body]
pub struct SecTx { _p: u8 }
pub struct SendRes {}
impl SendRes { pub fn expect(self, _m: &str) {} }
impl SecTx {
    pub uninterp spec fn sent(&self) -> Seq<Section>;
    #[verifier::external_body]
    pub fn send(&mut self, s: Section) -> (r: SendRes) ensures final(self).sent() == old(self).sent().push(s) { unimplemented!() }
}

// ---- specification ----
/// result k of the queue is Ok
pub open spec fn ok_at(q: Seq<Job>, k: int) -> bool { q[k].res.is_ok() }
pub open spec fn all_ok(q: Seq<Job>, n: int) -> bool { forall|k: int| 0 <= k < n ==> ok_at(q, k) }
pub open spec fn blk(q: Seq<Job>, k: int) -> SectionData { q[k].res.unwrap().0 }
pub open spec fn ubs(q: Seq<Job>, k: int) -> usize { q[k].res.unwrap().1 }
pub open spec fn cat(q: Seq<Job>, n: int) -> Seq<u8>
    decreases n
{ if n <= 0 { Seq::empty() } else { cat(q, n - 1) + blk(q, n - 1).data@ } }
pub open spec fn off(q: Seq<Job>, n: int) -> int
    decreases n
{ if n <= 0 { 0 } else { off(q, n - 1) + blk(q, n - 1).data@.len() } }
pub open spec fn maxubs(q: Seq<Job>, n: int) -> int
    decreases n
{ if n <= 0 { 0 } else { let m = maxubs(q, n - 1); if ubs(q, n - 1) as int > m { ubs(q, n - 1) as int } else { m } } }
pub open spec fn rec_at(q: Seq<Job>, k: int) -> Section {
    Section { chrom: blk(q, k).chrom, start: blk(q, k).start, end: blk(q, k).end, offset: off(q, k) as u64, size: blk(q, k).data@.len() as u64 }
}
/// first failing job, or q.len()
pub open spec fn first_err(q: Seq<Job>, n: int) -> int
    decreases n
{ if n <= 0 { 0 } else { let f = first_err(q, n - 1); if f < n - 1 { f } else if ok_at(q, n - 1) { n } else { n - 1 } } }

//@extract fn bigtools/src/bbi/bbiwrite.rs write_data
//@rule R16
//@rule R1
//@rule R3
//@rule R5
//@sub /<W: Write>/ => ""
//@sub /mut data_file: W,/ => data_file: &mut Sink,
//@sub /section_sender: crossbeam_channel::Sender<Section>,/ => section_sender: &mut SecTx,
//@sub /mut frx: futures_mpsc::Receiver<tokio::task::JoinHandle<io::Result<\(SectionData, usize\)>>>,/ => frx: &mut SecRx,
//@sub /while let Some\(section_raw\) = frx\.next\(\) \{/ => loop { let section_raw = match frx.next() { Some(x) => x, None => break };
//@sub /section_raw\.unwrap\(\)\?;/ => match section_raw.unwrap() { Ok(v) => v, Err(e) => return Err(ProcessDataError { e }) }; min=0
//@sub /data_file\.put_bytes\(&section\.data\)\?;/ => match data_file.put_bytes(section.data.as_slice()) { Ok(v) => v, Err(e) => return Err(ProcessDataError { e }) }; min=0
//@sub /let mut current_offset = 0;/ => let mut current_offset: u64 = 0; min=0
//@sub /let mut total = 0;/ => let mut total: usize = 0; min=0
//@sub /let mut max_uncompressed_buf_size = 0;/ => let mut max_uncompressed_buf_size: usize = 0; min=0
//@ret r
//@sig
    requires
        [[L: pre_sizes_fit]]
        old(frx).queue().len() < usize::MAX, off(old(frx).queue(), old(frx).queue().len() as int) <= u64::MAX,
    ensures
        [[L: ok_iff_every_block_ok]]
        r.is_ok() <==> all_ok(old(frx).queue(), old(frx).queue().len() as int),
        [[L: data_is_concatenation_of_blocks]]
        r.is_ok() ==> final(data_file)@ == old(data_file)@ + cat(old(frx).queue(), old(frx).queue().len() as int),
        [[L: every_block_reported_once_in_order_with_running_offsets]]
        r.is_ok() ==> final(section_sender).sent().len() == old(section_sender).sent().len() + old(frx).queue().len()
            && forall|k: int| 0 <= k < old(frx).queue().len() ==> final(section_sender).sent()[old(section_sender).sent().len() + k] == rec_at(old(frx).queue(), k),
        [[L: earlier_reports_untouched]]
        old(section_sender).sent().is_prefix_of(final(section_sender).sent()),
        [[L: count_and_max_buffer_size]]
        r.is_ok() ==> r.unwrap().0 == old(frx).queue().len() && r.unwrap().1 == maxubs(old(frx).queue(), old(frx).queue().len() as int),
        [[L: error_stops_at_first_failure]]
        r.is_err() ==> final(section_sender).sent().len() == old(section_sender).sent().len() + first_err(old(frx).queue(), old(frx).queue().len() as int),
//@open
    let ghost q = frx.queue();
    let ghost n = q.len() as int;
    let ghost sent0 = section_sender.sent();
    let ghost d0 = data_file@;
    let ghost i: int = 0;
//@loop 1
        invariant
            [[L: loop/progress]]
            0 <= i <= n, q == old(frx).queue(), n == q.len(), n < usize::MAX, off(q, n) <= u64::MAX,
            frx.queue() == q.subrange(i, n),
            sent0 == old(section_sender).sent(), d0 == old(data_file)@,
            [[L: loop/prefix_done]]
            all_ok(q, i), first_err(q, i) == i,
            total == i, current_offset == off(q, i), max_uncompressed_buf_size == maxubs(q, i),
            data_file@ == d0 + cat(q, i),
            section_sender.sent().len() == sent0.len() + i,
            sent0.is_prefix_of(section_sender.sent()),
            forall|k: int| 0 <= k < i ==> section_sender.sent()[sent0.len() + k] == rec_at(q, k),
        ensures
            [[L: loop/exit]]
            i == n, all_ok(q, n), total == n, max_uncompressed_buf_size == maxubs(q, n),
            data_file@ == d0 + cat(q, n),
            section_sender.sent().len() == sent0.len() + n,
            sent0.is_prefix_of(section_sender.sent()),
            forall|k: int| 0 <= k < n ==> section_sender.sent()[sent0.len() + k] == rec_at(q, k),
        decreases
            [[L: loop/termination]]
            n - i,
//@at /let section_raw = match frx\.next\(\)/ after
        proof {
            assert(q.subrange(i, n)[0] == q[i]);
            assert(q.subrange(i, n).drop_first() =~= q.subrange(i + 1, n));
            lemma_off_mono(q, i + 1, n);
            lemma_first_err_step(q, i, n);
        }
//@at /current_offset = current_offset \+/ after
        proof {
            i = i + 1;
            assert(data_file@ =~= d0 + cat(q, i));
        }
//@end

pub proof fn lemma_off_mono(q: Seq<Job>, a: int, b: int)
    requires 0 <= a <= b,
    ensures off(q, a) <= off(q, b),
    decreases b - a,
{ if a < b { lemma_off_mono(q, a, b - 1); } }
/// if the first i jobs are ok then the first failure in the whole queue is i when job i fails
pub proof fn lemma_first_err_step(q: Seq<Job>, i: int, n: int)
    requires 0 <= i < n, first_err(q, i) == i,
    ensures !ok_at(q, i) ==> first_err(q, n) == i, !ok_at(q, i) ==> !all_ok(q, n), ok_at(q, i) ==> first_err(q, i + 1) == i + 1,
    decreases n - i,
{
    if n > i + 1 { lemma_first_err_step(q, i, n - 1); }
}

// ---- offset rebasing closures (R10): `section.offset = current_offset; current_offset += section.size` ----
//@extract closure bigtools/src/bbi/bbiwrite.rs write_mid sections_iter
//@rule R16
//@header fn rebase_write_mid(current_offset: &mut u64, section: Section, pre_data: u64) -> Section
//@rule R5
//@sub /\bcurrent_offset\b(?!:)/ => (*current_offset) min=0
//@ret r
//@sig
    requires
        [[L: rebase/pre_no_overflow]]
        *old(current_offset) + section.size <= u64::MAX,
    ensures
        [[L: rebase/offset_is_running_position]]
        r.offset == *old(current_offset),
        [[L: rebase/position_advances_by_size]]
        *final(current_offset) == *old(current_offset) + section.size,
        [[L: rebase/rest_unchanged]]
        r.chrom == section.chrom && r.start == section.start && r.end == section.end && r.size == section.size,
//@open
    let mut section = section;
//@end

//@extract closure bigtools/src/bbi/bbiwrite.rs write_zooms sections_iter
//@rule R16
//@header fn rebase_write_zooms(current_offset: &mut u64, section: Section, zoom_data_offset: u64) -> Section
//@rule R5
//@sub /\bcurrent_offset\b(?!:)/ => (*current_offset) min=0
//@ret r
//@sig
    requires
        [[L: rebase_write_zooms/pre_no_overflow]]
        *old(current_offset) + section.size <= u64::MAX,
    ensures
        [[L: rebase_write_zooms/offset_is_running_position]]
        r.offset == *old(current_offset),
        [[L: rebase_write_zooms/position_advances_by_size]]
        *final(current_offset) == *old(current_offset) + section.size,
        [[L: rebase_write_zooms/rest_unchanged]]
        r.chrom == section.chrom && r.start == section.start && r.end == section.end && r.size == section.size,
//@open
    let mut section = section;
//@end

//@extract closure bigtools/src/bbi/bbiwrite.rs write_zoom_vals sections_iter
//@rule R16
//@header fn rebase_zoom_vals_first(current_offset: &mut u64, section: Section, first_zoom_data_offset: u64) -> Section
//@rule R5
//@sub /\bcurrent_offset\b(?!:)/ => (*current_offset) min=0
//@ret r
//@sig
    requires
        [[L: rebase_zoom_vals_first/pre_no_overflow]]
        *old(current_offset) + section.size <= u64::MAX,
    ensures
        [[L: rebase_zoom_vals_first/offset_is_running_position]]
        r.offset == *old(current_offset),
        [[L: rebase_zoom_vals_first/position_advances_by_size]]
        *final(current_offset) == *old(current_offset) + section.size,
        [[L: rebase_zoom_vals_first/rest_unchanged]]
        r.chrom == section.chrom && r.start == section.start && r.end == section.end && r.size == section.size,
//@open
    let mut section = section;
//@end

//@extract closure bigtools/src/bbi/bbiwrite.rs write_zoom_vals sections_iter#2
//@rule R16
//@header fn rebase_zoom_vals_later(current_offset: &mut u64, section: Section, zoom_data_offset: u64) -> Section
//@rule R5
//@sub /\bcurrent_offset\b(?!:)/ => (*current_offset) min=0
//@ret r
//@sig
    requires
        [[L: rebase_zoom_vals_later/pre_no_overflow]]
        *old(current_offset) + section.size <= u64::MAX,
    ensures
        [[L: rebase_zoom_vals_later/offset_is_running_position]]
        r.offset == *old(current_offset),
        [[L: rebase_zoom_vals_later/position_advances_by_size]]
        *final(current_offset) == *old(current_offset) + section.size,
        [[L: rebase_zoom_vals_later/rest_unchanged]]
        r.chrom == section.chrom && r.start == section.start && r.end == section.end && r.size == section.size,
//@open
    let mut section = section;
//@end

} // verus!
fn main() {}
