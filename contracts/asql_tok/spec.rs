// Plain-Rust statement of the tokenizer contract that unit asql_loops ASSUMES (its NOTES.md, A1), for
// `mod parser` in bigtools/src/bed/autosql.rs (no Kani items).  Shared by the Kani harnesses and by the
// replay tests.  Lives in a child module of `parse::parser`, so `Parser`'s cursors are visible.
//
// Vocabulary of A1:  pos = start_cursor, end = end_cursor, len = data.len();  wf: pos <= end <= len.

/// The alphabet of the bounded harnesses: one whitespace, every word delimiter, the quote, one letter.
const ALPHABET: [u8; 9] = [b' ', b';', b'(', b')', b'[', b']', b',', b'"', b'a'];

#[derive(Copy, Clone, PartialEq, Eq, Debug)]
enum Method {
    Take,
    PeekWord,
    EatWord,
    PeekOne,
    EatOne,
    PeekQuoted,
    EatQuoted,
}

fn wf(pos: usize, end: usize, len: usize) -> bool {
    pos <= end && end <= len
}

fn is_ws(b: u8) -> bool {
    b == b' '
}

/// A1, one call of `m` from a wf state (pos0, end0) to (pos1, end1) returning a token of `tok_len` bytes that
/// starts at byte offset `tok_off` of `data` (tok_off is meaningful only if tok_len > 0).
/// Returns the list of violated clauses (empty = contract holds).
fn a1_violations(m: Method, data: &[u8], pos0: usize, end0: usize, pos1: usize, end1: usize, tok_len: usize, tok_off: usize) -> [bool; 8] {
    let len = data.len();
    let mut v = [false; 8];
    // all methods: wf', pos' >= pos   (len' == len holds by construction: `data` is a shared &str)
    v[0] = !wf(pos1, end1, len);
    v[1] = pos1 < pos0;
    let empty = tok_len == 0;
    match m {
        Method::Take => {
            // pos' == end' == old end; token == data[old pos..old end]; token empty <=> old pos == old end
            v[2] = !(pos1 == end0 && end1 == end0);
            v[3] = tok_len != end0 - pos0 || (!empty && tok_off != pos0);
        }
        Method::PeekWord | Method::PeekOne | Method::PeekQuoted => {
            // token == data[pos'..end'] (hence: token empty <=> end' == pos')
            v[2] = tok_len != end1.wrapping_sub(pos1) || (!empty && tok_off != pos1);
            // only whitespace was skipped, and pos' stops at a non-whitespace byte or at len
            v[4] = !skipped_only_ws(data, pos0, pos1);
            if m != Method::PeekQuoted {
                // token empty => pos' == len      ("" only at end of input)
                v[3] = empty && pos1 != len;
            }
        }
        Method::EatWord | Method::EatOne | Method::EatQuoted => {
            // end' == pos'; token non-empty => pos' > pos (an eat that returns something advances)
            v[2] = end1 != pos1;
            v[3] = !empty && !(pos1 > pos0);
            // the token is the tail of what was consumed: data[pos' - tok_len .. pos']
            v[5] = !empty && (tok_len > pos1 || tok_off != pos1 - tok_len || tok_off < pos0);
            if m != Method::EatQuoted {
                // token empty => pos' == len
                v[4] = empty && pos1 != len;
            }
        }
    }
    // peek_one / eat_one return exactly one character when non-empty (ASCII alphabet: one byte)
    if (m == Method::PeekOne || m == Method::EatOne) && !empty {
        v[6] = tok_len != 1;
    }
    // a non-empty word token contains no whitespace and, beyond its first byte, no delimiter
    if (m == Method::PeekWord || m == Method::EatWord) && !empty {
        v[7] = !word_shape(data, tok_off, tok_len);
    }
    v
}

fn skipped_only_ws(data: &[u8], pos0: usize, pos1: usize) -> bool {
    let len = data.len();
    if pos1 < pos0 || pos1 > len {
        return false;
    }
    let mut ok = true;
    let mut i = pos0;
    while i < pos1 {
        ok = ok && is_ws(data[i]);
        i += 1;
    }
    ok && (pos1 == len || !is_ws(data[pos1]))
}

fn is_delim(b: u8) -> bool {
    is_ws(b) || b == b';' || b == b'(' || b == b')' || b == b'[' || b == b']' || b == b','
}

/// data[off..off+n]: first byte is not whitespace, no later byte is a delimiter, and the byte after the
/// token (if any) is a delimiter.
fn word_shape(data: &[u8], off: usize, n: usize) -> bool {
    if n == 0 || off + n > data.len() {
        return false;
    }
    let mut ok = !is_ws(data[off]);
    let mut i = off + 1;
    while i < off + n {
        ok = ok && !is_delim(data[i]);
        i += 1;
    }
    ok && (off + n == data.len() || is_delim(data[off + n]))
}

const CLAUSES: [&str; 8] = [
    "wf': pos' <= end' <= len",
    "pos' >= pos (the cursor never moves back)",
    "cursor/token relation (take: pos' == end' == old end; peek: token == data[pos'..end']; eat: end' == pos')",
    "emptiness clause (take/peek: token empty only as A1 allows; eat: non-empty token => pos' > pos)",
    "end-of-input / whitespace clause (peek: only whitespace skipped; eat_word/eat_one: \"\" only at end of input)",
    "eat: token is the tail of the consumed input",
    "peek_one/eat_one: exactly one character",
    "word token shape (no whitespace, no inner delimiter, followed by a delimiter or end)",
];

/// Run method `m` of the real tokenizer on `p` and report A1 violations.
fn call_and_check(m: Method, p: &mut super::Parser<'_>) -> [bool; 8] {
    let data: &str = p.data;
    let (pos0, end0) = (p.start_cursor, p.end_cursor);
    let tok: &str = match m {
        Method::Take => p.take(),
        Method::PeekWord => p.peek_word(),
        Method::EatWord => p.eat_word(),
        Method::PeekOne => p.peek_one(),
        Method::EatOne => p.eat_one(),
        Method::PeekQuoted => p.peek_quoted_string(),
        Method::EatQuoted => p.eat_quoted_string(),
    };
    let tok_off = (tok.as_ptr() as usize).wrapping_sub(data.as_ptr() as usize);
    a1_violations(m, data.as_bytes(), pos0, end0, p.start_cursor, p.end_cursor, tok.len(), tok_off)
}

// ---------------------------------------------------------------------------------------------------
// Unicode pieces (harnesses `asql_tok_u_*`): strings assembled from whole UTF-8 pieces, among them white
// space that is wider than one byte.  `char_indices` steps by 1, 2 or 3 bytes here; a cursor that is advanced
// by one BYTE per white-space CHAR ends inside a code point and the next `&data[pos..]` panics.
// ---------------------------------------------------------------------------------------------------

/// ASCII space, tab, a letter, a delimiter, U+00A0 NO-BREAK SPACE (2 bytes), U+2003 EM SPACE (3 bytes), and a letter
/// that is wider than a byte (U+00E9, 2 bytes).  `char::is_whitespace` is true for pieces 0, 1, 4, 5.
const UPIECES: [&str; 7] = [" ", "\t", "a", ";", "\u{a0}", "\u{2003}", "\u{e9}"];

/// byte length of the white-space piece that starts at byte `i` of `data` (0: no white space starts there)
fn u_ws_len_at(data: &[u8], i: usize) -> usize {
    let len = data.len();
    if i >= len {
        0
    } else if data[i] == b' ' || data[i] == b'\t' {
        1
    } else if data[i] == 0xC2 && i + 1 < len && data[i + 1] == 0xA0 {
        2
    } else if data[i] == 0xE2 && i + 2 < len && data[i + 1] == 0x80 && data[i + 2] == 0x83 {
        3
    } else {
        0
    }
}

/// byte `i` of `data` starts a character (or is the end): what `str::is_char_boundary` says
fn u_boundary(data: &[u8], i: usize) -> bool {
    i == data.len() || (i < data.len() && (data[i] as i8) >= -0x40)
}

/// exactly the white-space characters of data[pos0..pos1] were skipped, whole, and pos1 rests on something that
/// is not white space (or at the end)
fn u_skipped_only_ws(data: &[u8], pos0: usize, pos1: usize) -> bool {
    if pos1 < pos0 || pos1 > data.len() {
        return false;
    }
    let mut i = pos0;
    while i < pos1 {
        let l = u_ws_len_at(data, i);
        if l == 0 {
            return false;
        }
        i += l;
    }
    i == pos1 && u_ws_len_at(data, pos1) == 0
}

/// A1 for the Unicode pieces: clauses 0..=5 as in `a1_violations` (they are statements about byte offsets and hold
/// for any `str`), the white-space clause with white space that may be wider than a byte; [6]: a non-empty
/// peek_one/eat_one token is exactly one character (1, 2 or 3 bytes); [7]: both cursors rest on char boundaries.
fn u1_violations(m: Method, data: &[u8], pos0: usize, end0: usize, pos1: usize, end1: usize, tok_len: usize, tok_off: usize) -> [bool; 8] {
    let len = data.len();
    let mut v = [false; 8];
    v[0] = !wf(pos1, end1, len);
    v[1] = pos1 < pos0;
    let empty = tok_len == 0;
    match m {
        Method::Take => {
            v[2] = !(pos1 == end0 && end1 == end0);
            v[3] = tok_len != end0 - pos0 || (!empty && tok_off != pos0);
        }
        Method::PeekWord | Method::PeekOne | Method::PeekQuoted => {
            v[2] = tok_len != end1.wrapping_sub(pos1) || (!empty && tok_off != pos1);
            v[4] = !u_skipped_only_ws(data, pos0, pos1);
            if m != Method::PeekQuoted {
                v[3] = empty && pos1 != len;
            }
        }
        Method::EatWord | Method::EatOne | Method::EatQuoted => {
            v[2] = end1 != pos1;
            v[3] = !empty && !(pos1 > pos0);
            v[5] = !empty && (tok_len > pos1 || tok_off != pos1 - tok_len || tok_off < pos0);
            if m != Method::EatQuoted {
                v[4] = empty && pos1 != len;
            }
        }
    }
    if (m == Method::PeekOne || m == Method::EatOne) && !empty {
        // one character: the token starts on a boundary and the next boundary after its start is its end
        let mut one = tok_off < len && u_boundary(data, tok_off) && u_boundary(data, tok_off + tok_len) && tok_len <= 4;
        let mut i = 1;
        while i < 4 {
            one = one && !(i < tok_len && u_boundary(data, tok_off + i));
            i += 1;
        }
        v[6] = !one;
    }
    v[7] = !(u_boundary(data, pos1) && u_boundary(data, end1));
    v
}

const UCLAUSES: [&str; 8] = [
    "wf': pos' <= end' <= len",
    "pos' >= pos (the cursor never moves back)",
    "cursor/token relation (take: pos' == end' == old end; peek: token == data[pos'..end']; eat: end' == pos')",
    "emptiness clause (take/peek: token empty only as A1 allows; eat: non-empty token => pos' > pos)",
    "end-of-input / whitespace clause (peek: exactly the leading white-space characters skipped, whole; eat_word/eat_one: \"\" only at end of input)",
    "eat: token is the tail of the consumed input",
    "peek_one/eat_one: exactly one character",
    "both cursors rest on char boundaries",
];

/// as `call_and_check`, judged by `u1_violations`
fn call_and_check_u(m: Method, p: &mut super::Parser<'_>) -> [bool; 8] {
    let data: &str = p.data;
    let (pos0, end0) = (p.start_cursor, p.end_cursor);
    let tok: &str = match m {
        Method::Take => p.take(),
        Method::PeekWord => p.peek_word(),
        Method::EatWord => p.eat_word(),
        Method::PeekOne => p.peek_one(),
        Method::EatOne => p.eat_one(),
        Method::PeekQuoted => p.peek_quoted_string(),
        Method::EatQuoted => p.eat_quoted_string(),
    };
    let tok_off = (tok.as_ptr() as usize).wrapping_sub(data.as_ptr() as usize);
    u1_violations(m, data.as_bytes(), pos0, end0, p.start_cursor, p.end_cursor, tok.len(), tok_off)
}
