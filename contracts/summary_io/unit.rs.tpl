//@unit summary_io
//@serves C06 C10
//@backend verus
// bigwigread.rs `BigWigRead::get_summary`, bigbedread.rs `BigBedRead::get_summary` and `BigBedRead::item_count`:
// the reader side of the total summary and of the item/section count.
// C06 "The total summary a reader reports ... and its item count": what the reader reports is the 40-byte total
// summary stored at `total_summary_offset` (bases covered u64, min, max, sum, sum of squares f64 - in that order)
// and the u64 count stored at `full_data_offset`, decoded in the file's byte order.  This is the reader-side
// mirror of unit hdr's `write_info/summary_at_total_summary_offset` and `write_info/data_count_at_full_data_offset`
// (`lemma_reader_reports_what_write_info_stored` closes the loop for the little-endian files bigtools writes).
// C10 "either byte order", "files with or without a total summary": both byte orders; `total_summary_offset == 0`
// (version-1 files) gives an all-zero summary but still the stored count.
use vstd::prelude::*;
use vstd::std_specs::convert::FromSpec;
verus! {
//@include ../_shared/bytes.rs
//@include ../_shared/bytes_lemmas.rs

// std stand-ins that only matter for CHANGED code (0 hits on /repo): they let an edit that swallows an error reach
// the verifier.  Contracts are those of std.
pub assume_specification<T, E>[Result::<T, E>::unwrap_or](x: Result<T, E>, d: T) -> (v: T)
    ensures x matches Ok(y) ==> v == y, x is Err ==> v == d;
pub assume_specification<T: Default, E>[Result::<T, E>::unwrap_or_default](x: Result<T, E>) -> (v: T)
    ensures x matches Ok(y) ==> v == y;

/// shim for byteordered::Endianness (external crate, a plain 2-variant enum)
#[derive(Clone, Copy)]
pub enum Endianness { Big, Little }
pub open spec fn is_big(e: Endianness) -> bool { e is Big }

//@extract struct bigtools/src/bbi.rs Summary
//@rule R8
//@end
//@extract enum bigtools/src/bbi.rs BBIFile
//@rule R8
//@end
//@extract struct bigtools/src/bbi.rs ZoomHeader
//@rule R8
//@end
//@extract struct bigtools/src/bbi/bbiread.rs BBIHeader
//@rule R8
//@end
// R11: `name: String` -> `name: Vec<u8>` (never inspected here)
//@extract struct bigtools/src/bbi/bbiread.rs ChromInfo
//@rule R8
//@sub /#\[derive\(Clone\)\]\n/ => "" min=0
//@sub /name: String/ => name: Vec<u8> min=1
//@end
//@extract struct bigtools/src/bbi/bbiread.rs BBIFileInfo
//@rule R8
//@sub /#\[derive\(Clone\)\]\n/ => "" min=0
//@end
// thiserror derive: `#[error(..)]` display strings dropped, `#[from] io::Error` -> IoError, BedValueError opaque,
// String payloads -> Vec<u8>; the From impl that `#[from]` generates is written out below (it wraps, nothing else)
//@extract enum bigtools/src/bbi/bbiread.rs BBIReadError
//@rule R8
//@sub /[ \t]*#\[error\([^\n]*\)\]\n/ => "" min=5
//@sub /#\[from\] io::Error/ => IoError min=1
//@sub /#\[from\] BedValueError/ => BedValueError min=1
//@sub /String/ => Vec<u8> min=2
//@end
/// bed::bedparser::BedValueError (opaque; never constructed here)
#[verifier::external_body]
pub struct BedValueError { _p: u8 }
impl vstd::std_specs::convert::FromSpecImpl<IoError> for BBIReadError {
    open spec fn obeys_from_spec() -> bool { true }
    open spec fn from_spec(e: IoError) -> BBIReadError { BBIReadError::IoError(e) }
}
impl From<IoError> for BBIReadError {
    fn from(e: IoError) -> (r: BBIReadError) { BBIReadError::IoError(e) }
}

// ---------------- reader shims ----------------
// `R: Read + Seek` behind `BBIFileRead::raw_reader()`: ghost file content, OS position and an environment flag.
// ASSUMED contract of std (as in units rt_readnode / tree_offsets): `seek(Start(p))` moves to p or fails only
// because of the environment; reading exactly n bytes fails iff fewer than n bytes remain or the environment
// fails and otherwise yields the next n bytes.
#[verifier::external_body]
pub struct VRead { _p: u8 }
impl VRead {
    pub uninterp spec fn content(&self) -> Seq<u8>;
    pub uninterp spec fn pos(&self) -> int;
    pub uninterp spec fn env_ok(&self) -> bool;
    #[verifier::external_body]
    pub fn seek_start(&mut self, p: u64) -> (r: Result<u64, IoError>)
        ensures final(self).content() == old(self).content(), final(self).env_ok() == old(self).env_ok(),
            old(self).env_ok() ==> r is Ok, r is Ok ==> final(self).pos() == p && r->Ok_0 == p,
    { unimplemented!() }
    #[verifier::external_body]
    pub fn read_cur(&mut self, n: usize) -> (r: Result<Cur, IoError>)
        ensures final(self).content() == old(self).content(), final(self).env_ok() == old(self).env_ok(),
            (old(self).env_ok() && 0 <= old(self).pos() && old(self).pos() + n <= old(self).content().len()) ==> r is Ok,
            r is Ok ==> 0 <= old(self).pos() && old(self).pos() + n <= old(self).content().len()
                && final(self).pos() == old(self).pos() + n
                && r->Ok_0.rem() == old(self).content().subrange(old(self).pos(), old(self).pos() + n),
    { unimplemented!() }
    /// `byteorder::ReadBytesExt::read_u64::<BigEndian>()` / `::<LittleEndian>()` (ASSUMED: `read_exact` of 8
    /// bytes, then `u64::from_be_bytes` / `from_le_bytes`)
    pub fn read_u64_be(&mut self) -> (r: Result<u64, IoError>)
        ensures final(self).content() == old(self).content(), final(self).env_ok() == old(self).env_ok(),
            (old(self).env_ok() && 0 <= old(self).pos() && old(self).pos() + 8 <= old(self).content().len()) ==> r is Ok,
            r is Ok ==> 0 <= old(self).pos() && old(self).pos() + 8 <= old(self).content().len()
                && final(self).pos() == old(self).pos() + 8 && r->Ok_0 == dbe64(old(self).content(), old(self).pos()),
    {
        let mut c = self.read_cur(8)?;
        Ok(c.get_u64())
    }
    pub fn read_u64_le(&mut self) -> (r: Result<u64, IoError>)
        ensures final(self).content() == old(self).content(), final(self).env_ok() == old(self).env_ok(),
            (old(self).env_ok() && 0 <= old(self).pos() && old(self).pos() + 8 <= old(self).content().len()) ==> r is Ok,
            r is Ok ==> 0 <= old(self).pos() && old(self).pos() + 8 <= old(self).content().len()
                && final(self).pos() == old(self).pos() + 8 && r->Ok_0 == dle64(old(self).content(), old(self).pos()),
    {
        let mut c = self.read_cur(8)?;
        Ok(c.get_u64_le())
    }
}
/// `f64::from_bits`
#[verifier::external_body]
pub fn f64_from_bits(b: u64) -> (r: f64) ensures r == f64_of_bits(b) { f64::from_bits(b) }

/// `byteordered::ByteOrdered<&mut R, Endianness>` built by `ByteOrdered::runtime(reader, endianness)`.
/// ASSUMED contract of the `byteordered` crate: `read_u64()` / `read_f64()` read exactly 8 bytes from the inner
/// reader and decode them in the byte order given at construction (`f64` through its IEEE bit pattern), passing
/// I/O errors on; `seek` is the inner reader's.  Written out as verified code over `VRead`.
pub struct VOrd<'a> { pub inner: &'a mut VRead, pub e: Endianness }
impl<'a> VOrd<'a> {
    pub fn runtime(inner: &'a mut VRead, e: Endianness) -> (r: VOrd<'a>)
        ensures r.e == e, *r.inner == *old(inner), *final(r.inner) == *final(inner),
    { VOrd { inner, e } }
    pub fn seek_start(&mut self, p: u64) -> (r: Result<u64, IoError>)
        ensures final(self).e == old(self).e, *final(final(self).inner) == *final(old(self).inner),
            final(self).inner.content() == old(self).inner.content(), final(self).inner.env_ok() == old(self).inner.env_ok(),
            old(self).inner.env_ok() ==> r is Ok, r is Ok ==> final(self).inner.pos() == p && r->Ok_0 == p,
    { self.inner.seek_start(p) }
    pub fn read_u64(&mut self) -> (r: Result<u64, IoError>)
        ensures final(self).e == old(self).e, *final(final(self).inner) == *final(old(self).inner),
            final(self).inner.content() == old(self).inner.content(), final(self).inner.env_ok() == old(self).inner.env_ok(),
            (old(self).inner.env_ok() && 0 <= old(self).inner.pos() && old(self).inner.pos() + 8 <= old(self).inner.content().len()) ==> r is Ok,
            r is Ok ==> 0 <= old(self).inner.pos() && old(self).inner.pos() + 8 <= old(self).inner.content().len()
                && final(self).inner.pos() == old(self).inner.pos() + 8
                && r->Ok_0 == d64(is_big(old(self).e), old(self).inner.content(), old(self).inner.pos()),
    {
        match self.e {
            Endianness::Big => self.inner.read_u64_be(),
            Endianness::Little => self.inner.read_u64_le(),
        }
    }
    // stand-ins that only matter for CHANGED code (0 hits on /repo): nothing is promised about the value or the
    // position, so an edit that starts using them is judged by the contracts below
    #[verifier::external_body]
    pub fn read_u32(&mut self) -> (r: Result<u32, IoError>)
        ensures final(self).e == old(self).e, *final(final(self).inner) == *final(old(self).inner),
            final(self).inner.content() == old(self).inner.content(), final(self).inner.env_ok() == old(self).inner.env_ok(),
    { unimplemented!() }
    #[verifier::external_body]
    pub fn read_i64(&mut self) -> (r: Result<i64, IoError>)
        ensures final(self).e == old(self).e, *final(final(self).inner) == *final(old(self).inner),
            final(self).inner.content() == old(self).inner.content(), final(self).inner.env_ok() == old(self).inner.env_ok(),
    { unimplemented!() }
    #[verifier::external_body]
    pub fn read_f32(&mut self) -> (r: Result<f32, IoError>)
        ensures final(self).e == old(self).e, *final(final(self).inner) == *final(old(self).inner),
            final(self).inner.content() == old(self).inner.content(), final(self).inner.env_ok() == old(self).inner.env_ok(),
    { unimplemented!() }
    pub fn read_f64(&mut self) -> (r: Result<f64, IoError>)
        ensures final(self).e == old(self).e, *final(final(self).inner) == *final(old(self).inner),
            final(self).inner.content() == old(self).inner.content(), final(self).inner.env_ok() == old(self).inner.env_ok(),
            (old(self).inner.env_ok() && 0 <= old(self).inner.pos() && old(self).inner.pos() + 8 <= old(self).inner.content().len()) ==> r is Ok,
            r is Ok ==> 0 <= old(self).inner.pos() && old(self).inner.pos() + 8 <= old(self).inner.content().len()
                && final(self).inner.pos() == old(self).inner.pos() + 8
                && r->Ok_0 == f64_of_bits(d64(is_big(old(self).e), old(self).inner.content(), old(self).inner.pos()) as u64),
    {
        let b = self.read_u64()?;
        Ok(f64_from_bits(b))
    }
}

// ---------------- format vocabulary (published layout) ----------------
/// total summary at `tso` (40 bytes: basesCovered u64, minVal, maxVal, sumData, sumSquares f64) and the
/// item/section count u64 at `fdo`, in byte order `big`; `tso == 0` means "no total summary": all zero
pub open spec fn summary_at(big: bool, c: Seq<u8>, tso: int, fdo: int) -> Summary {
    if tso != 0 {
        Summary {
            total_items: d64(big, c, fdo) as u64,
            bases_covered: d64(big, c, tso) as u64,
            min_val: f64_of_bits(d64(big, c, tso + 8) as u64),
            max_val: f64_of_bits(d64(big, c, tso + 16) as u64),
            sum: f64_of_bits(d64(big, c, tso + 24) as u64),
            sum_squares: f64_of_bits(d64(big, c, tso + 32) as u64),
        }
    } else {
        Summary { total_items: d64(big, c, fdo) as u64, bases_covered: 0, min_val: 0.0f64, max_val: 0.0f64, sum: 0.0f64, sum_squares: 0.0f64 }
    }
}
/// everything `get_summary` reads is stored inside the file
pub open spec fn summary_stored(c: Seq<u8>, tso: int, fdo: int) -> bool {
    &&& tso != 0 ==> tso + 40 <= c.len()
    &&& fdo + 8 <= c.len()
}

// ---- the writer side, copied from unit hdr (`fmt_summary`; little-endian: the writers use NativeEndian) ----
pub open spec fn fmt_summary(s: Summary) -> Seq<u8> {
    le64(s.bases_covered) + le64(f64_bits(s.min_val)) + le64(f64_bits(s.max_val)) + le64(f64_bits(s.sum)) + le64(f64_bits(s.sum_squares))
}
/// Round trip with unit hdr: if the file holds at `tso` what `write_info/summary_at_total_summary_offset` says
/// and at `fdo` what `write_info/data_count_at_full_data_offset` says, a little-endian reader reports exactly
/// that summary and that count.
pub proof fn lemma_reader_reports_what_write_info_stored(c: Seq<u8>, tso: int, fdo: int, s: Summary, data_count: u64)
    requires
        0 < tso, tso + 40 <= c.len(), 0 <= fdo, fdo + 8 <= c.len(),
        c.subrange(tso, tso + 40) == fmt_summary(s),
        c.subrange(fdo, fdo + 8) == le64(data_count),
    ensures
        [[L: roundtrip/little_endian_reader_reports_the_written_summary_and_count]]
        summary_at(false, c, tso, fdo) == (Summary { total_items: data_count, ..s }),
{
    broadcast use ax_f64_bits_inv;
    let f = fmt_summary(s);
    let w = c.subrange(tso, tso + 40);
    assert(c.subrange(tso, tso + 8) =~= w.subrange(0, 8));
    assert(c.subrange(tso + 8, tso + 16) =~= w.subrange(8, 16));
    assert(c.subrange(tso + 16, tso + 24) =~= w.subrange(16, 24));
    assert(c.subrange(tso + 24, tso + 32) =~= w.subrange(24, 32));
    assert(c.subrange(tso + 32, tso + 40) =~= w.subrange(32, 40));
    assert(f.subrange(0, 8) =~= le64(s.bases_covered));
    assert(f.subrange(8, 16) =~= le64(f64_bits(s.min_val)));
    assert(f.subrange(16, 24) =~= le64(f64_bits(s.max_val)));
    assert(f.subrange(24, 32) =~= le64(f64_bits(s.sum)));
    assert(f.subrange(32, 40) =~= le64(f64_bits(s.sum_squares)));
    lemma_d64_embedded(false, c, tso, s.bases_covered);
    lemma_d64_embedded(false, c, tso + 8, f64_bits(s.min_val));
    lemma_d64_embedded(false, c, tso + 16, f64_bits(s.max_val));
    lemma_d64_embedded(false, c, tso + 24, f64_bits(s.sum));
    lemma_d64_embedded(false, c, tso + 32, f64_bits(s.sum_squares));
    lemma_d64_embedded(false, c, fdo, data_count);
}

// =====================================================================================
//@extract struct bigtools/src/bbi/bigwigread.rs BigWigRead
//@rule R8
//@sub /BigWigRead<R>/ => BigWigRead min=1
//@sub /read: R,/ => read: VRead, min=1
//@end

impl BigWigRead {
//@extract method bigtools/src/bbi/bigwigread.rs get_summary "^impl<R> BigWigRead<R>\s+where\s+R: BBIFileRead"
//@rule R16
//@rule R3
//@sub /io::Result<Summary>/ => Result<Summary, IoError> min=1
//@sub /self\.reader\(\)\.raw_reader\(\)/ => &mut self.read min=1
//@sub /ByteOrdered::runtime\(/ => VOrd::runtime( min=0
//@ret r
//@sig
    ensures
        [[L: bw/file_not_modified]]
        final(self).read.content() == old(self).read.content() && final(self).read.env_ok() == old(self).read.env_ok(),
        [[L: bw/info_unchanged]]
        final(self).info == old(self).info,
        [[L: bw/ok_only_if_summary_and_count_are_stored]]
        r is Ok ==> summary_stored(old(self).read.content(), old(self).info.header.total_summary_offset as int, old(self).info.header.full_data_offset as int),
        [[L: bw/succeeds_when_summary_and_count_are_stored]]
        old(self).read.env_ok() && summary_stored(old(self).read.content(), old(self).info.header.total_summary_offset as int, old(self).info.header.full_data_offset as int)
            ==> r is Ok,
        [[L: bw/total_items_is_the_u64_at_full_data_offset]]
        r matches Ok(s) ==> s.total_items == summary_at(is_big(old(self).info.header.endianness), old(self).read.content(),
            old(self).info.header.total_summary_offset as int, old(self).info.header.full_data_offset as int).total_items,
        [[L: bw/bases_covered_is_the_u64_at_total_summary_offset_or_zero]]
        r matches Ok(s) ==> s.bases_covered == summary_at(is_big(old(self).info.header.endianness), old(self).read.content(),
            old(self).info.header.total_summary_offset as int, old(self).info.header.full_data_offset as int).bases_covered,
        [[L: bw/min_is_the_f64_at_plus_8_or_zero]]
        r matches Ok(s) ==> s.min_val == summary_at(is_big(old(self).info.header.endianness), old(self).read.content(),
            old(self).info.header.total_summary_offset as int, old(self).info.header.full_data_offset as int).min_val,
        [[L: bw/max_is_the_f64_at_plus_16_or_zero]]
        r matches Ok(s) ==> s.max_val == summary_at(is_big(old(self).info.header.endianness), old(self).read.content(),
            old(self).info.header.total_summary_offset as int, old(self).info.header.full_data_offset as int).max_val,
        [[L: bw/sum_is_the_f64_at_plus_24_or_zero]]
        r matches Ok(s) ==> s.sum == summary_at(is_big(old(self).info.header.endianness), old(self).read.content(),
            old(self).info.header.total_summary_offset as int, old(self).info.header.full_data_offset as int).sum,
        [[L: bw/sum_squares_is_the_f64_at_plus_32_or_zero]]
        r matches Ok(s) ==> s.sum_squares == summary_at(is_big(old(self).info.header.endianness), old(self).read.content(),
            old(self).info.header.total_summary_offset as int, old(self).info.header.full_data_offset as int).sum_squares,
//@end
}

// =====================================================================================
//@extract struct bigtools/src/bbi/bigbedread.rs BigBedRead
//@rule R8
//@sub /BigBedRead<R>/ => BigBedRead min=1
//@sub /read: R,/ => read: VRead, min=1
//@end

impl BigBedRead {
//@extract method bigtools/src/bbi/bigbedread.rs get_summary "^impl<R: BBIFileRead> BigBedRead<R>"
//@rule R16
//@rule R3
//@sub /io::Result<Summary>/ => Result<Summary, IoError> min=1
//@sub /self\.reader\(\)\.raw_reader\(\)/ => &mut self.read min=1
//@sub /ByteOrdered::runtime\(/ => VOrd::runtime( min=0
//@ret r
//@sig
    ensures
        [[L: bb/file_not_modified]]
        final(self).read.content() == old(self).read.content() && final(self).read.env_ok() == old(self).read.env_ok(),
        [[L: bb/info_unchanged]]
        final(self).info == old(self).info,
        [[L: bb/ok_only_if_summary_and_count_are_stored]]
        r is Ok ==> summary_stored(old(self).read.content(), old(self).info.header.total_summary_offset as int, old(self).info.header.full_data_offset as int),
        [[L: bb/succeeds_when_summary_and_count_are_stored]]
        old(self).read.env_ok() && summary_stored(old(self).read.content(), old(self).info.header.total_summary_offset as int, old(self).info.header.full_data_offset as int)
            ==> r is Ok,
        [[L: bb/total_items_is_the_u64_at_full_data_offset]]
        r matches Ok(s) ==> s.total_items == summary_at(is_big(old(self).info.header.endianness), old(self).read.content(),
            old(self).info.header.total_summary_offset as int, old(self).info.header.full_data_offset as int).total_items,
        [[L: bb/bases_covered_is_the_u64_at_total_summary_offset_or_zero]]
        r matches Ok(s) ==> s.bases_covered == summary_at(is_big(old(self).info.header.endianness), old(self).read.content(),
            old(self).info.header.total_summary_offset as int, old(self).info.header.full_data_offset as int).bases_covered,
        [[L: bb/min_is_the_f64_at_plus_8_or_zero]]
        r matches Ok(s) ==> s.min_val == summary_at(is_big(old(self).info.header.endianness), old(self).read.content(),
            old(self).info.header.total_summary_offset as int, old(self).info.header.full_data_offset as int).min_val,
        [[L: bb/max_is_the_f64_at_plus_16_or_zero]]
        r matches Ok(s) ==> s.max_val == summary_at(is_big(old(self).info.header.endianness), old(self).read.content(),
            old(self).info.header.total_summary_offset as int, old(self).info.header.full_data_offset as int).max_val,
        [[L: bb/sum_is_the_f64_at_plus_24_or_zero]]
        r matches Ok(s) ==> s.sum == summary_at(is_big(old(self).info.header.endianness), old(self).read.content(),
            old(self).info.header.total_summary_offset as int, old(self).info.header.full_data_offset as int).sum,
        [[L: bb/sum_squares_is_the_f64_at_plus_32_or_zero]]
        r matches Ok(s) ==> s.sum_squares == summary_at(is_big(old(self).info.header.endianness), old(self).read.content(),
            old(self).info.header.total_summary_offset as int, old(self).info.header.full_data_offset as int).sum_squares,
//@end

// `BufReader::new(reader)` -> `reader` (buffering is not modelled: nothing is claimed about the position the
// underlying reader is left at); `read_u64::<BigEndian>()` -> `read_u64_be()` ...
//@extract method bigtools/src/bbi/bigbedread.rs item_count "^impl<R: BBIFileRead> BigBedRead<R>"
//@rule R16
//@rule R3
//@sub /self\.reader\(\)\.raw_reader\(\)/ => &mut self.read min=1
//@sub /let mut reader = BufReader::new\(reader\);\n/ => "" min=0
//@sub /byteordered::Endianness/ => Endianness min=0
//@sub /\.read_u64::<BigEndian>\(\)/ => .read_u64_be() min=0
//@sub /\.read_u64::<LittleEndian>\(\)/ => .read_u64_le() min=0
//@ret r
//@sig
    ensures
        [[L: item_count/file_not_modified]]
        final(self).read.content() == old(self).read.content() && final(self).read.env_ok() == old(self).read.env_ok(),
        [[L: item_count/info_unchanged]]
        final(self).info == old(self).info,
        [[L: item_count/is_the_u64_at_full_data_offset_in_the_files_byte_order]]
        r matches Ok(n) ==> old(self).info.header.full_data_offset + 8 <= old(self).read.content().len()
            && n == d64(is_big(old(self).info.header.endianness), old(self).read.content(), old(self).info.header.full_data_offset as int),
        [[L: item_count/succeeds_when_the_count_is_stored]]
        old(self).read.env_ok() && old(self).info.header.full_data_offset + 8 <= old(self).read.content().len() ==> r is Ok,
//@end
}

} // verus!
fn main() {}
