//@unit intersect
//@serves C04 C16
//@backend verus
// `bigtools intersect` / `bigtools chromintersect` (the multicall binary's OWN code, bigtools/src/bin/bigtools.rs):
// fn `intersect`, the inner fn `write` of `chromintersect` and `chromintersect` itself (minus the nested fn), cut
// WHOLE from /repo on every run.
//   C04: "For any chromosome and any range [s, e), a bigBed interval query returns every stored entry whose span
//         overlaps the range, each once and in stored order, and never returns an entry that lies wholly outside
//         [s, e] ... identically through the caching reader and after any earlier queries."  One of its observation
//         points is `bigtools intersect`: what the user SEES of a query is what this function prints.
// The library query is under contract elsewhere (units query_glue, iters, bb_dec, rt_search, cache ...); here it
// is a shim carrying that contract (labels cited at the shim) and the statements are about the glue: WHICH query
// is made for a line of the `-a` file, and that the printed rows are exactly the entries of its answer, each
// once, in answer order, nothing dropped, nothing added, no line of `-a` silently ignored.
// Device of units conv_out / cli_loops: logged line reader, logged output, `format!`/`format_args!` shadowed by
// macros whose result is an uninterpreted function of the format LITERAL and the argument TUPLE.
// See NOTES.md for what is real text, what is a shim, and what stays undecided.
use vstd::prelude::*;
// `format!(LIT, a, b, ..)` / `format_args!(LIT, a, b, ..)` are kept verbatim in the extracted text: these macros
// SHADOW std's, rustc splits the arguments.  The arguments are taken by reference (as std's macros do).
#[allow(unused_macros)]
macro_rules! format {
    ($f:literal $(, $a:expr)* $(,)?) => { fmt_text($f, ($(&$a,)*)) };
}
#[allow(unused_macros)]
macro_rules! format_args {
    ($f:literal $(, $a:expr)* $(,)?) => { fmt_text($f, ($(&$a,)*)) };
}
// messages on stderr are not modelled (the text is dropped; no effect on stdout / files)
#[allow(unused_macros)]
macro_rules! eprintln {
    ($($t:tt)*) => { () };
}
verus! {

// =====================================================================================
// opaque stand-ins (R11)
// =====================================================================================
/// every piece of text (`String` / `&str` / `&[u8]` of a str): a BED line, a field, a formatted row
#[verifier::external_body] pub struct Text { _p: u8 }
/// std::io::Error
#[verifier::external_body] #[derive(Debug)] pub struct IoErr { _p: u8 }
/// bed::bedparser::BedValueError
#[verifier::external_body] pub struct BedValueErr { _p: u8 }
/// text inside an error
#[verifier::external_body] pub struct ErrText { _p: u8 }
/// `Box<dyn Error>`; which error: lost behind `?`
#[verifier::external_body] pub struct AnyErr { _p: u8 }
/// `core::num::ParseIntError`
#[verifier::external_body] pub struct ParseIntErr { _p: u8 }

/// the text `format!(LIT, args..)` / `format_args!(LIT, args..)` produces: uninterpreted function of the literal
/// and of the argument tuple (arity, order and types are part of the tuple).  What `{}` prints for a u32 / &str
/// and where the tabs / the newline of the literal end up is NOT interpreted.
pub uninterp spec fn text_spec<T>(fmt: &str, args: T) -> Text;
#[verifier::external_body]
pub fn fmt_text<T>(fmt: &'static str, args: T) -> (r: Text) ensures r == text_spec(fmt, args), { unimplemented!() }
/// the text of a string literal used as bytes (`"\n".as_bytes()`)
pub uninterp spec fn text_lit(s: &str) -> Text;
#[verifier::external_body]
pub fn lit_text(s: &'static str) -> (r: &'static Text) ensures *r == text_lit(s), { unimplemented!() }
/// `t.trim_end()`
pub uninterp spec fn trim_end_of(t: Text) -> Text;
/// number of tab-separated fields of t (`t.split('\t').count()`): at least one, also for the empty text
pub uninterp spec fn nfields(t: Text) -> int;
/// the k-th tab-separated field of t (k < nfields(t)), WHOLE (not the unsplit remainder `splitn` yields last)
pub uninterp spec fn field(t: Text, k: int) -> Text;
/// `s.parse::<u32>()` succeeds / the number it yields
pub uninterp spec fn parses(s: Text) -> bool;
pub uninterp spec fn num_of(s: Text) -> u32;

#[verifier::external_body] pub struct Split { _p: u8 }
#[verifier::external_body] pub struct OptField { _p: u8 }
#[verifier::external_body] #[verifier::accept_recursive_types(T)] pub struct ParseRes<T> { _p: core::marker::PhantomData<T> }
impl Text {
    #[verifier::external_body] pub fn trim_end(&self) -> (r: &Text) ensures *r == trim_end_of(*self), { unimplemented!() }
    /// `str::splitn(n, sep)`: at most n pieces; a str always has at least one field
    #[verifier::external_body]
    pub fn splitn(&self, n: usize, sep: char) -> (r: Split)
        ensures r.line() == *self, r.k() == 0, r.n() == n, r.sep() == sep, nfields(*self) >= 1,
    { unimplemented!() }
    #[verifier::external_body] pub fn parse<T>(&self) -> (r: ParseRes<T>) ensures r.src() == *self, { unimplemented!() }
    #[verifier::external_body] pub fn to_owned(&self) -> (r: Text) ensures r == *self, { unimplemented!() }
    #[verifier::external_body] pub fn to_string(&self) -> (r: Text) ensures r == *self, { unimplemented!() }
    #[verifier::external_body] pub fn as_str(&self) -> (r: &Text) ensures *r == *self, { unimplemented!() }
    #[verifier::external_body] pub fn as_bytes(&self) -> (r: &Text) ensures *r == *self, { unimplemented!() }
    // plausible foreign calls: nothing promised
    #[verifier::external_body] pub fn trim(&self) -> &Text { unimplemented!() }
    #[verifier::external_body] pub fn trim_start(&self) -> &Text { unimplemented!() }
    #[verifier::external_body] pub fn split(&self, sep: char) -> Split { unimplemented!() }
    #[verifier::external_body] pub fn rsplitn(&self, n: usize, sep: char) -> Split { unimplemented!() }
    #[verifier::external_body] pub fn split_whitespace(&self) -> Split { unimplemented!() }
    #[verifier::external_body] pub fn is_empty(&self) -> bool { unimplemented!() }
    #[verifier::external_body] pub fn len(&self) -> usize { unimplemented!() }
    #[verifier::external_body] pub fn starts_with(&self, c: char) -> bool { unimplemented!() }
    #[verifier::external_body] pub fn contains(&self, c: char) -> bool { unimplemented!() }
}
impl Clone for Text {
    #[verifier::external_body] fn clone(&self) -> (r: Text) ensures r == *self, { unimplemented!() }
}
/// `a == b` on texts decides spec equality
#[verifier::external_body]
pub fn text_eq(a: &Text, b: &Text) -> (r: bool) ensures r == (*a == *b), { unimplemented!() }
impl Split {
    pub uninterp spec fn line(&self) -> Text;
    pub uninterp spec fn k(&self) -> int;
    pub uninterp spec fn n(&self) -> int;
    pub uninterp spec fn sep(&self) -> char;
    /// the k-th piece: there is one iff k < n and the text has a k-th field; it is that field WHOLE iff it is not
    /// the n-th piece (which is the unsplit remainder)
    #[verifier::external_body]
    pub fn next(&mut self) -> (r: OptField)
        ensures r.line() == old(self).line(), r.k() == old(self).k(),
            r.real() == (old(self).k() + 1 < old(self).n() && old(self).sep() == '\t'),
            old(self).sep() == '\t' ==> r.some() == (old(self).k() < old(self).n() && old(self).k() < nfields(old(self).line())),
            final(self).line() == old(self).line(), final(self).k() == old(self).k() + 1, final(self).n() == old(self).n(), final(self).sep() == old(self).sep(),
    { unimplemented!() }
    // plausible foreign calls: nothing promised
    #[verifier::external_body] pub fn nth(&mut self, n: usize) -> OptField { unimplemented!() }
    #[verifier::external_body] pub fn last(self) -> OptField { unimplemented!() }
    #[verifier::external_body] pub fn count(self) -> usize { unimplemented!() }
}
/// `Option<&str>` out of the split
impl OptField {
    pub uninterp spec fn line(&self) -> Text;
    pub uninterp spec fn k(&self) -> int;
    /// there is such a piece (`Some`)
    pub uninterp spec fn some(&self) -> bool;
    /// a whole tab-separated field (not the unsplit remainder that `splitn` returns last)
    pub uninterp spec fn real(&self) -> bool;
    /// `Option::ok_or_else(f)`: `Some(x)` => `Ok(x)`, `None` => `Err(f())` (which error value: not interpreted)
    #[verifier::external_body]
    pub fn ok_or_else<F: FnOnce() -> IoErr>(self, f: F) -> (r: Result<&'static Text, IoErr>)
        ensures r is Ok <==> self.some(), r matches Ok(t) ==> (self.real() ==> *t == field(self.line(), self.k())),
    { unimplemented!() }
    #[verifier::external_body]
    pub fn ok_or(self, e: IoErr) -> (r: Result<&'static Text, IoErr>)
        ensures r is Ok <==> self.some(), r matches Ok(t) ==> (self.real() ==> *t == field(self.line(), self.k())),
    { unimplemented!() }
    #[verifier::external_body] pub fn is_some(&self) -> (r: bool) ensures r == self.some(), { unimplemented!() }
    #[verifier::external_body] pub fn is_none(&self) -> (r: bool) ensures r == !self.some(), { unimplemented!() }
    /// a missing piece makes `expect` / `unwrap` PANIC (no precondition here: a panic returns nothing)
    #[verifier::external_body]
    pub fn expect(self, msg: &str) -> (r: &'static Text) ensures self.some(), self.real() ==> *r == field(self.line(), self.k()), { unimplemented!() }
    #[verifier::external_body]
    pub fn unwrap(self) -> (r: &'static Text) ensures self.some(), self.real() ==> *r == field(self.line(), self.k()), { unimplemented!() }
    #[verifier::external_body] pub fn unwrap_or(self, d: &'static Text) -> &'static Text { unimplemented!() }
    #[verifier::external_body] pub fn unwrap_or_default(self) -> &'static Text { unimplemented!() }
}
impl<T> ParseRes<T> { pub uninterp spec fn src(&self) -> Text; }
impl ParseRes<u32> {
    /// `Result::map_err(f)`: `Ok(v)` => `Ok(v)`, `Err(e)` => `Err(f(e))` (which error value: not interpreted)
    #[verifier::external_body]
    pub fn map_err<F: FnOnce(ParseIntErr) -> IoErr>(self, f: F) -> (r: Result<u32, IoErr>)
        ensures r is Ok <==> parses(self.src()), r matches Ok(v) ==> v == num_of(self.src()),
    { unimplemented!() }
    #[verifier::external_body] pub fn is_ok(&self) -> (r: bool) ensures r == parses(self.src()), { unimplemented!() }
    #[verifier::external_body] pub fn is_err(&self) -> (r: bool) ensures r == !parses(self.src()), { unimplemented!() }
    /// a field that is not a u32 makes `unwrap` PANIC (a panic returns nothing)
    #[verifier::external_body] pub fn unwrap(self) -> (r: u32) ensures parses(self.src()), r == num_of(self.src()), { unimplemented!() }
    #[verifier::external_body] pub fn expect(self, msg: &str) -> (r: u32) ensures parses(self.src()), r == num_of(self.src()), { unimplemented!() }
    // plausible foreign calls: nothing promised
    #[verifier::external_body] pub fn unwrap_or(self, d: u32) -> u32 { unimplemented!() }
    #[verifier::external_body] pub fn unwrap_or_default(self) -> u32 { unimplemented!() }
}

//@extract struct bigtools/src/bbi.rs BedEntry
//@rule R8
//@sub /#\[derive\([^\n]*\)\]\n/ => "" min=0
//@sub /rest: String/ => rest: Text min=1
//@end
//@extract enum bigtools/src/bbi/bbiread.rs BBIReadError
//@rule R8
//@sub /[ \t]*#\[error\([^\n]*\)\]\n/ => "" min=5
//@sub /#\[from\] io::Error/ => IoErr
//@sub /#\[from\] BedValueError/ => BedValueErr
//@sub /String/ => ErrText min=2
//@end
//@extract struct bigtools/src/bin/bigtools.rs IntersectOptions
//@rule R8
//@sub /^struct IntersectOptions/ => pub struct IntersectOptions min=1
//@end
// the conversions behind `?`
impl From<IoErr> for AnyErr { #[verifier::external_body] fn from(e: IoErr) -> AnyErr { unimplemented!() } }
impl From<BBIReadError> for AnyErr { #[verifier::external_body] fn from(e: BBIReadError) -> AnyErr { unimplemented!() } }

// =====================================================================================
// the `-a` file: path -> file -> line reader
// =====================================================================================
/// a path (`String`) naming the `-a` BED file
#[verifier::external_body] pub struct BedPath { _p: u8 }
/// the file can be opened / THE line sequence L a `StreamingLineReader` yields over it: each element is one line
/// "alone, without trailing whitespace" (unit bedparse `read/reader/line_is_that_line_alone_without_trailing_whitespace`)
/// or a read error (invalid UTF-8, EIO).  ASSUMED a function of the path (the file is opened once per call).
pub uninterp spec fn opens(p: BedPath) -> bool;
pub uninterp spec fn path_lines(p: BedPath) -> Seq<Result<Text, IoErr>>;
/// `std::fs::File` opened on the BED file (read side)
#[verifier::external_body] pub struct BedFile { _p: u8 }
impl BedFile { pub uninterp spec fn lines(&self) -> Seq<Result<Text, IoErr>>; }
pub trait PathLike { spec fn path(&self) -> BedPath; }
impl PathLike for BedPath { open spec fn path(&self) -> BedPath { *self } }
impl PathLike for &BedPath { open spec fn path(&self) -> BedPath { **self } }
pub struct File {}
impl File {
    #[verifier::external_body]
    pub fn open<P: PathLike>(p: P) -> (r: Result<BedFile, IoErr>)
        ensures r is Ok <==> opens(p.path()), r matches Ok(f) ==> f.lines() == path_lines(p.path()),
    { unimplemented!() }
}
/// `BufReader::with_capacity(n, file)` / `BufReader::new(file)`: buffering is transparent
pub struct BufReader {}
impl BufReader {
    pub fn with_capacity<F>(n: usize, f: F) -> (r: F) ensures r == f, { f }
    pub fn new<F>(f: F) -> (r: F) ensures r == f, { f }
}
/// `StreamingLineReader<BufReader<File>>` (unit bedparse: `new/starts_at_the_first_line`,
/// `read/reader/none_iff_end_of_file`, `read/reader/exactly_one_line_consumed`,
/// `read/reader/line_is_that_line_alone_without_trailing_whitespace`, `read/reader/io_error_is_passed_on`):
/// a finite list of lines (or read errors) and a cursor
#[verifier::external_body] pub struct Lines { _p: u8 }
impl Lines {
    pub uninterp spec fn all(&self) -> Seq<Result<Text, IoErr>>;
    pub uninterp spec fn pos(&self) -> nat;
    #[verifier::external_body]
    pub fn read(&mut self) -> (r: Option<Result<&Text, IoErr>>)
        ensures
            final(self).all() == old(self).all(),
            old(self).pos() < old(self).all().len() ==> r is Some && final(self).pos() == old(self).pos() + 1
                && (r->Some_0 matches Ok(t) ==> old(self).all()[old(self).pos() as int] == Ok::<Text, IoErr>(*t)
                    // the line comes without trailing whitespace (bedparse, label above) and `trim_end` is idempotent
                    && trim_end_of(*t) == *t)
                && (r->Some_0 matches Err(e) ==> old(self).all()[old(self).pos() as int] == Err::<Text, IoErr>(e)),
            old(self).pos() >= old(self).all().len() ==> r is None && final(self).pos() == old(self).pos(),
    { unimplemented!() }
}
pub struct StreamingLineReader {}
impl StreamingLineReader {
    #[verifier::external_body]
    pub fn new(f: BedFile) -> (r: Lines) ensures r.all() == f.lines(), r.pos() == 0, { unimplemented!() }
}

// =====================================================================================
// the output: stdout (intersect) / the BufWriter handed to `write` (chromintersect)
// =====================================================================================
/// `lines()`: every piece accepted so far, in order.  `broken()`: a write has failed (after that nothing is known
/// about the text: partial writes).  ASSUMED (as units conv_out / cli_loops): a `write_fmt` / `write` / `write_all`
/// that returns Ok has taken the WHOLE piece (for `write` this is `io::BufWriter::write` with a piece shorter than
/// the 64 KiB capacity -- see NOTES "observations"); the implicit flush when the BufWriter is dropped succeeds
/// (std ignores its error).
#[verifier::external_body] pub struct Out { _p: u8 }
impl Out {
    pub uninterp spec fn lines(&self) -> Seq<Text>;
    pub uninterp spec fn broken(&self) -> bool;
    #[verifier::external_body]
    pub fn write_fmt(&mut self, t: Text) -> (r: Result<(), IoErr>)
        ensures
            r is Ok ==> final(self).lines() == old(self).lines().push(t) && final(self).broken() == old(self).broken(),
            r is Err ==> final(self).broken(),
    { unimplemented!() }
    #[verifier::external_body]
    pub fn write(&mut self, t: &Text) -> (r: Result<usize, IoErr>)
        ensures
            r is Ok ==> final(self).lines() == old(self).lines().push(*t) && final(self).broken() == old(self).broken(),
            r is Err ==> final(self).broken(),
    { unimplemented!() }
    #[verifier::external_body]
    pub fn write_all(&mut self, t: &Text) -> (r: Result<(), IoErr>)
        ensures
            r is Ok ==> final(self).lines() == old(self).lines().push(*t) && final(self).broken() == old(self).broken(),
            r is Err ==> final(self).broken(),
    { unimplemented!() }
    #[verifier::external_body]
    pub fn flush(&mut self) -> (r: Result<(), IoErr>)
        ensures final(self).lines() == old(self).lines(), r is Ok ==> final(self).broken() == old(self).broken(), r is Err ==> final(self).broken(),
    { unimplemented!() }
    /// `Stdout::lock()`: the same destination (locking is not modelled)
    #[verifier::external_body]
    pub fn lock(&mut self) -> (w: &mut Out)
        ensures *w == *old(self), *final(self) == *final(w),
    { unimplemented!() }
}
/// `BufWriter::with_capacity(n, out)` / `BufWriter::new(out)`: the same destination (buffering is not modelled)
pub struct BufWriter {}
impl BufWriter {
    #[verifier::external_body]
    pub fn with_capacity(n: usize, f: &mut Out) -> (w: &mut Out)
        ensures *w == *old(f), *final(f) == *final(w),
    { unimplemented!() }
    #[verifier::external_body]
    pub fn new(f: &mut Out) -> (w: &mut Out)
        ensures *w == *old(f), *final(f) == *final(w),
    { unimplemented!() }
}
pub mod io {
    use super::*;
    pub enum ErrorKind { InvalidData, InvalidInput, Other, UnexpectedEof }
    /// `io::Error::new(kind, text)`: some error value (not interpreted)
    pub struct Error {}
    impl Error {
        #[verifier::external_body] pub fn new(kind: ErrorKind, msg: Text) -> IoErr { unimplemented!() }
    }
    /// `io::stdout()`: the process's standard output.  It is a PARAMETER of the extracted `intersect` (`console`) so
    /// that the contract can name the text before and after the call.
    #[verifier::external_body]
    pub fn stdout(console: &mut Out) -> (w: &mut Out)
        ensures *w == *old(console), *final(console) == *final(w),
    { unimplemented!() }
}

// =====================================================================================
// the bigBed reader: BigBedRead<R>
// =====================================================================================
/// identity of the file content a reader serves
#[verifier::external_body] pub struct FileId { _p: u8 }
/// the bigBed has a chromosome of that name
pub uninterp spec fn has_chrom(f: FileId, name: Text) -> bool;
/// wholly outside [s, e] (definition of unit bb_dec)
pub open spec fn outside(x: BedEntry, s: u32, e: u32) -> bool { x.end < s || x.start > e }
/// THE range-query result (C04): what `get_interval(name, start, end)` on file f returns -- Err (unknown chromosome,
/// index read error) or the finite list of items the iterator yields, in order (an item is an entry or the read /
/// decode error of one block).  ASSUMED deterministic in (file, name, start, end) -- "identically ... after any
/// earlier queries" is the business of units cache / rd_plumb / iters (`*/earlier_calls_untouched`).
pub uninterp spec fn answer(f: FileId, name: Text, start: u32, end: u32) -> Result<Seq<Result<BedEntry, BBIReadError>>, BBIReadError>;
pub ghost struct Query { pub name: Text, pub start: u32, pub end: u32 }
/// no entry of the answer lies wholly outside the asked range
pub open spec fn none_outside(items: Seq<Result<BedEntry, BBIReadError>>, s: u32, e: u32) -> bool {
    forall|j: int| 0 <= j < items.len() ==> ((#[trigger] items[j]) matches Ok(x) ==> !outside(x, s, e))
}
#[verifier::external_body] pub struct Reader { _p: u8 }
/// `BigBedIntervalIter` (unit iters: `next/bb/result_is_the_next_element_of_pending_values_then_per_block_results_in_block_order`,
/// `next/bb/none_only_when_blocks_exhausted_and_values_drained_and_nothing_was_skipped`,
/// `next/bb/after_an_error_the_next_call_continues_with_the_next_block`): a finite list and a cursor
#[verifier::external_body] pub struct Answer { _p: u8 }
impl Answer {
    pub uninterp spec fn all(&self) -> Seq<Result<BedEntry, BBIReadError>>;
    pub uninterp spec fn pos(&self) -> nat;
    #[verifier::external_body]
    pub fn next(&mut self) -> (r: Option<Result<BedEntry, BBIReadError>>)
        ensures
            final(self).all() == old(self).all(),
            old(self).pos() < old(self).all().len() ==> r == Some(old(self).all()[old(self).pos() as int]) && final(self).pos() == old(self).pos() + 1,
            old(self).pos() >= old(self).all().len() ==> r is None && final(self).pos() == old(self).pos(),
    { unimplemented!() }
    // plausible foreign calls (iterator adaptors an edit may add): nothing promised
    #[verifier::external_body] pub fn take(self, n: usize) -> Answer { unimplemented!() }
    #[verifier::external_body] pub fn skip(self, n: usize) -> Answer { unimplemented!() }
    #[verifier::external_body] pub fn step_by(self, n: usize) -> Answer { unimplemented!() }
    #[verifier::external_body] pub fn rev(self) -> Answer { unimplemented!() }
    #[verifier::external_body] pub fn fuse(self) -> Answer { unimplemented!() }
    #[verifier::external_body] pub fn into_iter(self) -> (r: Answer) ensures r == self, { unimplemented!() }
    #[verifier::external_body] pub fn last(self) -> Option<Result<BedEntry, BBIReadError>> { unimplemented!() }
    #[verifier::external_body] pub fn nth(&mut self, n: usize) -> Option<Result<BedEntry, BBIReadError>> { unimplemented!() }
    #[verifier::external_body] pub fn next_back(&mut self) -> Option<Result<BedEntry, BBIReadError>> { unimplemented!() }
}
impl Reader {
    pub uninterp spec fn file(&self) -> FileId;
    /// ghost log: the range queries made through this handle, in order
    pub uninterp spec fn queries(&self) -> Seq<Query>;
    /// `BigBedRead::get_interval(chrom_name, start, end)`, the contract of
    ///   unit query_glue: `get_interval/bb_get/unknown_chromosome_is_an_error`,
    ///       `get_interval/bb_get/fails_only_for_unknown_chromosome_or_failed_tree_lookup_or_failed_search`,
    ///       `get_interval/bb_get/range_unchanged_offset_zero_no_values`,
    ///       `get_interval/bb_get/blocks_are_the_search_result_for_the_full_data_tree_that_id_and_range`,
    ///       `get_interval/bb_get/chromosome_table_unchanged`;
    ///   unit iters: `next/bb/each_consumed_block_is_decoded_exactly_once_in_order_with_chrom_start_end_unchanged`,
    ///       `next/bb/query_unchanged`;
    ///   unit bb_dec: `get_block_entries/nothing_wholly_outside` (=> `none_outside`),
    ///       `get_block_entries/exactly_touching_entries_in_order`, `get_block_entries/no_overlapping_entry_missed`
    ///       (what the items ARE: inside `answer`, not used here).
    #[verifier::external_body]
    pub fn get_interval(&mut self, chrom_name: &Text, start: u32, end: u32) -> (r: Result<Answer, BBIReadError>)
        ensures
            final(self).file() == old(self).file(),
            final(self).queries() == old(self).queries().push(Query { name: *chrom_name, start, end }),
            r matches Ok(a) ==> answer(old(self).file(), *chrom_name, start, end) == Ok::<Seq<Result<BedEntry, BBIReadError>>, BBIReadError>(a.all()) && a.pos() == 0
                && has_chrom(old(self).file(), *chrom_name) && none_outside(a.all(), start, end),
            r matches Err(e) ==> answer(old(self).file(), *chrom_name, start, end) == Err::<Seq<Result<BedEntry, BBIReadError>>, BBIReadError>(e),
            !has_chrom(old(self).file(), *chrom_name) ==> r is Err,
    { unimplemented!() }
}

// =====================================================================================
// specification vocabulary (written from C04 / the tool's documentation, not from the code)
// =====================================================================================
pub open spec fn fmt4() -> &'static str { "{}\t{}\t{}\t{}\n" }
/// chromosome / start / end a line of `-a` names: the first three tab-separated fields of the line without its
/// trailing whitespace
pub open spec fn l_chrom(t: Text) -> Text { field(trim_end_of(t), 0) }
pub open spec fn l_start(t: Text) -> u32 { num_of(field(trim_end_of(t), 1)) }
pub open spec fn l_end(t: Text) -> u32 { num_of(field(trim_end_of(t), 2)) }
/// a well-formed line: at least three fields, start and end are numbers
pub open spec fn line_wf(t: Text) -> bool {
    nfields(trim_end_of(t)) >= 3 && parses(field(trim_end_of(t), 1)) && parses(field(trim_end_of(t), 2))
}
/// a line that was read and is well-formed
pub open spec fn line_good(l: Result<Text, IoErr>) -> bool { l matches Ok(t) && line_wf(t) }
/// index of the first line from i on that was not read or is malformed (|ls| if there is none)
pub open spec fn first_bad(ls: Seq<Result<Text, IoErr>>, i: int) -> int
    decreases ls.len() - i
{
    if i < 0 || i >= ls.len() { ls.len() as int } else if !line_good(ls[i]) { i } else { first_bad(ls, i + 1) }
}
/// the ONE query made for a line: its own chromosome, start and end
pub open spec fn l_query(t: Text) -> Query { Query { name: l_chrom(t), start: l_start(t), end: l_end(t) } }
pub open spec fn l_answer(f: FileId, t: Text) -> Result<Seq<Result<BedEntry, BBIReadError>>, BBIReadError> {
    answer(f, l_chrom(t), l_start(t), l_end(t))
}
/// the row of one entry under a chromosome text: chrom TAB entry.start TAB entry.end TAB entry.rest NEWLINE
/// (`&&chrom`: the code passes a `&str` variable, the macro adds one more `&`; Verus keeps reference decorations in
/// the type argument of text_spec, so the tuple type is spelled exactly as the code produces it)
pub open spec fn row(chrom: Text, x: BedEntry) -> Text { text_spec(fmt4(), (&&chrom, &x.start, &x.end, &x.rest)) }
/// prev, then one row per ENTRY among the first n items of an answer, in answer order (an item that is the read error
/// of a block has no row)
pub open spec fn add_rows(prev: Seq<Text>, chrom: Text, items: Seq<Result<BedEntry, BBIReadError>>, n: int) -> Seq<Text>
    decreases n
{
    if n <= 0 { prev }
    else if items[n - 1] is Ok { add_rows(prev, chrom, items, n - 1).push(row(chrom, items[n - 1]->Ok_0)) }
    else { add_rows(prev, chrom, items, n - 1) }
}
/// prev, then rows(line): the rows of the answer of the line's own query; none when the query fails
pub open spec fn add_line_rows(prev: Seq<Text>, f: FileId, t: Text) -> Seq<Text> {
    match l_answer(f, t) {
        Ok(items) => add_rows(prev, l_chrom(t), items, items.len() as int),
        Err(_) => prev,
    }
}
/// the text after the first n lines: l0 ++ rows(line 0) ++ rows(line 1) ++ .. ++ rows(line n-1)
pub open spec fn all_out(l0: Seq<Text>, f: FileId, ls: Seq<Result<Text, IoErr>>, n: int) -> Seq<Text>
    decreases n
{
    if n <= 0 { l0 } else { add_line_rows(all_out(l0, f, ls, n - 1), f, ls[n - 1]->Ok_0) }
}
/// the query log after the first n lines
pub open spec fn all_q(q0: Seq<Query>, ls: Seq<Result<Text, IoErr>>, n: int) -> Seq<Query>
    decreases n
{
    if n <= 0 { q0 } else { all_q(q0, ls, n - 1).push(l_query(ls[n - 1]->Ok_0)) }
}
/// C04 seen through the tool: no row of a line shows an entry wholly outside the line's own range
pub open spec fn line_inside(f: FileId, t: Text) -> bool {
    l_answer(f, t) matches Ok(items) ==> none_outside(items, l_start(t), l_end(t))
}

// =====================================================================================
// `bigtools intersect`
// =====================================================================================
#[verifier::loop_isolation(false)]
#[verifier::exec_allows_no_decreases_clause]
//@extract fn bigtools/src/bin/bigtools.rs intersect
//@rule R16
//@rule R5
//@rule R15
//@sub /fn intersect<R: SeekableRead \+ 'static>/ => fn intersect min=1
//@sub /apath: String/ => apath: BedPath min=1
//@sub /mut b: BigBedRead<R>/ => b: &mut Reader min=1
//@sub /(_options: IntersectOptions,?)(\s*\) ->)/ => \1 console: &mut Out,\2 min=1
//@sub /Box<dyn Error>/ => AnyErr min=1
//@sub /io::stdout\(\)/ => io::stdout(console) min=1
//@sub /while let Some\((\w+)\) = (\w+)\.read\(\) \{/ => loop { let \1 = match \2.read() { Some(x__) => x__, None => break }; min=1
//@sub /\bfor (\w+) in ([^\n{;]+?) \{/ => let mut it__ = \2; loop { let \1 = match it__.next() { Some(x__) => x__, None => break }; min=0
//@sub /\|_\|/ => |e__| min=0
//@sub /\bString\b/ => Text min=0
//@ret r
//@sig
    ensures
        [[L: reader_serves_the_same_file]]
        final(b).file() == old(b).file(),
        [[L: unreadable_a_file_is_an_error_nothing_written_nothing_asked]]
        !opens(apath) ==> r is Err && final(console).lines() == old(console).lines() && final(console).broken() == old(console).broken()
            && final(b).queries() == old(b).queries(),
        [[L: output_is_for_each_line_in_order_the_rows_of_its_own_query_one_per_entry_in_answer_order_up_to_the_first_malformed_line]]
        opens(apath) && !final(console).broken() ==> final(console).lines()
            == all_out(old(console).lines(), old(b).file(), path_lines(apath), first_bad(path_lines(apath), 0)),
        [[L: one_query_per_line_with_the_lines_own_chrom_start_end]]
        opens(apath) && !final(console).broken() ==> final(b).queries()
            == all_q(old(b).queries(), path_lines(apath), first_bad(path_lines(apath), 0)),
        [[L: a_malformed_or_unreadable_line_is_returned_as_an_error]]
        r is Ok ==> opens(apath) && first_bad(path_lines(apath), 0) == path_lines(apath).len(),
        [[L: no_error_without_a_malformed_line_or_failing_write]]
        r is Err ==> !opens(apath) || final(console).broken() || first_bad(path_lines(apath), 0) < path_lines(apath).len(),
        [[L: no_row_shows_an_entry_wholly_outside_its_lines_own_range]]
        opens(apath) && !final(console).broken() ==> forall|k: int| 0 <= k < first_bad(path_lines(apath), 0)
            ==> line_inside(old(b).file(), (#[trigger] path_lines(apath)[k])->Ok_0),
//@open
    let ghost f0 = b.file();
    let ghost q0 = b.queries();
    let ghost l0 = console.lines();
    let ghost ls = path_lines(apath);
//@loop 1
        invariant
            [[L: loop/frame]]
            opens(apath), b.file() == f0, bedstream.all() == ls, bedstream.pos() <= ls.len(),
            [[L: loop/no_malformed_line_so_far]]
            first_bad(ls, 0) == first_bad(ls, bedstream.pos() as int),
            [[L: loop/one_query_per_line_so_far]]
            !bedoutwriter.broken() ==> b.queries() == all_q(q0, ls, bedstream.pos() as int),
            [[L: loop/rows_of_the_lines_so_far_in_line_order]]
            !bedoutwriter.broken() ==> bedoutwriter.lines() == all_out(l0, f0, ls, bedstream.pos() as int),
            [[L: loop/entries_shown_so_far_touch_their_lines_range]]
            forall|k: int| 0 <= k < bedstream.pos() ==> line_inside(f0, (#[trigger] ls[k])->Ok_0),
        decreases
            [[L: loop/termination]]
            ls.len() - bedstream.pos(),
//@loop 2
            invariant
                [[L: inner/frame]]
                opens(apath), b.file() == f0, bedstream.all() == ls, 0 < bedstream.pos() <= ls.len(),
                ls[bedstream.pos() - 1] == Ok::<Text, IoErr>(*line), line_wf(*line),
                first_bad(ls, 0) == first_bad(ls, bedstream.pos() as int),
                it__.pos() <= it__.all().len(),
                [[L: inner/entries_shown_touch_the_lines_own_range]]
                forall|k: int| 0 <= k < bedstream.pos() ==> line_inside(f0, (#[trigger] ls[k])->Ok_0),
                [[L: inner/one_query_for_this_line_its_own_chrom_start_end]]
                !bedoutwriter.broken() ==> b.queries() == all_q(q0, ls, bedstream.pos() as int),
                [[L: inner/entries_are_the_answer_of_the_lines_own_query]]
                l_answer(f0, *line) == Ok::<Seq<Result<BedEntry, BBIReadError>>, BBIReadError>(it__.all()),
                [[L: inner/row_shows_the_lines_chrom]]
                *chrom == l_chrom(*line),
                [[L: inner/one_row_per_entry_so_far_in_answer_order]]
                !bedoutwriter.broken() ==> bedoutwriter.lines()
                    == add_rows(all_out(l0, f0, ls, bedstream.pos() - 1), l_chrom(*line), it__.all(), it__.pos() as int),
            decreases
                [[L: inner/termination]]
                it__.all().len() - it__.pos(),
//@loopend 1
        assert(it__.pos() >= it__.all().len()); [[L: inner/left_only_when_the_answer_is_exhausted]]
//@at /^\s*Ok\(\(\)\)\s*$/ before optional
    assert(bedstream.pos() >= ls.len()); [[L: loop/left_only_at_the_end_of_the_a_file]]
//@end

// =====================================================================================
// `bigtools chromintersect`: the inner fn `write`
// =====================================================================================
/// `HashSet<String>`: the names of the chromosomes of the `-b` bigBed / bigWig
#[verifier::external_body] pub struct ChromSet { _p: u8 }
impl ChromSet {
    pub uninterp spec fn names(&self) -> Set<Text>;
    #[verifier::external_body]
    pub fn contains(&self, t: &Text) -> (r: bool) ensures r == self.names().contains(*t), { unimplemented!() }
    // plausible foreign calls: nothing promised
    #[verifier::external_body] pub fn is_empty(&self) -> bool { unimplemented!() }
    #[verifier::external_body] pub fn len(&self) -> usize { unimplemented!() }
}
/// the newline `write` puts after a copied line
pub open spec fn nl() -> Text { text_lit("\n") }
/// index of the first line from i on that could not be read (|ls| if there is none)
pub open spec fn first_unread(ls: Seq<Result<Text, IoErr>>, i: int) -> int
    decreases ls.len() - i
{
    if i < 0 || i >= ls.len() { ls.len() as int } else if ls[i] is Err { i } else { first_unread(ls, i + 1) }
}
/// l0, then of the first n lines those whose first field names a chromosome of the set, each followed by a newline,
/// in input order
pub open spec fn kept_out(l0: Seq<Text>, set: Set<Text>, ls: Seq<Result<Text, IoErr>>, n: int) -> Seq<Text>
    decreases n
{
    if n <= 0 { l0 }
    else if set.contains(l_chrom(ls[n - 1]->Ok_0)) { kept_out(l0, set, ls, n - 1).push(ls[n - 1]->Ok_0).push(nl()) }
    else { kept_out(l0, set, ls, n - 1) }
}

#[verifier::loop_isolation(false)]
#[verifier::exec_allows_no_decreases_clause]
//@extract fn bigtools/src/bin/bigtools.rs write
//@rule R16
//@rule R5
//@rule R15
//@as chromintersect_write
//@sub /fn write<T: Write>/ => fn write min=1
//@sub /HashSet<String>/ => ChromSet min=1
//@sub /apath: String/ => apath: BedPath min=1
//@sub /mut bedoutwriter: BufWriter<T>/ => bedoutwriter: &mut Out min=1
//@sub /io::Result<\(\)>/ => Result<(), IoErr> min=1
//@sub /while let Some\((\w+)\) = (\w+)\.read\(\) \{/ => loop { let \1 = match \2.read() { Some(x__) => x__, None => break }; min=1
//@sub /("(?:[^"\\\n]|\\.)*")\.as_bytes\(\)/ => lit_text(\1) min=0
//@sub /\|_\|/ => |e__| min=0
//@sub /\bString\b/ => Text min=0
//@ret r
//@sig
    ensures
        [[L: unreadable_a_file_is_an_error_nothing_written]]
        !opens(apath) ==> r is Err && final(bedoutwriter).lines() == old(bedoutwriter).lines() && final(bedoutwriter).broken() == old(bedoutwriter).broken(),
        [[L: output_is_the_lines_whose_first_field_is_a_chromosome_of_b_each_followed_by_a_newline_in_input_order_nothing_else]]
        opens(apath) && !final(bedoutwriter).broken() ==> final(bedoutwriter).lines()
            == kept_out(old(bedoutwriter).lines(), chroms.names(), path_lines(apath), first_unread(path_lines(apath), 0)),
        [[L: a_read_error_is_returned]]
        r is Ok ==> opens(apath) && first_unread(path_lines(apath), 0) == path_lines(apath).len(),
        [[L: no_error_without_a_read_error_or_failing_write]]
        r is Err ==> !opens(apath) || final(bedoutwriter).broken() || first_unread(path_lines(apath), 0) < path_lines(apath).len(),
//@open
    let ghost l0 = bedoutwriter.lines();
    let ghost ls = path_lines(apath);
//@loop 1
        invariant
            [[L: loop/frame]]
            opens(apath), bedstream.all() == ls, bedstream.pos() <= ls.len(),
            [[L: loop/no_read_error_so_far]]
            first_unread(ls, 0) == first_unread(ls, bedstream.pos() as int),
            [[L: loop/kept_lines_so_far_in_input_order_each_with_its_newline]]
            !bedoutwriter.broken() ==> bedoutwriter.lines() == kept_out(l0, chroms.names(), ls, bedstream.pos() as int),
        decreases
            [[L: loop/termination]]
            ls.len() - bedstream.pos(),
//@at /^\s*Ok\(\(\)\)\s*$/ before optional
        assert(bedstream.pos() >= ls.len()); [[L: loop/left_only_at_the_end_of_the_a_file]]
//@end

// =====================================================================================
// `bigtools chromintersect`: the function AROUND `write` (the nested fn is removed here: it is extracted above and
// called through its contract): where the chromosome set comes from, which file is read, where the text goes
// =====================================================================================
//@extract struct bigtools/src/bbi/bbiread.rs ChromInfo
//@rule R8
//@sub /name: String/ => name: Text min=1
//@sub /#\[derive\([^\n]*\)\]\n/ => "" min=0
//@end
impl Clone for ChromInfo {
    /// `#[derive(Clone)]`: a faithful copy
    #[verifier::external_body] fn clone(&self) -> (r: ChromInfo) ensures r == *self, { unimplemented!() }
}
/// `<[T]>::to_vec`: a copy of the slice (ASSUMED: the elements' Clone is a faithful copy -- ChromInfo is String + 2 x u32)
pub assume_specification<T: Clone>[ <[T]>::to_vec ](s: &[T]) -> (r: Vec<T>) ensures r@ == s@;
/// a path (`String`) naming the `-b` bigBed / bigWig
#[verifier::external_body] pub struct BbiPath { _p: u8 }
/// the file opens as a bigWig or bigBed / its chromosome table in file order (units hdr, chrom_rd, info: C06/C12).
/// ASSUMED a function of the path.
pub uninterp spec fn b_opens(p: BbiPath) -> bool;
pub uninterp spec fn b_table(p: BbiPath) -> Seq<ChromInfo>;
/// GenericBBIFileOpenError
#[verifier::external_body] pub struct OpenErr { _p: u8 }
/// `GenericBBIRead<ReopenableFile>`
#[verifier::external_body] pub struct BbiFile { _p: u8 }
impl BbiFile {
    pub uninterp spec fn table(&self) -> Seq<ChromInfo>;
    #[verifier::external_body]
    pub fn chroms(&self) -> (r: &[ChromInfo]) ensures r@ == self.table(), { unimplemented!() }
}
pub struct GenericBBIRead {}
impl GenericBBIRead {
    #[verifier::external_body]
    pub fn open_file(p: &BbiPath) -> (r: Result<BbiFile, OpenErr>)
        ensures r is Ok <==> b_opens(*p), r matches Ok(b) ==> b.table() == b_table(*p),
    { unimplemented!() }
}
/// the names of a chromosome table, as a set
pub open spec fn names_set(table: Seq<ChromInfo>) -> Set<Text> {
    Seq::new(table.len(), |i: int| table[i].name).to_set()
}
/// `HashSet::from_iter(chroms.into_iter().map(|c| c.name))` (iterator adaptors / closures over iterators are outside
/// Verus): the set of the names
#[verifier::external_body]
pub fn names_of(chroms: Vec<ChromInfo>) -> (r: ChromSet) ensures r.names() == names_set(chroms@), { unimplemented!() }
/// plausible foreign call: `HashSet::new()` -- nothing promised
pub struct HashSet {}
impl HashSet {
    #[verifier::external_body] pub fn new() -> ChromSet { unimplemented!() }
}
/// the `out` argument (`String`): `-` means stdout
#[verifier::external_body] pub struct OutPath { _p: u8 }
impl OutPath {
    pub uninterp spec fn dash(&self) -> bool;
    /// `outpath == "-"`
    #[verifier::external_body] pub fn is_dash(&self) -> (r: bool) ensures r == self.dash(), { unimplemented!() }
}
/// `File::create(outpath)` can create / truncate the output file
pub uninterp spec fn creatable(p: OutPath) -> bool;
impl File {
    /// `File::create(outpath)`: the file named by `outpath` -- a PARAMETER of the extracted `chromintersect`
    /// (`created`) so that the contract can name its text -- is created or TRUNCATED: it starts empty
    #[verifier::external_body]
    pub fn create(p: OutPath, created: &mut Out) -> (r: Result<&mut Out, IoErr>)
        ensures
            r is Ok <==> creatable(p),
            r is Ok ==> r.unwrap().lines() == Seq::<Text>::empty() && !r.unwrap().broken() && *final(created) == *final(r.unwrap()),
            r is Err ==> *final(created) == *old(created),
    { unimplemented!() }
}

#[verifier::loop_isolation(false)]
#[verifier::exec_allows_no_decreases_clause]
//@extract fn bigtools/src/bin/bigtools.rs chromintersect
//@rule R16
//@rule R5
//@rule R15
//@presub /\n    fn write<T: Write>\(.*?\n    \}\n/ => \n min=1 count=1
//@sub /apath: String/ => apath: BedPath min=1
//@sub /bpath: String/ => bpath: BbiPath min=1
//@sub /outpath: String\)/ => outpath: OutPath, console: &mut Out, created: &mut Out) min=1
//@sub /Box<dyn Error>/ => AnyErr min=1
//@sub /HashSet::from_iter\(\s*(\w+)\s*\.into_iter\(\)\s*\.map\(\|(\w+)\| \2\.name\)\s*\)/ => names_of(\1) min=1
//@sub /(\w+) == "-"/ => \1.is_dash() min=0
//@sub /(\w+) != "-"/ => !\1.is_dash() min=0
//@sub /io::stdout\(\)/ => io::stdout(console) min=0
//@sub /File::create\((\w+)\)/ => File::create(\1, created) min=0
//@sub /\bString\b/ => Text min=0
//@ret r
//@sig
    ensures
        [[L: unreadable_b_file_is_an_error_nothing_written_nothing_created]]
        !b_opens(bpath) ==> r is Err && *final(console) == *old(console) && *final(created) == *old(created),
        [[L: dash_means_stdout_gets_the_a_lines_on_chromosomes_of_b_the_file_is_not_touched]]
        b_opens(bpath) && outpath.dash() ==> *final(created) == *old(created)
            && (opens(apath) && !final(console).broken() ==> final(console).lines()
                == kept_out(old(console).lines(), names_set(b_table(bpath)), path_lines(apath), first_unread(path_lines(apath), 0))),
        [[L: otherwise_the_named_file_is_truncated_and_gets_the_a_lines_on_chromosomes_of_b_stdout_is_not_touched]]
        b_opens(bpath) && !outpath.dash() ==> *final(console) == *old(console)
            && (creatable(outpath) && opens(apath) && !final(created).broken() ==> final(created).lines()
                == kept_out(Seq::<Text>::empty(), names_set(b_table(bpath)), path_lines(apath), first_unread(path_lines(apath), 0))),
        [[L: output_file_that_cannot_be_created_is_an_error_nothing_written]]
        b_opens(bpath) && !outpath.dash() && !creatable(outpath) ==> r is Err && *final(created) == *old(created),
        [[L: an_error_of_the_copy_is_returned]]
        r is Ok ==> b_opens(bpath) && (outpath.dash() || creatable(outpath)) && opens(apath)
            && first_unread(path_lines(apath), 0) == path_lines(apath).len(),
        [[L: no_error_without_a_cause]]
        r is Err ==> !b_opens(bpath) || (!outpath.dash() && !creatable(outpath)) || !opens(apath)
            || (outpath.dash() && final(console).broken()) || (!outpath.dash() && final(created).broken())
            || first_unread(path_lines(apath), 0) < path_lines(apath).len(),
//@end

} // verus!
fn main() {}
