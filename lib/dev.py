#!/usr/bin/env python3
"""dev helper: generate a unit's file and run verus with human-readable output.
usage: dev.py <unit> [verus args...]"""
import os, subprocess, sys
HERE = os.path.dirname(os.path.abspath(__file__)); sys.path.insert(0, HERE)
from weave import Unit
repo = os.environ.get('VERIF_REPO', '/repo')
name = sys.argv[1]
tpl = os.path.join(os.path.dirname(HERE), 'contracts', name, 'unit.rs.tpl')
u = Unit(tpl, repo)
text = u.build()
out = os.environ.get('VDEV', '/var/tmp/vdev'); os.makedirs(out, exist_ok=True)
p = os.path.join(out, name + '.rs'); open(p, 'w').write(text)
print('generated', p, 'labels:', len(u.labels), 'items:', [(i['name'], i['rules'], [(s['pat'][:30], s['hits']) for s in i['subs']]) for i in u.items])
if '--gen-only' in sys.argv: sys.exit(0)
sys.exit(subprocess.call(['verus', p, '--multiple-errors', '6'] + [a for a in sys.argv[2:]], cwd=out))
