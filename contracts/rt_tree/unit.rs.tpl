//@unit rt_tree
//@serves C01 C02 C03 C04 C05 C07 C08 C09 C13
//@backend verus
// bbiwrite::get_rtreeindex -- the WHOLE builder of the in-memory R-tree: leaf level, level loop, return tuple.
//   C04/C05/C09 "every R-tree [is] structurally valid with spans that contain everything beneath them"; C01-C03,
//   C07, C08, C13: every data/zoom section written is reachable through the index.
// For ALL section counts n and all block_size >= 2 the function terminates and returns (tree, levels, total) with
//   tree   `wf(tree, levels, block_size, true)`  -- literally the precondition of rt_layout's write_rtreeindex,
//          `cover_all(tree)`                     -- the builder's side of rt_search's `span_cover` (for an input sorted
//                                                    by (chrom, start); everything else holds for ANY input order),
//          `leaves_of(tree) == the input`        -- every section once, in order,
//   levels == height(tree), total == n; n == 0 gives the single empty leaf with levels 0 (fix 2360e59).
// The loop skeleton, the break condition, `levels += 1`, the `unwrap_or_else` default, the node constructor and the
// return tuple are the REAL text; only the itertools / iterator plumbing is replaced by loops over ASSUMED iterator
// shims (shims.rs) through the structural substitutions listed in NOTES.md, with the closure bodies spliced in.
// Files: spans.rs (copy of rt_spans' vocabulary), spec.rs (copy of rt_layout's wf + leaves_of, cover_all, chunked,
// level_ok), shims.rs (VIter, IntoChunks), lemmas.rs.
use vstd::prelude::*;
verus! {

//@extract struct bigtools/src/bbi/bbiwrite.rs Section
//@rule R8
//@end
//@extract struct bigtools/src/bbi/bbiwrite.rs RTreeNode
//@rule R8
//@end
//@extract enum bigtools/src/bbi/bbiwrite.rs RTreeChildren
//@rule R8
//@end
//@extract enum bigtools/src/bbi/bbiwrite.rs InputSortType
//@rule R8
//@end
//@extract struct bigtools/src/bbi/bbiwrite.rs BBIWriteOptions
//@rule R8
//@sub /#\[derive\(Clone\)\]\n/ => "" min=0
//@end

//@include spans.rs
//@include spec.rs
//@include shims.rs
//@include lemmas.rs

// ================= code under contract, piece 1: the node constructor (as in rt_spans) =================
// `.map(|c| match &c { .. })`: the closure body becomes `fn node_of_child(c)`; piece 2 calls it where the closure stood.
//@extract fn bigtools/src/bbi/bbiwrite.rs get_rtreeindex
//@rule R16
//@presub /\A.*?\n[ \t]*\.map\(\|c\| (match &c \{.*?\n[ \t]*\})\)\s*\.collect\(\).*\Z/ => fn node_of_child(c: RTreeChildren) -> RTreeNode {\n    \1\n} min=1 count=1
//@sub /(\w+)\s*\.iter\(\)\s*\.map\(\|s\| \(s\.chrom, s\.end\)\)\s*\.max\(\)/ => max_end_of_sections(\1) min=0
//@sub /(\w+)\s*\.iter\(\)\s*\.map\(\|n\| \(n\.end_chrom_idx, n\.end_base\)\)\s*\.max\(\)/ => max_end_of_children(\1) min=0
//@sub /(\w+)\s*\.iter\(\)\s*\.map\(\|s\| \(s\.chrom, s\.end\)\)\s*\.min\(\)/ => min_end_of_sections(\1) min=0
//@sub /(\w+)\s*\.iter\(\)\s*\.map\(\|n\| \(n\.end_chrom_idx, n\.end_base\)\)\s*\.min\(\)/ => min_end_of_children(\1) min=0
//@sub /(\w+)\s*\.iter\(\)\s*\.map\(\|s\| \(s\.chrom, s\.end\)\)\s*\.last\(\)/ => last_end_of_sections(\1) min=0
//@sub /(\w+)\s*\.iter\(\)\s*\.map\(\|n\| \(n\.end_chrom_idx, n\.end_base\)\)\s*\.last\(\)/ => last_end_of_children(\1) min=0
//@sub /\bsections\s*\.iter\(\)\s*\.max_by_key\(\|(\w+)\| \1\.end\)/ => max_by_key_sections_end(sections) min=0
//@sub /\bchildren\s*\.iter\(\)\s*\.max_by_key\(\|(\w+)\| \1\.end_base\)/ => max_by_key_children_end_base(children) min=0
//@sub /\bsections\s*\.iter\(\)\s*\.(?:max|min)_by_key\(\|(\w+)\| [^|;()]*\)/ => max_by_key_sections_other(sections) min=0
//@sub /\bchildren\s*\.iter\(\)\s*\.(?:max|min)_by_key\(\|(\w+)\| [^|;()]*\)/ => max_by_key_children_other(children) min=0
//@sub /(max_by_key_\w+\(\w+\))\s*\.map\(\|(\w+)\| (\([^()]*\))\)\s*\.unwrap\(\)/ => (match \1 { Some(\2) => \3, None => unwrap_none_pair() }) min=0
//@sub /\bsections\s*\.iter\(\)\s*\.map\(\|\w+\| [^|;]*?\)\s*\.\w+\(\)/ => unknown_adaptor_on_sections__refused(sections) min=0
//@sub /\bchildren\s*\.iter\(\)\s*\.map\(\|\w+\| [^|;]*?\)\s*\.\w+\(\)/ => unknown_adaptor_on_children__refused(children) min=0
//@sub /\bsections\.first\(\)/ => first_section(sections) min=0
//@sub /\bchildren\.first\(\)/ => first_child(children) min=0
//@sub /\bsections\.last\(\)/ => last_section(sections) min=0
//@sub /\bchildren\.last\(\)/ => last_child(children) min=0
//@ret node
//@sig
    requires
        [[L: node_of_child/pre_child_is_a_nonempty_chunk]]
        child_nonempty(c),
    ensures
        [[L: node_of_child/keeps_the_child_it_summarises]]
        node.children == c,
        [[L: node_of_child/node_span_covers_children]]
        child_ok(c) ==> covers(node),
        [[L: node_of_child/span_ends_are_attained_beneath]]
        tight(node),
//@open
    proof {
        match &c {
            RTreeChildren::DataSections(s) => { lemma_max_secs(s@, s@.len() as int); }
            RTreeChildren::Nodes(k) => { lemma_max_nodes(k@, k@.len() as int); }
        }
    }
//@end

// ================= code under contract, piece 2: the whole function =================
//@extract fn bigtools/src/bbi/bbiwrite.rs get_rtreeindex
//@rule R16
//@rule R8
//@presub /pub\(crate\) fn get_rtreeindex<S>\(\s*sections_stream: S,/ => fn get_rtreeindex(\n    sections_stream: VIter<Section>, min=1
//@presub /\nwhere\s+S: Iterator<Item = Section>,[ \t]*\n/ => \n min=1
//@presub /\n[ \t]*use itertools::Itertools;[ \t]*\n/ => \n min=0
//@sub /(\w+)\s*\.pop\(\)\s*\.unwrap_or_else\(\|\| ([^;]*)\);/ => (match \1.pop() { Some(v__) => v__, None => \2 }); min=0
//@sub /(\w+)\s*\.pop\(\)\s*\.unwrap\(\)/ => unwrap_node(\1.pop()) min=0
//@sub /(\w+)\s*\.pop\(\)\s*\.expect\("[^"]*"\)/ => unwrap_node(\1.pop()) min=0
//@sub /let nodes: RTreeChildren = loop \{/ => let nodes: RTreeChildren; loop { min=1
//@sub /\bbreak\s+([^;]+);/ => { nodes = \1; break; } min=0
//@sub /sections_stream((?:\s*\.(?:skip|take|step_by|rev|peekable)\([^()]*\))*)\s*(?:\.inspect\(\|_\| ([^()]*?)\))?((?:\s*\.(?:skip|take|step_by|rev|peekable)\([^()]*\))*)\s*\.chunks\(/ => ({ let mut src__ = sections_stream\1; let mut seen__: Vec<Section> = Vec::new();\n        loop {\n            match src__.next() { Some(x__) => { \2; seen__.push(x__); } None => { break; } }\n        }\n        VIter::of_vec(seen__)\3 }).chunks( min=1
//@sub /(\w+)\.into_iter\(\)((?:\s*\.(?:skip|take|step_by|rev|peekable)\([^()]*\))*)\s*\.chunks\(/ => VIter::of_vec(\1)\2.chunks( min=1
//@sub /chunk((?:\s*\.(?:skip|take|step_by|rev|peekable)\([^()]*\))*)\s*\.map\(\|c\| match &c \{.*?\n[ \t]*\}\)\s*\.collect\(\)/ => { let mut cit__ = chunk\1; let mut nodes__: Vec<RTreeNode> = Vec::new();\n                loop {\n                    match cit__.next() { Some(c) => { let node__ = node_of_child(c); nodes__.push(node__); } None => { break; } }\n                }\n                nodes__ } min=1
//@sub /(\w+)\s*\.into_iter\(\)((?:\s*\.(?:skip|take|step_by|rev|peekable)\([^()]*\))*)\s*\.map\(\|chunk\| \{(.*?)\n[ \t]*\}\)\s*\.collect\(\);?/ => { let mut it__ = \1.into_iter()\2; let mut out__: Vec<RTreeChildren> = Vec::new();\n        loop {\n            match it__.next() { Some(chunk) => { let item__ = {\3\n            }; out__.push(item__); } None => { break; } }\n        }\n        out__ }; min=2
//@ret r
//@sig
    requires
        [[L: pre_fresh_finite_stream]]
        sections_stream.pos() == 0,
        [[L: pre_block_size_at_least_2_else_the_level_loop_never_ends]]
        options.block_size >= 2,
        [[L: pre_section_count_fits_u64]]
        sections_stream.all().len() <= u64::MAX,
    ensures
        [[L: tree_is_well_formed_for_the_layout_writer]]
        wf(r.0, r.1 as int, options.block_size as int, true),
        [[L: node_span_covers_children]]
        secs_sorted(sections_stream.all()) ==> cover_all(r.0),
        [[L: every_section_lies_inside_the_span_of_every_node_above_it]]
        secs_sorted(sections_stream.all()) ==> deep_cover(r.0),
        [[L: every_section_once_in_order_in_the_leaves]]
        leaves_of(r.0) == sections_stream.all(),
        [[L: total_sections_is_the_section_count]]
        r.2 == sections_stream.all().len(),
        [[L: empty_input_gives_one_empty_leaf_and_zero_levels]]
        sections_stream.all().len() == 0 ==> r.1 == 0 && (r.0 matches RTreeChildren::DataSections(v) && v@.len() == 0),
        [[L: levels_is_the_height]]
        r.1 == height(r.0),
        [[L: no_empty_node_unless_the_input_is_empty]]
        sections_stream.all().len() > 0 ==> nonempty_all(r.0),
//@open
    let ghost secs = sections_stream.all();
//@loop 1
            invariant
                [[L: count/every_section_seen_so_far_counted_once]]
                src__.all() == secs, src__.pos() == seen__@.len(), seen__@.len() <= secs.len(),
                seen__@ == secs.subrange(0, seen__@.len() as int),
                secs.len() <= u64::MAX,
                total_sections as int == seen__@.len(),
            ensures
                [[L: count/all_sections_passed_on_and_counted]]
                seen__@ == secs,
                total_sections as int == secs.len(),
            decreases
                [[L: count/termination]]
                secs.len() - seen__@.len(),
//@at /match src__\.next\(\)/ before optional
            proof { if seen__@.len() < secs.len() { assert(secs.subrange(0, seen__@.len() as int + 1) =~= secs.subrange(0, seen__@.len() as int).push(secs[seen__@.len() as int])); } }
//@at /^\s*VIter::of_vec\(seen__\)/ before optional
        proof { assert(secs.subrange(0, secs.len() as int) =~= secs); }
//@at /let mut current_nodes/ before
    let ghost gs0 = chunks.groups();
//@loop 2
            invariant
                [[L: leaf_level/one_leaf_per_group_so_far_holding_exactly_the_group]]
                it__.all().len() == gs0.len(), it__.pos() == out__@.len(), out__@.len() <= gs0.len(),
                forall|g: int| 0 <= g < gs0.len() ==> (#[trigger] it__.all()[g]).all() == gs0[g] && it__.all()[g].pos() == 0,
                forall|g: int| 0 <= g < out__@.len() ==> leaf_of(#[trigger] out__@[g], gs0[g]),
            ensures
                [[L: leaf_level/one_leaf_per_group]]
                out__@.len() == gs0.len(),
                forall|g: int| 0 <= g < out__@.len() ==> leaf_of(#[trigger] out__@[g], gs0[g]),
            decreases
                [[L: leaf_level/termination]]
                gs0.len() - out__@.len(),
//@at /let mut levels\b/ after
    let ghost k0 = current_nodes@.len();
    proof {
        assert(k0 == current_nodes.len());
        lemma_leaf_level(secs, gs0, current_nodes@, block_size as int);
        lemma_count(gs0, secs, block_size as int);
    }
//@loop 3
        invariant_except_break
            [[L: loop/all_nodes_of_this_level_well_formed_covering_sorted_and_holding_every_section_once]]
            level_ok(current_nodes@, levels as int, block_size as int, secs),
            [[L: loop/levels_counts_the_rebuilds]]
            levels as int + current_nodes@.len() <= k0, k0 <= usize::MAX,
            secs.len() == 0 ==> levels as int == 0 && current_nodes@.len() == 0,
            secs.len() > 0 ==> current_nodes@.len() >= 1,
        invariant
            block_size >= 2, block_size == options.block_size as usize,
        ensures
            [[L: loop/at_exit/tree_is_well_formed_for_the_layout_writer]]
            wf(nodes, levels as int, block_size as int, true),
            [[L: loop/at_exit/node_span_covers_children]]
            secs_sorted(secs) ==> cover_all(nodes),
            [[L: loop/at_exit/every_section_once_in_order_in_the_leaves]]
            leaves_of(nodes) == secs,
            [[L: loop/at_exit/empty_input_gives_one_empty_leaf_and_zero_levels]]
            secs.len() == 0 ==> levels as int == 0 && (nodes matches RTreeChildren::DataSections(v) && v@.len() == 0),
            [[L: loop/at_exit/levels_is_the_height]]
            levels as int == height(nodes),
            [[L: loop/at_exit/no_empty_node_unless_the_input_is_empty]]
            secs.len() > 0 ==> nonempty_all(nodes),
        decreases
            [[L: termination]]
            current_nodes@.len(),
//@at /if current_nodes\.len\(\)/ before
        let ghost cur0 = current_nodes@;
        let ghost lv0 = levels as int;
        proof {
            lemma_root(cur0, lv0, block_size as int, secs);
            if secs.len() == 0 { assert(secs =~= Seq::<Section>::empty()); }
        }
//@at /let chunks = VIter::of_vec\(current_nodes\)/ after
        let ghost gs = chunks.groups();
        proof { lemma_groups_nonempty(cur0, gs, lv0, block_size as int, secs); }
//@loop 4
            invariant
                [[L: node_level/one_node_per_group_so_far_built_by_the_node_constructor]]
                it__.all().len() == gs.len(), it__.pos() == out__@.len(), out__@.len() <= gs.len(),
                forall|g: int| 0 <= g < gs.len() ==> (#[trigger] it__.all()[g]).all() == gs[g] && it__.all()[g].pos() == 0,
                groups_nonempty(gs),
                forall|g: int| 0 <= g < out__@.len() ==> built_from(#[trigger] out__@[g], gs[g]),
            ensures
                [[L: node_level/one_node_per_group]]
                out__@.len() == gs.len(),
                forall|g: int| 0 <= g < out__@.len() ==> built_from(#[trigger] out__@[g], gs[g]),
            decreases
                [[L: node_level/termination]]
                gs.len() - out__@.len(),
//@loop 5
                    invariant
                        [[L: node_level/group/one_item_per_member_so_far_keeping_and_covering_it]]
                        0 <= out__@.len() < gs.len(), cit__.all() == gs[out__@.len() as int],
                        cit__.pos() == nodes__@.len(), nodes__@.len() <= cit__.all().len(),
                        groups_nonempty(gs),
                        forall|k: int| 0 <= k < nodes__@.len() ==> item_of(#[trigger] nodes__@[k], cit__.all()[k]),
                    ensures
                        [[L: node_level/group/one_item_per_member]]
                        nodes__@.len() == cit__.all().len(),
                    decreases
                        [[L: node_level/group/termination]]
                        cit__.all().len() - nodes__@.len(),
//@at /^\s*\(nodes, levels/ before optional
    proof { if secs_sorted(secs) { corollary_deep_cover(nodes); } }
//@loopend 3
        proof {
            lemma_next_level(cur0, gs, current_nodes@, lv0, block_size as int, secs);
            lemma_count(gs, cur0, block_size as int);
        }
//@end

fn main() {}
} // verus!
