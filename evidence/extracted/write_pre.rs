// BigWigWrite::write_pre / BigBedWrite::write_pre (+ bbiwrite::write_blank_headers as verified callee):
// the placeholder area at the start of the file and the offsets that are later stored in the header.
// C09 "header fields, offsets and counts are mutually consistent": the returned offsets ARE the file
// positions of the total-summary slot (40 bytes), the data-count slot (8 bytes) and the first data byte;
// C02 "a supplied autoSql text is returned verbatim": the text is stored unchanged at autosql_offset,
// followed by exactly one NUL and containing none.
use vstd::prelude::*;
verus! {
// ---- shared byte-level prelude ---------------------------------------------
// Format vocabulary written from the published BBI layout (Kent et al. 2010),
// as arithmetic on byte values - not as calls to from_le_bytes/to_le_bytes.
/// k-th base-256 digit of x (opaque: the div/mod arithmetic is only unfolded inside the codec lemmas)
#[verifier::opaque]
pub open spec fn byte_of(x: int, k: int) -> u8 {
    if k == 0 { (x % 256) as u8 } else if k == 1 { (x / 256 % 256) as u8 } else if k == 2 { (x / 65536 % 256) as u8 }
    else if k == 3 { (x / 16777216 % 256) as u8 } else if k == 4 { (x / 4294967296 % 256) as u8 }
    else if k == 5 { (x / 1099511627776 % 256) as u8 } else if k == 6 { (x / 281474976710656 % 256) as u8 }
    else { (x / 72057594037927936 % 256) as u8 }
}
pub open spec fn le16(x: u16) -> Seq<u8> { seq![byte_of(x as int, 0), byte_of(x as int, 1)] }
pub open spec fn le32(x: u32) -> Seq<u8> { seq![byte_of(x as int, 0), byte_of(x as int, 1), byte_of(x as int, 2), byte_of(x as int, 3)] }
pub open spec fn le64(x: u64) -> Seq<u8> {
    seq![byte_of(x as int, 0), byte_of(x as int, 1), byte_of(x as int, 2), byte_of(x as int, 3),
         byte_of(x as int, 4), byte_of(x as int, 5), byte_of(x as int, 6), byte_of(x as int, 7)]
}
pub open spec fn be16(x: u16) -> Seq<u8> { seq![byte_of(x as int, 1), byte_of(x as int, 0)] }
pub open spec fn be32(x: u32) -> Seq<u8> { seq![byte_of(x as int, 3), byte_of(x as int, 2), byte_of(x as int, 1), byte_of(x as int, 0)] }
pub open spec fn be64(x: u64) -> Seq<u8> {
    seq![byte_of(x as int, 7), byte_of(x as int, 6), byte_of(x as int, 5), byte_of(x as int, 4),
         byte_of(x as int, 3), byte_of(x as int, 2), byte_of(x as int, 1), byte_of(x as int, 0)]
}
// decode: value of the little-/big-endian integer stored at s[i..]
pub open spec fn dle16(s: Seq<u8>, i: int) -> int { s[i] as int + 256 * (s[i + 1] as int) }
pub open spec fn dle32(s: Seq<u8>, i: int) -> int {
    s[i] as int + 256 * (s[i + 1] as int) + 65536 * (s[i + 2] as int) + 16777216 * (s[i + 3] as int)
}
pub open spec fn dle64(s: Seq<u8>, i: int) -> int { dle32(s, i) + 4294967296 * dle32(s, i + 4) }
pub open spec fn dbe16(s: Seq<u8>, i: int) -> int { 256 * (s[i] as int) + s[i + 1] as int }
pub open spec fn dbe32(s: Seq<u8>, i: int) -> int {
    16777216 * (s[i] as int) + 65536 * (s[i + 1] as int) + 256 * (s[i + 2] as int) + s[i + 3] as int
}
pub open spec fn dbe64(s: Seq<u8>, i: int) -> int { 4294967296 * dbe32(s, i) + dbe32(s, i + 4) }
/// integer at s[i..] in byte order `big`
pub open spec fn d16(big: bool, s: Seq<u8>, i: int) -> int { if big { dbe16(s, i) } else { dle16(s, i) } }
pub open spec fn d32(big: bool, s: Seq<u8>, i: int) -> int { if big { dbe32(s, i) } else { dle32(s, i) } }
pub open spec fn d64(big: bool, s: Seq<u8>, i: int) -> int { if big { dbe64(s, i) } else { dle64(s, i) } }
pub open spec fn e16(big: bool, x: u16) -> Seq<u8> { if big { be16(x) } else { le16(x) } }
pub open spec fn e32(big: bool, x: u32) -> Seq<u8> { if big { be32(x) } else { le32(x) } }
pub open spec fn e64(big: bool, x: u64) -> Seq<u8> { if big { be64(x) } else { le64(x) } }

// Floats on disk: IEEE bit patterns.  `to_bits`/`from_bits` are uninterpreted; the only
// assumed fact is that they are inverse (true of Rust's f32::to_bits/from_bits bit-for-bit).
pub uninterp spec fn f32_bits(x: f32) -> u32;
pub uninterp spec fn f32_of_bits(b: u32) -> f32;
pub uninterp spec fn f64_bits(x: f64) -> u64;
pub uninterp spec fn f64_of_bits(b: u64) -> f64;
pub broadcast axiom fn ax_f32_bits_inv(x: f32) ensures #[trigger] f32_of_bits(f32_bits(x)) == x;
pub broadcast axiom fn ax_f64_bits_inv(x: f64) ensures #[trigger] f64_of_bits(f64_bits(x)) == x;

#[verifier::external_body]
#[derive(Debug)]
pub struct IoError { _p: u8 }

#[verifier::external_body]
pub fn vpanic() -> !
    requires false
{ panic!() }

// ---- Sink: append-only in-memory writer (`Vec<u8>` used through byteorder::WriteBytesExt / io::Write).
// Assumed contracts: NativeEndian == LittleEndian (x86-64 / aarch64 targets); writes to a Vec never
// fail, the io::Result plumbing is kept so that `?` in the code typechecks.
pub struct Sink { pub bytes: Vec<u8> }
impl Sink {
    pub open spec fn view(&self) -> Seq<u8> { self.bytes@ }
    #[verifier::external_body]
    pub fn with_capacity(n: usize) -> (r: Sink) ensures r@.len() == 0 { Sink { bytes: Vec::with_capacity(n) } }
    pub fn len(&self) -> (r: usize) ensures r == self@.len() { self.bytes.len() }
    #[verifier::external_body]
    pub fn put_u8(&mut self, v: u8) -> (r: Result<(), IoError>)
        ensures r.is_ok(), final(self)@ == old(self)@.push(v) { unimplemented!() }
    #[verifier::external_body]
    pub fn put_u16(&mut self, v: u16) -> (r: Result<(), IoError>)
        ensures r.is_ok(), final(self)@ == old(self)@ + le16(v) { unimplemented!() }
    #[verifier::external_body]
    pub fn put_u32(&mut self, v: u32) -> (r: Result<(), IoError>)
        ensures r.is_ok(), final(self)@ == old(self)@ + le32(v) { unimplemented!() }
    #[verifier::external_body]
    pub fn put_u64(&mut self, v: u64) -> (r: Result<(), IoError>)
        ensures r.is_ok(), final(self)@ == old(self)@ + le64(v) { unimplemented!() }
    #[verifier::external_body]
    pub fn put_f32(&mut self, v: f32) -> (r: Result<(), IoError>)
        ensures r.is_ok(), final(self)@ == old(self)@ + le32(f32_bits(v)) { unimplemented!() }
    #[verifier::external_body]
    pub fn put_f64(&mut self, v: f64) -> (r: Result<(), IoError>)
        ensures r.is_ok(), final(self)@ == old(self)@ + le64(f64_bits(v)) { unimplemented!() }
    #[verifier::external_body]
    pub fn put_bytes(&mut self, b: &[u8]) -> (r: Result<(), IoError>)
        ensures r.is_ok(), final(self)@ == old(self)@ + b@ { unimplemented!() }
}

// ---- FSink: seekable destination (`BufWriter<W: Write + Seek>`).  Ghost image `data()` and
// position `pos()`.  A put at `pos` overwrites/extends the image; any operation may fail, in
// which case nothing is promised about the image (callers must propagate the error).
#[verifier::external_body]
pub struct FSink { _p: u8 }
pub open spec fn splice(d: Seq<u8>, at: int, b: Seq<u8>) -> Seq<u8>
    recommends 0 <= at <= d.len()
{
    if at + b.len() >= d.len() { d.subrange(0, at) + b } else { d.subrange(0, at) + b + d.subrange(at + b.len(), d.len() as int) }
}
impl FSink {
    pub uninterp spec fn data(&self) -> Seq<u8>;
    pub uninterp spec fn pos(&self) -> int;
    pub open spec fn wf(&self) -> bool { 0 <= self.pos() <= self.data().len() }
    #[verifier::external_body]
    pub fn tell(&mut self) -> (r: Result<u64, IoError>)
        requires old(self).wf(), old(self).pos() <= u64::MAX
        ensures final(self).data() == old(self).data(), final(self).pos() == old(self).pos(), r.is_ok() ==> r.unwrap() == old(self).pos()
    { unimplemented!() }
    #[verifier::external_body]
    pub fn seek_start(&mut self, p: u64) -> (r: Result<u64, IoError>)
        requires old(self).wf(), p <= old(self).data().len()
        ensures final(self).data() == old(self).data(), r.is_ok() ==> (final(self).pos() == p && r.unwrap() == p), final(self).wf()
    { unimplemented!() }
    #[verifier::external_body]
    pub fn seek_end0(&mut self) -> (r: Result<u64, IoError>)
        requires old(self).wf()
        ensures final(self).data() == old(self).data(), r.is_ok() ==> (final(self).pos() == old(self).data().len() && r.unwrap() == old(self).data().len()), final(self).wf()
    { unimplemented!() }
    #[verifier::external_body]
    pub fn put(&mut self, b: &[u8]) -> (r: Result<(), IoError>)
        requires old(self).wf()
        ensures r.is_ok() ==> (final(self).data() == splice(old(self).data(), old(self).pos(), b@) && final(self).pos() == old(self).pos() + b@.len()), final(self).wf()
    { unimplemented!() }
    #[verifier::external_body]
    pub fn put_u8(&mut self, v: u8) -> (r: Result<(), IoError>)
        requires old(self).wf()
        ensures r.is_ok() ==> (final(self).data() == splice(old(self).data(), old(self).pos(), seq![v]) && final(self).pos() == old(self).pos() + 1), final(self).wf()
    { unimplemented!() }
    #[verifier::external_body]
    pub fn put_u16(&mut self, v: u16) -> (r: Result<(), IoError>)
        requires old(self).wf()
        ensures r.is_ok() ==> (final(self).data() == splice(old(self).data(), old(self).pos(), le16(v)) && final(self).pos() == old(self).pos() + 2), final(self).wf()
    { unimplemented!() }
    #[verifier::external_body]
    pub fn put_u32(&mut self, v: u32) -> (r: Result<(), IoError>)
        requires old(self).wf()
        ensures r.is_ok() ==> (final(self).data() == splice(old(self).data(), old(self).pos(), le32(v)) && final(self).pos() == old(self).pos() + 4), final(self).wf()
    { unimplemented!() }
    #[verifier::external_body]
    pub fn put_u64(&mut self, v: u64) -> (r: Result<(), IoError>)
        requires old(self).wf()
        ensures r.is_ok() ==> (final(self).data() == splice(old(self).data(), old(self).pos(), le64(v)) && final(self).pos() == old(self).pos() + 8), final(self).wf()
    { unimplemented!() }
    #[verifier::external_body]
    pub fn put_f64(&mut self, v: f64) -> (r: Result<(), IoError>)
        requires old(self).wf()
        ensures r.is_ok() ==> (final(self).data() == splice(old(self).data(), old(self).pos(), le64(f64_bits(v))) && final(self).pos() == old(self).pos() + 8), final(self).wf()
    { unimplemented!() }
}

// ---- Cur: consuming reader over a byte buffer (`bytes::BytesMut` used through `bytes::Buf`).
// `rem()` = bytes not yet consumed.  The `requires` are the real panics of the `bytes` crate
// (reading past the end / split_to past the end).
#[verifier::external_body]
pub struct Cur { _p: u8 }
impl Cur {
    pub uninterp spec fn rem(&self) -> Seq<u8>;
    #[verifier::external_body]
    pub fn from_vec(v: &Vec<u8>) -> (r: Cur) ensures r.rem() == v@ { unimplemented!() }
    #[verifier::external_body]
    pub fn len(&self) -> (r: usize) ensures r == self.rem().len() { unimplemented!() }
    #[verifier::external_body]
    pub fn split_to(&mut self, n: usize) -> (r: Cur)
        requires n <= old(self).rem().len()
        ensures r.rem() == old(self).rem().subrange(0, n as int), final(self).rem() == old(self).rem().subrange(n as int, old(self).rem().len() as int)
    { unimplemented!() }
    #[verifier::external_body]
    pub fn advance(&mut self, n: usize)
        requires n <= old(self).rem().len()
        ensures final(self).rem() == old(self).rem().subrange(n as int, old(self).rem().len() as int)
    { unimplemented!() }
    #[verifier::external_body]
    pub fn get_u8(&mut self) -> (r: u8)
        requires old(self).rem().len() >= 1
        ensures r == old(self).rem()[0], final(self).rem() == old(self).rem().subrange(1, old(self).rem().len() as int)
    { unimplemented!() }
    #[verifier::external_body]
    pub fn get_u16(&mut self) -> (r: u16)
        requires old(self).rem().len() >= 2
        ensures r == dbe16(old(self).rem(), 0), final(self).rem() == old(self).rem().subrange(2, old(self).rem().len() as int)
    { unimplemented!() }
    #[verifier::external_body]
    pub fn get_u16_le(&mut self) -> (r: u16)
        requires old(self).rem().len() >= 2
        ensures r == dle16(old(self).rem(), 0), final(self).rem() == old(self).rem().subrange(2, old(self).rem().len() as int)
    { unimplemented!() }
    #[verifier::external_body]
    pub fn get_u32(&mut self) -> (r: u32)
        requires old(self).rem().len() >= 4
        ensures r == dbe32(old(self).rem(), 0), final(self).rem() == old(self).rem().subrange(4, old(self).rem().len() as int)
    { unimplemented!() }
    #[verifier::external_body]
    pub fn get_u32_le(&mut self) -> (r: u32)
        requires old(self).rem().len() >= 4
        ensures r == dle32(old(self).rem(), 0), final(self).rem() == old(self).rem().subrange(4, old(self).rem().len() as int)
    { unimplemented!() }
    #[verifier::external_body]
    pub fn get_u64(&mut self) -> (r: u64)
        requires old(self).rem().len() >= 8
        ensures r == dbe64(old(self).rem(), 0), final(self).rem() == old(self).rem().subrange(8, old(self).rem().len() as int)
    { unimplemented!() }
    #[verifier::external_body]
    pub fn get_u64_le(&mut self) -> (r: u64)
        requires old(self).rem().len() >= 8
        ensures r == dle64(old(self).rem(), 0), final(self).rem() == old(self).rem().subrange(8, old(self).rem().len() as int)
    { unimplemented!() }
    #[verifier::external_body]
    pub fn get_f32(&mut self) -> (r: f32)
        requires old(self).rem().len() >= 4
        ensures r == f32_of_bits(dbe32(old(self).rem(), 0) as u32), final(self).rem() == old(self).rem().subrange(4, old(self).rem().len() as int)
    { unimplemented!() }
    #[verifier::external_body]
    pub fn get_f32_le(&mut self) -> (r: f32)
        requires old(self).rem().len() >= 4
        ensures r == f32_of_bits(dle32(old(self).rem(), 0) as u32), final(self).rem() == old(self).rem().subrange(4, old(self).rem().len() as int)
    { unimplemented!() }
}
// `uN::from_{le,be}_bytes([..])` (rule R4) with arithmetic contracts
#[verifier::external_body]
pub fn u32_from_le(b: [u8; 4]) -> (r: u32) ensures r == dle32(b@, 0) { u32::from_le_bytes(b) }
#[verifier::external_body]
pub fn u32_from_be(b: [u8; 4]) -> (r: u32) ensures r == dbe32(b@, 0) { u32::from_be_bytes(b) }
#[verifier::external_body]
pub fn u64_from_le(b: [u8; 8]) -> (r: u64) ensures r == dle64(b@, 0) { u64::from_le_bytes(b) }
#[verifier::external_body]
pub fn u64_from_be(b: [u8; 8]) -> (r: u64) ensures r == dbe64(b@, 0) { u64::from_be_bytes(b) }
#[verifier::external_body]
pub fn f32_from_le(b: [u8; 4]) -> (r: f32) ensures r == f32_of_bits(dle32(b@, 0) as u32) { f32::from_le_bytes(b) }
#[verifier::external_body]
pub fn f32_from_be(b: [u8; 4]) -> (r: f32) ensures r == f32_of_bits(dbe32(b@, 0) as u32) { f32::from_be_bytes(b) }

const MAX_ZOOM_LEVELS: usize = 10;
// thiserror derive: `#[error(..)]` display strings dropped, `#[from] io::Error` -> IoError, message
// payload `String` -> `Msg`; the From impl that `#[from]` generates is written out below.
pub enum ProcessDataError {
        InvalidInput(Msg),
        InvalidChromosome(Msg),
        IoError(IoError),
}
pub struct Msg {}
impl vstd::std_specs::convert::FromSpecImpl<IoError> for ProcessDataError {
    open spec fn obeys_from_spec() -> bool { true }
    open spec fn from_spec(e: IoError) -> ProcessDataError { ProcessDataError::IoError(e) }
}
impl From<IoError> for ProcessDataError {
    fn from(e: IoError) -> (r: ProcessDataError) { ProcessDataError::IoError(e) }
}

// =====================================================================================
// shims: ASSUMED contracts (listed in NOTES.md)
// =====================================================================================
/// `String` holding an autoSql text: opaque, ghost byte content
#[verifier::external_body]
pub struct Text { _p: Vec<u8> }
impl Text {
    pub uninterp spec fn bytes(&self) -> Seq<u8>;
    /// `String::into_bytes`
    #[verifier::external_body]
    pub fn into_bytes(self) -> (r: Vec<u8>)
        ensures r@ == self.bytes(),
    { unimplemented!() }
    // String/str methods that the pinned code does not call: no postcondition (unknown result), so an edit
    // that starts using them is judged by the contract instead of being rejected by the front end
    #[verifier::external_body] pub fn trim(&self) -> (r: Text) { unimplemented!() }
    #[verifier::external_body] pub fn trim_end(&self) -> (r: Text) { unimplemented!() }
    #[verifier::external_body] pub fn trim_start(&self) -> (r: Text) { unimplemented!() }
    #[verifier::external_body] pub fn to_string(&self) -> (r: Text) { unimplemented!() }
    #[verifier::external_body] pub fn to_owned(&self) -> (r: Text) { unimplemented!() }
    #[verifier::external_body] pub fn to_lowercase(&self) -> (r: Text) { unimplemented!() }
    #[verifier::external_body] pub fn replace(&self, _a: &str, _b: &str) -> (r: Text) { unimplemented!() }
}
/// the bytes of `crate::bed::autosql::BED3`
pub uninterp spec fn bed3() -> Seq<u8>;
/// `autosql.unwrap_or_else(|| crate::bed::autosql::BED3.to_string())`
#[verifier::external_body]
pub fn text_or_bed3(t: Option<Text>) -> (r: Text)
    ensures r.bytes() == stored_text(t),
{ unimplemented!() }
pub open spec fn stored_text(t: Option<Text>) -> Seq<u8> {
    match t { Some(x) => x.bytes(), None => bed3() }
}
/// the predicate `!a.trim().is_empty()` on a text: uninterpreted, except for the one fact used: it is FALSE for the empty
/// text (`"".trim()` is `""`)
pub uninterp spec fn not_blank(t: Seq<u8>) -> bool;
/// `autosql.filter(|a| !a.trim().is_empty())`: Option::filter's real contract (None stays None; Some(x) is kept iff the
/// predicate holds for x, else None) over the named predicate
#[verifier::external_body]
pub fn filter_not_blank(t: Option<Text>) -> (r: Option<Text>)
    ensures
        t is None ==> r is None,
        t matches Some(x) ==> r == (if not_blank(x.bytes()) { Some(x) } else { None::<Text> }),
        t matches Some(x) ==> (x.bytes().len() == 0 ==> !not_blank(x.bytes())),
{ unimplemented!() }
/// `autosql.filter(|a| !a.is_empty())`: the same with the predicate "has at least one byte"
#[verifier::external_body]
pub fn filter_nonempty(t: Option<Text>) -> (r: Option<Text>)
    ensures
        t is None ==> r is None,
        t matches Some(x) ==> r == (if x.bytes().len() > 0 { Some(x) } else { None::<Text> }),
{ unimplemented!() }
/// what `parse_autosql` finds in the text: the field count of every declaration, in order (None: parse error).
/// Abstract here; the parser itself is units asql_loops / asql_tok.
pub uninterp spec fn decl_counts(t: Seq<u8>) -> Option<Seq<int>>;
/// the header's field count is that of the LAST declaration (helper `simple`/`object` declarations come first, the
/// table that describes the rows is last); None: parse error or no declaration at all
pub open spec fn parsed_field_count(t: Seq<u8>) -> Option<usize> {
    match decl_counts(t) {
        Some(c) => if c.len() > 0 && 0 <= c.last() <= usize::MAX { Some(c.last() as usize) } else { None },
        None => None,
    }
}
pub struct Decl { pub fields: Vec<u8> }
pub struct ParseErr {}
/// `parse_autosql(&autosql)` (ASSUMED contract: the declarations of the text, in order, each with its fields)
#[verifier::external_body]
pub fn parse_decls(t: &Text) -> (r: Result<Vec<Decl>, ParseErr>)
    ensures
        r is Ok <==> decl_counts(t.bytes()) is Some,
        r matches Ok(v) ==> v@.len() == decl_counts(t.bytes())->Some_0.len()
            && forall|i: int| 0 <= i < v@.len() ==> (#[trigger] v@[i]).fields@.len() == decl_counts(t.bytes())->Some_0[i],
{ unimplemented!() }
// the labelled block `'field_count: { .. break 'field_count X; .. }` of write_pre (Verus has no labelled blocks): hoisted
// MECHANICALLY into this function -- body = the block's text, `break 'field_count X` -> `return X`,
// `parse_autosql(&autosql)` -> `parse_decls(autosql)`; write_pre below calls it where the block stood.
pub fn schema_field_count(autosql: &Text) -> (r: Option<usize>)
    ensures
        
        r == parsed_field_count(autosql.bytes()),
{
            let Ok(mut declarations) = parse_decls(autosql) else {
                return None;
            };
            let Some(decl) = declarations.pop() else {
                return None;
            };
            Some(decl.fields.len())
}

pub open spec fn has_nul(s: Seq<u8>) -> bool { exists|i: int| 0 <= i < s.len() && #[trigger] s[i] == 0u8 }
/// `std::ffi::CString` / `NulError`
#[verifier::external_body]
pub struct CStr { _p: Vec<u8> }
pub struct NulErr {}
impl CStr {
    pub uninterp spec fn body(&self) -> Seq<u8>;
    /// `CString::new(Vec<u8>)`: Err iff the bytes contain a NUL; otherwise owns exactly those bytes
    #[verifier::external_body]
    pub fn new(v: Vec<u8>) -> (r: Result<CStr, NulErr>)
        ensures r is Err <==> has_nul(v@), r matches Ok(c) ==> c.body() == v@,
    { unimplemented!() }
    /// `CString::as_bytes`: the bytes without the trailing NUL
    #[verifier::external_body]
    pub fn as_bytes(&self) -> (r: &[u8])
        ensures r@ == self.body(),
    { unimplemented!() }
    /// `CString::as_bytes_with_nul`: the bytes followed by one NUL
    #[verifier::external_body]
    pub fn as_bytes_with_nul(&self) -> (r: &[u8])
        ensures r@ == self.body().push(0u8),
    { unimplemented!() }
}

// ---- format vocabulary ----
pub open spec fn zeros(n: int) -> Seq<u8> { Seq::new(n as nat, |i: int| 0u8) }
/// what write_pre leaves at the start of a bigWig: 64 + 240 header/zoom-directory placeholder bytes,
/// 40 bytes total-summary placeholder, 8 bytes data-count placeholder
pub open spec fn bw_pre() -> Seq<u8> { zeros(64) + zeros(240) + zeros(40) + le64(0u64) }
/// bigBed: the autoSql text and its NUL sit between the header area and the summary placeholder
pub open spec fn bb_pre(t: Seq<u8>) -> Seq<u8> { zeros(64) + zeros(240) + t.push(0u8) + zeros(40) + le64(0u64) }

pub proof fn lemma_le64_zero()
    ensures le64(0u64) == zeros(8),
{
    reveal(byte_of);
    assert(le64(0u64) =~= zeros(8));
}
/// what an independent decoder sees in `splice(d0, 0, bw_pre())`
pub proof fn lemma_bw_layout(d0: Seq<u8>)
    ensures ({
        let f = splice(d0, 0, bw_pre());
        &&& bw_pre().len() == 352
        &&& f.len() == (if d0.len() >= 352 { d0.len() as int } else { 352 })
        &&& forall|i: int| 0 <= i < 352 ==> #[trigger] f[i] == 0u8
        &&& forall|i: int| 352 <= i < d0.len() ==> #[trigger] f[i] == d0[i]
    }),
{
    lemma_le64_zero();
}
pub proof fn lemma_bb_layout(d0: Seq<u8>, t: Seq<u8>)
    ensures ({
        let f = splice(d0, 0, bb_pre(t));
        let n = t.len() as int;
        &&& bb_pre(t).len() == 353 + n
        &&& f.len() == (if d0.len() >= 353 + n { d0.len() as int } else { 353 + n })
        &&& forall|i: int| 0 <= i < 304 ==> #[trigger] f[i] == 0u8
        &&& f.subrange(304, 304 + n) == t
        &&& forall|i: int| 304 + n <= i < 353 + n ==> #[trigger] f[i] == 0u8
        &&& forall|i: int| 353 + n <= i < d0.len() ==> #[trigger] f[i] == d0[i]
    }),
{
    lemma_le64_zero();
    let f = splice(d0, 0, bb_pre(t));
    assert(f.subrange(304, 304 + t.len() as int) =~= t);
}

// ---- write_blank_headers (contract as in unit hdr; verified here again because write_pre calls it) ----
pub fn write_blank_headers(file: &mut FSink,
) -> (r: Result<(), IoError>)
    requires
        
        old(file).wf(),
    ensures
        
        r is Ok ==> final(file).data() == splice(old(file).data(), 0, zeros(64) + zeros(240)),
        
        r is Ok ==> final(file).pos() == 304,
        final(file).wf(),
{
    let ghost d0 = file.data();

    file.seek_start((0))?;
    // Common header
    file.put(&[0; 64])?;
    // Zoom levels
    file.put(&[0; MAX_ZOOM_LEVELS * 24])?;


    proof {
        
        assert(file.data() =~= splice(d0, 0, zeros(64) + zeros(240)));
    }
    Ok(())
}

pub struct BigWigWrite {}
impl BigWigWrite {
fn write_pre(file: &mut FSink) -> (r: Result<(u64, u64, u64), ProcessDataError>)
    requires
        
        old(file).wf(),
    ensures
        
        r matches Ok(o) ==> o.0 == 304 && o.1 == 344 && o.2 == 352,
        
        r is Ok ==> final(file).data() == splice(old(file).data(), 0, bw_pre()),
        
        r is Ok ==> final(file).data().len() == (if old(file).data().len() >= 352 { old(file).data().len() as int } else { 352 })
            && (forall|i: int| 0 <= i < 352 ==> #[trigger] final(file).data()[i] == 0u8)
            && (forall|i: int| 352 <= i < old(file).data().len() ==> #[trigger] final(file).data()[i] == old(file).data()[i]),
        
        r matches Ok(o) ==> final(file).pos() == o.2,
        
        r is Ok && old(file).data().len() == 0 ==> final(file).data() == bw_pre() && final(file).pos() == final(file).data().len(),
        final(file).wf(),
{
    let ghost d0 = file.data();

        write_blank_headers(file)?;

        let total_summary_offset = file.tell()?;
        file.put(&[0; 40])?;


        proof {
            
            assert(total_summary_offset == 304 && file.pos() == 344);
            assert(file.data() =~= splice(d0, 0, zeros(64) + zeros(240) + zeros(40)));
        }
        let full_data_offset = file.tell()?;

        // Total items
        // Unless we know the vals ahead of time, we can't estimate total sections ahead of time.
        // Even then simply doing "(vals.len() as u32 + ITEMS_PER_SLOT - 1) / ITEMS_PER_SLOT"
        // underestimates because sections are split by chrom too, not just size.
        // Skip for now, and come back when we write real header + summary.
        file.put_u64(0)?;


        proof {
            
            assert(full_data_offset == 344 && file.pos() == 352);
            assert(file.data() =~= splice(d0, 0, bw_pre()));
            lemma_bw_layout(d0);
        }
        let pre_data = file.tell()?;


        proof {
            if d0.len() == 0 { assert(splice(d0, 0, bw_pre()) =~= bw_pre()); }
        }
        Ok((total_summary_offset, full_data_offset, pre_data))
    }
}

pub struct BigBedWrite {}
impl BigBedWrite {
fn write_pre(
        file: &mut FSink,
        autosql: Option<Text>,
    ) -> (r: Result<(u64, u64, u64, u64, u16), ProcessDataError>)
    requires
        
        old(file).wf(),
        
        stored_text(autosql).len() < 0x7fff_ffff_ffff_fe00,
    ensures
        
        has_nul(stored_text(autosql)) ==> r is Err,
        
        r matches Ok(o) ==> o.0 == 304 && o.1 == 304 + stored_text(autosql).len() + 1 && o.2 == o.1 + 40 && o.3 == o.2 + 8,
        
        r is Ok ==> final(file).data() == splice(old(file).data(), 0, bb_pre(stored_text(autosql))),
        
        r matches Ok(o) ==> final(file).data().subrange(o.0 as int, o.0 + stored_text(autosql).len()) == stored_text(autosql),
        
        r matches Ok(o) ==> !has_nul(stored_text(autosql)) && final(file).data()[o.1 - 1] == 0u8,
        
        r matches Ok(o) ==> final(file).data().len() == (if old(file).data().len() >= o.3 { old(file).data().len() as int } else { o.3 as int })
            && (forall|i: int| 0 <= i < 304 ==> #[trigger] final(file).data()[i] == 0u8)
            && (forall|i: int| o.1 <= i < o.3 ==> #[trigger] final(file).data()[i] == 0u8)
            && (forall|i: int| o.3 <= i < old(file).data().len() ==> #[trigger] final(file).data()[i] == old(file).data()[i]),
        
        r matches Ok(o) ==> final(file).pos() == o.3,
        
        r matches Ok(o) ==> o.4 == (match parsed_field_count(stored_text(autosql)) { Some(n) => n as u16, None => 3u16 }),
        final(file).wf(),
{
    let ghost d0 = file.data();

        write_blank_headers(file)?;

        let autosql = text_or_bed3(autosql);

        // `t` = the text the code goes on with (the local that shadows the parameter): the step assertions below say that
        // THIS text is laid out; the postconditions say that it must be the supplied one (`stored_text(autosql)`)
        let ghost t = autosql.bytes();

        let field_count = schema_field_count(&autosql);
        let field_count = field_count.unwrap_or(3) as u16;

        let autosql = match CStr::new(autosql.into_bytes()) { Ok(c) => c, Err(_) => return Err(ProcessDataError::InvalidInput(Msg {})) };

        let autosql_offset = file.tell()?;
        file.put(autosql.as_bytes_with_nul())?;


        proof {
            
            assert(autosql_offset == 304 && file.pos() == 304 + t.len() + 1);
            assert(file.data() =~= splice(d0, 0, zeros(64) + zeros(240) + t.push(0u8)));
        }
        let total_summary_offset = file.tell()?;
        file.put(&[0; 40])?;

        // TODO: extra indices


        proof {
            
            assert(total_summary_offset == 304 + t.len() + 1 && file.pos() == total_summary_offset + 40);
            assert(file.data() =~= splice(d0, 0, zeros(64) + zeros(240) + t.push(0u8) + zeros(40)));
        }
        let full_data_offset = file.tell()?;

        // Total items
        // Unless we know the vals ahead of time, we can't estimate total sections ahead of time.
        // Even then simply doing "(vals.len() as u32 + ITEMS_PER_SLOT - 1) / ITEMS_PER_SLOT"
        // underestimates because sections are split by chrom too, not just size.
        // Skip for now, and come back when we write real header + summary.
        file.put_u64(0)?;


        proof {
            
            assert(full_data_offset == total_summary_offset + 40 && file.pos() == full_data_offset + 8);
            assert(file.data() =~= splice(d0, 0, bb_pre(t)));
            lemma_bb_layout(d0, t);
        }
        let pre_data = file.tell()?;

        Ok((
            autosql_offset,
            total_summary_offset,
            full_data_offset,
            pre_data,
            field_count,
        ))
    }
}

} // verus!
fn main() {}

