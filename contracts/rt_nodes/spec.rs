// ---------------- specification vocabulary shared by rt_nodes and rt_search ----------------
// Written from the property texts (C05: "finds every block whose span intersects the query and
// returns the blocks in file order"; C04: "every stored entry whose span overlaps the range").
// Included AFTER the extracted structs CirTreeNodeLeaf, CirTreeNodeNonLeaf, Block.

/// strict lexicographic order on (chromosome index, base)
spec fn pos_lt(a: (u32, u32), b: (u32, u32)) -> bool {
    a.0 < b.0 || (a.0 == b.0 && a.1 < b.1)
}
/// non-strict lexicographic order on (chromosome index, base)
spec fn pos_le(a: (u32, u32), b: (u32, u32)) -> bool {
    a.0 < b.0 || (a.0 == b.0 && a.1 <= b.1)
}
/// A span is the closed range of positions from (b1, b1s) to (b2, b2e) in (chrom, base) order; the
/// query is chromosome q, bases [qs, qe].  They intersect iff neither lies wholly before the other.
spec fn overlaps_spec(q: u32, qs: u32, qe: u32, b1: u32, b1s: u32, b2: u32, b2e: u32) -> bool {
    pos_le((q, qs), (b2, b2e)) && pos_le((b1, b1s), (q, qe))
}
spec fn leaf_hit(c: CirTreeNodeLeaf, q: u32, qs: u32, qe: u32) -> bool {
    overlaps_spec(q, qs, qe, c.start_chrom_ix, c.start_base, c.end_chrom_ix, c.end_base)
}
spec fn nonleaf_hit(c: CirTreeNodeNonLeaf, q: u32, qs: u32, qe: u32) -> bool {
    overlaps_spec(q, qs, qe, c.start_chrom_ix, c.start_base, c.end_chrom_ix, c.end_base)
}
spec fn leaf_block(c: CirTreeNodeLeaf) -> Block {
    Block { offset: c.data_offset, size: c.data_size }
}
/// order-preserving filter+map of the first n leaf items: the blocks (offset, size) of the items
/// whose span intersects the query, in stored order
spec fn filter_blocks(items: Seq<CirTreeNodeLeaf>, q: u32, qs: u32, qe: u32, n: int) -> Seq<Block>
    decreases n
{
    if n <= 0 { Seq::empty() }
    else {
        let prev = filter_blocks(items, q, qs, qe, n - 1);
        if leaf_hit(items[n - 1], q, qs, qe) { prev.push(leaf_block(items[n - 1])) } else { prev }
    }
}
/// order-preserving filter+map of the first n non-leaf items: the child node offsets of the items
/// whose span intersects the query, in stored order
spec fn filter_children(items: Seq<CirTreeNodeNonLeaf>, q: u32, qs: u32, qe: u32, n: int) -> Seq<u64>
    decreases n
{
    if n <= 0 { Seq::empty() }
    else {
        let prev = filter_children(items, q, qs, qe, n - 1);
        if nonleaf_hit(items[n - 1], q, qs, qe) { prev.push(items[n - 1].node_offset) } else { prev }
    }
}
