//! bigWig drivers: zoom tiling (C07) and write/read round trip (C01/C03).
use crate::rng::Rng;
use crate::Args;
use bigtools::beddata::BedParserStreamingIterator;
use bigtools::{BigWigRead, BigWigWrite, Value};
use std::collections::HashMap;

pub fn parse_vals(s: &str) -> Vec<(u32, u32, f32)> {
    s.split(';')
        .filter(|t| !t.is_empty())
        .map(|t| {
            let p: Vec<&str> = t.split(',').collect();
            (p[0].parse().unwrap(), p[1].parse().unwrap(), p.get(2).map(|x| x.parse().unwrap()).unwrap_or(1.0))
        })
        .collect()
}

pub fn write_bw(vals: &[(u32, u32, f32)], chrom_len: u32, ips: u32, bs: u32, zooms: Option<Vec<u32>>, compress: bool, multipass: bool) -> Result<tempfile::NamedTempFile, String> {
    let tf = tempfile::NamedTempFile::new().map_err(|e| e.to_string())?;
    let chrom_map = HashMap::from([("chr1".to_string(), chrom_len)]);
    let mut out = BigWigWrite::create_file(tf.path(), chrom_map).map_err(|e| e.to_string())?;
    out.options.items_per_slot = ips;
    out.options.block_size = bs;
    out.options.compress = compress;
    out.options.inmemory = true;
    out.options.channel_size = 0;
    out.options.manual_zoom_sizes = zooms;
    let runtime = tokio::runtime::Builder::new_current_thread().build().unwrap();
    let v: Vec<(String, Value)> = vals.iter().map(|&(s, e, x)| ("chr1".to_string(), Value { start: s, end: e, value: x })).collect();
    if multipass {
        out.write_multipass(|| Ok(BedParserStreamingIterator::wrap_infallible_iter(v.clone().into_iter(), true)), runtime)
            .map_err(|e| format!("write error: {}", e))?;
    } else {
        out.write(BedParserStreamingIterator::wrap_infallible_iter(v.into_iter(), true), runtime)
            .map_err(|e| format!("write error: {}", e))?;
    }
    Ok(tf)
}

fn ov(vs: u32, ve: u32, a: u32, b: u32) -> u64 {
    let lo = vs.max(a);
    let hi = ve.min(b);
    if hi > lo { (hi - lo) as u64 } else { 0 }
}

/// args: size=<zoom size> ips=<items per slot> len=<chrom len> vals=s,e,v;s,e,v;... [multipass=1]
pub fn run_zoom(a: &Args) -> Result<(), String> {
    let size: u32 = a.get("size").ok_or("size")?.parse().unwrap();
    let ips: u32 = a.get("ips").map(|s| s.parse().unwrap()).unwrap_or(4);
    let vals = parse_vals(a.get("vals").ok_or("vals")?);
    let len: u32 = a.get("len").map(|s| s.parse().unwrap()).unwrap_or_else(|| vals.iter().map(|v| v.1).max().unwrap_or(0) + 10);
    let multipass = a.get("multipass").map(|s| s == "1").unwrap_or(false);
    let tf = write_bw(&vals, len, ips, 4, Some(vec![size]), false, multipass)?;
    let mut r = BigWigRead::open_file(tf.path()).map_err(|e| format!("open: {}", e))?;
    if !r.info().zoom_headers.iter().any(|z| z.reduction_level == size) {
        return Err(format!("zoom level {} not present in written file", size));
    }
    let recs: Vec<_> = r.get_zoom_interval("chr1", 0, len, size).map_err(|e| format!("zoom query: {:?}", e))?
        .collect::<Result<Vec<_>, _>>().map_err(|e| format!("zoom read: {}", e))?;
    let mut last_end = 0u32;
    let mut total: u64 = 0;
    for z in &recs {
        if z.start >= z.end { return Err(format!("empty record {}-{}", z.start, z.end)); }
        if z.end - z.start > size { return Err(format!("record {}-{} longer than resolution {}", z.start, z.end, size)); }
        if z.start < last_end { return Err(format!("records overlap/out of order at {}-{}", z.start, z.end)); }
        last_end = z.end;
        let want: u64 = vals.iter().map(|v| ov(v.0, v.1, z.start, z.end)).sum();
        if z.summary.bases_covered != want {
            return Err(format!("record {}-{} reports bases_covered={} but the data has {} bases there", z.start, z.end, z.summary.bases_covered, want));
        }
        let wsum: f64 = vals.iter().map(|v| ov(v.0, v.1, z.start, z.end) as f64 * v.2 as f64).sum();
        if (z.summary.sum - wsum).abs() > 1e-3 * (1.0 + wsum.abs()) {
            return Err(format!("record {}-{} sum={} expected {}", z.start, z.end, z.summary.sum, wsum));
        }
        // min/max over the stored values that have at least one base inside the record
        let inside: Vec<f64> = vals.iter().filter(|v| ov(v.0, v.1, z.start, z.end) > 0).map(|v| v.2 as f64).collect();
        if !inside.is_empty() {
            let mn = inside.iter().cloned().fold(f64::MAX, f64::min);
            let mx = inside.iter().cloned().fold(f64::MIN, f64::max);
            if (z.summary.min_val - mn).abs() > 1e-6 || (z.summary.max_val - mx).abs() > 1e-6 {
                return Err(format!("record {}-{} min/max={}/{} but the values inside it have {}/{}", z.start, z.end, z.summary.min_val, z.summary.max_val, mn, mx));
            }
        }
        total += z.summary.bases_covered;
    }
    let want_total: u64 = vals.iter().map(|v| (v.1 - v.0) as u64).sum();
    if total != want_total {
        return Err(format!("zoom records cover {} bases in total, data has {}", total, want_total));
    }
    Ok(())
}

pub fn gen_vals(r: &mut Rng, maxn: u64, maxgap: u64, maxlen: u64) -> Vec<(u32, u32, f32)> {
    let n = r.range(1, maxn);
    let mut pos = r.below(maxgap) as u32;
    let mut v = vec![];
    for _ in 0..n {
        let l = r.range(1, maxlen) as u32;
        v.push((pos, pos + l, (r.range(1, 9) as f32) * 0.5));
        pos += l + if r.below(3) == 0 { 0 } else { r.below(maxgap) as u32 };
    }
    v
}
pub fn fmt_vals(v: &[(u32, u32, f32)]) -> String {
    v.iter().map(|x| format!("{},{},{}", x.0, x.1, x.2)).collect::<Vec<_>>().join(";")
}
pub fn gen_zoom(r: &mut Rng) -> String {
    let size = r.pick(&[3u32, 5, 10, 16]);
    let vals = gen_vals(r, 6, 40, 30);
    format!("size={} ips={} multipass={} vals={}", size, r.range(1, 3), r.below(2), fmt_vals(&vals))
}

/// args: ips= bs= compress=0|1 len= vals=...  [q=s,e]
pub fn run_roundtrip(a: &Args) -> Result<(), String> {
    let ips: u32 = a.get("ips").map(|s| s.parse().unwrap()).unwrap_or(4);
    let bs: u32 = a.get("bs").map(|s| s.parse().unwrap()).unwrap_or(4);
    let compress = a.get("compress").map(|s| s == "1").unwrap_or(true);
    let vals = parse_vals(a.get("vals").ok_or("vals")?);
    let len: u32 = a.get("len").map(|s| s.parse().unwrap()).unwrap_or_else(|| vals.iter().map(|v| v.1).max().unwrap_or(0) + 10);
    let tf = write_bw(&vals, len, ips, bs, None, compress, false)?;
    let mut r = BigWigRead::open_file(tf.path()).map_err(|e| format!("open: {}", e))?;
    let (qs, qe) = match a.get("q") {
        Some(q) => { let p: Vec<u32> = q.split(',').map(|x| x.parse().unwrap()).collect(); (p[0], p[1]) }
        None => (0, len),
    };
    let got: Vec<Value> = r.get_interval("chr1", qs, qe).map_err(|e| format!("query: {}", e))?
        .collect::<Result<Vec<_>, _>>().map_err(|e| format!("read: {}", e))?;
    let want: Vec<(u32, u32, f32)> = vals.iter().filter(|v| qs < qe && v.1 > qs && v.0 < qe).map(|v| (v.0.max(qs), v.1.min(qe), v.2)).collect();
    if got.len() != want.len() { return Err(format!("query [{},{}) returned {} values, expected {}", qs, qe, got.len(), want.len())); }
    for (g, w) in got.iter().zip(want.iter()) {
        if g.start != w.0 || g.end != w.1 || g.value.to_bits() != w.2.to_bits() {
            return Err(format!("query [{},{}) returned {}-{}={} expected {}-{}={}", qs, qe, g.start, g.end, g.value, w.0, w.1, w.2));
        }
    }
    Ok(())
}
pub fn gen_roundtrip(r: &mut Rng) -> String {
    let vals = gen_vals(r, 12, 20, 15);
    let end = vals.last().unwrap().1;
    let qs = r.below(end as u64 + 1) as u32;
    let qe = r.range(qs as u64, end as u64 + 5) as u32;
    format!("ips={} bs={} compress={} len={} q={},{} vals={}", r.range(1, 4), r.range(2, 4), r.below(2), end + 10, qs, qe, fmt_vals(&vals))
}

/// C09/C07: the zoom directory in the header lists levels that exist, and the total summary is intact,
/// whatever the number of requested zoom sizes.  args: n=<number of manual zoom sizes> multipass=0|1
pub fn run_zoom_dir(a: &Args) -> Result<(), String> {
    let n: u32 = a.get("n").map(|s| s.parse().unwrap()).unwrap_or(11);
    let multipass = a.get("multipass").map(|s| s == "1").unwrap_or(false);
    let vals: Vec<(u32, u32, f32)> = (0..50).map(|i| (i * 10, i * 10 + 10, 1.5)).collect();
    let sizes: Vec<u32> = match a.get("sizes") { Some(s) => s.split(',').map(|x| x.parse().unwrap()).collect(), None => (1..=n).map(|k| 2 * k).collect() };
    let tf = write_bw(&vals, 1000, 4, 4, Some(sizes.clone()), false, multipass)?;
    let mut r = BigWigRead::open_file(tf.path()).map_err(|e| format!("open: {}", e))?;
    let levels: Vec<u32> = r.info().zoom_headers.iter().map(|z| z.reduction_level).collect();
    for (i, l) in levels.iter().enumerate() {
        if !sizes.contains(l) { return Err(format!("zoom directory entry {} has reduction level {} which was never requested (requested {:?}, directory {:?})", i, l, sizes, levels)); }
    }
    for w in levels.windows(2) { if w[0] >= w[1] { return Err(format!("zoom levels are not listed with strictly increasing resolution: {:?} (requested {:?})", levels, sizes)); } }
    let s = r.get_summary().map_err(|e| e.to_string())?;
    if s.bases_covered != 500 || (s.sum - 750.0).abs() > 1e-9 { return Err(format!("total summary corrupted: bases_covered={} sum={} (expected 500, 750) with {} zoom sizes", s.bases_covered, s.sum, n)); }
    for l in levels {
        let recs = r.get_zoom_interval("chr1", 0, 1000, l).map_err(|e| format!("zoom {} query: {:?}", l, e))?.collect::<Result<Vec<_>, _>>().map_err(|e| format!("zoom {} read: {}", l, e))?;
        let total: u64 = recs.iter().map(|z| z.summary.bases_covered).sum();
        if total != 500 { return Err(format!("zoom level {} covers {} bases, data has 500", l, total)); }
    }
    Ok(())
}
/// C07/C13 (automatic zoom levels): for every initial zoom size the write returns (no panic), the levels listed are
/// initial * 4^k, strictly increasing, and each summarises all the data.  args: initial=<u32> [maxzooms=<n>]
pub fn run_zoom_auto(a: &Args) -> Result<(), String> {
    let initial: u32 = a.get("initial").map(|s| s.parse().unwrap()).unwrap_or(160);
    let maxz: u32 = a.get("maxzooms").map(|s| s.parse().unwrap()).unwrap_or(10);
    if let Some(span) = a.get("span") {
        // two-pass writing of ONE value [0, span): the automatic level choice starts from the average item size
        let span: u32 = span.parse().unwrap();
        let tf = tempfile::NamedTempFile::new().map_err(|e| e.to_string())?;
        let mut out = BigWigWrite::create_file(tf.path(), HashMap::from([("chr1".to_string(), span)])).map_err(|e| e.to_string())?;
        out.options.compress = false;
        out.options.inmemory = true;
        let runtime = tokio::runtime::Builder::new_current_thread().build().unwrap();
        let v = vec![("chr1".to_string(), Value { start: 0, end: span, value: 1.0 })];
        out.write_multipass(|| Ok(BedParserStreamingIterator::wrap_infallible_iter(v.clone().into_iter(), true)), runtime).map_err(|e| format!("write error: {}", e))?;
        let mut r = BigWigRead::open_file(tf.path()).map_err(|e| format!("open: {}", e))?;
        let got: Vec<_> = r.get_interval("chr1", 0, span).map_err(|e| e.to_string())?.collect::<Result<Vec<_>, _>>().map_err(|e| e.to_string())?;
        if got.len() != 1 || got[0].start != 0 || got[0].end != span { return Err(format!("read back {:?}", got)); }
        let levels: Vec<u32> = r.info().zoom_headers.iter().map(|z| z.reduction_level).collect();
        for w in levels.windows(2) { if w[0] >= w[1] { return Err(format!("zoom levels not strictly increasing: {:?}", levels)); } }
        return Ok(());
    }
    let vals: Vec<(u32, u32, f32)> = (0..50).map(|i| (i * 10, i * 10 + 10, 1.5)).collect();
    let tf = tempfile::NamedTempFile::new().map_err(|e| e.to_string())?;
    let chrom_map = HashMap::from([("chr1".to_string(), 1000u32)]);
    let mut out = BigWigWrite::create_file(tf.path(), chrom_map).map_err(|e| e.to_string())?;
    out.options.items_per_slot = 4;
    out.options.block_size = 4;
    out.options.compress = false;
    out.options.inmemory = true;
    out.options.channel_size = 0;
    out.options.initial_zoom_size = initial;
    out.options.max_zooms = maxz;
    let runtime = tokio::runtime::Builder::new_current_thread().build().unwrap();
    let v: Vec<(String, Value)> = vals.iter().map(|&(s, e, x)| ("chr1".to_string(), Value { start: s, end: e, value: x })).collect();
    out.write(BedParserStreamingIterator::wrap_infallible_iter(v.into_iter(), true), runtime).map_err(|e| format!("write error: {}", e))?;
    let mut r = BigWigRead::open_file(tf.path()).map_err(|e| format!("open: {}", e))?;
    let levels: Vec<u32> = r.info().zoom_headers.iter().map(|z| z.reduction_level).collect();
    for w in levels.windows(2) { if w[0] >= w[1] { return Err(format!("zoom levels are not listed with strictly increasing resolution: {:?} (initial {})", levels, initial)); } }
    for (k, l) in levels.iter().enumerate() {
        let want = (initial as u64) * 4u64.pow(k as u32);
        if *l as u64 != want { return Err(format!("zoom level {} is {} but initial {} * 4^{} = {} (levels {:?})", k, l, initial, k, want, levels)); }
    }
    for l in levels {
        let recs = r.get_zoom_interval("chr1", 0, 1000, l).map_err(|e| format!("zoom {} query: {:?}", l, e))?.collect::<Result<Vec<_>, _>>().map_err(|e| format!("zoom {} read: {}", l, e))?;
        let total: u64 = recs.iter().map(|z| z.summary.bases_covered).sum();
        if total != 500 { return Err(format!("zoom level {} covers {} bases, data has 500", l, total)); }
    }
    Ok(())
}
pub fn gen_zoom_auto(r: &mut Rng) -> String { format!("initial={}", [1u32, 10, 160, 4095, 4096, 65536, 1 << 30, 0x50000001][r.below(8) as usize]) }
pub fn gen_zoom_dir(r: &mut Rng) -> String { format!("n={} multipass={}", r.range(1, 14), r.below(2)) }

/// C15 (library merge): `merge_sections_many` of sorted disjoint streams yields a sorted, non-overlapping stream whose
/// value at every base is the sum of the inputs there (absent where no data or the sum is zero), for coordinates up to
/// u32::MAX.  args: streams=s,e,v;s,e,v|s,e,v;...   (streams separated by `|`)
pub fn run_merge_many(a: &Args) -> Result<(), String> {
    use bigtools::utils::merge::merge_sections_many;
    let streams: Vec<Vec<(u32, u32, f32)>> = a.get("streams").ok_or("streams")?.split('|').map(parse_vals).collect();
    let its: Vec<_> = streams.iter().map(|s| s.clone().into_iter().map(|(s, e, v)| Ok::<Value, std::io::Error>(Value { start: s, end: e, value: v }))).collect();
    let mut out: Vec<Value> = vec![];
    let mut it = merge_sections_many(its);
    let mut calls = 0u64;
    while let Some(v) = it.next() { out.push(v.map_err(|e| e.to_string())?); calls += 1; if calls > 1_000_000 { return Err("more than 10^6 output values".into()); } }
    // a few more calls on the exhausted iterator must keep returning None (no panic)
    for _ in 0..3 { if it.next().is_some() { return Err("value after the end of the merged stream".into()); } }
    for w in out.windows(2) { if w[0].end > w[1].start || w[0].start >= w[0].end { return Err(format!("output not sorted/disjoint: {:?} then {:?}", w[0], w[1])); } }
    let mut cuts: Vec<u32> = streams.iter().flatten().flat_map(|v| [v.0, v.1]).chain(out.iter().flat_map(|v| [v.start, v.end])).collect();
    cuts.sort_unstable(); cuts.dedup();
    for w in cuts.windows(2) {
        let p = w[0];
        let want: f64 = streams.iter().flatten().filter(|v| v.0 <= p && p < v.1).map(|v| v.2 as f64).sum();
        let got: Option<f32> = out.iter().find(|v| v.start <= p && p < v.end).map(|v| v.value);
        match got {
            None => if want != 0.0 { return Err(format!("base {}: no merged value but the inputs sum to {}", p, want)); },
            Some(g) => if (g as f64 - want).abs() > 1e-4 || want == 0.0 { return Err(format!("base {}: merged value {} but the inputs sum to {}", p, g, want)); },
        }
    }
    Ok(())
}
/// C15 (merge tool, many inputs): with more input files than the tool keeps open at once (> 976) it merges in groups
/// and then merges the group results; clip / adjust / threshold must still apply ONCE, to the per-base sum.
/// args: n=<files> neg=<how many of the first 976 files carry -1 instead of +1> last=<value of the last file> [adjust=<a>]
pub fn run_merge_groups(a: &Args) -> Result<(), String> {
    use bigtools::utils::cli::bigwigmerge::{bigwigmerge, BigWigMergeArgs};
    use bigtools::utils::cli::BBIWriteArgs;
    let n: usize = a.get("n").map(|s| s.parse().unwrap()).unwrap_or(977);
    let neg: usize = a.get("neg").map(|s| s.parse().unwrap()).unwrap_or(489);
    let last: f32 = a.get("last").map(|s| s.parse().unwrap()).unwrap_or(5.0);
    let adjust: Option<f32> = a.get("adjust").map(|s| s.parse().unwrap());
    let dir = tempfile::tempdir().map_err(|e| e.to_string())?;
    let mut names = vec![];
    let mut want = 0f64;
    for i in 0..n {
        let v: f32 = if i == n - 1 { last } else if i < neg { -1.0 } else { 1.0 };
        want += v as f64;
        let tf = write_bw(&[(0, 10, v)], 100, 4, 4, Some(vec![]), false, false)?;
        let pth = dir.path().join(format!("in{}.bw", i));
        std::fs::copy(tf.path(), &pth).map_err(|e| e.to_string())?;
        names.push(pth.to_string_lossy().to_string());
    }
    let want = want + adjust.unwrap_or(0.0) as f64;
    let out = dir.path().join("merged.bedGraph");
    let args = BigWigMergeArgs {
        output: out.to_string_lossy().to_string(), bigwig: names, list: vec![], threshold: 0.0, adjust, clip: None, max: false, output_type: None,
        write_args: BBIWriteArgs { nthreads: 1, nzooms: 2, zooms: None, uncompressed: true, sorted: "all".to_string(), block_size: 4, items_per_slot: 4, inmemory: true },
    };
    bigwigmerge(args).map_err(|e| format!("bigwigmerge failed: {}", e))?;
    let text = std::fs::read_to_string(&out).map_err(|e| e.to_string())?;
    let mut got: Option<f64> = None;
    for l in text.lines() { let f: Vec<&str> = l.split('\t').collect(); if f.len() >= 4 && f[1] == "0" { got = Some(f[3].parse().unwrap()); } }
    match got {
        Some(g) if (g - want).abs() < 1e-4 => Ok(()),
        Some(g) => Err(format!("{} files: merged value at base 0 is {} but the inputs sum (plus adjust) to {}", n, g, want)),
        None => if want > 0.0 { Err(format!("{} files: no merged value at base 0 but the inputs sum to {}", n, want)) } else { Ok(()) },
    }
}
pub fn gen_merge_groups(r: &mut Rng) -> String { format!("n={} neg={} last={}", [3usize, 976, 977, 980][r.below(4) as usize], r.below(3), r.range(1, 6)) }
/// C01/C13 (chromosome runs, `allow_out_of_order_chroms`): whatever order the chromosome runs come in, the write either
/// refuses the input with an error value or returns a file that serves every value it was given (never a panic).
/// args: runs=<chrom>:<s>-<e>;<chrom>:<s>-<e>;...  [multipass=1]  (one value per run, value = 1 + run index)
pub fn run_runs(a: &Args) -> Result<(), String> {
    let multipass = a.get("multipass").map(|s| s == "1").unwrap_or(false);
    let runs: Vec<(String, u32, u32)> = a.get("runs").ok_or("runs")?.split(';').filter(|t| !t.is_empty()).map(|t| {
        let (c, r) = t.split_once(':').unwrap(); let (s, e) = r.split_once('-').unwrap(); (c.to_string(), s.parse().unwrap(), e.parse().unwrap()) }).collect();
    let tf = tempfile::NamedTempFile::new().map_err(|e| e.to_string())?;
    let mut sizes = HashMap::new();
    for r in &runs { sizes.insert(r.0.clone(), 1000u32); }
    let mut out = BigWigWrite::create_file(tf.path(), sizes).map_err(|e| e.to_string())?;
    if a.get("defaults").is_none() { out.options.items_per_slot = 4; out.options.block_size = 4; out.options.compress = false; out.options.inmemory = true; out.options.channel_size = 0; }
    out.options.manual_zoom_sizes = Some(vec![10]);
    out.options.input_sort_type = bigtools::InputSortType::START;
    let runtime = tokio::runtime::Builder::new_current_thread().build().unwrap();
    let v: Vec<(String, Value)> = runs.iter().enumerate().map(|(i, r)| (r.0.clone(), Value { start: r.1, end: r.2, value: 1.0 + i as f32 })).collect();
    let res = if multipass {
        out.write_multipass(|| Ok(BedParserStreamingIterator::wrap_infallible_iter(v.clone().into_iter(), true)), runtime)
    } else {
        out.write(BedParserStreamingIterator::wrap_infallible_iter(v.clone().into_iter(), true), runtime)
    };
    if a.get("verbose").is_some() { eprintln!("write result: {:?}", res.as_ref().map_err(|e| e.to_string())); }
    if res.is_err() { return Ok(()); }   // refused with an error value: fine
    let mut r = BigWigRead::open_file(tf.path()).map_err(|e| format!("accepted, but the file cannot be opened: {}", e))?;
    for (c, _) in v.iter() {
        let want: Vec<(u32, u32, f32)> = v.iter().filter(|x| &x.0 == c).map(|x| (x.1.start, x.1.end, x.1.value)).collect();
        let got: Vec<(u32, u32, f32)> = r.get_interval(c, 0, 1000).map_err(|e| format!("accepted, but query on {} fails: {:?}", c, e))?
            .map(|x| x.map(|x| (x.start, x.end, x.value))).collect::<Result<Vec<_>, _>>().map_err(|e| format!("accepted, but reading {} fails: {}", c, e))?;
        let mut w = want.clone(); w.sort_by_key(|x| x.0);
        if got != w { return Err(format!("input accepted (Ok) but {} reads back {:?}, given {:?}", c, got, want)); }
    }
    Ok(())
}
pub fn gen_runs(r: &mut Rng) -> String {
    let names = ["chr1", "chr2", "chr3"];
    let mut s = String::from("runs=");
    let mut pos = [0u32; 3];
    for _ in 0..r.range(2, 6) { let k = r.below(3) as usize; s.push_str(&format!("{}:{}-{};", names[k], pos[k], pos[k] + 10)); pos[k] += 20; }
    format!("{} multipass={}{}", s, r.below(2), if r.below(2) == 0 { " defaults=1" } else { "" })
}
pub fn gen_merge_many(r: &mut Rng) -> String {
    let base: u32 = [0u32, 49_990, 99_990, 4_294_899_990, 4_294_917_000, 4_294_940_000, 4_294_949_990, 4_294_960_000, 4_294_967_200][r.below(9) as usize];
    let mut s = String::from("streams=");
    for k in 0..r.range(1, 4) {
        if k > 0 { s.push('|'); }
        let mut p = base.saturating_add(r.below(20) as u32);
        for _ in 0..r.range(1, 4) {
            let len = r.range(1, 30) as u32;
            if p.checked_add(len).is_none() { break; }
            s.push_str(&format!("{},{},{};", p, p + len, r.range(1, 4)));
            p = match (p + len).checked_add(r.below(10) as u32) { Some(q) => q, None => break };
        }
    }
    s
}

/// C15 (merge tool): merging bigWigs yields, at every base of every chromosome from position 0, the sum of
/// the inputs, and the tool accepts the output names it documents.
/// args: a=s,e,v;...  b=s,e,v;...  out=<file name suffix, e.g. .bedGraph>  [otype=bedgraph]
pub fn run_merge(a: &Args) -> Result<(), String> {
    use bigtools::utils::cli::bigwigmerge::{bigwigmerge, BigWigMergeArgs};
    use bigtools::utils::cli::BBIWriteArgs;
    let va = parse_vals(a.get("a").ok_or("a")?);
    let vb = parse_vals(a.get("b").ok_or("b")?);
    let len = va.iter().chain(vb.iter()).map(|v| v.1).max().unwrap_or(0) + 10;
    let fa = write_bw(&va, len, 4, 4, None, false, false)?;
    let fb = write_bw(&vb, len, 4, 4, None, false, false)?;
    let suffix = a.get("out").cloned().unwrap_or_else(|| ".bedGraph".to_string());
    let dir = tempfile::tempdir().map_err(|e| e.to_string())?;
    let out = dir.path().join(format!("merged{}", suffix));
    let args = BigWigMergeArgs {
        output: out.to_string_lossy().to_string(),
        bigwig: vec![fa.path().to_string_lossy().to_string(), fb.path().to_string_lossy().to_string()],
        list: vec![], threshold: 0.0, adjust: None, clip: None, max: false,
        output_type: a.get("otype").cloned(),
        write_args: BBIWriteArgs { nthreads: 1, nzooms: 2, zooms: None, uncompressed: true, sorted: "all".to_string(), block_size: 4, items_per_slot: 4, inmemory: true },
    };
    bigwigmerge(args).map_err(|e| format!("bigwigmerge failed: {}", e))?;
    if !out.exists() { return Err(format!("output name merged{} (documented as accepted) was not recognised: no output written", suffix)); }
    // per-base expected sums
    let mut want = vec![0f64; len as usize];
    for v in va.iter().chain(vb.iter()) { for p in v.0..v.1 { want[p as usize] += v.2 as f64; } }
    let mut got = vec![0f64; len as usize];
    let is_bw = suffix.to_lowercase().ends_with(".bw") || suffix.to_lowercase().ends_with(".bigwig") || a.get("otype").map(|t| t == "bigwig").unwrap_or(false);
    if is_bw {
        let mut r = BigWigRead::open_file(&out).map_err(|e| format!("open merged: {}", e))?;
        for v in r.get_interval("chr1", 0, len).map_err(|e| e.to_string())? { let v = v.map_err(|e| e.to_string())?; for p in v.start..v.end { got[p as usize] += v.value as f64; } }
    } else {
        let text = std::fs::read_to_string(&out).map_err(|e| e.to_string())?;
        for l in text.lines() { let f: Vec<&str> = l.split('\t').collect(); if f.len() < 4 { continue; } let (s, e, x): (u32, u32, f64) = (f[1].parse().unwrap(), f[2].parse().unwrap(), f[3].parse().unwrap()); for p in s..e { got[p as usize] += x; } }
    }
    for p in 0..len as usize {
        if (got[p] - want[p]).abs() > 1e-4 { return Err(format!("base {}: merged value {} but the inputs sum to {}", p, got[p], want[p])); }
    }
    Ok(())
}
pub fn gen_merge(r: &mut Rng) -> String {
    let a = gen_vals(r, 5, 10, 12); let b = gen_vals(r, 5, 10, 12);
    let out = r.pick(&[".bedGraph", ".bw", ".bigWig", ".bedgraph"]);
    format!("out={} a={} b={}", out, fmt_vals(&a), fmt_vals(&b))
}
