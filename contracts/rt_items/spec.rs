// Plain-Rust statement of the two byte orders and of the on-disk item layouts (no Kani items).
// Shared by the Kani harnesses and by the replay tests that run on the real code.
// Deliberately written with shifts and adds over single bytes, not with from_be_bytes /
// from_le_bytes, so that it is independent of what the decoder under test calls.
//
// Leaf item, 32 bytes:     u32 start_chrom_ix @0, u32 start_base @4, u32 end_chrom_ix @8,
//                          u32 end_base @12, u64 data_offset @16, u64 data_size @24
// Non-leaf item, 24 bytes: the same first four fields, u64 child node offset @16

fn be32(b: &[u8], o: usize) -> u32 {
    ((b[o] as u32) << 24) + ((b[o + 1] as u32) << 16) + ((b[o + 2] as u32) << 8) + (b[o + 3] as u32)
}
fn le32(b: &[u8], o: usize) -> u32 {
    (b[o] as u32) + ((b[o + 1] as u32) << 8) + ((b[o + 2] as u32) << 16) + ((b[o + 3] as u32) << 24)
}
fn be64(b: &[u8], o: usize) -> u64 {
    ((be32(b, o) as u64) << 32) + (be32(b, o + 4) as u64)
}
fn le64(b: &[u8], o: usize) -> u64 {
    (le32(b, o) as u64) + ((le32(b, o + 4) as u64) << 32)
}
fn d32(big: bool, b: &[u8], o: usize) -> u32 {
    if big { be32(b, o) } else { le32(b, o) }
}
fn d64(big: bool, b: &[u8], o: usize) -> u64 {
    if big { be64(b, o) } else { le64(b, o) }
}

