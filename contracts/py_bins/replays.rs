// Plain-Rust replays (no Kani) of the inputs behind the findings / remarks of NOTES.md, on the extracted REAL text.
// Run:  python3 lib/kani_extract.py py_bins --gen-only [--repo DIR]      (prints the scratch crate directory D)
//       cat contracts/py_bins/replays.rs >> D/src/lib.rs && (cd D && cargo test --offline --lib replay -- --nocapture --test-threads 1)
// A test PASSES when the code behaves as C20 demands; a FAILING test prints VERIF-REPLAY-REPRODUCED.
#[cfg(test)]
mod replay {
    use super::*;
    fn ents(v: &[(u32, u32)]) -> impl Iterator<Item = Result<BedEntry, ReadErr>> + '_ {
        v.iter().map(|&(s, e)| Ok(BedEntry { start: s, end: e, rest: String::new() }))
    }
    fn vals(v: &[(u32, u32, f32)]) -> impl Iterator<Item = Result<Value, ReadErr>> + '_ {
        v.iter().map(|&(s, e, x)| Ok(Value { start: s, end: e, value: x }))
    }
    fn run<T>(what: &str, f: impl FnOnce() -> T + std::panic::UnwindSafe) -> Option<T> {
        match std::panic::catch_unwind(f) {
            Ok(x) => Some(x),
            Err(_) => {
                println!("VERIF-REPLAY-REPRODUCED {}: the call panicked", what);
                None
            }
        }
    }

    // F1 (fixed in /repo): to_entry_array without the clamp.  Entry [5,20), request [10,15): every base is covered once.
    #[test]
    fn replay_f1_entry_starting_before_the_request() {
        let got = run("F1a to_entry_array(10, 15, [(5,20)])", || {
            let mut out = [0.0f64; 5];
            to_entry_array(10, 15, ents(&[(5, 20)]), -1.0, &mut out[..]).unwrap();
            out
        });
        println!("VERIF-REPLAY F1a out = {:?}", got);
        assert!(got == Some([1.0; 5]), "VERIF-REPLAY-REPRODUCED F1a: expected [1.0; 5], got {:?}", got);
    }
    // Entry [12,20), request [10,15): bases 12..15 covered once, 10..12 missing.
    #[test]
    fn replay_f1_entry_ending_after_the_request() {
        let got = run("F1b to_entry_array(10, 15, [(12,20)])", || {
            let mut out = [0.0f64; 5];
            to_entry_array(10, 15, ents(&[(12, 20)]), -1.0, &mut out[..]).unwrap();
            out
        });
        println!("VERIF-REPLAY F1b out = {:?}", got);
        assert!(got == Some([-1.0, -1.0, 1.0, 1.0, 1.0]), "VERIF-REPLAY-REPRODUCED F1b: expected [-1,-1,1,1,1], got {:?}", got);
    }

    // F2: oob fill, `assert_eq!(bin_end, array.len())`: 17.0 / (17.0 / 7.0) = 7.000000000000001, ceil = 8 != 7.
    // Python: values(chrom, 0, 17, bins=7) on a chromosome shorter than 17.
    #[test]
    fn replay_f2_oob_fill_assert_eq_span17_bins7() {
        let got = run("F2 oob_fill_bw(0, 17, 10, 17/7, ..)", || {
            let mut out = [0.0f64; 7];
            oob_fill_bw(0, 17, 10, bin_size_bw(0, 17, 7), f64::NAN, &mut out[..]);
            out
        });
        println!("VERIF-REPLAY F2 out = {:?}", got);
        assert!(got.is_some(), "VERIF-REPLAY-REPRODUCED F2: oob fill panicked for span 17, 7 bins");
    }

    // F3: to_array_bins, non-integral width, Mean: request [0,10), 3 bins (width 3.33..), one value [3,4)=5.0.
    // interval_start/bin_size = 0.9 -> bin 0, whose own span is [0,3): overlap 0 -> 0.0/0.0 = NaN.
    #[test]
    fn replay_f3_bins_nonintegral_width_mean_is_nan() {
        let got = run("F3 to_array_bins(0,10,[(3,4,5.0)],Mean,3)", || {
            let mut out = [0.0f64; 3];
            to_array_bins(0, 10, vals(&[(3, 4, 5.0)]), Summary::Mean, 3, -1.0, &mut out[..]).unwrap();
            out
        });
        println!("VERIF-REPLAY F3 out = {:?}", got);
        // C20 for a non-integral bin width: range / NaN-freedom only (every bin is `missing` or within the data's range)
        let ok = match got { Some(o) => o.iter().all(|x| !x.is_nan() && (*x == -1.0 || *x == 5.0)), None => false };
        assert!(ok, "VERIF-REPLAY-REPRODUCED F3: a bin is NaN or outside the data's range: {:?}", got);
        if let Some(o) = got { if !o.iter().any(|x| *x == 5.0) { println!("VERIF-REPLAY F3 remark: the covered base 3 is reported in no bin (bin 0 is [0,3) by integer bounds but base 3 is routed to it)"); } }
    }

    // F4: to_entry_array_bins with a positive `missing`: request [0,4), 2 bins, one entry [0,1), missing = 7.0.
    // C20: bin 0 = 1.0 (one covered base, covered once) for Mean, Min and Max; bin 1 = missing.
    #[test]
    fn replay_f4_entry_bins_positive_missing() {
        for (name, s) in [("Mean", Summary::Mean), ("Min", Summary::Min), ("Max", Summary::Max)] {
            let got = run("F4 to_entry_array_bins(0,4,[(0,1)],_,2,missing=7)", move || {
                let mut out = [0.0f64; 2];
                to_entry_array_bins(0, 4, ents(&[(0, 1)]), s, 2, 7.0, &mut out[..]).unwrap();
                out
            });
            println!("VERIF-REPLAY F4 {} out = {:?}", name, got);
            assert!(got == Some([1.0, 7.0]), "VERIF-REPLAY-REPRODUCED F4 {}: expected [1.0, 7.0], got {:?}", name, got);
        }
    }
    // F5: to_entry_array_bins, default missing = 0.0, Min of a partly covered bin: request [0,4), 2 bins, entry [0,1).
    // C20 ("minimum over the COVERED bases of its span"): bin 0 = 1.0.
    #[test]
    fn replay_f5_entry_bins_min_default_missing() {
        let got = run("F5 to_entry_array_bins(0,4,[(0,1)],Min,2,missing=0)", || {
            let mut out = [9.0f64; 2];
            to_entry_array_bins(0, 4, ents(&[(0, 1)]), Summary::Min, 2, 0.0, &mut out[..]).unwrap();
            out
        });
        println!("VERIF-REPLAY F5 out = {:?}", got);
        assert!(got == Some([1.0, 0.0]), "VERIF-REPLAY-REPRODUCED F5: expected [1.0, 0.0], got {:?}", got);
    }

    // R3: a request lying entirely below 0: values(chrom, -10, -5).  The oob fill indexes 10 cells of a 5-cell array.
    #[test]
    fn replay_r3_request_entirely_below_zero() {
        let got = run("R3 oob_fill_bw(-10, -5, 100, 1.0, ..)", || {
            let mut out = [0.0f64; 5];
            oob_fill_bw(-10, -5, 100, 1.0, f64::NAN, &mut out[..]);
            out
        });
        println!("VERIF-REPLAY R3 out = {:?}", got);
        assert!(got.is_some(), "VERIF-REPLAY-REPRODUCED R3: oob fill panicked for the request [-10,-5)");
    }
}
